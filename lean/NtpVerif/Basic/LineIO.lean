/-
Line-protocol helpers shared by all model drivers (import-free: core Lean only).

Canonical text forms (identical on the Rust side, `/verif/harness/common/mod.rs`):
  * naturals / integers: decimal
  * byte strings: lower-case hex, the empty string is `-`
  * 64-bit floats: 16 hex digits of the bit pattern
  * lists: comma separated, empty list is `-`
  * options: `none` or the value
-/
namespace NtpVerif.LineIO

def hexDigit (n : Nat) : Char :=
  if n < 10 then Char.ofNat (48 + n) else Char.ofNat (87 + n)

def hexVal? (c : Char) : Option Nat :=
  if '0' ≤ c ∧ c ≤ '9' then some (c.toNat - 48)
  else if 'a' ≤ c ∧ c ≤ 'f' then some (c.toNat - 87)
  else if 'A' ≤ c ∧ c ≤ 'F' then some (c.toNat - 55)
  else none

/-- bytes → lower-case hex; empty → "-" -/
def hexOfBytes (bs : List UInt8) : String :=
  if bs.isEmpty then "-" else
  String.ofList (bs.flatMap fun b => [hexDigit (b.toNat / 16), hexDigit (b.toNat % 16)])

def bytesOfHexChars : List Char → Option (List UInt8)
  | [] => some []
  | [_] => none
  | a :: b :: rest => do
      let x ← hexVal? a
      let y ← hexVal? b
      let r ← bytesOfHexChars rest
      pure (UInt8.ofNat (x * 16 + y) :: r)

def bytesOfHex? (s : String) : Option (List UInt8) :=
  if s == "-" then some [] else bytesOfHexChars s.toList

def natOfHexChars (cs : List Char) : Option Nat :=
  cs.foldlM (fun acc c => do let v ← hexVal? c; pure (acc * 16 + v)) 0

def natOfHex? (s : String) : Option Nat :=
  if s.isEmpty then none else natOfHexChars s.toList

/-- fixed-width lower-case hex of `n` (mod 16^w) -/
def hexFixed (w : Nat) (n : Nat) : String :=
  let rec go : Nat → Nat → List Char → List Char
    | 0, _, acc => acc
    | k+1, m, acc => go k (m / 16) (hexDigit (m % 16) :: acc)
  String.ofList (go w n [])

def hex64 (n : Nat) : String := hexFixed 16 n

/-- words of a line (single-space separated after trimming, empty words dropped) -/
def words (line : String) : List String :=
  (line.trimAscii.toString.splitOn " ").filter (· ≠ "")

/-- `k=v` lookup in a word list -/
def kv? (ws : List String) (k : String) : Option String :=
  ws.findSome? fun w =>
    match w.splitOn "=" with
    | [k', v] => if k' == k then some v else none
    | _ => none

def kvNat? (ws : List String) (k : String) : Option Nat := (kv? ws k).bind String.toNat?
def kvInt? (ws : List String) (k : String) : Option Int := (kv? ws k).bind String.toInt?
def kvHex64? (ws : List String) (k : String) : Option Nat := (kv? ws k).bind natOfHex?
def kvBytes? (ws : List String) (k : String) : Option (List UInt8) := (kv? ws k).bind bytesOfHex?

def commaList (xs : List String) : String :=
  if xs.isEmpty then "-" else ",".intercalate xs

def splitComma (s : String) : List String :=
  if s == "-" then [] else s.splitOn ","

def optStr (f : α → String) : Option α → String
  | none => "none"
  | some a => f a

def boolStr (b : Bool) : String := if b then "1" else "0"

/-- Generic driver loop: one op line in, one observation line out.  A line `case <i>` resets the
    state to `init` and is echoed.  Lines starting with `#` are ignored (no output). -/
partial def runLoop {σ : Type} (init : σ) (step : σ → String → σ × String)
    (h : IO.FS.Stream) (out : IO.FS.Stream) : IO Unit := do
  let rec loop (s : σ) : IO Unit := do
    let line ← h.getLine
    if line.isEmpty then return ()
    let l := line.trimAscii.toString
    if l.startsWith "#" then loop s
    else if l.startsWith "case " then
      out.putStrLn l
      loop init
    else
      let (s', o) := step s l
      out.putStrLn o
      loop s'
  loop init
  out.flush

end NtpVerif.LineIO
