/-
IEEE-754 binary64 as bit patterns (import-free).  DESIGN.md §2.5.

`F64` is the 64-bit pattern (a `UInt64`).  Classification and *order* are defined in pure Lean on the
bits, so facts about `<`, `≤`, `min`, `max`, `clamp`, `abs`, `neg` are provable (via the integer key
`F64.key`).  Arithmetic (`+ - * / sqrt floor exp`, conversions) is delegated to the hardware through
Lean's opaque `Float` primitives: bit-identical to Rust's on this machine, *uninterpreted* in proofs.
-/
namespace NtpVerif

structure F64 where
  bits : UInt64
deriving DecidableEq, Repr, Inhabited

namespace F64

def ofFloat (f : Float) : F64 := ⟨f.toBits⟩
def toFloat (x : F64) : Float := Float.ofBits x.bits

def signBit (x : F64) : Bool := x.bits.toNat ≥ 2 ^ 63
/-- magnitude: the low 63 bits -/
def mag (x : F64) : Nat := x.bits.toNat % 2 ^ 63
def EXP_INF : Nat := 0x7ff0000000000000

def isNaN (x : F64) : Bool := x.mag > EXP_INF
def isInf (x : F64) : Bool := x.mag == EXP_INF
def isFinite (x : F64) : Bool := x.mag < EXP_INF
def isZero (x : F64) : Bool := x.mag == 0

/-- order key for non-NaN values: sign-magnitude as an integer (±0 both map to 0) -/
def key (x : F64) : Int := if x.signBit then -(x.mag : Int) else (x.mag : Int)

/-- IEEE `<`, `<=`, `==` (false when either side is NaN) -/
def lt (a b : F64) : Bool := !a.isNaN && !b.isNaN && decide (a.key < b.key)
def le (a b : F64) : Bool := !a.isNaN && !b.isNaN && decide (a.key ≤ b.key)
def eq (a b : F64) : Bool := !a.isNaN && !b.isNaN && decide (a.key = b.key)
def gt (a b : F64) : Bool := lt b a
def ge (a b : F64) : Bool := le b a

/-- key of Rust's `f64::total_cmp` (all bit patterns, −NaN < −∞ < … < −0 < +0 < … < +∞ < +NaN) -/
def totalKey (x : F64) : Int := if x.signBit then -(x.mag : Int) - 1 else (x.mag : Int)
def totalLe (a b : F64) : Bool := decide (a.totalKey ≤ b.totalKey)

def zero : F64 := ⟨0⟩
def one : F64 := ⟨0x3ff0000000000000⟩
def nan : F64 := ⟨0x7ff8000000000000⟩
def inf : F64 := ⟨0x7ff0000000000000⟩
def negInf : F64 := ⟨0xfff0000000000000⟩

/-- sign flip / clear: exact bit operations, as in Rust -/
def neg (x : F64) : F64 := ⟨x.bits ^^^ 0x8000000000000000⟩
def abs (x : F64) : F64 := ⟨x.bits &&& 0x7fffffffffffffff⟩

/-- Rust `f64::min` / `f64::max`: if one argument is NaN the other is returned -/
def min (a b : F64) : F64 := if a.isNaN then b else if b.isNaN then a else if lt b a then b else a
def max (a b : F64) : F64 := if a.isNaN then b else if b.isNaN then a else if lt a b then b else a

/-- Rust `f64::clamp(lo, hi)`: panics (`none`) unless `lo <= hi` (so also when a bound is NaN); NaN stays NaN -/
def clamp (x lo hi : F64) : Option F64 :=
  if !(le lo hi) then none
  else some (if lt x lo then lo else if lt hi x then hi else x)

/-! hardware-delegated arithmetic (uninterpreted in proofs) -/
def add (a b : F64) : F64 := ofFloat (a.toFloat + b.toFloat)
def sub (a b : F64) : F64 := ofFloat (a.toFloat - b.toFloat)
def mul (a b : F64) : F64 := ofFloat (a.toFloat * b.toFloat)
def div (a b : F64) : F64 := ofFloat (a.toFloat / b.toFloat)
def sqrt (a : F64) : F64 := ofFloat a.toFloat.sqrt
def floor (a : F64) : F64 := ofFloat a.toFloat.floor
def ceil (a : F64) : F64 := ofFloat a.toFloat.ceil
def round (a : F64) : F64 := ofFloat a.toFloat.round
def exp (a : F64) : F64 := ofFloat a.toFloat.exp
def ln (a : F64) : F64 := ofFloat a.toFloat.log
def powf (a b : F64) : F64 := ofFloat (a.toFloat.pow b.toFloat)

instance : Add F64 := ⟨add⟩
instance : Sub F64 := ⟨sub⟩
instance : Mul F64 := ⟨mul⟩
instance : Div F64 := ⟨div⟩
instance : Neg F64 := ⟨neg⟩

/-- Rust `x as i64` (saturating, NaN ↦ 0) -/
def toI64Sat (x : F64) : Int := x.toFloat.toInt64.toInt
/-- Rust `x as u64` -/
def toU64Sat (x : F64) : Nat := x.toFloat.toUInt64.toNat
/-- Rust `x as u32`, `x as u8`, `x as i8`, `x as i32` -/
def toU32Sat (x : F64) : Nat := x.toFloat.toUInt32.toNat
def toU8Sat (x : F64) : Nat := x.toFloat.toUInt8.toNat
def toI8Sat (x : F64) : Int := x.toFloat.toInt8.toInt
def toI32Sat (x : F64) : Int := x.toFloat.toInt32.toInt
/-- Rust `i as f64` for `i : i64` (round to nearest even) -/
def ofI64 (i : Int) : F64 := ofFloat (Int64.ofInt i).toFloat
/-- Rust `u as f64` for `u : u64` -/
def ofU64 (u : Nat) : F64 := ofFloat (UInt64.ofNat u).toFloat
def ofNatExact (n : Nat) : F64 := ofFloat (Float.ofNat n)
def ofIntExact (i : Int) : F64 := ofFloat (Float.ofInt i)

/-- 16 hex digits; every NaN prints as the canonical quiet NaN (payload/sign of NaNs are outside the
    line protocol because `Float.toBits` canonicalises them) -/
def toHex (x : F64) : String :=
  if x.isNaN then "7ff8000000000000" else
  let rec go : Nat → Nat → List Char → List Char
    | 0, _, acc => acc
    | k+1, m, acc =>
      let d := m % 16
      go k (m / 16) ((if d < 10 then Char.ofNat (48 + d) else Char.ofNat (87 + d)) :: acc)
  String.ofList (go 16 x.bits.toNat [])

def ofHex? (s : String) : Option F64 :=
  if s.length ≠ 16 then none else
  (s.toList.foldlM (fun acc c =>
    let v := if '0' ≤ c ∧ c ≤ '9' then some (c.toNat - 48)
             else if 'a' ≤ c ∧ c ≤ 'f' then some (c.toNat - 87)
             else if 'A' ≤ c ∧ c ≤ 'F' then some (c.toNat - 55) else none
    v.map (fun d => acc * 16 + d)) 0).map fun n => ⟨UInt64.ofNat n⟩

end F64
end NtpVerif
