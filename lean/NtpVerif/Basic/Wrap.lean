/-
Fixed-width integer semantics on `Int` (import-free).  Rust's `i64`/`u64`/... arithmetic is modelled on
unbounded `Int` with explicit wrap / saturate / checked helpers so that proofs go through `omega`.
-/
namespace NtpVerif.Wrap

def two (n : Nat) : Int := (2 : Int) ^ n

/-- bounds -/
def iMin (n : Nat) : Int := -(2 : Int) ^ (n - 1)
def iMax (n : Nat) : Int := (2 : Int) ^ (n - 1) - 1
def uMax (n : Nat) : Int := (2 : Int) ^ n - 1

def I64_MIN : Int := -9223372036854775808
def I64_MAX : Int := 9223372036854775807
def U64_MAX : Int := 18446744073709551615
def I32_MIN : Int := -2147483648
def I32_MAX : Int := 2147483647
def U32_MAX : Int := 4294967295

def inI64 (x : Int) : Prop := I64_MIN ≤ x ∧ x ≤ I64_MAX
instance (x : Int) : Decidable (inI64 x) := by unfold inI64; infer_instance

/-- unsigned wrap to `n` bits -/
def wrapU (n : Nat) (x : Int) : Int := x % (2 : Int) ^ n

/-- two's-complement wrap to `n` bits -/
def wrapS (n : Nat) (x : Int) : Int :=
  let m := (2 : Int) ^ n
  let r := x % m
  if r ≥ m / 2 then r - m else r

def wrapU64 (x : Int) : Int := x % 18446744073709551616
def wrapS64 (x : Int) : Int :=
  let r := x % 18446744073709551616
  if r ≥ 9223372036854775808 then r - 18446744073709551616 else r
def wrapU32 (x : Int) : Int := x % 4294967296
def wrapS32 (x : Int) : Int :=
  let r := x % 4294967296
  if r ≥ 2147483648 then r - 4294967296 else r

/-- saturate into `[lo, hi]` -/
def clampInt (lo hi x : Int) : Int := if x < lo then lo else if x > hi then hi else x

def satI64 (x : Int) : Int := clampInt I64_MIN I64_MAX x
def satU64 (x : Int) : Int := clampInt 0 U64_MAX x
def satI32 (x : Int) : Int := clampInt I32_MIN I32_MAX x
def satU8 (x : Int) : Int := clampInt 0 255 x
def satI8 (x : Int) : Int := clampInt (-128) 127 x

/-- checked arithmetic: `none` = overflow (a panic in builds with overflow checks) -/
def checkedI64 (x : Int) : Option Int := if I64_MIN ≤ x ∧ x ≤ I64_MAX then some x else none
def checkedRange (lo hi x : Int) : Option Int := if lo ≤ x ∧ x ≤ hi then some x else none

theorem satI64_in (x : Int) : inI64 (satI64 x) := by
  unfold satI64 clampInt inI64 I64_MIN I64_MAX; repeat' split
  all_goals omega

theorem satI64_id (x : Int) (h : inI64 x) : satI64 x = x := by
  unfold satI64 clampInt; unfold inI64 at h; repeat' split
  all_goals omega

theorem wrapS64_id (x : Int) (h : inI64 x) : wrapS64 x = x := by
  unfold wrapS64; unfold inI64 I64_MIN I64_MAX at h; simp only; split <;> omega

theorem wrapS64_in (x : Int) : inI64 (wrapS64 x) := by
  unfold wrapS64 inI64 I64_MIN I64_MAX; simp only; split <;> omega

theorem wrapU64_range (x : Int) : 0 ≤ wrapU64 x ∧ wrapU64 x ≤ U64_MAX := by
  unfold wrapU64 U64_MAX; omega

end NtpVerif.Wrap
