/-
C36 — source (re)spawning is paced and follows removal reasons.   (PARTIAL by nature: real scheduler)

"Under any timing of system events, a spawner starts a new spawn attempt at most once per network wait
period (one second) [paced] and, while incomplete, keeps attempting at that pace [keeps_trying,
never_oversleeps, first_attempt_immediate, attempt_only_when_due].  A plain single-server spawner never
respawns a demobilised source [standard_no_respawn_after_demobilize] and re-resolves the server name
after an unreachable removal [standard_reresolve_after_unreachable, reresolve_history;
standard_network_issue_keeps_resolution is the contrast case]."
The removal reason is prepared by the system task (system.rs): system_reason_of_message and
system_demobilise_never_respawns_standard cover that caller (MustDemobilize → Demobilized, always).

Property theorems only (helper lemmas: `NtpVerif.Proofs.Spawner`).  Model: `NtpVerif.Model.Spawner`:
`spawner_task` (ntpd/src/daemon/spawn/mod.rs) as a function `run` of ALL lists of timestamped system
events (any arrival times, sorted or not, any close time, either outcome of an exact tie between an
arrival and the timeout) for an ARBITRARY spawner (`Iface σ`: any state, any `is_complete`, any
`try_spawn` duration / state change / error, any handlers); `StandardSpawner` (standard.rs) as `Std`, and
inside the loop as `stdIface envStep` for an arbitrary environment (DNS answers, connectability, call
durations).  `run` takes a fuel (number of loop iterations); every theorem holds for every fuel, i.e. for
every finite prefix of the loop's execution, and `fuel_suffices` shows the driver's fuel reaches the end.  Times are nanoseconds; "one second" is the literal
1000000000, tied to `NETWORK_WAIT_PERIOD` (regenerated from system.rs) by `period_is_one_second`.

What the model cannot exhibit (hence partial): tokio's timer wheel (1 ms granularity) and wake-up order,
real DNS/UDP, handlers that take time or fail.
-/
import NtpVerif.Proofs.Spawner

namespace NtpVerif.C36
open NtpVerif.Spawner NtpVerif.Pool

/-- the constant the loop uses is the "one second" of the property text -/
theorem period_is_one_second : PERIOD = 1000000000 := by decide

variable {σ : Type}

/-- the run of `spawner_task` started at time `t0` with spawner state `s` -/
def taskRun (tie : Bool) (I : Iface σ) (tClose fuel t0 : Nat) (s : σ) (q : List (Nat × Ev)) : List Iter :=
  run PERIOD tie I tClose fuel (Loop.start t0 s) q

/-- **C36.paced** — for every spawner, every event list and timing: any two `try_spawn` calls of a run
    start at least one second apart; more precisely a call starts no earlier than one second after the
    previous call ENDED. -/
theorem paced (tie : Bool) (I : Iface σ) (tClose fuel t0 : Nat) (s : σ) (q : List (Nat × Ev)) :
    (attempts (taskRun tie I tClose fuel t0 s q)).Pairwise
      (fun a b => a.1 + 1000000000 ≤ b.1 ∧ a.2 + 1000000000 ≤ b.1) := by
  obtain ⟨h1, h2⟩ := run_paced PERIOD (by decide) tie I tClose fuel (Loop.start t0 s) q t0 (safe_start _ _ _)
  rw [period_is_one_second] at h2
  exact h2.imp_of_mem fun {a b} ha _ hab => ⟨by have := (h1 a ha).2; omega, hab⟩

/-- what "keeps attempting at that pace" means for two consecutive loop iterations `a`, `b`: if the
    spawner is incomplete at the top of `b`, then either `b` calls `try_spawn` at once — and no later than
    one second after the previous call ended (`a.last`) when the spawner was already incomplete while
    waiting — or `b` was woken early by an event (less than a second since `a.last`) and goes back to
    waiting without a ticket, for the SAME deadline `a.last + 1 s`. -/
def KeepsTrying (a b : Iter) : Prop :=
  b.incomplete = true →
    ((∃ e, b.attempt = some (b.top, e)) ∧ (a.incompleteW = true → b.top ≤ a.last + 1000000000)) ∨
    (b.attempt = none ∧ b.top < a.last + 1000000000 ∧ b.ticketW = false ∧ b.last = a.last ∧
      b.incompleteW = true)

/-- **C36.keeps_trying** — for every spawner, every event list and timing, `KeepsTrying` holds between
    all consecutive iterations of the loop. -/
theorem keeps_trying (tie : Bool) (I : Iface σ) (tClose fuel t0 : Nat) (s : σ) (q : List (Nat × Ev)) :
    Consec KeepsTrying (taskRun tie I tClose fuel t0 s q) := by
  have hok := run_all_ok PERIOD (by decide) tie I tClose fuel (Loop.start t0 s) q (Nat.le_refl _)
  have hl := run_linked PERIOD tie I tClose fuel (Loop.start t0 s) q
  apply Consec.of_forall hok
  apply Consec.imp _ hl
  intro a b ⟨l1, l2, _, _⟩ oka okb hinc
  rw [period_is_one_second] at oka okb
  cases ht : b.ticket with
  | true =>
    obtain ⟨e, he, _⟩ := okb.attempt_iff.mpr ⟨ht, hinc⟩
    refine Or.inl ⟨⟨e, he⟩, fun hw => ?_⟩
    have := oka.wait_bounded (oka.incomplete_waits_without_ticket hw)
    omega
  | false =>
    have hnone := okb.attempt_none.mpr (fun h => by rw [ht] at h; cases h.1)
    obtain ⟨k1, k2, k3⟩ := okb.idle_keeps hnone
    have := okb.no_ticket_early ht
    exact Or.inr ⟨hnone, by omega, by rw [k1, ht], by rw [k2, l2], by rw [k3, hinc]⟩

/-- **C36.never_oversleeps** — an incomplete spawner never waits with a ticket in hand, and its wait ends
    (event, timeout or close) no later than one second after the previous call ended. -/
theorem never_oversleeps (tie : Bool) (I : Iface σ) (tClose fuel t0 : Nat) (s : σ) (q : List (Nat × Ev)) :
    ∀ it ∈ taskRun tie I tClose fuel t0 s q, it.incompleteW = true →
      it.ticketW = false ∧ it.wake.time ≤ it.last + 1000000000 := by
  intro it hit hw
  have ok := run_all_ok PERIOD (by decide) tie I tClose fuel (Loop.start t0 s) q (Nat.le_refl _) it hit
  rw [period_is_one_second] at ok
  exact ⟨ok.incomplete_waits_without_ticket hw, ok.wait_bounded (ok.incomplete_waits_without_ticket hw)⟩

/-- **C36.attempt_only_when_due** — `try_spawn` is called in an iteration exactly when a ticket is held and
    the spawner is incomplete, and then at the very top of the iteration; a ticket is held whenever a
    second has passed since `last_ticket_time`. -/
theorem attempt_only_when_due (tie : Bool) (I : Iface σ) (tClose fuel t0 : Nat) (s : σ)
    (q : List (Nat × Ev)) : ∀ it ∈ taskRun tie I tClose fuel t0 s q,
      ((∃ e, it.attempt = some (it.top, e) ∧ it.top ≤ e) ↔ (it.ticket = true ∧ it.incomplete = true)) ∧
      (it.attempt = none ↔ ¬ (it.ticket = true ∧ it.incomplete = true)) ∧
      (1000000000 ≤ it.top - it.lastTop → it.ticket = true) := by
  intro it hit
  have ok := run_all_ok PERIOD (by decide) tie I tClose fuel (Loop.start t0 s) q (Nat.le_refl _) it hit
  rw [period_is_one_second] at ok
  exact ⟨ok.attempt_iff, ok.attempt_none, ok.ticket_when_elapsed⟩

/-- **C36.first_attempt_immediate** — an incomplete spawner is tried the moment the task starts. -/
theorem first_attempt_immediate (tie : Bool) (I : Iface σ) (tClose fuel t0 : Nat) (s : σ)
    (q : List (Nat × Ev)) (h : I.isComplete s = false) :
    ∃ e rest, taskRun tie I tClose (fuel + 1) t0 s q = rest ∧ (rest.head?.bind (·.attempt)) = some (t0, e) := by
  unfold taskRun
  rw [run_succ]
  obtain ⟨n1, _, n3, n4, _⟩ := iterOf_next PERIOD tie I tClose (Loop.start t0 s) q
  have ok := iterOf_ok_facts PERIOD (by decide) tie I tClose (Loop.start t0 s) q (Nat.le_refl _)
  have ht : (iterOf PERIOD tie I tClose (Loop.start t0 s) q).1.ticket = true := by
    rw [n3]; simp [ticketAt, Loop.start]
  have hi : (iterOf PERIOD tie I tClose (Loop.start t0 s) q).1.incomplete = true := by
    rw [n4]; simp [Loop.start, h]
  obtain ⟨e, he, _⟩ := ok.attempt_iff.mpr ⟨ht, hi⟩
  refine ⟨e, _, rfl, ?_⟩
  simp only [List.head?_cons, Option.bind_some]
  rw [he, n1]; rfl

/-- **C36.fuel_suffices** — the iteration bound `fuelFor` used by the model driver is always enough: the
    run ends with the close of the channel or with an error, never by running out of fuel (so the
    theorems above, which hold for every fuel, cover the complete execution up to the close). -/
theorem fuel_suffices (tie : Bool) (I : Iface σ) (tClose t0 : Nat) (s : σ) (q : List (Nat × Ev)) :
    ended (taskRun tie I tClose (fuelFor t0 tClose q) t0 s q) = true :=
  fuelFor_suffices PERIOD (by decide) tie I tClose t0 s q

/-! #### the plain single-server spawner -/

/-- **C36.standard_no_respawn_after_demobilize** — `StandardSpawner` in the loop, in ANY environment: once
    it has spawned its source, and as long as every removal it is told about is `Demobilized`
    (registrations and idle notifications in any number, any timing), `try_spawn` is never called again. -/
theorem standard_no_respawn_after_demobilize {δ : Type} (envStep : δ → Std → (Answer × Nat) × δ)
    (tie : Bool) (tClose fuel : Nat) (L : Loop (StdLoop δ)) (q : List (Nat × Ev))
    (hs : L.sp.std.hasSpawned = true)
    (hq : ∀ x ∈ q, ∀ id r, x.2 = Ev.removed id r → r = Reason.demobilized) :
    attempts (run PERIOD tie (stdIface envStep) tClose fuel L q) = [] := by
  apply run_no_attempt_while_complete PERIOD tie (stdIface envStep) tClose
    (fun e => ∀ id r, e = Ev.removed id r → r = Reason.demobilized) _ fuel L q hq hs
  intro s e hk hc
  cases e with
  | registered => exact hc
  | idle => exact hc
  | removed id r =>
    have := hk id r rfl
    subst this
    show (s.std.removed Reason.demobilized).isComplete = true
    rw [std_removed_demobilized]; exact hc

/-- a `Demobilized` removal leaves `StandardSpawner` exactly as it was (`has_spawned` stays true) -/
theorem standard_demobilized_is_noop (s : Std) : s.removed .demobilized = s := std_removed_demobilized s

/-- **C36.standard_reresolve_after_unreachable** — after an `Unreachable` removal the spawner is incomplete
    (so the loop will call it, see `keeps_trying`), and its next `try_spawn` performs a DNS lookup and uses
    the first connectable address of THAT answer, whatever it had resolved before. -/
theorem standard_reresolve_after_unreachable (s : Std) (ans : Answer) :
    let s' := s.removed .unreachable
    s'.isComplete = false ∧ s'.resolved = none ∧
    (s'.trySpawn ans).2.2 = true ∧ (s'.trySpawn ans).2.1 = resolveSingle ans ∧
    (s'.trySpawn ans).1.resolved = resolveSingle ans ∧
    (s'.trySpawn ans).1.isComplete = (resolveSingle ans).isSome := by
  simp only [std_removed_unreachable, Std.isComplete, Std.trySpawn]
  cases resolveSingle ans <;> simp

/-- **C36.standard_network_issue_keeps_resolution** — a `NetworkIssue` removal makes the spawner incomplete
    but keeps the resolved address: the next `try_spawn` re-uses it without a lookup. -/
theorem standard_network_issue_keeps_resolution (s : Std) (a : Addr) (ans : Answer)
    (h : s.resolved = some a) :
    let s' := s.removed .networkIssue
    s'.isComplete = false ∧
    s'.trySpawn ans = ({ resolved := some a, hasSpawned := true }, some a, false) := by
  simp [std_removed_networkIssue, Std.isComplete, Std.trySpawn, h]

/-- direct calls on a `StandardSpawner` -/
inductive SOp where
  | spawn (ans : Answer)
  | remove (r : Reason)

def sstep (s : Std) : SOp → Std
  | .spawn ans => (s.trySpawn ans).1
  | .remove r => s.removed r

def srun (s : Std) (ops : List SOp) : Std := ops.foldl sstep s

/-- an operation that cannot give the spawner a resolved address: a removal, or a `try_spawn` whose
    lookup finds nothing connectable -/
def NoResolution : SOp → Prop
  | .spawn ans => resolveSingle ans = none
  | .remove _ => True

/-- **C36.reresolve_history** — in every call history: after an `Unreachable` removal, and whatever further
    removals and unsuccessful lookups follow, the next `try_spawn` looks the name up again and spawns the
    first connectable address of the new answer. -/
theorem reresolve_history (pre mid : List SOp) (ans : Answer) (hmid : ∀ op ∈ mid, NoResolution op) :
    let s := srun Std.init (pre ++ [.remove .unreachable] ++ mid)
    (s.trySpawn ans).2.2 = true ∧ (s.trySpawn ans).2.1 = resolveSingle ans := by
  intro s
  have key : ∀ (mid : List SOp) (s0 : Std), (∀ op ∈ mid, NoResolution op) → s0.resolved = none →
      (srun s0 mid).resolved = none := by
    intro mid
    induction mid with
    | nil => intro s0 _ h; exact h
    | cons op rest ih =>
      intro s0 hm h0
      simp only [srun, List.foldl_cons]
      apply ih
      · exact fun o ho => hm o (List.mem_cons_of_mem _ ho)
      · have hop := hm op (by simp)
        cases op with
        | spawn a =>
          simp only [NoResolution] at hop
          simp [sstep, Std.trySpawn, h0, hop]
        | remove r =>
          simp only [sstep, Std.removed]
          split <;> simp [h0]
  have hres : s.resolved = none := by
    show (srun Std.init (pre ++ [.remove .unreachable] ++ mid)).resolved = none
    simp only [srun, List.foldl_append, List.foldl_cons, List.foldl_nil]
    exact key mid _ hmid (by simp [sstep, Std.removed])
  simp only [Std.trySpawn, hres]
  cases resolveSingle ans <;> simp

/-! #### the system side: what the spawner is told when a source must demobilise -/

/-- **C36.system_reason_of_message** — the system task hands the spawner exactly the reason that corresponds
    to the source's message: `MustDemobilize` is always reported as `Demobilized` (never as a reason that
    makes a spawner try again), network trouble and unreachability are passed on unchanged — independently of
    the rest of the system state (the model's `Sys.msg` uses nothing but the message). -/
theorem system_reason_of_message (s : Sys) (m : SysMsg) (src : Nat) (r : Sys × Nat × Reason × Nat)
    (h : s.msg m src = some r) :
    r.2.2.1 = reasonOf m ∧ reasonOf .mustDemobilize = .demobilized ∧
    reasonOf .networkIssue = .networkIssue ∧ reasonOf .unreachable = .unreachable := by
  refine ⟨?_, rfl, rfl, rfl⟩
  unfold Sys.msg at h
  cases hf : s.live.find? (·.id == src) with
  | none => rw [hf] at h; cases h
  | some x => rw [hf] at h; simp only [Option.some.injEq] at h; subst h; rfl

/-- a standard spawner told `reasonOf m` tries again exactly when `m` is not `MustDemobilize` -/
theorem system_standard_respawns_iff (m : SysMsg) :
    respawns .std (reasonOf m) = (if m = .mustDemobilize then 0 else 1) := by
  cases m <;> decide

/-- **C36.system_demobilise_never_respawns_standard** — end to end: whatever sources of a standard spawner
    report `MustDemobilize` to the system, at whatever times (with registrations / idle notifications in
    between), the events the system produces from them never make the pacing loop call `try_spawn` again
    once the source has been spawned — in any environment, for every timing. -/
theorem system_demobilise_never_respawns_standard {δ : Type} (envStep : δ → Std → (Answer × Nat) × δ)
    (tie : Bool) (tClose fuel : Nat) (L : Loop (StdLoop δ)) (msgs : List (Nat × Nat × SysMsg))
    (hs : L.sp.std.hasSpawned = true) (hm : ∀ x ∈ msgs, x.2.2 = SysMsg.mustDemobilize) :
    attempts (run PERIOD tie (stdIface envStep) tClose fuel L
      (msgs.map fun x => (x.1, Ev.removed x.2.1 (reasonOf x.2.2)))) = [] := by
  apply standard_no_respawn_after_demobilize envStep tie tClose fuel L _ hs
  intro x hx id r hr
  obtain ⟨y, hy, rfl⟩ := List.mem_map.mp hx
  simp only [Ev.removed.injEq] at hr
  rw [← hr.2, hm y hy]; rfl

/-! #### non-vacuity -/

/-- an instant spawner that never completes, no events, channel closed at 3.5 s: calls at 0, 1, 2, 3 s -/
example : attempts (taskRun true mock 3500000000 10 0 ⟨false, [], false⟩ []) =
    [(0, 0), (1000000000, 1000000000), (2000000000, 2000000000), (3000000000, 3000000000)] := by
  decide +kernel

/-- completes at once; a removal at 0.3 s is answered exactly at 1 s (ticket pacing), a removal at 5 s at
    once (ticket held); the second call takes 250 ms -/
example : attempts (taskRun true mock 7000000000 12 0 ⟨false, [(0, 1), (250000000, 1), (0, 1)], false⟩
      [(300000000, .removed 0 .networkIssue), (5000000000, .removed 0 .unreachable)]) =
    [(0, 0), (1000000000, 1250000000), (5000000000, 5000000000)] := by
  decide +kernel

/-- both outcomes of an exact tie (item arriving at the very deadline) are covered by the theorems -/
example : (taskRun true mock 1000000000 5 0 ⟨false, [(0, 0)], false⟩ []).map (·.wake) = [.closed 1000000000] ∧
    ((taskRun false mock 1000000000 5 0 ⟨false, [(0, 0)], false⟩ []).map (·.wake)).take 2 =
      [.timeout 1000000000, .closed 1000000000] := by
  decide +kernel

/-- the standard spawner behind the rotating hard-coded DNS helper: demobilise → nothing; network issue →
    same address; unreachable → re-resolved (the helper rotates, so another address) -/
example : (finalSp PERIOD true stdSim 12000000000 20
      (Loop.start 0 ⟨Std.init, ⟨[⟨1,123⟩, ⟨2,123⟩, ⟨3,123⟩], [], []⟩⟩)
      [(500000000, .removed 0 .demobilized), (2500000000, .removed 0 .networkIssue),
       (5000000000, .removed 0 .unreachable)]).env.spawned.reverse = [⟨3,123⟩, ⟨3,123⟩, ⟨2,123⟩] := by
  decide +kernel

/-- hypotheses of `standard_no_respawn_after_demobilize` are met by a non-trivial run -/
example : attempts (run PERIOD true stdSim 9000000000 20
      { now := 0, ticket := true, last := 0, sp := ⟨⟨some ⟨1,123⟩, true⟩, ⟨[⟨1,123⟩], [], []⟩⟩ }
      [(500000000, .removed 0 .demobilized), (2500000000, .registered), (5000000000, .removed 1 .demobilized)])
    = [] := by
  decide +kernel

/-- the system model on a pool (count 2) next to a standard spawner: the demobilised standard source is not
    replaced, pool sources are -/
example : ((Sys.start [.pool 2, .std]).1.msg .mustDemobilize 2).map (fun r => (r.2.1, r.2.2.1, r.2.2.2)) =
      some (1, Reason.demobilized, 0) ∧
    ((Sys.start [.pool 2, .std]).1.msg .mustDemobilize 0).map (fun r => (r.2.1, r.2.2.1, r.2.2.2)) =
      some (0, Reason.demobilized, 1) := by
  decide

/-- `reresolve_history` with a non-trivial history -/
example : ((srun Std.init [.spawn (some [(⟨1,123⟩, true)]), .remove .unreachable, .remove .networkIssue,
      .spawn none, .spawn (some [(⟨9,123⟩, false)])]).trySpawn (some [(⟨9,123⟩, false), (⟨2,123⟩, true)])).2 =
    (some ⟨2,123⟩, true) := by
  decide

end NtpVerif.C36

#print axioms NtpVerif.C36.period_is_one_second
#print axioms NtpVerif.C36.paced
#print axioms NtpVerif.C36.keeps_trying
#print axioms NtpVerif.C36.never_oversleeps
#print axioms NtpVerif.C36.attempt_only_when_due
#print axioms NtpVerif.C36.first_attempt_immediate
#print axioms NtpVerif.C36.fuel_suffices
#print axioms NtpVerif.C36.standard_no_respawn_after_demobilize
#print axioms NtpVerif.C36.standard_reresolve_after_unreachable
#print axioms NtpVerif.C36.standard_network_issue_keeps_resolution
#print axioms NtpVerif.C36.reresolve_history
#print axioms NtpVerif.C36.system_reason_of_message
#print axioms NtpVerif.C36.system_demobilise_never_respawns_standard
