/-
C42 — the multi-clock estimator keeps unrelated estimates intact.

Property theorems only (helper lemmas: `NtpVerif.Proofs.Estimator*`).  Model: `NtpVerif.Model.Estimator`
(`statime-algo/src/estimator.rs`, `matrix.rs`), generic in the element type: every theorem holds for any
arithmetic, in particular for IEEE bit patterns (`F64`) — add/remove only *move* values.

Sentence of the property                                              theorem
  "adding or removing a clock or a link never changes the reported    others_unchanged (one op, any well-formed state)
   estimates (value and uncertainty) of the other clocks and links"   others_unchanged_history (every op history)
                                                                      layout_inv, layout_partition (why: the index
                                                                      blocks stay a partition of the state vector)
  "operations on unknown or duplicate identifiers fail without        unknown_or_duplicate_fails, failed_ops_no_change
   altering the estimator"
  "time never moves backwards"                                        monotone_time, monotone_time_plain
  (added) no operation ever panics or hits a MatrixError              estimator_never_panics_step, estimator_never_panics
"every sequence of additions, removals, measurements, time progressions": `Op` / `run` below.
-/
import NtpVerif.Proofs.EstimatorNum
import NtpVerif.Proofs.EstimatorTotal

namespace NtpVerif.C42
open NtpVerif.Estimator

variable {α : Type}

/-- the operations of `EstimatorState` (as used by `LinkFilter` / `KalmanController`) -/
inductive Op (α : Type) where
  | addClock (id : Nat) (off offU freq freqU wander : α)
  | removeClock (id : Nat)
  | addLink (id : LinkId) (delay delayU decay : α)
  | removeLink (id : LinkId)
  | addExt (id : Nat)
  | removeExt (id : Nat)
  | progress (t : Nat)
  | measure (link : LinkId) (forward : Bool) (value uncert : α) (delayLink : Bool)
  | absorbFreq (id : Nat) (d : α)
  | absorbOffset (id : Nat) (d : α)
  | absorbSys (id : Nat) (d : Int)

def apply [Num α] (s : Est α) : Op α → R (Est α)
  | .addClock id off offU freq freqU w => addClock s id off offU freq freqU w
  | .removeClock id => removeClock s id
  | .addLink id d du dec => addLink s id d du dec
  | .removeLink id => removeLink s id
  | .addExt id => addExternalClock s id
  | .removeExt id => removeExternalClock s id
  | .progress t => progressTime s t
  | .measure l f v u dl => measurement s l f v u dl
  | .absorbFreq id d => absorbFrequencySteer s id d
  | .absorbOffset id d => absorbOffsetChange s id d
  | .absorbSys id d => absorbSystemClockOffsetChange s id d

/-- clone-then-replace (`KalmanController`, and every caller of the consuming API): a failed
    operation leaves the previous state in place -/
def step [Num α] (s : Est α) (op : Op α) : Est α :=
  match apply s op with
  | .ok s' => s'
  | .error _ => s

def run [Num α] (s : Est α) (ops : List (Op α)) : Est α := ops.foldl step s

/-- the clock / link an add/remove operation is about (`none` for the others) -/
def Op.clock : Op α → Option Nat
  | .addClock id .. => some id
  | .removeClock id => some id
  | .addExt id => some id
  | .removeExt id => some id
  | _ => none
def Op.link : Op α → Option LinkId
  | .addLink id .. => some id
  | .removeLink id => some id
  | _ => none
def Op.structural : Op α → Bool
  | .addClock .. | .removeClock _ | .addLink .. | .removeLink _ | .addExt _ | .removeExt _ => true
  | _ => false

/-! #### layout invariant -/

theorem apply_wf [Num α] {s s' : Est α} (h : WF s) (op : Op α) (hs : apply s op = .ok s') : WF s' := by
  cases op with
  | addClock => exact addClock_wf h hs
  | removeClock => exact removeClock_wf h hs
  | addLink => exact addLink_wf h hs
  | removeLink => exact removeLink_wf h hs
  | addExt => exact addExternalClock_wf h hs
  | removeExt => exact removeExternalClock_wf h hs
  | progress => exact progressTime_wf h hs
  | measure => exact measurement_wf h hs
  | absorbFreq => exact absorbFrequencySteer_wf h hs
  | absorbOffset => exact absorbOffsetChange_wf h hs
  | absorbSys => exact absorbSystemClockOffsetChange_wf h hs

theorem step_wf [Num α] {s : Est α} (h : WF s) (op : Op α) : WF (step s op) := by
  unfold step
  split
  · rename_i s' hs; exact apply_wf h op hs
  · exact h

/-- **C42.layout_inv** — over every operation history from the empty estimator the state is
    well-formed: the state vector has `n` rows, the covariance is `n × n`, clock ids / link ids are
    unique, and the blocks `[base, base+2)` of the clocks and `{index}` of the links partition `[0, n)`
    (`WF.layout : LayoutL`).  Each of the four add/remove operations preserves it (`apply_wf`). -/
theorem layout_inv [Num α] (t : Nat) (ops : List (Op α)) : WF (run (empty t : Est α) ops) := by
  suffices ∀ s : Est α, WF s → WF (run s ops) from this _ (empty_wf t)
  induction ops with
  | nil => intro s h; exact h
  | cons op ops ih => intro s h; exact ih _ (step_wf h op)

/-- **C42.layout_partition** — what the invariant says about one position `k` of the state vector:
    it is owned by a clock block or a link slot, never by both, and two owners have the same id. -/
theorem layout_partition {s : Est α} (h : WF s) (k : Nat) (hk : k < s.state.rows) :
    ((∃ c ∈ s.clocks, c.base ≤ k ∧ k < c.base + 2) ∨ (∃ l ∈ s.links, l.index = k)) ∧
    (∀ c ∈ s.clocks, ∀ d ∈ s.clocks, c.base ≤ k → k < c.base + 2 → d.base ≤ k → k < d.base + 2 → c = d) ∧
    (∀ l ∈ s.links, ∀ m ∈ s.links, l.index = k → m.index = k → l = m) ∧
    (∀ c ∈ s.clocks, ∀ l ∈ s.links, c.base ≤ k → k < c.base + 2 → l.index ≠ k) := by
  refine ⟨h.layout.cover k hk, ?_, ?_, ?_⟩
  · intro c hc d hd h1 h2 h3 h4
    apply eq_of_mem_of_key_eq (fun c : ClockInfo α => c.id) _ h.ids.clk c hc d hd
    apply Classical.byContradiction
    intro hne
    have := h.layout.clk_clk c hc d hd hne
    omega
  · intro l hl m hm h1 h2
    apply eq_of_mem_of_key_eq (fun l : LinkInfo α => l.id) _ h.ids.lnk l hl m hm
    apply Classical.byContradiction
    intro hne
    exact h.layout.lnk_lnk l hl m hm hne (h1.trans h2.symm)
  · intro c hc l hl h1 h2 h3
    have := h.layout.clk_lnk c hc l hl
    omega

/-! #### others unchanged -/

theorem report_congr [Num α] {a b : R (α × α)} (h : a = b) : report a = report b := by rw [h]

/-- **C42.others_unchanged** — on a well-formed state, after a successful add/remove of a clock, an
    external clock or a link, every OTHER clock's reported offset (value, uncertainty) and frequency
    (value, uncertainty) and every other link's reported delay — read through the NEW indices — equal
    the old ones (also "unknown stays unknown": the whole query results are equal).  Pure index algebra:
    holds for every element type, so for f64 bit patterns exactly. -/
theorem others_unchanged [Num α] {s s' : Est α} (h : WF s) (op : Op α) (hop : op.structural = true)
    (hs : apply s op = .ok s') :
    (∀ j, op.clock ≠ some j → clockOffset s' j = clockOffset s j ∧ clockFrequency s' j = clockFrequency s j) ∧
    (∀ l, op.link ≠ some l → linkDelay s' l = linkDelay s l) := by
  have key : (∀ j, op.clock ≠ some j → clockOffsetRaw s' j = clockOffsetRaw s j ∧
        clockFrequencyRaw s' j = clockFrequencyRaw s j) ∧
      (∀ l, op.link ≠ some l → linkDelayRaw s' l = linkDelayRaw s l) := by
    cases op with
    | addClock id =>
      have := addClock_others h hs
      exact ⟨fun j hj => this.1 j (by intro e; exact hj (by simp [Op.clock, e])), fun l _ => this.2 l⟩
    | removeClock id =>
      have := removeClock_others h hs
      exact ⟨fun j hj => this.1 j (by intro e; exact hj (by simp [Op.clock, e])), fun l _ => this.2 l⟩
    | addLink id =>
      have := addLink_others h hs
      exact ⟨fun j _ => this.1 j, fun l hl => this.2 l (by intro e; exact hl (by simp [Op.link, e]))⟩
    | removeLink id =>
      have := removeLink_others h hs
      exact ⟨fun j _ => this.1 j, fun l hl => this.2 l (by intro e; exact hl (by simp [Op.link, e]))⟩
    | addExt id =>
      simp only [apply, addExternalClock] at hs
      split at hs
      · cases hs
      · split at hs
        · cases hs
        · cases hs; exact ⟨fun _ _ => ⟨rfl, rfl⟩, fun _ _ => rfl⟩
    | removeExt id =>
      simp only [apply, removeExternalClock] at hs
      split at hs
      · cases hs; exact ⟨fun _ _ => ⟨rfl, rfl⟩, fun _ _ => rfl⟩
      · cases hs
    | progress => simp [Op.structural] at hop
    | measure => simp [Op.structural] at hop
    | absorbFreq => simp [Op.structural] at hop
    | absorbOffset => simp [Op.structural] at hop
    | absorbSys => simp [Op.structural] at hop
  refine ⟨fun j hj => ?_, fun l hl => ?_⟩
  · have := key.1 j hj
    exact ⟨report_congr this.1, report_congr this.2⟩
  · exact report_congr (key.2 l hl)

/-- **C42.others_unchanged_history** — the same after every history of additions, removals,
    measurements, time progressions and steer absorptions from the empty estimator. -/
theorem others_unchanged_history [Num α] (t : Nat) (ops : List (Op α)) (op : Op α)
    (hop : op.structural = true) {s' : Est α} (hs : apply (run (empty t) ops) op = .ok s') :
    (∀ j, op.clock ≠ some j → clockOffset s' j = clockOffset (run (empty t) ops) j ∧
      clockFrequency s' j = clockFrequency (run (empty t) ops) j) ∧
    (∀ l, op.link ≠ some l → linkDelay s' l = linkDelay (run (empty t) ops) l) :=
  others_unchanged (layout_inv t ops) op hop hs

/-- a freshly added clock reports exactly what it was given (value, √(uncertainty²)) -/
theorem added_clock_reads_given [Num α] {s s' : Est α} (h : WF s) {id : Nat} {off offU freq freqU w : α}
    (hs : addClock s id off offU freq freqU w = .ok s') :
    clockOffset s' id = .ok (off, Num.sqrt (sq offU)) ∧
    clockFrequency s' id = .ok (freq, Num.sqrt (sq freqU)) := by
  obtain ⟨h1, h2⟩ := addClock_reads_new h hs
  simp [clockOffset, clockFrequency, report, h1, h2, Except.map]

/-! #### failed operations -/

/-- **C42.unknown_or_duplicate_fails** — duplicate ids are rejected on add, unknown ids on remove,
    links need known end points; with the right error kind. -/
theorem unknown_or_duplicate_fails [Num α] (s : Est α) :
    (∀ id off offU freq freqU w, isKnown s id = true →
      addClock s id off offU freq freqU w = .error .ClockAlreadyExists) ∧
    (∀ id, isInternal s id = false → removeClock s id = .error .UnknownClock) ∧
    (∀ id, isKnown s id = true → addExternalClock s id = .error .ClockAlreadyExists) ∧
    (∀ id, isExternal s id = false → removeExternalClock s id = .error .UnknownClock) ∧
    (∀ id d du dec, (isKnown s id.a = false ∨ isKnown s id.b = false) →
      addLink s id d du dec = .error .UnknownClock) ∧
    (∀ id d du dec, isKnown s id.a = true → isKnown s id.b = true →
      s.links.any (fun l => l.id == id) = true → addLink s id d du dec = .error .LinkAlreadyExists) ∧
    (∀ id, s.links.any (fun l => l.id == id) = false → removeLink s id = .error .UnknownLink) := by
  refine ⟨fun id off offU freq freqU w hk => addClock_dup off offU freq freqU w hk, ?_, ?_, ?_, ?_, ?_, ?_⟩
  · intro id hi
    apply removeClock_unknown
    rw [List.find?_eq_none]
    intro x hx
    simpa using not_internal_iff.mp hi x hx
  · intro id hk
    unfold isKnown at hk
    unfold addExternalClock
    cases hi : isInternal s id with
    | true => simp
    | false =>
      rw [hi] at hk
      simp only [Bool.false_or] at hk
      unfold isExternal at hk
      have : id ∈ s.ext := by simpa using hk
      simp [this]
  · intro id he
    unfold isExternal at he
    have : id ∉ s.ext := by simpa using he
    simp [removeExternalClock, this]
  · intro id d du dec hk
    unfold addLink
    rcases hk with hk | hk
    · simp [hk]
    · cases ha : isKnown s id.a <;> simp [hk]
  · intro id d du dec ha hb hl
    simp [addLink, ha, hb, hl]
  · intro id hl
    apply removeLink_unknown
    rw [List.find?_eq_none]
    rw [List.any_eq_false] at hl
    intro x hx
    simpa using hl x hx

/-- **C42.failed_ops_no_change** — a failed operation leaves the estimator exactly as it was
    (clone-then-replace), whatever the reason of the failure. -/
theorem failed_ops_no_change [Num α] (s : Est α) (op : Op α) (e : Err) (h : apply s op = .error e) :
    step s op = s := by
  simp [step, h]

/-! #### no panics -/

/-- **C42.estimator_never_panics_step** — on a well-formed state no operation (add / remove, time
    progression, measurement, steer absorption) can fail with a panic (an `Index` / `IndexMut` assert, a
    `usize` underflow in `update_indices`) or a `MatrixError` (`NotAVector`, `NotSquare`, `OutOfBounds`):
    every index the code computes is in range and every shape check passes.  The only possible failures
    are the documented ones (unknown / duplicate ids, both clocks external, non-monotonic time).
    Pure index algebra: holds for every element type, whatever the arithmetic produces (NaN included). -/
theorem estimator_never_panics_step [Num α] {s : Est α} (h : WF s) (op : Op α) (e : Err)
    (he : apply s op = .error e) : e.isBug = false := by
  cases op with
  | addClock id off offU freq freqU w =>
    simp only [apply] at he
    cases hk : isKnown s id with
    | true => rw [addClock_dup off offU freq freqU w hk] at he; cases he; rfl
    | false =>
      unfold isKnown at hk
      simp only [Bool.or_eq_false_iff] at hk
      obtain ⟨st', unc', heq, _⟩ := addClock_spec h off offU freq freqU w hk.2 hk.1
      rw [heq] at he; cases he
  | removeClock id =>
    simp only [apply] at he
    cases hf : s.clocks.find? (fun c => c.id == id) with
    | none => rw [removeClock_unknown hf] at he; cases he; rfl
    | some rem =>
      obtain ⟨st', unc', heq, _⟩ := removeClock_spec h hf
      rw [heq] at he; cases he
  | addLink id d du dec =>
    simp only [apply] at he
    cases ha : isKnown s id.a with
    | false => simp [addLink, ha] at he; subst he; rfl
    | true =>
      cases hb : isKnown s id.b with
      | false => simp [addLink, ha, hb] at he; subst he; rfl
      | true =>
        cases hl : s.links.any (fun l => l.id == id) with
        | true => simp [addLink, ha, hb, hl] at he; subst he; rfl
        | false =>
          obtain ⟨st', unc', heq, _⟩ := addLink_spec h d du dec ha hb hl
          rw [heq] at he; cases he
  | removeLink id =>
    simp only [apply] at he
    cases hf : s.links.find? (fun l => l.id == id) with
    | none => rw [removeLink_unknown hf] at he; cases he; rfl
    | some rem =>
      obtain ⟨st', unc', heq, _⟩ := removeLink_spec h hf
      rw [heq] at he; cases he
  | addExt id =>
    simp only [apply, addExternalClock] at he
    split at he
    · cases he; rfl
    · split at he <;> cases he
      rfl
  | removeExt id =>
    simp only [apply, removeExternalClock] at he
    split at he <;> cases he
    rfl
  | progress t =>
    simp only [apply] at he
    rw [progressTime_noBug h t he]; rfl
  | measure l f v u dl => exact measurement_noBug h l f dl v u he
  | absorbFreq id d => rw [(absorb_noBug h id).1 d e he]; rfl
  | absorbOffset id d => rw [(absorb_noBug h id).2.1 d e he]; rfl
  | absorbSys id d => rw [(absorb_noBug h id).2.2 d e he]; rfl

/-- **C42.estimator_never_panics** — over every operation history from the empty estimator. -/
theorem estimator_never_panics [Num α] (t : Nat) (ops : List (Op α)) (op : Op α) (e : Err)
    (he : apply (run (empty t : Est α) ops) op = .error e) : e.isBug = false :=
  estimator_never_panics_step (layout_inv t ops) op e he

/-! #### time -/

/-- **C42.monotone_time** — `progress_time t` fails (with `NonMonotonicTimeProgression`) iff `t` lies
    before the current time in the timestamp's wrapping order (`t − time`, reinterpreted as signed
    128-bit, is negative); when it succeeds the new time is `t`, so time never decreases. -/
theorem monotone_time [Num α] (s : Est α) (t : Nat) :
    (progressTime s t = .error .NonMonotonic ↔ tsDiff t s.time < 0) ∧
    (∀ s', progressTime s t = .ok s' → s'.time = t ∧ 0 ≤ tsDiff s'.time s.time) := by
  constructor
  · constructor
    · intro h
      unfold progressTime at h
      simp only [] at h
      split at h
      · assumption
      · split at h
        · cases h
        · split at h <;> cases h
    · intro h
      simp [progressTime, h]
  · intro s' h
    unfold progressTime at h
    simp only [] at h
    split at h
    · cases h
    · rename_i hnn
      split at h
      · rename_i heq; cases h; subst heq; exact ⟨rfl, by omega⟩
      · split at h
        · cases h; exact ⟨rfl, by simpa using hnn⟩
        · cases h

/-- **C42.monotone_time_plain** — for timestamps in the non-wrapping half (below 2¹²⁷, i.e. any real
    date) this is the plain order: fails iff `t < time`; on success `time ≤ new time = t`. -/
theorem monotone_time_plain [Num α] (s : Est α) (t : Nat) (ht : t < TWO127) (hs : s.time < TWO127) :
    (progressTime s t = .error .NonMonotonic ↔ t < s.time) ∧
    (∀ s', progressTime s t = .ok s' → s'.time = t ∧ s.time ≤ s'.time) := by
  have hd : tsDiff t s.time = (t : Int) - s.time := by
    simp only [tsDiff, TWO128, TWO127] at *
    have h1 : s.time % 340282366920938463463374607431768211456 = s.time := Nat.mod_eq_of_lt (by omega)
    simp only [h1]
    split <;> omega
  obtain ⟨h1, h2⟩ := monotone_time s t
  refine ⟨by rw [h1, hd]; omega, ?_⟩
  intro s' h
  obtain ⟨e, hnn⟩ := h2 s' h
  refine ⟨e, ?_⟩
  rw [e] at hnn ⊢
  rw [hd] at hnn
  omega

/-! #### non-vacuity: concrete, non-trivial states (element type `Int`, arithmetic irrelevant) -/

instance : Num Int where
  zero := 0
  one := 1
  negOne := -1
  two := 2
  three := 3
  sumInit := 0
  add := (· + ·)
  sub := (· - ·)
  mul := (· * ·)
  div := (· / ·)
  sqrt := fun x => x
  midpoint := fun a b => (a + b) / 2
  ofDur := fun d => d

def demoOps : List (Op Int) :=
  [.addClock 10 100 1 101 2 0, .addClock 11 110 3 111 4 0, .addExt 12, .addLink ⟨10, 11, 0⟩ 7 5 0,
   .addClock 13 130 6 131 7 0, .addLink ⟨11, 12, 1⟩ 8 9 0]

/-- removing the FIRST clock of a 3-clock / 2-link estimator shifts everything behind it; the other
    clocks and both links still report their values (hypotheses of `others_unchanged` are met, and its
    conclusion is visible) -/
example :
    (let s := run (empty 0) demoOps
     let s' := step s (.removeClock 10)
     (clockOffset s' 11, clockFrequency s' 13, linkDelay s' ⟨11, 12, 1⟩, clockOffset s' 10,
      s'.state.rows, s.state.rows)) =
    (.ok (110, 9), .ok (131, 49), .ok (8, 81), .error .UnknownClock, 6, 8) := by rfl

/-- duplicate / unknown ids fail and leave the state in place -/
example :
    (let s := run (empty 0) demoOps
     (apply s (.addClock 11 0 0 0 0 0) |>.toOption |>.isSome, apply s (.removeClock 12) |>.toOption |>.isSome,
      apply s (.removeLink ⟨10, 11, 5⟩) |>.toOption |>.isSome,
      (step s (.removeClock 12)).state.data == s.state.data)) = (false, false, false, true) := by rfl

/-- time: going back one unit fails, staying or advancing succeeds -/
example : ((progressTime (empty 100 : Est Int) 99).toOption.isSome,
    (progressTime (empty 100 : Est Int) 100).toOption.isSome,
    ((progressTime (empty 100 : Est Int) 164).toOption.map (·.time))) = (false, true, some 164) := by rfl

end NtpVerif.C42

#print axioms NtpVerif.C42.layout_inv
#print axioms NtpVerif.C42.layout_partition
#print axioms NtpVerif.C42.others_unchanged
#print axioms NtpVerif.C42.others_unchanged_history
#print axioms NtpVerif.C42.added_clock_reads_given
#print axioms NtpVerif.C42.unknown_or_duplicate_fails
#print axioms NtpVerif.C42.failed_ops_no_change
#print axioms NtpVerif.C42.estimator_never_panics_step
#print axioms NtpVerif.C42.estimator_never_panics
#print axioms NtpVerif.C42.monotone_time
#print axioms NtpVerif.C42.monotone_time_plain
