/-
C23 — the NTP packet decoder is total.

  "Decoding any byte string as an NTP packet, with no keys, with client session keys or with the server's
   cookie keys, terminates with a packet or an error and never panics."

Property theorems only (helper lemmas live in `NtpVerif.Proofs.Wire`).
Model: `NtpVerif.Wire.parse` (`NtpPacket::deserialize`), in which every slice, index, `unwrap`, `assert` and
loop of the Rust decoder is an explicit `panic` / `fuel` outcome.

  never_panics          "never panics": for every byte string, every key context (`Ctx.noCipher`, `.key`,
                        `.keyset`) and EVERY decryption function — no ideal-cipher assumption is needed —
                        `parse` is neither `.panic` nor `.fuel`.
  total                 "terminates with a packet or an error": `parse` is `ok`, `decryptErr` or `err`.
  streamer_advances     the termination argument of the only loop: every framed field has a wire length
                        of at least 4 bytes and lies inside the buffer, and the streamer never runs out of
                        the fuel `buffer.length + 1` nor reaches its `expect`.

The model describes the code after `fixes/C23-nonce-assert.patch` (finding F-C23: a debug assertion that the
nonce of a successfully decrypted field is 16 bytes long; a key holder sealing with a longer nonce, which
RFC 8915 permits, aborted debug builds).
-/
import NtpVerif.Proofs.Wire

namespace NtpVerif.C23
open NtpVerif.Wire

/-- "never panics" (and the model's loop fuel always suffices) — any input, any context, any cipher. -/
theorem never_panics (dec : Dec) (ctx : Ctx) (data : Bytes) :
    parse dec ctx data ≠ .panic ∧ parse dec ctx data ≠ .fuel := by
  have hg := good_parseR dec ctx data
  unfold parse
  split
  · exact ⟨by simp, by simp⟩
  · exact ⟨by simp, by simp⟩
  · exact ⟨by simp, by simp⟩
  · rename_i h; exact absurd (hg _ h) (by simp [Err.isBad])
  · rename_i h; exact absurd (hg _ h) (by simp [Err.isBad])

/-- "terminates with a packet or an error" -/
theorem total (dec : Dec) (ctx : Ctx) (data : Bytes) :
    (∃ p cookie, parse dec ctx data = .ok p cookie) ∨
    (∃ p, parse dec ctx data = .decryptErr p) ∨
    (∃ e, parse dec ctx data = .err e) := by
  have h := never_panics dec ctx data
  cases hp : parse dec ctx data with
  | ok p c => exact .inl ⟨p, c, rfl⟩
  | decryptErr p => exact .inr (.inl ⟨p, rfl⟩)
  | err e => exact .inr (.inr ⟨e, rfl⟩)
  | panic => exact absurd hp h.1
  | fuel => exact absurd hp h.2

/-- The extension-field loop terminates because every framed field consumes at least four bytes of a finite
    buffer; the fuel of the model (`length + 1`) is never exhausted and the `expect` on the wire length is
    never reached. -/
theorem streamer_advances (buffer : Bytes) (cutoff minSize : Nat) (ver : Ver) :
    ∀ it ∈ stream buffer cutoff minSize ver,
      it ≠ .panic ∧ it ≠ .fuel ∧
      ∀ off ty msg wl, it = .field off ty msg wl → 4 ≤ wl ∧ off + wl ≤ buffer.length := by
  intro it hit
  have h := stream_ok buffer cutoff minSize ver it hit
  cases it with
  | err e => exact ⟨by simp, by simp, by intro _ _ _ _ h; cases h⟩
  | panic => exact absurd h (by simp [ItemOK])
  | fuel => exact absurd h (by simp [ItemOK])
  | field off ty msg wl =>
    refine ⟨by simp, by simp, ?_⟩
    intro off' ty' msg' wl' e
    cases e
    obtain ⟨hw, hb, _⟩ := h
    refine ⟨?_, hb⟩
    unfold wireLength at hw
    simp only at hw
    split at hw
    · cases hw
    · cases hw; have := nm4_ge (2 + 2 + msg.length); omega

/-! #### non-vacuity: the three outcome classes all occur -/

/-- a bare NTPv4 client header -/
def hdr4 : Bytes := 0x23 :: List.replicate 47 0

example : (match parse (fun _ _ _ _ => none) .noCipher hdr4 with | .ok _ none => true | _ => false) = true := by
  decide

/-- a sealed NTPv4 packet: header, unique-identifier field, authenticator with a 20-byte nonce (the F-C23
    witness shape), under an oracle that knows exactly this encryption -/
def uidField : Bytes := [0x01, 0x04, 0x00, 0x24] ++ List.replicate 32 0x55
def nonce20 : Bytes := List.replicate 20 0xA7
def tag16 : Bytes := List.replicate 16 0x11
def encField : Bytes := [0x04, 0x04, 0x00, 0x2C, 0x00, 0x14, 0x00, 0x10] ++ nonce20 ++ tag16
def sealedPacket : Bytes := hdr4 ++ uidField ++ encField
def table : Table := [{ key := [3], nonce := nonce20, aad := hdr4 ++ uidField, ct := tag16, pt := [] }]

example : (match parse table.decrypt (.key [3]) sealedPacket with
    | .ok p none => p.ef.authenticated.length == 1 && p.ef.untrusted.length == 0
    | _ => false) = true := by decide +kernel
/-- without the key the same bytes are a decrypt error carrying the packet -/
example : (match parse table.decrypt (.key [4]) sealedPacket with | .decryptErr _ => true | _ => false) = true := by
  decide +kernel

example : parse (fun _ _ _ _ => none) .noCipher [0x23] = .err .incorrectLength := by decide
example : parse (fun _ _ _ _ => none) .noCipher (0x3b :: List.replicate 47 0) = .err (.invalidVersion 7) := by
  decide

end NtpVerif.C23

#print axioms NtpVerif.C23.never_panics
#print axioms NtpVerif.C23.total
#print axioms NtpVerif.C23.streamer_advances
