/-
C38 — The observation channel delivers what was published.

  "Any observable state the daemon writes to its observation socket is read back by the control tool and
   the metrics exporter with every field equal (durations to within one part per billion plus one 2^-32 s
   unit), and messages announcing more than 1 MiB are rejected before any payload is read."

Model: `NtpVerif.Model.Framing` — `write_json` / `read_json` of ntpd/src/daemon/sockets.rs as functions on
byte lists (8-byte big-endian length, then the payload); serde_json is external: the payload is opaque and
its acceptance by the JSON parser an arbitrary predicate `validJson`.

  framing_roundtrip        what `write_json` puts on the stream for a payload of ≤ 1 MiB that the parser
                           accepts is read back by `read_json` as exactly that payload, consuming exactly
                           the frame (whatever follows on the stream)
  reject_large             a stream whose first 8 bytes announce more than 2^20 is rejected with "message too
                           large" after exactly 8 bytes, the buffer untouched (length 0: nothing allocated)
  written_large_rejected   in particular a written message with a payload above 1 MiB
  limit_is_inclusive       exactly 2^20 bytes are accepted
  consumed_le_frame        `read_json` never takes more than the announced frame from the stream
  be64_roundtrip           the length prefix decodes to the length

"Every field equal" is a statement about serde / serde_json (external): it is not proved; it is explored by
streams c38_values (finite f64 identity, durations vs the model's from_seconds ∘ to_seconds, u64 identity) and
c38_state (whole states field by field).  `partial_note` in props/C38.json.
-/
import NtpVerif.Model.Framing

namespace NtpVerif.C38
open NtpVerif NtpVerif.Framing

theorem be64_length (n : Nat) : (be64 n).length = 8 := rfl

/-- **C38.be64_roundtrip** -/
theorem be64_roundtrip (n : Nat) (h : n < 2 ^ 64) : ofBe (be64 n) = n := by
  have e : ∀ k : Nat, (UInt8.ofNat k).toNat = k % 256 := fun k => by simp
  unfold be64 ofBe
  simp only [List.foldl_cons, List.foldl_nil, e, Nat.reducePow] at *
  have d2 : n / 65536 = n / 256 / 256 := by rw [Nat.div_div_eq_div_mul]
  have d3 : n / 16777216 = n / 256 / 256 / 256 := by simp only [Nat.div_div_eq_div_mul]
  have d4 : n / 4294967296 = n / 256 / 256 / 256 / 256 := by simp only [Nat.div_div_eq_div_mul]
  have d5 : n / 1099511627776 = n / 256 / 256 / 256 / 256 / 256 := by simp only [Nat.div_div_eq_div_mul]
  have d6 : n / 281474976710656 = n / 256 / 256 / 256 / 256 / 256 / 256 := by
    simp only [Nat.div_div_eq_div_mul]
  have d7 : n / 72057594037927936 = n / 256 / 256 / 256 / 256 / 256 / 256 / 256 := by
    simp only [Nat.div_div_eq_div_mul]
  rw [d2, d3, d4, d5, d6, d7]
  omega

theorem take8_write (payload rest : List UInt8) :
    (writeFrame payload ++ rest).take 8 = be64 payload.length := by
  simp [writeFrame, be64]

theorem drop8_write (payload rest : List UInt8) :
    (writeFrame payload ++ rest).drop 8 = payload ++ rest := by
  simp [writeFrame, be64]

theorem max_size_val : MAX_SIZE = 1048576 := by decide

/-- **C38.framing_roundtrip** -/
theorem framing_roundtrip (validJson : List UInt8 → Bool) (payload rest : List UInt8)
    (hlen : payload.length ≤ MAX_SIZE) (hjson : validJson payload = true) :
    readFrame validJson (writeFrame payload ++ rest) =
      ⟨.ok payload, 8 + payload.length, payload.length⟩ := by
  have h64 : payload.length < 2 ^ 64 := by rw [max_size_val] at hlen; omega
  unfold readFrame
  have hl : ¬ (writeFrame payload ++ rest).length < 8 := by
    simp [writeFrame, be64_length]
  simp only [hl, if_false, take8_write, drop8_write, be64_roundtrip _ h64]
  have h2 : ¬ payload.length > MAX_SIZE := by omega
  have h3 : ¬ (payload ++ rest).length < payload.length := by simp
  simp only [h2, h3, if_false, List.take_left', hjson, if_true]

/-- **C38.reject_large** -/
theorem reject_large (validJson : List UInt8 → Bool) (stream : List UInt8) (h8 : 8 ≤ stream.length)
    (hbig : ofBe (stream.take 8) > MAX_SIZE) :
    readFrame validJson stream = ⟨.error .tooLarge, 8, 0⟩ := by
  unfold readFrame
  have hl : ¬ stream.length < 8 := by omega
  simp only [hl, if_false, hbig, if_true]

/-- **C38.written_large_rejected** -/
theorem written_large_rejected (validJson : List UInt8 → Bool) (payload rest : List UInt8)
    (hbig : payload.length > MAX_SIZE) (h64 : payload.length < 2 ^ 64) :
    readFrame validJson (writeFrame payload ++ rest) = ⟨.error .tooLarge, 8, 0⟩ := by
  apply reject_large
  · simp [writeFrame, be64_length]
  · rw [take8_write, be64_roundtrip _ h64]; exact hbig

/-- **C38.limit_is_inclusive** — a frame announcing exactly 2^20 bytes is not rejected for its size -/
theorem limit_is_inclusive (validJson : List UInt8 → Bool) (payload rest : List UInt8)
    (hlen : payload.length = MAX_SIZE) (hjson : validJson payload = true) :
    (readFrame validJson (writeFrame payload ++ rest)).result = .ok payload := by
  rw [framing_roundtrip validJson payload rest (by omega) hjson]

/-- **C38.consumed_le_frame** -/
theorem consumed_le_frame (validJson : List UInt8 → Bool) (stream : List UInt8) (h8 : 8 ≤ stream.length) :
    (readFrame validJson stream).consumed ≤ 8 + ofBe (stream.take 8) ∧
    (readFrame validJson stream).consumed ≤ stream.length := by
  unfold readFrame
  have hl : ¬ stream.length < 8 := by omega
  simp only [hl, if_false]
  split
  · simp; omega
  · split
    · rename_i hshort
      simp only [List.length_drop] at hshort
      simp; omega
    · rename_i hshort
      simp only [List.length_drop] at hshort
      split <;> simp <;> omega

end NtpVerif.C38

#print axioms NtpVerif.C38.be64_roundtrip
#print axioms NtpVerif.C38.framing_roundtrip
#print axioms NtpVerif.C38.reject_large
#print axioms NtpVerif.C38.written_large_rejected
#print axioms NtpVerif.C38.limit_is_inclusive
#print axioms NtpVerif.C38.consumed_le_frame
