/-
C06 — "Clock filter output stays finite and well-formed"  (PARTIAL by nature, DESIGN §4.1 C06)

Property theorems only (helper lemmas: `NtpVerif.Proofs.KalmanExact`).
Models: `NtpVerif.Model.Kalman2` (generic 2×2 Kalman kernel = `KalmanState::{progress_time,
absorb_measurement, merge, add_server_dispersion}` + `matrix.rs`), `NtpVerif.Model.SourceFilter`
(`SourceFilter::update`, `SourceState`, `AveragingBuffer`, `SourceSnapshot::observe`, `from_seconds`).

What is proved, and in which arithmetic (each theorem says so in its docstring):

  EXACT ARITHMETIC (any linearly ordered field `α`; the same generic kernel that runs bit-exactly at F64):
    progress_keeps_psd             progress_time (Δt ≥ 0, wander ≥ 0): symmetric PSD ↦ symmetric PSD
    innovation_variance_positive   Δt > 0 ∧ wander > 0 ∧ R ≥ 0 ⇒ the innovation variance P₀₀ + R > 0
                                   (so `1/S` in absorb_measurement is defined)
    absorb_keeps_psd               absorb_measurement incl. `symmetrize`: symmetric PSD ↦ symmetric PSD
    absorb_always_symmetric        `symmetrize` yields a symmetric matrix whatever the input
    weight_in_unit_interval        0 ≤ weight ≤ 1
    history_keeps_psd              EVERY history of (Δt > 0, wander > 0, R ≥ 0, value) update steps of a
                                   stable filter keeps the covariance symmetric PSD — in particular the
                                   reported variance P₀₀ ≥ 0 and every innovation variance > 0
    add_server_dispersion_keeps_psd, merge_keeps_psd
    root_dispersion_poly_nonneg    P₀₀ + t·P₀₁ + t²·P₁₁ + t³·w ≥ 0 (argument of the square root that
                                   becomes the clock's error estimate)
  ORDER-ONLY (F64 itself, arithmetic uninterpreted):
    from_seconds_total_on_finite   `NtpDuration::from_seconds` panics exactly on NaN/±∞
    observe_ok_iff_finite          `SourceSnapshot::observe` succeeds iff offset, √variance and delay are
                                   not NaN/±∞ (this is what the oracle monitors on the implementation)

`Full` (finiteness of the ROUNDED binary64 filter over every admissible history) is stated and NOT
proved: rounded binary64 arithmetic over unbounded histories is exercised (bit-exact correspondence +
finiteness oracle), not proved.
-/
import NtpVerif.Proofs.KalmanExact
import NtpVerif.Model.SourceFilter

namespace NtpVerif.C06
open NtpVerif.Kalman2 NtpVerif.SourceFilter

section exact
variable {α : Type} [Field α] [LinearOrder α] [IsStrictOrderedRing α]

/-- **progress_keeps_psd** (exact arithmetic) -/
theorem progress_keeps_psd (s : KState α) (dt w : α) (hP : PSD s.P) (hdt : 0 ≤ dt) (hw : 0 ≤ w) :
    PSD (progressCore s dt w).P := progress_psd s dt w hP hdt hw

/-- **innovation_variance_positive** (exact arithmetic): progressing a PSD state by `Δt > 0` with
    `wander > 0` and then measuring with noise `R ≥ 0` gives innovation variance `S > 0`. -/
theorem innovation_variance_positive (s : KState α) (dt w z r : α) (hP : PSD s.P) (hdt : 0 < dt)
    (hw : 0 < w) (hr : 0 ≤ r) :
    0 < (absorbCore (progressCore s dt w) 1 0 z r).innov := by
  rw [(absorbCore_10 _ z r).1]
  have := progress_var_pos s dt w hP hdt hw
  linarith

/-- **absorb_keeps_psd** (exact arithmetic; measurement row `(1 0)` as used by `SourceFilter`) -/
theorem absorb_keeps_psd (s : KState α) (z r : α) (hP : PSD s.P) (hr : 0 ≤ r) (hS : 0 < s.P.a00 + r) :
    PSD (absorbCore s 1 0 z r).st.P := absorb_psd s z r hP hr hS

/-- **absorb_always_symmetric** (exact arithmetic; any measurement row, any input) -/
theorem absorb_always_symmetric (s : KState α) (h0 h1 z r : α) :
    (absorbCore s h0 h1 z r).st.P.a01 = (absorbCore s h0 h1 z r).st.P.a10 := absorb_symmetric s h0 h1 z r

/-- **weight_in_unit_interval** (exact arithmetic) -/
theorem weight_in_unit_interval (s : KState α) (z r : α) (hP : PSD s.P) (hr : 0 ≤ r)
    (hS : 0 < s.P.a00 + r) :
    0 ≤ (absorbCore s 1 0 z r).weight ∧ (absorbCore s 1 0 z r).weight ≤ 1 :=
  absorb_weight_unit s z r hP hr hS

/-- one stable-filter update in exact arithmetic: `progress_filtertime` then `absorb_measurement` -/
structure Step (α : Type) where
  dt : α
  wander : α
  z : α
  r : α

def filterStep (s : KState α) (st : Step α) : KState α :=
  (absorbCore (progressCore s st.dt st.wander) 1 0 st.z st.r).st

/-- the states visited along a history -/
def runExact (s : KState α) : List (Step α) → List (KState α)
  | [] => []
  | st :: rest => filterStep s st :: runExact (filterStep s st) rest

/-- **history_keeps_psd** (exact arithmetic) — for EVERY history of update steps with `Δt > 0`,
    `wander > 0` (wander only ever changes by factors 4 and 1/4, so it stays positive) and noise `R ≥ 0`,
    starting from a symmetric PSD covariance, every visited covariance is symmetric PSD; in particular the
    variance the filter reports is `≥ 0`. -/
theorem history_keeps_psd (s : KState α) (hP : PSD s.P) (hist : List (Step α))
    (hh : ∀ st ∈ hist, 0 < st.dt ∧ 0 < st.wander ∧ 0 ≤ st.r) :
    ∀ s' ∈ runExact s hist, PSD s'.P ∧ 0 ≤ s'.P.a00 := by
  induction hist generalizing s with
  | nil => intro s' h; cases h
  | cons st rest ih =>
    obtain ⟨hdt, hw, hr⟩ := hh st (List.mem_cons_self ..)
    have hp := progress_psd s st.dt st.wander hP hdt.le hw.le
    have hpos := progress_var_pos s st.dt st.wander hP hdt hw
    have hstep : PSD (filterStep s st).P :=
      absorb_psd _ st.z st.r hp hr (by linarith)
    intro s' hs'
    simp only [runExact, List.mem_cons] at hs'
    rcases hs' with rfl | hs'
    · exact ⟨hstep, hstep.2.1⟩
    · exact ih _ hstep (fun st' h' => hh st' (List.mem_cons_of_mem _ h')) s' hs'

/-- **add_server_dispersion_keeps_psd** (exact arithmetic) -/
theorem add_server_dispersion_keeps_psd (s : KState α) (d : α) (hP : PSD s.P) :
    PSD (addServerDispersion s d).P := addServerDispersion_psd s d hP

/-- **merge_keeps_psd** (exact arithmetic): PSD inputs whose sum has positive determinant (e.g. positive
    definite inputs) -/
theorem merge_keeps_psd (s o : KState α) (hs : PSD s.P) (ho : PSD o.P) (hD : 0 < (s.P.add o.P).det) :
    PSD (merge s o).P := merge_psd s o hs ho hD

/-- **root_dispersion_poly_nonneg** (exact arithmetic) -/
theorem root_dispersion_poly_nonneg (P : Mat2 α) (w t : α) (hP : PSD P) (ht : 0 ≤ t) (hw : 0 ≤ w) :
    0 ≤ dispersionPoly P w t := dispersionPoly_nonneg P w t hP ht hw

end exact

/-! ### order-only facts about the executable F64 model -/

/-- **from_seconds_total_on_finite** (F64, order-only): `NtpDuration::from_seconds` hits its
    `debug_assert!` exactly on NaN and ±∞. -/
theorem from_seconds_total_on_finite (x : F64) :
    (durFromSeconds x).isSome = (!x.isNaN && !x.isInf) := by
  unfold durFromSeconds
  cases hn : x.isNaN <;> cases hi : x.isInf <;> simp only [Bool.or_false, Bool.or_true, Bool.false_or,
    if_true, Bool.false_eq_true, if_false, Option.isSome_none, Bool.not_true, Bool.not_false,
    Bool.and_self, Bool.and_false, Bool.false_and]
  split
  · rfl
  · split <;> rfl

/-- **observe_ok_iff_finite** (F64, order-only): `SourceSnapshot::observe` returns (does not panic) iff
    the offset, the square root of the offset variance and the delay are neither NaN nor ±∞. -/
theorem observe_ok_iff_finite (sn : Snapshot) :
    sn.observe.isSome =
      ((!sn.k.s.x.x0.isNaN && !sn.k.s.x.x0.isInf) &&
       (!sn.k.s.P.a00.sqrt.isNaN && !sn.k.s.P.a00.sqrt.isInf) &&
       (!sn.delay.isNaN && !sn.delay.isInf)) := by
  have h1 := from_seconds_total_on_finite sn.k.s.x.x0
  have h2 := from_seconds_total_on_finite sn.k.s.P.a00.sqrt
  have h3 := from_seconds_total_on_finite sn.delay
  unfold Snapshot.observe
  rw [← h1, ← h2, ← h3]
  cases durFromSeconds sn.k.s.x.x0 <;> cases durFromSeconds sn.k.s.P.a00.sqrt <;>
    cases durFromSeconds sn.delay <;> rfl

/-! ### the full statement (NOT proved: rounding) -/

/-- a snapshot is well-formed: finite offset, finite non-negative variance, finite delay, `observe` ok -/
def WellFormed (sn : Snapshot) : Prop :=
  sn.k.s.x.x0.isFinite = true ∧ sn.k.s.P.a00.isFinite = true ∧ F64.le F64.zero sn.k.s.P.a00 = true ∧
  sn.delay.isFinite = true ∧ sn.observe.isSome = true

/-- feed a history of `(monotonic advance in ns, measurement)` to the F64 model, collecting snapshots;
    a modelled panic ends the run with `none` -/
def runF64 (sc : SrcCfg) (ac : AlgoCfg) (st : SState) (now : Nat) :
    List (Nat × Meas) → List (Option Snapshot)
  | [] => []
  | (adv, m) :: rest =>
    match st.update sc ac m (now + adv) with
    | none => [none]
    | some (st', _) => st'.snapshot ac :: runF64 sc ac st' (now + adv) rest

/-- admissible histories (the quantifier of the property): local times strictly increasing, spaced
    between 1 ms and 2¹⁷ s (in 2⁻³² s ticks), monotonic time advancing in step (no meddling),
    delays non-negative -/
def Admissible : Nat → List (Nat × Meas) → Prop
  | _, [] => True
  | t, (adv, m) :: rest =>
    4294967 ≤ tsSub m.localtime t ∧ tsSub m.localtime t ≤ 562949953421312 ∧
    adv = (tsSub m.localtime t).toNat * 1000000000 / 4294967296 ∧ 0 ≤ m.delay ∧
    Admissible m.localtime rest

/-- **Full** — the property itself on the rounded binary64 model, for the default algorithm
    configuration thresholds and any poll limits: every snapshot along every admissible history is
    well-formed and no step panics.  NOT PROVED (no rounding-error analysis of unbounded Kalman histories);
    exercised by the `c06_filter` stream and its oracle on every run. -/
def Full : Prop :=
  ∀ (sc : SrcCfg) (ac : AlgoCfg) (t0 : Nat) (hist : List (Nat × Meas)),
    Admissible t0 hist →
    ∀ o ∈ runF64 sc ac SState.new 0 hist, ∀ sn, o = some sn → WellFormed sn

/-! ### non-vacuity -/

/-- a concrete non-trivial PSD covariance over ℚ-like fields: `[[4, -1], [-1, 1]]` satisfies the
    hypotheses, and one exact update step with `Δt = 2`, `wander = 1`, `R = 3` keeps it PSD with the
    innovation variance equal to `4 + 2·(-1)·2 + 4·1 + 8/3 + 3 = 29/3` -/
example : PSD ({ a00 := 4, a01 := -1, a10 := -1, a11 := 1 } : Mat2 Rat) := by
  refine ⟨rfl, ?_, ?_, ?_⟩ <;> norm_num

example : (absorbCore (progressCore (⟨⟨0, 0⟩, ⟨4, -1, -1, 1⟩⟩ : KState Rat) 2 1) 1 0 5 3).innov = 29 / 3 := by
  norm_num [absorbCore, progressCore, Mat2.mul, Mat2.add, Mat2.transpose, processNoise, sum2, sum1]

/-- the weight for that step: `1 − 3 / (29/3) = 20/29 ∈ [0, 1]` -/
example : (absorbCore (progressCore (⟨⟨0, 0⟩, ⟨4, -1, -1, 1⟩⟩ : KState Rat) 2 1) 1 0 5 3).weight = 20 / 29 := by
  norm_num [absorbCore, progressCore, Mat2.mul, Mat2.add, Mat2.transpose, processNoise, sum2, sum1]

/-- the hypothesis `S > 0` of `absorb_keeps_psd` is needed: with `P = 0` and `R = 0` the exact update
    divides by zero (in a field `1/0 = 0`; in binary64 this is the NaN the finiteness oracle looks for) -/
example : (absorbCore (⟨⟨0, 0⟩, ⟨0, 0, 0, 0⟩⟩ : KState Rat) 1 0 5 0).innov = 0 := by
  norm_num [absorbCore, sum2, sum1]

/-- order-only: `from_seconds` accepts 1.0 and rejects NaN and +∞ -/
example : (durFromSeconds F64.nan).isSome = false ∧ (durFromSeconds F64.inf).isSome = false := by
  constructor <;> rfl

end NtpVerif.C06

#print axioms NtpVerif.C06.progress_keeps_psd
#print axioms NtpVerif.C06.innovation_variance_positive
#print axioms NtpVerif.C06.absorb_keeps_psd
#print axioms NtpVerif.C06.absorb_always_symmetric
#print axioms NtpVerif.C06.weight_in_unit_interval
#print axioms NtpVerif.C06.history_keeps_psd
#print axioms NtpVerif.C06.add_server_dispersion_keeps_psd
#print axioms NtpVerif.C06.merge_keeps_psd
#print axioms NtpVerif.C06.root_dispersion_poly_nonneg
#print axioms NtpVerif.C06.from_seconds_total_on_finite
#print axioms NtpVerif.C06.observe_ok_iff_finite
