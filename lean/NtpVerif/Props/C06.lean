/-
C06 — "Clock filter output stays finite and well-formed"  (PARTIAL by nature, DESIGN §4.1 C06)

Property theorems only (helper lemmas: `NtpVerif.Proofs.KalmanExact`).
Models: `NtpVerif.Model.Kalman2` (generic 2×2 Kalman kernel = `KalmanState::{progress_time,
absorb_measurement, merge, add_server_dispersion}` + `matrix.rs`), `NtpVerif.Model.SourceFilter`
(`SourceFilter::update`, `SourceState`, `AveragingBuffer`, `SourceSnapshot::observe`, `from_seconds`).

What is proved, and in which arithmetic (each theorem says so in its docstring):

  EXACT ARITHMETIC (any linearly ordered field `α`; the same generic kernel that runs bit-exactly at F64):
    progress_keeps_psd             progress_time (Δt ≥ 0, wander ≥ 0): symmetric PSD ↦ symmetric PSD
    innovation_variance_positive   Δt > 0 ∧ wander > 0 ∧ R ≥ 0 ⇒ the innovation variance P₀₀ + R > 0
                                   (so `1/S` in absorb_measurement is defined)
    absorb_keeps_psd               absorb_measurement incl. `symmetrize`: symmetric PSD ↦ symmetric PSD
    absorb_keeps_psd_general       the same for EVERY measurement row (h0 h1) (S = h P hᵀ + R > 0)
    absorb_always_symmetric        `symmetrize` yields a symmetric matrix whatever the input
    weight_in_unit_interval        0 ≤ weight ≤ 1
    history_keeps_psd              EVERY history of (Δt > 0, wander > 0, R ≥ 0, value) update steps of a
                                   stable filter keeps the covariance symmetric PSD — in particular the
                                   reported variance P₀₀ ≥ 0 and every innovation variance > 0
    add_server_dispersion_keeps_psd, merge_keeps_psd
    root_dispersion_poly_nonneg    P₀₀ + t·P₀₁ + t²·P₁₁ + t³·w ≥ 0 (argument of the square root that
                                   becomes the clock's error estimate)
  ORDER-ONLY (F64 itself, arithmetic uninterpreted):
    filter_history_no_panic        two-way filter: over EVERY history of measurements/Step/FreqChange from the
                                   initial state no panic site is reached (precision_score/poll_score/inc/dec
                                   overflows are unreachable) except from_seconds on a non-finite steering value
    periodic_history_no_panic      the same for one-way/periodic sources (plus: a spent loop budget, F-C06e)
    filter_measurements_never_panic  corollary: measurement-only histories never panic
    from_seconds_total_on_finite   `NtpDuration::from_seconds` panics exactly on NaN/±∞
    observe_ok_iff_finite          `SourceSnapshot::observe` succeeds iff offset, √variance and delay are
                                   not NaN/±∞ (this is what the oracle monitors on the implementation)

  PERIODIC one-way sources (PPS/sock, `period = Some p`; Model/SourceFilter Part 4, loops with a budget):
    periodic_innovation_in_half_period   exact: when the correction returns, −p/2 ≤ z' − prediction ≤ p/2 (p > 0)
    periodic_wrap_fuel_sufficient        exact: a budget of n iterations suffices when |z − prediction| ≤ p/2 + n·p
    periodic_cov_unaffected              exact: the wrap changes only the mean — PSD is preserved whatever the
                                         wrapped state mean and the wrapped measurement are
    periodic_innovation_exit_f64         F64, order-only: on return the lower test is false on the result and the
                                         upper test was false on the value the second loop started from
    periodic_state_exit_f64              F64: `correct_periodicity` leaves covariance and time untouched bit for
                                         bit; exit facts for the offset
    periodic_nan_terminates              F64: a NaN offset leaves both loops at once (any budget ≥ 0)
    periodic_update_no_panic             F64: a stable one-way filter's update reaches no panic site (i32 score
                                         overflow is the only one) under the score invariants; the remaining
                                         abort is `observe` on a non-finite state, i.e. the registered causes
    (a ±∞ or astronomically large offset never leaves the real loop: shown on the real code by stream
     c06_periodic with a bounded-time guard; known finding F-C06e)

`Full` (finiteness of the ROUNDED binary64 filter over every admissible history) is stated and NOT
proved: rounded binary64 arithmetic over unbounded histories is exercised (bit-exact correspondence +
finiteness oracle), not proved.
-/
import NtpVerif.Proofs.KalmanExact
import NtpVerif.Proofs.KalmanPeriodic
import NtpVerif.Proofs.SourceFilterPeriodic
import NtpVerif.Proofs.SourceFilterHistory
import NtpVerif.Model.SourceFilter

namespace NtpVerif.C06
open NtpVerif.Kalman2 NtpVerif.SourceFilter

section exact
variable {α : Type} [Field α] [LinearOrder α] [IsStrictOrderedRing α]

/-- **progress_keeps_psd** (exact arithmetic) -/
theorem progress_keeps_psd (s : KState α) (dt w : α) (hP : PSD s.P) (hdt : 0 ≤ dt) (hw : 0 ≤ w) :
    PSD (progressCore s dt w).P := progress_psd s dt w hP hdt hw

/-- **innovation_variance_positive** (exact arithmetic): progressing a PSD state by `Δt > 0` with
    `wander > 0` and then measuring with noise `R ≥ 0` gives innovation variance `S > 0`. -/
theorem innovation_variance_positive (s : KState α) (dt w z r : α) (hP : PSD s.P) (hdt : 0 < dt)
    (hw : 0 < w) (hr : 0 ≤ r) :
    0 < (absorbCore (progressCore s dt w) 1 0 z r).innov := by
  rw [(absorbCore_10 _ z r).1]
  have := progress_var_pos s dt w hP hdt hw
  linarith

/-- **absorb_keeps_psd** (exact arithmetic; measurement row `(1 0)` as used by `SourceFilter`) -/
theorem absorb_keeps_psd (s : KState α) (z r : α) (hP : PSD s.P) (hr : 0 ≤ r) (hS : 0 < s.P.a00 + r) :
    PSD (absorbCore s 1 0 z r).st.P := absorb_psd s z r hP hr hS

/-- **absorb_always_symmetric** (exact arithmetic; any measurement row, any input) -/
theorem absorb_always_symmetric (s : KState α) (h0 h1 z r : α) :
    (absorbCore s h0 h1 z r).st.P.a01 = (absorbCore s h0 h1 z r).st.P.a10 := absorb_symmetric s h0 h1 z r

/-- **weight_in_unit_interval** (exact arithmetic) -/
theorem weight_in_unit_interval (s : KState α) (z r : α) (hP : PSD s.P) (hr : 0 ≤ r)
    (hS : 0 < s.P.a00 + r) :
    0 ≤ (absorbCore s 1 0 z r).weight ∧ (absorbCore s 1 0 z r).weight ≤ 1 :=
  absorb_weight_unit s z r hP hr hS

/-- **absorb_keeps_psd_general** (exact arithmetic): `absorb_measurement` with EVERY measurement row
    `(h0 h1)` (incl. `symmetrize`) maps symmetric PSD to symmetric PSD when `R ≥ 0` and the innovation variance
    `S = h P hᵀ + R > 0`; moreover `det P' = det P · R / S`. -/
theorem absorb_keeps_psd_general (s : KState α) (h0 h1 z r : α) (hP : PSD s.P) (hr : 0 ≤ r)
    (hS : 0 < innovGen s.P h0 h1 r) : PSD (absorbCore s h0 h1 z r).st.P :=
  absorb_psd_general s h0 h1 z r hP hr hS

/-- one stable-filter update in exact arithmetic: `progress_filtertime` then `absorb_measurement` -/
structure Step (α : Type) where
  dt : α
  wander : α
  z : α
  r : α

def filterStep (s : KState α) (st : Step α) : KState α :=
  (absorbCore (progressCore s st.dt st.wander) 1 0 st.z st.r).st

/-- the states visited along a history -/
def runExact (s : KState α) : List (Step α) → List (KState α)
  | [] => []
  | st :: rest => filterStep s st :: runExact (filterStep s st) rest

/-- **history_keeps_psd** (exact arithmetic) — for EVERY history of update steps with `Δt > 0`,
    `wander > 0` (wander only ever changes by factors 4 and 1/4, so it stays positive) and noise `R ≥ 0`,
    starting from a symmetric PSD covariance, every visited covariance is symmetric PSD; in particular the
    variance the filter reports is `≥ 0`. -/
theorem history_keeps_psd (s : KState α) (hP : PSD s.P) (hist : List (Step α))
    (hh : ∀ st ∈ hist, 0 < st.dt ∧ 0 < st.wander ∧ 0 ≤ st.r) :
    ∀ s' ∈ runExact s hist, PSD s'.P ∧ 0 ≤ s'.P.a00 := by
  induction hist generalizing s with
  | nil => intro s' h; cases h
  | cons st rest ih =>
    obtain ⟨hdt, hw, hr⟩ := hh st (List.mem_cons_self ..)
    have hp := progress_psd s st.dt st.wander hP hdt.le hw.le
    have hpos := progress_var_pos s st.dt st.wander hP hdt hw
    have hstep : PSD (filterStep s st).P :=
      absorb_psd _ st.z st.r hp hr (by linarith)
    intro s' hs'
    simp only [runExact, List.mem_cons] at hs'
    rcases hs' with rfl | hs'
    · exact ⟨hstep, hstep.2.1⟩
    · exact ih _ hstep (fun st' h' => hh st' (List.mem_cons_of_mem _ h')) s' hs'

/-- **add_server_dispersion_keeps_psd** (exact arithmetic) -/
theorem add_server_dispersion_keeps_psd (s : KState α) (d : α) (hP : PSD s.P) :
    PSD (addServerDispersion s d).P := addServerDispersion_psd s d hP

/-- **merge_keeps_psd** (exact arithmetic): PSD inputs whose sum has positive determinant (e.g. positive
    definite inputs) -/
theorem merge_keeps_psd (s o : KState α) (hs : PSD s.P) (ho : PSD o.P) (hD : 0 < (s.P.add o.P).det) :
    PSD (merge s o).P := merge_psd s o hs ho hD

/-- **root_dispersion_poly_nonneg** (exact arithmetic) -/
theorem root_dispersion_poly_nonneg (P : Mat2 α) (w t : α) (hP : PSD P) (ht : 0 ≤ t) (hw : 0 ≤ w) :
    0 ≤ dispersionPoly P w t := dispersionPoly_nonneg P w t hP ht hw

end exact

/-! ### order-only facts about the executable F64 model -/

/-- **from_seconds_total_on_finite** (F64, order-only): `NtpDuration::from_seconds` hits its
    `debug_assert!` exactly on NaN and ±∞. -/
theorem from_seconds_total_on_finite (x : F64) :
    (durFromSeconds x).isSome = (!x.isNaN && !x.isInf) := by
  unfold durFromSeconds
  cases hn : x.isNaN <;> cases hi : x.isInf <;> simp only [Bool.or_false, Bool.or_true, Bool.false_or,
    if_true, Bool.false_eq_true, if_false, Option.isSome_none, Bool.not_true, Bool.not_false,
    Bool.and_self, Bool.and_false, Bool.false_and]
  split
  · rfl
  · split <;> rfl

/-- **observe_ok_iff_finite** (F64, order-only): `SourceSnapshot::observe` returns (does not panic) iff
    the offset, the square root of the offset variance and the delay are neither NaN nor ±∞. -/
theorem observe_ok_iff_finite (sn : Snapshot) :
    sn.observe.isSome =
      ((!sn.k.s.x.x0.isNaN && !sn.k.s.x.x0.isInf) &&
       (!sn.k.s.P.a00.sqrt.isNaN && !sn.k.s.P.a00.sqrt.isInf) &&
       (!sn.delay.isNaN && !sn.delay.isInf)) := by
  have h1 := from_seconds_total_on_finite sn.k.s.x.x0
  have h2 := from_seconds_total_on_finite sn.k.s.P.a00.sqrt
  have h3 := from_seconds_total_on_finite sn.delay
  unfold Snapshot.observe
  rw [← h1, ← h2, ← h3]
  cases durFromSeconds sn.k.s.x.x0 <;> cases durFromSeconds sn.k.s.P.a00.sqrt <;>
    cases durFromSeconds sn.delay <;> rfl

/-! ### periodic one-way sources -/

section periodic_exact
variable {α : Type} [Field α] [LinearOrder α] [IsStrictOrderedRing α]

/-- **periodic_innovation_in_half_period** (exact arithmetic): whenever the measurement correction of
    `absorb_measurement` returns, the wrapped innovation lies in `[−p/2, p/2]` (`p > 0`). -/
theorem periodic_innovation_in_half_period (p : α) (hp : 0 < p) (fuel : Nat) (z pred z' : α)
    (h : wrapValue fieldGt fieldLt fuel z pred p = some z') : -p / 2 ≤ z' - pred ∧ z' - pred ≤ p / 2 :=
  wrapValue_range p hp fuel z pred z' h

/-- **periodic_wrap_fuel_sufficient** (exact arithmetic) — fuel-sufficiency lemma: a budget of `n`
    iterations per loop suffices whenever the measured value is at most `n` periods (plus half a period)
    away from the prediction, and then the wrapped innovation lies in `[−p/2, p/2]`. -/
theorem periodic_wrap_fuel_sufficient (p : α) (hp : 0 < p) (n : Nat) (z pred : α)
    (hdist : |z - pred| ≤ p / 2 + n * p) :
    ∃ z', wrapValue fieldGt fieldLt n z pred p = some z' ∧ -p / 2 ≤ z' - pred ∧ z' - pred ≤ p / 2 :=
  wrapValue_exact p hp n z pred hdist

/-- **periodic_cov_unaffected** (exact arithmetic): the periodicity handling changes only the mean.  Take
    the progressed state, replace its mean by ANY vector (the wrapped one) and absorb ANY value (the wrapped
    measurement): the covariance is the one of the non-periodic filter, hence symmetric PSD. -/
theorem periodic_cov_unaffected (s : KState α) (dt w r : α) (xw : Vec2 α) (zw z : α) (hP : PSD s.P)
    (hdt : 0 < dt) (hw : 0 < w) (hr : 0 ≤ r) :
    (absorbCore { x := xw, P := (progressCore s dt w).P } 1 0 zw r).st.P
        = (absorbCore (progressCore s dt w) 1 0 z r).st.P ∧
    PSD (absorbCore { x := xw, P := (progressCore s dt w).P } 1 0 zw r).st.P := by
  have hp := progress_psd s dt w hP hdt.le hw.le
  have hpos := progress_var_pos s dt w hP hdt hw
  refine ⟨rfl, ?_⟩
  exact absorb_psd { x := xw, P := (progressCore s dt w).P } zw r hp hr (by show 0 < _ + r; linarith)

end periodic_exact

/-- **periodic_innovation_exit_f64** (F64, order-only, given that the budgeted loops returned): the lower
    test `z' − prediction < −p/2` is false on the result; the upper test was false on the value `mid` the
    second loop started from, and if that loop had nothing to do the result is `mid`. -/
theorem periodic_innovation_exit_f64 (fuel : Nat) (z pred p z' : F64)
    (h : wrapValue fgt flt fuel z pred p = some z') :
    flt (z' - pred) (-p / (2 : F64)) = false ∧
    ∃ mid, fgt (mid - pred) (p / (2 : F64)) = false ∧
      (flt (mid - pred) (-p / (2 : F64)) = false → z' = mid) :=
  wrapValue_exit fgt flt fuel z pred p z' h

/-- **periodic_state_exit_f64** (F64): `correct_periodicity` touches neither covariance nor time stamp
    (bit for bit), and on return the lower test is false on the offset. -/
theorem periodic_state_exit_f64 (fuel : Nat) (k k' : KT) (p : F64)
    (h : correctPeriodicity fuel k (some p) = .ok k') :
    k'.s.P = k.s.P ∧ k'.time = k.time ∧ flt k'.s.x.x0 (-p / (2 : F64)) = false := by
  unfold correctPeriodicity at h
  simp only at h
  cases hw : wrapVec fgt flt fuel k.s.x p with
  | none => rw [hw] at h; cases h
  | some x =>
    rw [hw] at h
    simp only [orFuel, Outcome.bind] at h
    cases h
    exact ⟨rfl, rfl, (wrapVec_exit fgt flt fuel k.s.x x p hw).1⟩

/-- **periodic_nan_terminates** (F64): with a NaN offset both loop tests are false (IEEE comparisons), so
    `correct_periodicity` returns the state unchanged whatever the budget. -/
theorem periodic_nan_terminates (fuel : Nat) (k : KT) (p : F64) (hn : k.s.x.x0.isNaN = true) :
    correctPeriodicity fuel k (some p) = .ok k := by
  have h1 : fgt k.s.x.x0 (p / (2 : F64)) = false := by simp [fgt, F64.gt, F64.lt, hn]
  have h2 : flt k.s.x.x0 (-p / (2 : F64)) = false := by simp [flt, F64.lt, hn]
  unfold correctPeriodicity
  simp only [wrapVec_noop fgt flt fuel k.s.x p h1 h2, orFuel, Outcome.bind]

/-- **periodic_update_no_panic** (F64, arithmetic uninterpreted): for every period (or none), every
    measurement, whatever the floats, one `SourceFilter::update` of a stable one-way filter reaches none of
    its panic sites (the i32 overflows of `precision_score` / `poll_score`, `PollInterval::inc/dec`) provided
    the two scores satisfy their hysteresis invariants and the limits avoid the i8 corners.  It may still
    not return (loop budget, F-C06e); the only other abort of a one-way source is `observe` handing a
    non-finite estimate to `from_seconds` (`observe_ok_iff_finite`), i.e. the registered numerical causes. -/
theorem periodic_update_no_panic (fuel : Nat) (f : OStable) (sc : SrcCfg) (ac : AlgoCfg)
    (period : Option F64) (m : OMeas) (now : Nat)
    (hlim : -127 ≤ sc.lim.min ∧ sc.lim.min ≤ sc.lim.max ∧ sc.lim.max ≤ 126)
    (hh : Wrap.I32_MIN < ac.poll.hysteresis ∧ ac.poll.hysteresis ≤ Wrap.I32_MAX)
    (hw : Wrap.I32_MIN < ac.wander.hysteresis ∧ ac.wander.hysteresis ≤ Wrap.I32_MAX)
    (hpoll : PollInv ac.poll sc.lim f.poll)
    (hprec : f.precisionScore = 0 ∨
      (-ac.wander.hysteresis < f.precisionScore ∧ f.precisionScore < ac.wander.hysteresis)) :
    OStable.update fuel f sc ac period m now ≠ .panic :=
  OStable.update_ne_panic fuel f sc ac period m now hlim hh hw hpoll hprec

/-! ### history-level no-panic theorems (F64 models, arithmetic uninterpreted) -/

/-- **filter_history_no_panic** (two-way `SourceFilter`/`SourceState`, F64 model, whatever the floats):
    for every configuration with limits away from the `i8` corners, `min ≤ initial ≤ max` and negatable
    hystereses, and EVERY history of measurements, `Step` and `FreqChange` messages from the initial state:
    either the whole history runs without reaching any panic site — in particular `precision_score` and
    `poll_score` never overflow, `PollInterval::inc/dec` never overflow, `abs_diff` is total — or the run
    stops exactly at a steering message that makes a stable filter hand a non-finite value to
    `NtpDuration::from_seconds` (`durFromSeconds v = none ↔ v` NaN/±∞, `from_seconds_total_on_finite`); the
    score invariants hold at every state reached. -/
theorem filter_history_no_panic (sc : SrcCfg) (ac : AlgoCfg) (hc : CfgOk sc ac) (ops : List FOp) :
    (∃ x', frun sc ac (SState.new, 0) ops = some x' ∧ SInv sc ac x'.1) ∨
    (frun sc ac (SState.new, 0) ops = none ∧ ∃ pre op post x', ops = pre ++ op :: post ∧
      frun sc ac (SState.new, 0) pre = some x' ∧ SInv sc ac x'.1 ∧ SteerNonFinite x'.1 op) :=
  frun_cases sc ac hc ops (SState.new, 0) trivial

/-- **periodic_history_no_panic** (one-way / periodic sources, F64 model): for every period (or none),
    every noise setting and EVERY history of measurements and steering messages from the initial state, the
    run either completes, or stops on a spent loop budget (the real loop is still running: F-C06e), or — the
    only panic — stops at a steering message whose (`% period`-reduced) value handed to `from_seconds` is
    non-finite; the score invariants hold at every state reached.  (`observe` on a non-finite state is not
    part of these ops: `observe_ok_iff_finite`, causes F-C06a–d.) -/
theorem periodic_history_no_panic (fuel : Nat) (sc : SrcCfg) (ac : AlgoCfg) (period : Option F64)
    (noise : FixedNoise) (hc : CfgOk sc ac) (ops : List OOp) :
    Good (fun x' => OInv sc ac x'.1) (orun fuel sc ac period (OState.new noise, 0) ops) ∨
    (orun fuel sc ac period (OState.new noise, 0) ops = .panic ∧ ∃ pre op post x',
      ops = pre ++ op :: post ∧ orun fuel sc ac period (OState.new noise, 0) pre = .ok x' ∧
      OInv sc ac x'.1 ∧ OSteerNonFinite period x'.1 op) :=
  orun_cases fuel sc ac period hc ops (OState.new noise, 0) trivial

/-- corollary: histories without steering messages never panic (two-way) -/
theorem filter_measurements_never_panic (sc : SrcCfg) (ac : AlgoCfg) (hc : CfgOk sc ac)
    (ms : List (Nat × Meas)) :
    ∃ x', frun sc ac (SState.new, 0) (ms.map fun am => FOp.meas am.1 am.2) = some x' := by
  rcases filter_history_no_panic sc ac hc (ms.map fun am => FOp.meas am.1 am.2) with ⟨x', h, _⟩ | ⟨_, pre, op, post, x', he, _, _, hnf⟩
  · exact ⟨x', h⟩
  · exfalso
    have hmem : op ∈ ms.map fun am => FOp.meas am.1 am.2 := by rw [he]; simp
    obtain ⟨am, _, rfl⟩ := List.mem_map.mp hmem
    cases hx : x'.1 <;> simp [SteerNonFinite, hx] at hnf

/-! ### the full statement (NOT proved: rounding) -/

/-- a snapshot is well-formed: finite offset, finite non-negative variance, finite delay, `observe` ok -/
def WellFormed (sn : Snapshot) : Prop :=
  sn.k.s.x.x0.isFinite = true ∧ sn.k.s.P.a00.isFinite = true ∧ F64.le F64.zero sn.k.s.P.a00 = true ∧
  sn.delay.isFinite = true ∧ sn.observe.isSome = true

/-- feed a history of `(monotonic advance in ns, measurement)` to the F64 model, collecting snapshots;
    a modelled panic ends the run with `none` -/
def runF64 (sc : SrcCfg) (ac : AlgoCfg) (st : SState) (now : Nat) :
    List (Nat × Meas) → List (Option Snapshot)
  | [] => []
  | (adv, m) :: rest =>
    match st.update sc ac m (now + adv) with
    | none => [none]
    | some (st', _) => st'.snapshot ac :: runF64 sc ac st' (now + adv) rest

/-- admissible histories (the quantifier of the property): local times strictly increasing, spaced
    between 1 ms and 2¹⁷ s (in 2⁻³² s ticks), monotonic time advancing in step (no meddling),
    delays non-negative -/
def Admissible : Nat → List (Nat × Meas) → Prop
  | _, [] => True
  | t, (adv, m) :: rest =>
    4294967 ≤ tsSub m.localtime t ∧ tsSub m.localtime t ≤ 562949953421312 ∧
    adv = (tsSub m.localtime t).toNat * 1000000000 / 4294967296 ∧ 0 ≤ m.delay ∧
    Admissible m.localtime rest

/-- **Full** — the property itself on the rounded binary64 model, for the default algorithm
    configuration thresholds and any poll limits: every snapshot along every admissible history is
    well-formed and no step panics.  NOT PROVED (no rounding-error analysis of unbounded Kalman histories);
    exercised by the `c06_filter` stream and its oracle on every run. -/
def Full : Prop :=
  ∀ (sc : SrcCfg) (ac : AlgoCfg) (t0 : Nat) (hist : List (Nat × Meas)),
    Admissible t0 hist →
    ∀ o ∈ runF64 sc ac SState.new 0 hist, ∀ sn, o = some sn → WellFormed sn

/-! ### non-vacuity -/

/-- a concrete non-trivial PSD covariance over ℚ-like fields: `[[4, -1], [-1, 1]]` satisfies the
    hypotheses, and one exact update step with `Δt = 2`, `wander = 1`, `R = 3` keeps it PSD with the
    innovation variance equal to `4 + 2·(-1)·2 + 4·1 + 8/3 + 3 = 29/3` -/
example : PSD ({ a00 := 4, a01 := -1, a10 := -1, a11 := 1 } : Mat2 Rat) := by
  refine ⟨rfl, ?_, ?_, ?_⟩ <;> norm_num

example : (absorbCore (progressCore (⟨⟨0, 0⟩, ⟨4, -1, -1, 1⟩⟩ : KState Rat) 2 1) 1 0 5 3).innov = 29 / 3 := by
  norm_num [absorbCore, progressCore, Mat2.mul, Mat2.add, Mat2.transpose, processNoise, sum2, sum1]

/-- the weight for that step: `1 − 3 / (29/3) = 20/29 ∈ [0, 1]` -/
example : (absorbCore (progressCore (⟨⟨0, 0⟩, ⟨4, -1, -1, 1⟩⟩ : KState Rat) 2 1) 1 0 5 3).weight = 20 / 29 := by
  norm_num [absorbCore, progressCore, Mat2.mul, Mat2.add, Mat2.transpose, processNoise, sum2, sum1]

/-- the hypothesis `S > 0` of `absorb_keeps_psd` is needed: with `P = 0` and `R = 0` the exact update
    divides by zero (in a field `1/0 = 0`; in binary64 this is the NaN the finiteness oracle looks for) -/
example : (absorbCore (⟨⟨0, 0⟩, ⟨0, 0, 0, 0⟩⟩ : KState Rat) 1 0 5 0).innov = 0 := by
  norm_num [absorbCore, sum2, sum1]

/-- order-only: `from_seconds` accepts 1.0 and rejects NaN and +∞ -/
example : (durFromSeconds F64.nan).isSome = false ∧ (durFromSeconds F64.inf).isSome = false := by
  constructor <;> rfl

/-- periodic non-vacuity: with p = 1, prediction 1/10 and a measurement 37/10 the exact correction returns
    7/10 − 1 = −3/10 + … : value −3/10 + 1/10·0, i.e. innovation −2/5 ∈ [−1/2, 1/2], after 4 iterations -/
example : wrapValue (fieldGt (α := Rat)) fieldLt 4 (37 / 10) (1 / 10) 1 = some (-3 / 10) := by
  decide +kernel

/-- … and a budget of 3 iterations is not enough -/
example : wrapValue (fieldGt (α := Rat)) fieldLt 3 (37 / 10) (1 / 10) 1 = none := by
  decide +kernel

end NtpVerif.C06

#print axioms NtpVerif.C06.progress_keeps_psd
#print axioms NtpVerif.C06.innovation_variance_positive
#print axioms NtpVerif.C06.absorb_keeps_psd
#print axioms NtpVerif.C06.absorb_keeps_psd_general
#print axioms NtpVerif.C06.absorb_always_symmetric
#print axioms NtpVerif.C06.weight_in_unit_interval
#print axioms NtpVerif.C06.history_keeps_psd
#print axioms NtpVerif.C06.add_server_dispersion_keeps_psd
#print axioms NtpVerif.C06.merge_keeps_psd
#print axioms NtpVerif.C06.root_dispersion_poly_nonneg
#print axioms NtpVerif.C06.from_seconds_total_on_finite
#print axioms NtpVerif.C06.observe_ok_iff_finite
#print axioms NtpVerif.C06.periodic_innovation_in_half_period
#print axioms NtpVerif.C06.periodic_wrap_fuel_sufficient
#print axioms NtpVerif.C06.periodic_cov_unaffected
#print axioms NtpVerif.C06.periodic_innovation_exit_f64
#print axioms NtpVerif.C06.periodic_state_exit_f64
#print axioms NtpVerif.C06.periodic_nan_terminates
#print axioms NtpVerif.C06.periodic_update_no_panic
#print axioms NtpVerif.C06.filter_history_no_panic
#print axioms NtpVerif.C06.periodic_history_no_panic
#print axioms NtpVerif.C06.filter_measurements_never_panic
