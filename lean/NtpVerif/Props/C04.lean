/-
C04 — leap-second announcements follow a strict majority of the selected sources.

Property text ↔ theorems (model: `NtpVerif.Model.Leap.voteLeap` = `vote_leap` of combiner.rs,
`NtpVerif.Model.CtrlLoop` = the part of `update_clock` that applies the vote):

  "is one that a strict majority of the sources used for synchronisation report, ignoring sources whose
   leap status is unknown"                       → `vote_majority`, `vote_iff` (exactly the majority one),
                                                    `majority_unique` (there is at most one such indicator)
  "without such a majority the previous indicator is kept"
                                                 → `vote_none` + `applied` (ctrl loop: leap unchanged, no
                                                    `status_update`)
  "Sources that were not selected never influence it"
                                                 → `vote_perm` (function of the multiset of the SELECTED
                                                    sources' indicators only) + `applied` (the only input
                                                    of the vote is the selection returned by `select`)
  the `panic!` arm is unreachable                → `vote_no_panic_iff`, `vote_on_selection_never_panics`
-/
import NtpVerif.Proofs.Leap
import NtpVerif.Proofs.Select
import NtpVerif.Proofs.CtrlLoop

namespace NtpVerif.C04
open NtpVerif.Leap

/-- the indicators that can be announced -/
def Announceable (l : LI) : Prop := l = .noWarning ∨ l = .leap59 ∨ l = .leap61

instance (l : LI) : Decidable (Announceable l) := by unfold Announceable; infer_instance

/-- `l` is reported by a strict majority of `sel`, not counting the `unknown` ones -/
def StrictMajority (l : LI) (sel : List LI) : Prop :=
  2 * cnt l sel > sel.length - cnt .unknown sel

instance (l : LI) (sel : List LI) : Decidable (StrictMajority l sel) := by
  unfold StrictMajority; infer_instance

/-- **C04.vote_no_panic_iff** — `vote_leap` panics exactly when an `Unsynchronized` source is in the
    selection (in particular the `usize` subtraction never underflows). -/
theorem vote_no_panic_iff (sel : List LI) : voteLeap sel = .panic ↔ LI.unsync ∈ sel := by
  unfold voteLeap
  split
  · rename_i h; simp [(tally_none_iff sel _).mp h]
  · rename_i t h
    have hn : LI.unsync ∉ sel := by
      intro hm; rw [(tally_none_iff sel _).mpr hm] at h; cases h
    obtain ⟨_, _, _, h4, h5⟩ := tally_some sel _ t h
    simp only [Nat.zero_add] at h4
    simp only [hn, iff_false]
    have : ¬ t.vunk > sel.length := by omega
    simp only [this, if_false]
    repeat' split
    all_goals simp

/-- **C04.vote_majority** — an announced indicator is `NoWarning`, `Leap59` or `Leap61` and is reported by
    a strict majority of the selected sources whose leap status is not unknown. -/
theorem vote_majority (sel : List LI) (l : LI) (h : voteLeap sel = .some l) :
    Announceable l ∧ StrictMajority l sel := by
  unfold voteLeap at h
  split at h
  · cases h
  · rename_i t ht
    obtain ⟨h1, h2, h3, h4, h5⟩ := tally_some sel _ t ht
    simp only [Nat.zero_add] at h1 h2 h3 h4
    split at h
    · cases h
    · simp only [h1, h2, h3, h4] at h
      unfold Announceable StrictMajority
      split at h
      · cases h; exact ⟨by simp, by omega⟩
      · split at h
        · cases h; exact ⟨by simp, by omega⟩
        · split at h
          · cases h; exact ⟨by simp, by omega⟩
          · cases h

/-- **C04.vote_none** — no announcement means no announceable indicator has such a majority. -/
theorem vote_none (sel : List LI) (h : voteLeap sel = .none) :
    ∀ l, Announceable l → ¬ StrictMajority l sel := by
  unfold voteLeap at h
  split at h
  · cases h
  · rename_i t ht
    obtain ⟨h1, h2, h3, h4, h5⟩ := tally_some sel _ t ht
    simp only [Nat.zero_add] at h1 h2 h3 h4
    split at h
    · cases h
    · simp only [h1, h2, h3, h4] at h
      split at h
      · cases h
      · split at h
        · cases h
        · split at h
          · cases h
          · intro l hl
            unfold StrictMajority
            rcases hl with rfl | rfl | rfl <;> omega

/-- **C04.majority_unique** — among synchronised sources at most one announceable indicator can have a
    strict majority, so "the" majority indicator is well defined. -/
theorem majority_unique (sel : List LI) (hs : LI.unsync ∉ sel) (l l' : LI)
    (hl : Announceable l) (hl' : Announceable l')
    (h : StrictMajority l sel) (h' : StrictMajority l' sel) : l = l' := by
  have hn : tally sel ⟨0, 0, 0, 0⟩ ≠ none := fun e => hs ((tally_none_iff sel _).mp e)
  obtain ⟨t, ht⟩ := Option.ne_none_iff_exists'.mp hn
  obtain ⟨_, _, _, _, h5⟩ := tally_some sel _ t ht
  unfold StrictMajority at h h'
  rcases hl with rfl | rfl | rfl <;> rcases hl' with rfl | rfl | rfl <;> first | rfl | omega

/-- **C04.vote_iff** — the announced indicator is exactly the one with a strict majority. -/
theorem vote_iff (sel : List LI) (l : LI) :
    voteLeap sel = .some l ↔ (LI.unsync ∉ sel ∧ Announceable l ∧ StrictMajority l sel) := by
  constructor
  · intro h
    refine ⟨?_, vote_majority sel l h⟩
    intro hm; rw [(vote_no_panic_iff sel).mpr hm] at h; cases h
  · rintro ⟨hs, hl, hm⟩
    cases hv : voteLeap sel with
    | panic => exact absurd ((vote_no_panic_iff sel).mp hv) hs
    | none => exact absurd hm (vote_none sel hv l hl)
    | some l' =>
      obtain ⟨a, b⟩ := vote_majority sel l' hv
      rw [majority_unique sel hs l l' hl a hm b]

/-- **C04.vote_perm** — the vote is a function of the multiset of the selected sources' indicators. -/
theorem vote_perm (a b : List LI) (h : a.Perm b) : voteLeap a = voteLeap b := by
  cases hb : voteLeap b with
  | panic =>
    exact (vote_no_panic_iff a).mpr (h.mem_iff.mpr ((vote_no_panic_iff b).mp hb))
  | some l =>
    obtain ⟨h1, h2, h3⟩ := (vote_iff b l).mp hb
    refine (vote_iff a l).mpr ⟨fun hm => h1 (h.mem_iff.mp hm), h2, ?_⟩
    unfold StrictMajority at h3 ⊢
    rw [cnt_perm h, cnt_perm h, h.length_eq]; exact h3
  | none =>
    cases ha : voteLeap a with
    | panic =>
      have := (vote_no_panic_iff b).mpr (h.mem_iff.mp ((vote_no_panic_iff a).mp ha))
      rw [this] at hb; cases hb
    | none => rfl
    | some l =>
      obtain ⟨h1, h2, h3⟩ := (vote_iff a l).mp ha
      have : voteLeap b = .some l := by
        refine (vote_iff b l).mpr ⟨fun hm => h1 (h.mem_iff.mpr hm), h2, ?_⟩
        unfold StrictMajority at h3 ⊢
        rw [← cnt_perm h, ← cnt_perm h, ← h.length_eq]; exact h3
      rw [this] at hb; cases hb

open NtpVerif.Select NtpVerif.CtrlLoop in
/-- **C04.vote_on_selection_never_panics** — `select` never returns an unsynchronised source, so the `panic!`
    arm of `vote_leap` is unreachable from `update_clock`. -/
theorem vote_on_selection_never_panics (cfg : Cfg) (cs out : List Cand) (h : select cfg cs = .sel out) :
    voteLeap (out.map (·.leap)) ≠ .panic := by
  intro hp
  have hm := (vote_no_panic_iff _).mp hp
  obtain ⟨c, hc, hl⟩ := List.mem_map.mp hm
  obtain ⟨s, _, _, hcase | hcase⟩ := select_sel_cases h
  · obtain ⟨_, _, e⟩ := hcase
    rw [e] at hc
    have := (List.mem_filter.mp hc).2
    simp only [inFinal, Bool.and_eq_true] at this
    rw [hl] at this
    simp [LI.isSynchronized] at this
  · subst hcase; cases hc

open NtpVerif.Select NtpVerif.CtrlLoop in
/-- **C04.applied** — in `update_clock`: `status_update l` is called and the advertised indicator becomes `l`
    exactly when the vote over the SELECTED sources is `Some l`; otherwise (no majority, or no selection at all)
    no `status_update` is issued and the previous indicator is kept.  The vote's only input is the selection. -/
theorem applied (cfg : Cfg) (steer : List String) (c c' : Ctrl) (calls : List Call) (used : Option (List CtrlLoop.Id))
    (h : updateClock cfg steer c = (c', .ok calls used)) :
    ∃ out, select cfg (candidates c) = .sel out ∧
      (∀ l, Call.statusUpdate l ∈ calls ↔ (out ≠ [] ∧ voteLeap (out.map (·.leap)) = .some l)) ∧
      (∀ l, out ≠ [] → voteLeap (out.map (·.leap)) = .some l → c'.leap = l) ∧
      ((out = [] ∨ voteLeap (out.map (·.leap)) = .none) → c'.leap = c.leap) := by
  unfold updateClock at h
  split at h
  · cases h
  · rename_i hsel
    simp only [Prod.mk.injEq, Result.ok.injEq] at h
    obtain ⟨rfl, rfl, _⟩ := h
    exact ⟨[], hsel, by simp, by simp, fun _ => rfl⟩
  · rename_i s sel hsel
    refine ⟨s :: sel, hsel, ?_⟩
    split at h
    · cases h
    · rename_i v hv
      simp only [Prod.mk.injEq, Result.ok.injEq] at h
      obtain ⟨rfl, rfl, _⟩ := h
      cases hvote : voteLeap (List.map (fun x => x.leap) (s :: sel)) with
      | panic => exact absurd hvote (hv)
      | none =>
        refine ⟨?_, ?_, ?_⟩
        · intro l; constructor
          · intro hm
            simp only [List.mem_append, List.mem_cons, List.mem_map, reduceCtorEq, false_and, exists_false,
              List.not_mem_nil, or_false, false_or] at hm
            split at hm <;> simp at hm
          · rintro ⟨_, h2⟩; cases h2
        · intro l _ h2; cases h2
        · intro _; rfl
      | some l0 =>
        refine ⟨?_, ?_, ?_⟩
        · intro l; constructor
          · intro hm
            simp only [List.mem_append, List.mem_cons, List.mem_map, reduceCtorEq, false_and, exists_false,
              List.not_mem_nil, or_false, false_or] at hm
            refine ⟨by simp, ?_⟩
            split at hm <;> simp at hm <;> rw [hm]
          · rintro ⟨_, h2⟩
            cases h2
            simp
        · intro l _ h2; cases h2; rfl
        · rintro (h1 | h1)
          · cases h1
          · cases h1

/-! #### non-vacuity -/

/-- two `Leap59` out of three known votes, two unknown votes ignored: announced -/
example : voteLeap [.leap59, .unknown, .noWarning, .leap59, .unknown] = .some .leap59 := by decide
/-- exactly half is not a strict majority: nothing announced -/
example : voteLeap [.leap59, .noWarning, .unknown] = .none ∧
    ¬ StrictMajority .leap59 [.leap59, .noWarning, .unknown] := by decide
/-- counting the unknown votes in the denominator would give a different answer here -/
example : StrictMajority .leap61 [.leap61, .unknown, .unknown] ∧
    ¬ (2 * cnt .leap61 [.leap61, .unknown, .unknown] > [LI.leap61, .unknown, .unknown].length) := by decide
/-- the panic arm -/
example : voteLeap [.noWarning, .unsync] = .panic := by decide
/-- only unknown votes (or none at all): nothing announced -/
example : voteLeap [.unknown, .unknown] = .none ∧ voteLeap [] = .none := by decide

end NtpVerif.C04

#print axioms NtpVerif.C04.vote_no_panic_iff
#print axioms NtpVerif.C04.vote_majority
#print axioms NtpVerif.C04.vote_none
#print axioms NtpVerif.C04.majority_unique
#print axioms NtpVerif.C04.vote_iff
#print axioms NtpVerif.C04.vote_perm
#print axioms NtpVerif.C04.vote_on_selection_never_panics
#print axioms NtpVerif.C04.applied
