/-
C25 — tampered NTS packets are never accepted as authentic.

  "Changing any bit of an NTS-protected packet's header, of any extension field before the authenticator
   field, or of the authenticator's nonce or ciphertext makes authentication fail: no field is reported as
   authenticated or encrypted and no cookie keys are recovered.  Any other change (the authenticator's own
   length and padding bytes, or anything after it) never makes different content appear authenticated or
   encrypted."

Property theorems only (helper lemmas live in `NtpVerif.Proofs.WireAuth`).
Model: `NtpVerif.Wire.parse` with the decryption oracle as a parameter; the ideal cipher is
`Table.decrypt` (succeeds exactly on the tuples that were produced by an encryption, DESIGN §2.6).

  nothing_unless_decrypt      for EVERY cipher and context: if no decryption whose associated data is a prefix
                              (of at least the 48 header bytes) of the received packet succeeds, the decoder
                              reports no authenticated field, no encrypted field and no cookie keys —
                              whether it returns Ok or DecryptError.  (The associated data of the
                              authenticator is exactly the packet up to the authenticator.)
  authentic_implies_sealed_prefix   ideal cipher: whatever is reported as authentic, some recorded encryption has
                              as associated data a prefix of the received bytes.
  tamper_before_fails         ideal cipher, first sentence for the header and the fields before the
                              authenticator: if every recorded encryption covered the first `o` bytes of the
                              original and the received packet differs from it somewhere in those `o` bytes
                              (one bit or many), nothing is reported as authentic.

  nothing_unless_sealed_triple  sharper form for EVERY cipher: only the triples (packet prefix up to an encrypted field,
                              that field's nonce, that field's ciphertext) that actually stand in the packet
                              ever reach the cipher; if none of them decrypts, nothing is authentic.
  authentic_implies_sealed_triple   ideal cipher: anything authentic ⇒ a recorded encryption whose associated data,
                              nonce and ciphertext stand in the received bytes at that very offset.
  tamper_fails                FIRST SENTENCE, complete (ideal cipher + freshness): if the received packet differs
                              from the sealed one in the header / a field before the authenticator (its first `o`
                              bytes), or in the authenticator's nonce bytes, or in its ciphertext bytes, the
                              decoder reports no authenticated field, no encrypted field and no cookie keys.
  tamper_nonce_ct_fails       the nonce/ciphertext clause on its own.
  nonce_byte_change, ct_byte_change   a changed byte inside the nonce / ciphertext region (length words untouched)
                              changes the nonce / ciphertext bytes compared by `tamper_fails`.
  other_changes_harmless      SECOND SENTENCE (ideal cipher + freshness): for any received packet that still starts
                              with the sealed prefix (so: changes confined to the authenticator's own length words
                              and padding, or to anything after it — or any other bytes from offset `o` on),
                              either it reports nothing as authentic, or exactly the authenticated and encrypted
                              lists of the sealed packet (and its cookie keys, or none).

Freshness hypothesis (`Fresh T P N C`, stated explicitly): the only recorded encryption whose associated data is a
whole-packet prefix (48 bytes or more — cookies are sealed with empty associated data) is the one of this packet:
prefix `P`, nonce `N`, ciphertext `C`.  Unforgeability itself is the cipher's (trusted, DESIGN §1.1).
-/
import NtpVerif.Proofs.WireAuth5

namespace NtpVerif.C25
open NtpVerif.Wire

/-- the decoder reports nothing as authentic -/
def ReportsNothing : ParseOut → Prop
  | .ok p c => p.NothingAuthentic ∧ c = none
  | .decryptErr p => p.NothingAuthentic
  | _ => True

theorem nothing_unless_decrypt (dec : Dec) (ctx : Ctx) (b : Bytes) (h : NoPrefixDecrypts dec b) :
    ReportsNothing (parse dec ctx b) := by
  unfold parse
  split
  · rename_i p c hp; exact parseR_nothing h hp
  · rename_i p c hp; exact (parseR_nothing h hp).1
  all_goals trivial

/-- ideal cipher: authentic content implies that a recorded encryption covered a prefix of these very bytes -/
theorem authentic_implies_sealed_prefix (T : Table) (ctx : Ctx) (b : Bytes)
    (h : ¬ ReportsNothing (parse T.decrypt ctx b)) :
    ∃ e ∈ T, 48 ≤ e.aad.length ∧ e.aad = b.take e.aad.length := by
  apply Classical.byContradiction
  intro hn
  apply h
  apply nothing_unless_decrypt
  intro key nonce ct n h48 hn'
  cases hd : T.decrypt key nonce ct (b.take n) with
  | none => rfl
  | some pt =>
    exfalso
    obtain ⟨e, he, _, _, _, ha⟩ := Table.decrypt_some hd
    apply hn
    refine ⟨e, he, ?_, ?_⟩
    · rw [ha]; simp [List.length_take]; omega
    · rw [ha]; simp [List.length_take, Nat.min_eq_left hn']

/-- ideal cipher: a packet that differs from the sealed one anywhere in the authenticated prefix (header or a
    field before the authenticator) reports nothing as authentic -/
theorem tamper_before_fails (T : Table) (ctx : Ctx) (b b' : Bytes) (o : Nat)
    (hT : ∀ e ∈ T, 48 ≤ e.aad.length → e.aad = b.take o) (ho : o ≤ b.length)
    (hdiff : b'.take o ≠ b.take o) : ReportsNothing (parse T.decrypt ctx b') := by
  apply Classical.byContradiction
  intro hn
  obtain ⟨e, he, h48, hp⟩ := authentic_implies_sealed_prefix T ctx b' hn
  have ha := hT e he h48
  have hl : e.aad.length = o := by rw [ha]; simp [List.length_take]; omega
  rw [hl] at hp
  exact hdiff (by rw [← hp, ha])

/-! #### the exact triples -/

theorem nothing_unless_sealed_triple (dec : Dec) (ctx : Ctx) (b : Bytes) (h : NoTripleDecrypts dec b) :
    ReportsNothing (parse dec ctx b) := by
  unfold parse
  split
  · rename_i p c hp; exact parseR_nothing' h hp
  · rename_i p c hp; exact (parseR_nothing' h hp).1
  all_goals trivial

/-- ideal cipher: authentic content implies a recorded encryption whose associated data is the packet up to an
    encrypted field that carries the recorded nonce and ciphertext -/
theorem authentic_implies_sealed_triple (T : Table) (ctx : Ctx) (b : Bytes)
    (h : ¬ ReportsNothing (parse T.decrypt ctx b)) :
    ∃ e ∈ T, ∃ ver, 48 ≤ e.aad.length ∧ e.aad = b.take e.aad.length ∧
      AuthAt b ver e.aad.length e.nonce e.ct := by
  apply Classical.byContradiction
  intro hn
  apply h
  apply nothing_unless_sealed_triple
  intro key ver n nonce ct h48 hn' hat
  cases hd : T.decrypt key nonce ct (b.take n) with
  | none => rfl
  | some pt =>
    exfalso
    obtain ⟨e, he, _, h2, h3, ha⟩ := Table.decrypt_some hd
    apply hn
    have hl : e.aad.length = n := by rw [ha]; simp [List.length_take]; omega
    refine ⟨e, he, ver, by omega, ?_, ?_⟩
    · rw [hl, ha]
    · rw [hl, h2, h3]; exact hat

/-- the nonce / ciphertext clause: if what stands at the sealed offset does not carry the sealed nonce and
    ciphertext bytes, nothing is authentic -/
theorem tamper_nonce_ct_fails (T : Table) (ctx : Ctx) (P N C b' : Bytes) (o : Nat)
    (hF : Fresh T P N C) (hP : P.length = o)
    (hdiff : authNonce (b'.drop o) ≠ N ∨ authCt (b'.drop o) ≠ C) :
    ReportsNothing (parse T.decrypt ctx b') := by
  apply Classical.byContradiction
  intro hn
  obtain ⟨e, he, ver, h48, _, msg, hraw, hfm⟩ := authentic_implies_sealed_triple T ctx b' hn
  obtain ⟨a, b, c⟩ := hF e he h48
  have hl : e.aad.length = o := by rw [a, hP]
  rw [hl] at hraw
  rw [b, c] at hfm
  obtain ⟨n1, n2⟩ := raw_nonce_ct hraw hfm
  rcases hdiff with h | h
  · exact h n1.symm
  · exact h n2.symm

/-- FIRST SENTENCE.  `b` is the sealed packet, its authenticator stands at offset `o`; the table is fresh for
    (`b[0..o]`, the nonce bytes, the ciphertext bytes).  Any received `b'` that differs in the first `o` bytes
    (header, fields before the authenticator), in the nonce bytes or in the ciphertext bytes reports nothing. -/
theorem tamper_fails (T : Table) (ctx : Ctx) (b b' : Bytes) (o : Nat) (ho : o ≤ b.length)
    (hF : Fresh T (b.take o) (authNonce (b.drop o)) (authCt (b.drop o)))
    (hdiff : b'.take o ≠ b.take o ∨ authNonce (b'.drop o) ≠ authNonce (b.drop o) ∨
      authCt (b'.drop o) ≠ authCt (b.drop o)) :
    ReportsNothing (parse T.decrypt ctx b') := by
  rcases hdiff with h | h
  · exact tamper_before_fails T ctx b b' o (fun e he h48 => (hF e he h48).1) ho h
  · exact tamper_nonce_ct_fails T ctx _ _ _ b' o hF (by simp [List.length_take]; omega) h

/-! "changing any bit of the nonce or ciphertext": a field `type len nonce_len ct_len rest`; a changed byte of
    `rest` inside the nonce (index `i < nonce_len`) or inside the ciphertext (index `pad4(nonce_len) + j`, `j < ct_len`)
    changes the nonce / ciphertext bytes that `tamper_fails` compares -/

/-- a changed byte inside the nonce (length words untouched) changes the nonce bytes read off the packet -/
theorem nonce_byte_change (t0 t1 l0 l1 n0 n1 c0 c1 : UInt8) (rest rest' : Bytes) (i : Nat)
    (hi : i < be16 n0 n1) (hne : rest'[i]? ≠ rest[i]?) :
    authNonce (t0 :: t1 :: l0 :: l1 :: n0 :: n1 :: c0 :: c1 :: rest') ≠
      authNonce (t0 :: t1 :: l0 :: l1 :: n0 :: n1 :: c0 :: c1 :: rest) := by
  intro h
  simp only [authNonce] at h
  have := congrArg (fun l => l[i]?) h
  simp only [List.getElem?_take, hi, if_true] at this
  exact hne this

theorem ct_byte_change (t0 t1 l0 l1 n0 n1 c0 c1 : UInt8) (rest rest' : Bytes) (j : Nat)
    (hj : j < be16 c0 c1)
    (hne : rest'[nm4u16 (be16 n0 n1) + j]? ≠ rest[nm4u16 (be16 n0 n1) + j]?) :
    authCt (t0 :: t1 :: l0 :: l1 :: n0 :: n1 :: c0 :: c1 :: rest') ≠
      authCt (t0 :: t1 :: l0 :: l1 :: n0 :: n1 :: c0 :: c1 :: rest) := by
  intro h
  simp only [authCt] at h
  have := congrArg (fun l => l[j]?) h
  simp only [List.getElem?_take, hj, if_true, List.getElem?_drop] at this
  exact hne this

theorem reportsNothing_iff (x : ParseOut) :
    ReportsNothing x ↔ (x.authLists.1 = [] ∧ x.authLists.2 = [] ∧ x.authCookie = none) := by
  cases x <;> simp [ReportsNothing, Packet.NothingAuthentic, ParseOut.authLists, ParseOut.authCookie, and_assoc]

/-- SECOND SENTENCE.  `b` is the sealed packet and `b'` any packet with the same first `o` bytes (every change is
    at or after the authenticator's own type/length words).  Then `b'` reports nothing as authentic, or the
    sealed packet itself reports nothing, or `b'` reports exactly the same authenticated and encrypted lists, with
    the same cookie keys or none. -/
theorem other_changes_harmless (T : Table) (ctx : Ctx) (P N C b b' : Bytes) (o : Nat)
    (hF : Fresh T P N C) (hP : P.length = o) (ho : 48 ≤ o) (hb : b.take o = P) (hb' : b'.take o = P) :
    ReportsNothing (parse T.decrypt ctx b') ∨ ReportsNothing (parse T.decrypt ctx b) ∨
    ((parse T.decrypt ctx b').authLists = (parse T.decrypt ctx b).authLists ∧
      ((parse T.decrypt ctx b').authCookie = (parse T.decrypt ctx b).authCookie ∨
       (parse T.decrypt ctx b').authCookie = none ∨ (parse T.decrypt ctx b).authCookie = none)) := by
  have := parse_related hF hP ho ctx hb' hb
  unfold Related at this
  rcases this with h | h | ⟨h1, h2, h3⟩
  · exact .inl ((reportsNothing_iff _).2 h)
  · exact .inr (.inl ((reportsNothing_iff _).2 h))
  · exact .inr (.inr ⟨Prod.ext h1 h2, h3⟩)

/-! #### non-vacuity: a sealed packet is reported as authentic, its tampered copy is not -/

def hdr4 : Bytes := 0x23 :: List.replicate 47 0
def uidField : Bytes := [0x01, 0x04, 0x00, 0x24] ++ List.replicate 32 0x55
def nonce16 : Bytes := List.replicate 16 0xA7
def tag16 : Bytes := List.replicate 16 0x11
def encField : Bytes := [0x04, 0x04, 0x00, 0x28, 0x00, 0x10, 0x00, 0x10] ++ nonce16 ++ tag16
def sealedPacket : Bytes := hdr4 ++ uidField ++ encField
def table : Table := [{ key := [3], nonce := nonce16, aad := hdr4 ++ uidField, ct := tag16, pt := [] }]
/-- the same packet with one bit of the unique identifier flipped -/
def tampered : Bytes := hdr4 ++ ([0x01, 0x04, 0x00, 0x24] ++ (0x54 :: List.replicate 31 0x55)) ++ encField

example : (match parse table.decrypt (.key [3]) sealedPacket with
    | .ok p _ => p.ef.authenticated.length == 1 | _ => false) = true := by decide +kernel
/-- the hypotheses of `tamper_before_fails` hold for the tampered copy -/
theorem table_aad : ∀ e ∈ table, 48 ≤ e.aad.length → e.aad = sealedPacket.take 84 := by
  intro e he _
  have : e = { key := [3], nonce := nonce16, aad := hdr4 ++ uidField, ct := tag16, pt := [] } := by
    simpa [table] using he
  subst this
  decide +kernel
theorem len_ok : 84 ≤ sealedPacket.length := by decide +kernel
theorem differs : tampered.take 84 ≠ sealedPacket.take 84 := by decide +kernel
set_option maxRecDepth 100000 in
theorem tampered_reports_nothing : ReportsNothing (parse table.decrypt (Ctx.key [3]) tampered) := by
  apply tamper_before_fails table (Ctx.key [3]) sealedPacket tampered 84
  · exact table_aad
  · exact len_ok
  · exact differs


/-- freshness holds for the example table, with the byte-level readers of the nonce and the ciphertext -/
theorem table_fresh : Fresh table (sealedPacket.take 84) (authNonce (sealedPacket.drop 84))
    (authCt (sealedPacket.drop 84)) := by
  intro e he _
  have : e = { key := [3], nonce := nonce16, aad := hdr4 ++ uidField, ct := tag16, pt := [] } := by
    simpa [table] using he
  subst this
  decide +kernel

/-- one bit of the ciphertext flipped -/
def tamperedCt : Bytes := hdr4 ++ uidField ++
  ([0x04, 0x04, 0x00, 0x28, 0x00, 0x10, 0x00, 0x10] ++ nonce16 ++ (0x10 :: List.replicate 15 0x11))
theorem ct_differs : authCt (tamperedCt.drop 84) ≠ authCt (sealedPacket.drop 84) := by decide +kernel

set_option maxRecDepth 100000 in
theorem tamperedCt_reports_nothing : ReportsNothing (parse table.decrypt (Ctx.key [3]) tamperedCt) := by
  apply tamper_fails table (Ctx.key [3]) sealedPacket tamperedCt 84 len_ok table_fresh
  exact .inr (.inr ct_differs)

/-- a 28-byte unauthenticated field appended after the authenticator: same prefix, and the decode still reports the
    sealed content (the third alternative of `other_changes_harmless` is the one that occurs) -/
def extended : Bytes := sealedPacket ++ ([0x55, 0x55, 0x00, 0x1C] ++ List.replicate 24 0x01)
example : extended.take 84 = sealedPacket.take 84 := by decide +kernel
example : (match parse table.decrypt (.key [3]) extended with
    | .ok p _ => p.ef.authenticated.length == 1 && p.ef.untrusted.length == 1 | _ => false) = true := by
  decide +kernel

end NtpVerif.C25

#print axioms NtpVerif.C25.nothing_unless_decrypt
#print axioms NtpVerif.C25.authentic_implies_sealed_prefix
#print axioms NtpVerif.C25.tamper_before_fails
#print axioms NtpVerif.C25.nothing_unless_sealed_triple
#print axioms NtpVerif.C25.authentic_implies_sealed_triple
#print axioms NtpVerif.C25.tamper_nonce_ct_fails
#print axioms NtpVerif.C25.tamper_fails
#print axioms NtpVerif.C25.other_changes_harmless
#print axioms NtpVerif.C25.nonce_byte_change
#print axioms NtpVerif.C25.ct_byte_change
