/-
C25 — tampered NTS packets are never accepted as authentic.

  "Changing any bit of an NTS-protected packet's header, of any extension field before the authenticator
   field, or of the authenticator's nonce or ciphertext makes authentication fail: no field is reported as
   authenticated or encrypted and no cookie keys are recovered.  Any other change (the authenticator's own
   length and padding bytes, or anything after it) never makes different content appear authenticated or
   encrypted."

Property theorems only (helper lemmas live in `NtpVerif.Proofs.WireAuth`).
Model: `NtpVerif.Wire.parse` with the decryption oracle as a parameter; the ideal cipher is
`Table.decrypt` (succeeds exactly on the tuples that were produced by an encryption, DESIGN §2.6).

  nothing_unless_decrypt      for EVERY cipher and context: if no decryption whose associated data is a prefix
                              (of at least the 48 header bytes) of the received packet succeeds, the decoder
                              reports no authenticated field, no encrypted field and no cookie keys —
                              whether it returns Ok or DecryptError.  (The associated data of the
                              authenticator is exactly the packet up to the authenticator.)
  authentic_implies_sealed_prefix   ideal cipher: whatever is reported as authentic, some recorded encryption has
                              as associated data a prefix of the received bytes.
  tamper_before_fails         ideal cipher, first sentence for the header and the fields before the
                              authenticator: if every recorded encryption covered the first `o` bytes of the
                              original and the received packet differs from it somewhere in those `o` bytes
                              (one bit or many), nothing is reported as authentic.

Not proved in Lean (checked exhaustively over positions by stream `c25_tamper`): the nonce/ciphertext clause and
the second sentence.  Unforgeability itself is the cipher's (trusted, DESIGN §1.1).
-/
import NtpVerif.Proofs.WireAuth

namespace NtpVerif.C25
open NtpVerif.Wire

/-- the decoder reports nothing as authentic -/
def ReportsNothing : ParseOut → Prop
  | .ok p c => p.NothingAuthentic ∧ c = none
  | .decryptErr p => p.NothingAuthentic
  | _ => True

theorem nothing_unless_decrypt (dec : Dec) (ctx : Ctx) (b : Bytes) (h : NoPrefixDecrypts dec b) :
    ReportsNothing (parse dec ctx b) := by
  unfold parse
  split
  · rename_i p c hp; exact parseR_nothing h hp
  · rename_i p c hp; exact (parseR_nothing h hp).1
  all_goals trivial

theorem table_decrypt_some {T : Table} {key nonce ct aad pt : Bytes} (h : T.decrypt key nonce ct aad = some pt) :
    ∃ e ∈ T, e.key = key ∧ e.nonce = nonce ∧ e.ct = ct ∧ e.aad = aad := by
  unfold Table.decrypt at h
  simp only [Option.map_eq_some_iff] at h
  obtain ⟨e, he, _⟩ := h
  have hm := List.find?_some he
  have hmem := List.mem_of_find?_eq_some he
  simp only [Entry.matches, Bool.and_eq_true, beq_iff_eq] at hm
  exact ⟨e, hmem, hm.1.1.1, hm.1.1.2, hm.1.2, hm.2⟩

/-- ideal cipher: authentic content implies that a recorded encryption covered a prefix of these very bytes -/
theorem authentic_implies_sealed_prefix (T : Table) (ctx : Ctx) (b : Bytes)
    (h : ¬ ReportsNothing (parse T.decrypt ctx b)) :
    ∃ e ∈ T, 48 ≤ e.aad.length ∧ e.aad = b.take e.aad.length := by
  apply Classical.byContradiction
  intro hn
  apply h
  apply nothing_unless_decrypt
  intro key nonce ct n h48 hn'
  cases hd : T.decrypt key nonce ct (b.take n) with
  | none => rfl
  | some pt =>
    exfalso
    obtain ⟨e, he, _, _, _, ha⟩ := table_decrypt_some hd
    apply hn
    refine ⟨e, he, ?_, ?_⟩
    · rw [ha]; simp [List.length_take]; omega
    · rw [ha]; simp [List.length_take, Nat.min_eq_left hn']

/-- ideal cipher: a packet that differs from the sealed one anywhere in the authenticated prefix (header or a
    field before the authenticator) reports nothing as authentic -/
theorem tamper_before_fails (T : Table) (ctx : Ctx) (b b' : Bytes) (o : Nat)
    (hT : ∀ e ∈ T, 48 ≤ e.aad.length → e.aad = b.take o) (ho : o ≤ b.length)
    (hdiff : b'.take o ≠ b.take o) : ReportsNothing (parse T.decrypt ctx b') := by
  apply Classical.byContradiction
  intro hn
  obtain ⟨e, he, h48, hp⟩ := authentic_implies_sealed_prefix T ctx b' hn
  have ha := hT e he h48
  have hl : e.aad.length = o := by rw [ha]; simp [List.length_take]; omega
  rw [hl] at hp
  exact hdiff (by rw [← hp, ha])

/-! #### non-vacuity: a sealed packet is reported as authentic, its tampered copy is not -/

def hdr4 : Bytes := 0x23 :: List.replicate 47 0
def uidField : Bytes := [0x01, 0x04, 0x00, 0x24] ++ List.replicate 32 0x55
def nonce16 : Bytes := List.replicate 16 0xA7
def tag16 : Bytes := List.replicate 16 0x11
def encField : Bytes := [0x04, 0x04, 0x00, 0x28, 0x00, 0x10, 0x00, 0x10] ++ nonce16 ++ tag16
def sealedPacket : Bytes := hdr4 ++ uidField ++ encField
def table : Table := [{ key := [3], nonce := nonce16, aad := hdr4 ++ uidField, ct := tag16, pt := [] }]
/-- the same packet with one bit of the unique identifier flipped -/
def tampered : Bytes := hdr4 ++ ([0x01, 0x04, 0x00, 0x24] ++ (0x54 :: List.replicate 31 0x55)) ++ encField

example : (match parse table.decrypt (.key [3]) sealedPacket with
    | .ok p _ => p.ef.authenticated.length == 1 | _ => false) = true := by decide +kernel
/-- the hypotheses of `tamper_before_fails` hold for the tampered copy -/
theorem table_aad : ∀ e ∈ table, 48 ≤ e.aad.length → e.aad = sealedPacket.take 84 := by
  intro e he _
  have : e = { key := [3], nonce := nonce16, aad := hdr4 ++ uidField, ct := tag16, pt := [] } := by
    simpa [table] using he
  subst this
  decide +kernel
theorem len_ok : 84 ≤ sealedPacket.length := by decide +kernel
theorem differs : tampered.take 84 ≠ sealedPacket.take 84 := by decide +kernel
set_option maxRecDepth 100000 in
theorem tampered_reports_nothing : ReportsNothing (parse table.decrypt (Ctx.key [3]) tampered) := by
  apply tamper_before_fails table (Ctx.key [3]) sealedPacket tampered 84
  · exact table_aad
  · exact len_ok
  · exact differs

end NtpVerif.C25

#print axioms NtpVerif.C25.nothing_unless_decrypt
#print axioms NtpVerif.C25.authentic_implies_sealed_prefix
#print axioms NtpVerif.C25.tamper_before_fails
