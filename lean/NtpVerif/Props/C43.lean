/-
C43 — the PTP clock controller reports and steers consistently.

Model: `NtpVerif.Model.PtpCtrl` (`KalmanControllerState::steer_clocks` loop body for one clock,
`KalmanController::clock_frequency` / `clock_offset`) on top of `NtpVerif.Model.Estimator`.

Sentence of the property                                               theorem
  "the frequency query reports the estimated frequency of the          frequency_query  (FULL, on the fixed code)
   requested clock (not its offset)"                                    unfixed_counterexample (the code as found)
  "every frequency it sets on a clock lies within that clock's          steer_within_max (order-only, on f64 bits,
   maximum frequency"                                                   for every non-NaN wanted value)
  "after the controller steps a clock or changes its frequency, its     estimate_tracks_steer (exact arithmetic: any
   own estimate for that clock changes by the applied step or           element type whose + and − satisfy (a+d)−a=d);
   frequency change, to within floating-point rounding"                 steer_absorbs_applied (what is absorbed is
                                                                        what was applied, on f64 bits);
                                                                        the rounding clause itself is checked
                                                                        NUMERICALLY by the oracle (relative 1e-9),
                                                                        not proved.
Second part (whole controller, `Model.PtpFilter`; histories = `Ctrl.run c ops`):
  link selection (the crate's filter tests, for all inputs)            internal_untracked_link_always_active,
                                                                        created_link_shape,
                                                                        external_link_activation_needs_consensus,
                                                                        unfit_external_link_never_becomes_active,
                                                                        no_window_if_unfit, bookkeeping_keeps_external_data
  steering over histories                                              steer_within_max_history, steer_log_sound_history,
                                                                        estimate_tracks_steer_step / _tick / _history,
                                                                        controller_invariant_history
Third part (final round):
  no panic along any controller history                                 controller_never_panics_history, windows_ordered,
                                                                        consensus_never_panics (F-C43c fixed)
  estimator holds a link's delay state iff tracked and active          link_estimator_sync_history,
                                                                        link_state_change_never_fails_spuriously
  leap vote / local root delay                                          leap_vote_strict_majority, local_root_delay_is_minimum
-/
import NtpVerif.Proofs.EstimatorNum
import NtpVerif.Proofs.F64
import NtpVerif.Model.PtpCtrl
import NtpVerif.Proofs.PtpFilterInv
import NtpVerif.Proofs.PtpCtrlInv
import NtpVerif.Proofs.PtpVotes
import NtpVerif.Proofs.PtpNoPanic3
import NtpVerif.Proofs.PtpLinkSync4

namespace NtpVerif.C43
open NtpVerif.Estimator NtpVerif.PtpCtrl

variable {α : Type}

/-- **C43.frequency_query** — (fixed code) `clock_frequency id` returns, for a known clock, the state's
    frequency entry `state[base+1]` and the square root of its variance `P[base+1, base+1]`; it fails
    with `UnknownClock` exactly when the clock is unknown. -/
theorem frequency_query [Num α] (filter : Est α) (id : Nat) :
    (∀ c, filter.clocks.find? (fun c => c.id == id) = some c →
      ∀ v u, filter.state.get (c.base + 1) 0 = some v → filter.unc.get (c.base + 1) (c.base + 1) = some u →
        ctrlClockFrequency filter id = .ok (v, Num.sqrt u)) ∧
    (filter.clocks.find? (fun c => c.id == id) = none →
      ctrlClockFrequency filter id = .error .UnknownClock) := by
  constructor
  · intro c hc v u hv hu
    simp [ctrlClockFrequency, clockFrequency, report, clockFrequencyRaw, getClock, hc, bind, Except.bind,
      ClockInfo.frequencyIndex, hv, hu, orPanic, pure, Except.pure, Except.map]
  · intro hc
    simp [ctrlClockFrequency, clockFrequency, report, clockFrequencyRaw, getClock, hc, bind, Except.bind,
      Except.map]

instance : Num Int where
  zero := 0
  one := 1
  negOne := -1
  two := 2
  three := 3
  sumInit := 0
  add := (· + ·)
  sub := (· - ·)
  mul := (· * ·)
  div := (· / ·)
  sqrt := fun x => x
  midpoint := fun a b => (a + b) / 2
  ofDur := fun d => d

def demo : Est Int :=
  match addClock (empty 0) 7 100 3 5 2 0 with
  | .ok s => s
  | .error _ => empty 0

/-- the query as stated: it must be the frequency pair for every state and clock -/
def Full (q : Est Int → Nat → R (Int × Int)) : Prop := ∀ s id, q s id = clockFrequency s id

/-- **C43.unfixed_counterexample** — the code as found (`clock_frequency` calling `clock_offset`)
    violates the statement: a clock added with offset 100±3 and frequency 5±2 is reported as (100, 9). -/
theorem unfixed_counterexample : ¬ Full ctrlClockFrequencyUnfixed := by
  intro h
  have := h demo 7
  have e1 : ctrlClockFrequencyUnfixed demo 7 = .ok (100, 9) := by rfl
  have e2 : clockFrequency demo 7 = .ok (5, 4) := by rfl
  rw [e1, e2] at this
  cases this

/-- the fixed query satisfies it (by definition of the controller query) -/
theorem fixed_full : Full ctrlClockFrequency := fun _ _ => rfl

/-- **C43.steer_within_max** — whenever the controller sets a frequency and the wanted value is not NaN,
    the value set lies in `[−max, max]` (IEEE order on the bit patterns; arithmetic uninterpreted). -/
theorem steer_within_max (isSystem : Bool) (offset unc freq cur max actual change : F64)
    (h : steerOne isSystem offset unc freq cur max = .setFreq actual change)
    (hw : (wanted offset freq cur).isNaN = false) :
    F64.le (F64.neg max) actual = true ∧ F64.le actual max = true := by
  unfold steerOne at h
  split at h
  · split at h
    · rename_i a hc
      simp only [Action.setFreq.injEq] at h
      obtain ⟨rfl, _⟩ := h
      exact F64.clamp_within hw hc
    · cases h
  · cases h

/-- a NaN wanted value is passed through unclamped (Rust's `f64::clamp`) — the only way out of range -/
theorem steer_nan_passthrough (isSystem : Bool) (offset unc freq cur max actual change : F64)
    (h : steerOne isSystem offset unc freq cur max = .setFreq actual change)
    (hw : (wanted offset freq cur).isNaN = true) : actual = wanted offset freq cur := by
  unfold steerOne at h
  split at h
  · split at h
    · rename_i a hc
      simp only [Action.setFreq.injEq] at h
      obtain ⟨rfl, _⟩ := h
      exact F64.clamp_nan hw hc
    · cases h
  · cases h

/-- **C43.steer_absorbs_applied** — what the estimator absorbs is what was applied to the clock:
    frequency change `actual − cur`; for the system clock the very `Duration` passed to `step_clock`
    (as seconds); for another clock `−offset`, of which the applied step is the `Duration` rounding. -/
theorem steer_absorbs_applied (isSystem : Bool) (offset unc freq cur max : F64) :
    (∀ actual change, steerOne isSystem offset unc freq cur max = .setFreq actual change →
      change = F64.sub actual cur) ∧
    (∀ dur absorbed, steerOne isSystem offset unc freq cur max = .step dur absorbed →
      dur = durOfF64 (F64.neg offset) ∧
      absorbed = (if isSystem then durAsSeconds dur else F64.neg offset)) := by
  constructor
  · intro actual change h
    unfold steerOne at h
    split at h
    · split at h
      · simp only [Action.setFreq.injEq] at h
        obtain ⟨rfl, rfl⟩ := h; rfl
      · cases h
    · cases h
  · intro dur absorbed h
    unfold steerOne at h
    split at h
    · split at h <;> cases h
    · simp only [Action.step.injEq] at h
      obtain ⟨rfl, rfl⟩ := h
      exact ⟨rfl, rfl⟩

/-- **C43.estimate_tracks_steer** (exact arithmetic) — absorbing a change `d` adds `d` to exactly the
    steered clock's entry: with `(a + d) − a = d` (any group, e.g. ℤ, ℚ, ℝ) the controller's estimate
    moves by the absorbed amount.  Stated on the estimator cell: the new cell is `old + d`. -/
theorem estimate_tracks_steer [Num α] (hlaw : ∀ a d : α, Num.sub (Num.add a d) a = d)
    {m m' : Mat α} {r : Nat} {d old : α} (hwf : m.WFm) (hold : m.get r 0 = some old)
    (h : bumpCell m r d = some m') :
    ∃ new, m'.get r 0 = some new ∧ Num.sub new old = d := by
  unfold bumpCell at h
  rw [hold] at h
  simp only [Option.bind_eq_bind, Option.bind_some] at h
  unfold Mat.set at h
  split at h
  · rename_i hc
    cases h
    refine ⟨Num.add old d, ?_, hlaw old d⟩
    simp only [Mat.get, hc.1, hc.2.1, and_self, if_true]
    rw [List.getElem?_set]
    have := hc.2.2
    simp only [Nat.add_zero] at this
    simp [this]
  · cases h

/-! #### non-vacuity -/

/-- a frequency steer that hits the clamp: offset 1 ms (σ = 1 µs), max 1e-6 → set to −max -/
example : steerOne false ⟨0x3f50624dd2f1a9fc⟩ ⟨0x3eb0c6f7a0b5ed8d⟩ F64.zero F64.zero ⟨0x3eb0c6f7a0b5ed8d⟩ =
    .setFreq ⟨0xbeb0c6f7a0b5ed8d⟩ (F64.sub ⟨0xbeb0c6f7a0b5ed8d⟩ F64.zero) := by
  simp only [steerOne, wantsFreq, F64.clamp]
  decide

/-- the group law holds for `Int` -/
example : ∀ a d : Int, Num.sub (Num.add a d) a = d := by
  intro a d; show a + d - a = d; omega

/-! ### the whole controller (`Model.PtpFilter`): link selection and steering over every history

`Ctrl.run c ops` is a controller history: clocks and links come and go, external data is updated, the
clocks tick, measurements arrive (each one triggers `steer_clocks`).  Its second component lists
everything that was done to the clocks. -/

open NtpVerif.PtpFilter

/-- **C43.internal_untracked_link_always_active** (the crate's test `untracked_internal_link_is_always_active`,
    for every history): in every controller history every link without delay tracking and without an
    external end is active — from its creation (`created_internal_untracked_link`) on, whatever is measured,
    steered, added or removed meanwhile. -/
theorem internal_untracked_link_always_active {now : Nat} {max w : F64} {cfg : Cfg} {c0 : Ctrl}
    (h0 : Ctrl.new now max w cfg = .ok c0) (ops : List COp) :
    ∀ l ∈ (c0.run ops).1.filter.links, l.tracked = none → l.ext = none → l.active = true :=
  noSleeper_run ops c0 (noSleeper_new h0)

/-- what `add_untracked_link` / `add_tracked_link` create: an untracked link between two internal clocks is
    exactly a link with `tracked = none`, `ext = none`, and it starts active; every other link (tracked, or
    with an external end) starts inactive. -/
theorem created_link_shape {f f' : Filter} {a b uid : Nat} {decay : Option F64} {id : LinkId}
    (h : f.addLinkF a b uid decay = .ok (f', id)) :
    ∃ l, f'.links = f.links ++ [l] ∧ l.id = id ∧
      (l.tracked = none ↔ decay = none) ∧
      (l.ext = none ↔ (isInternal f.est a && isInternal f.est b) = true) ∧
      (l.active = true ↔ (decay = none ∧ (isInternal f.est a && isInternal f.est b) = true)) := by
  unfold Filter.addLinkF at h
  simp only at h
  split at h
  · cases h
  · split at h
    · cases h
    · split at h
      · cases h
      · split at h
        · cases h
        · simp only [Except.ok.injEq, Prod.mk.injEq] at h
          obtain ⟨rfl, rfl⟩ := h
          refine ⟨_, rfl, rfl, ?_, ?_, ?_⟩
          · cases decay <;> simp
          · by_cases hi : (isInternal f.est a && isInternal f.est b) = true <;> simp [hi]
          · cases decay <;> simp

/-- **C43.external_link_activation_needs_consensus** (tests `external_links_need_consensus`,
    `external_links_activity_and_steering_works`): if a measurement turns an inactive link with an external
    end active, then at that moment (`g`, `l` = the filter and the link after the measurement's bookkeeping)
    the link has an offset window, a consensus window exists, the two overlap, and at least
    `minimum_agreeing_sources` links have a window. -/
theorem external_link_activation_needs_consensus {f f' : Filter} {cfg : Cfg} {lid : LinkId} {fwd : Bool}
    {v u : F64} {i : Nat} {l : FLink} {g : Filter}
    (hm : f.measurement cfg lid fwd v u = .ok f') (hn : f.note lid fwd v u = some (i, l, g))
    (hext : l.ext.isSome) (hin : l.active = false) (hact : f'.linkActive lid = .ok true) :
    ∃ w cw ws, offsetWindow l cfg g.est = .ok (some w) ∧ consensus g cfg = .ok (some cw) ∧
      w.overlaps cw = true ∧ windows g cfg = .ok ws ∧ cfg.minAgree ≤ (ws.filterMap id).length := by
  obtain ⟨i', l', g', hn', hcase⟩ := measurement_active hm
  rw [hn] at hn'
  simp only [Option.some.injEq, Prod.mk.injEq] at hn'
  obtain ⟨rfl, rfl, rfl⟩ := hn'
  rcases hcase with ⟨_, ha⟩ | ⟨delay, noise, verd, _, hv, ha⟩
  · rw [ha, hin] at hact; cases hact
  · rw [ha, hin] at hact
    simp only [Except.ok.injEq] at hact
    have := flag_true_of_inactive hact
    subst this
    obtain ⟨w, cw, h1, h2, h3⟩ := judge_use_external hext hv
    obtain ⟨ws, h4, h5⟩ := consensus_quorum h2
    exact ⟨w, cw, ws, h1, h2, h3, h4, h5⟩

/-- **C43.unfit_external_link_never_becomes_active** (tests `internal_link_inactive_on_unusable_measurements`,
    `too_uncertain_external_links_inactive`): an inactive link with an external end stays inactive through a
    measurement whenever it has no offset window afterwards — in particular when the remote marked it
    unusable, when no offset was recorded yet, when delay/noise estimates are missing, or when its half window
    (noise, offset uncertainty, delay + root delay, each weighted by the configuration) is not below
    `select_max_window_size` (`no_window_if_unfit`). -/
theorem unfit_external_link_never_becomes_active {f f' : Filter} {cfg : Cfg} {id : LinkId} {fwd : Bool}
    {v u : F64} {i : Nat} {l : FLink} {g : Filter}
    (hm : f.measurement cfg id fwd v u = .ok f') (hn : f.note id fwd v u = some (i, l, g))
    (hext : l.ext.isSome) (hin : l.active = false)
    (hnow : ∀ w, offsetWindow l cfg g.est ≠ .ok (some w)) : f'.linkActive id = .ok false := by
  obtain ⟨i', l', g', hn', hcase⟩ := measurement_active hm
  rw [hn] at hn'
  simp only [Option.some.injEq, Prod.mk.injEq] at hn'
  obtain ⟨rfl, rfl, rfl⟩ := hn'
  rcases hcase with ⟨_, ha⟩ | ⟨delay, noise, verd, _, hv, ha⟩
  · rw [ha, hin]
  · rw [ha, hin]
    cases verd with
    | wait => rfl
    | drop => rfl
    | use =>
      obtain ⟨w, cw, h1, _⟩ := judge_use_external hext hv
      exact absurd h1 (hnow w)

/-- when a link has no window: any of the listed defects suffices -/
theorem no_window_if_unfit (l : FLink) (cfg : Cfg) (est : E)
    (h : l.ext = none ∨ (∃ e, l.ext = some e ∧ e.usable = false) ∨
      (∃ e, l.ext = some e ∧ e.offsets.asRef.isEmpty = true) ∨ l.estimates = none ∨
      (∃ e delay noise, l.ext = some e ∧ l.estimates = some (delay, noise) ∧
        F64.lt (halfWindow cfg e delay noise) cfg.maxW = false)) :
    ∀ w, offsetWindow l cfg est ≠ .ok (some w) := by
  intro w hw
  obtain ⟨e, delay, noise, he, hu, hne, hest, hlt, _, _⟩ := offsetWindow_some hw
  rcases h with h | ⟨e', he', hu'⟩ | ⟨e', he', hne'⟩ | h | ⟨e', d', n', he', hest', hlt'⟩
  · rw [h] at he; cases he
  · rw [he'] at he; cases he; rw [hu] at hu'; cases hu'
  · rw [he'] at he; cases he; rw [hne] at hne'; cases hne'
  · rw [h] at hest; cases hest
  · rw [he'] at he; cases he
    rw [hest'] at hest; cases hest
    rw [hlt] at hlt'; cases hlt'

/-- the bookkeeping of a measurement does not change what the remote said about the link -/
theorem bookkeeping_keeps_external_data {f : Filter} {id : LinkId} {fwd : Bool} {v u : F64} {i : Nat}
    {l : FLink} {g : Filter} (hn : f.note id fwd v u = some (i, l, g)) :
    ∃ l0, f.links.find? (fun x => x.id == id) = some l0 ∧ l.active = l0.active ∧
      ∀ e0, l0.ext = some e0 → ∃ e, l.ext = some e ∧ e.usable = e0.usable ∧ e.rootDelay = e0.rootDelay ∧
        e.leap = e0.leap := by
  obtain ⟨l0, hl0, _, _, rfl⟩ := note_spec hn
  obtain ⟨_, ha, _, _, he⟩ := noteLink_spec f.est l0 fwd v u
  exact ⟨l0, hl0, ha, he⟩

/-- **C43.steer_within_max_history** — in every controller history, every frequency the controller ever
    set on a clock lies within `[−max, max]` for the maximum frequency that clock reported at that moment
    (unless the wanted value was NaN, which `f64::clamp` passes through); `e.cur`, `e.max` are the clock's
    `get_frequency()` / `max_frequency()` readings and `e.offset`, `e.unc`, `e.freq` the filter's estimate,
    as recorded by `steer_clocks` for that call. -/
theorem steer_within_max_history (c : Ctrl) (ops : List COp) :
    ∀ e ∈ (c.run ops).2, ∀ actual change, e.action = .setFreq actual change →
      (wanted e.offset e.freq e.cur).isNaN = false →
      F64.le (F64.neg e.max) actual = true ∧ F64.le actual e.max = true := by
  intro e he actual change ha hw
  have hs := (run_log ops c e he).1
  rw [ha] at hs
  exact steer_within_max _ _ _ _ _ _ _ _ hs.symm hw

/-- every recorded action is the steering kernel applied to the recorded readings, and what the estimator
    absorbed is what was applied (`steer_absorbs_applied`) -/
theorem steer_log_sound_history (c : Ctrl) (ops : List COp) :
    ∀ e ∈ (c.run ops).2, e.action = steerOne (e.index == 0) e.offset e.unc e.freq e.cur e.max ∧
      e.action ≠ .panic :=
  run_log ops c

/-- **C43.estimate_tracks_steer_step** — at every steering step of every history (any filter state `f`):
    absorbing a frequency change `d` / an offset change `d` / a system clock step `dur` for clock `id`
    replaces exactly that clock's frequency (resp. offset) entry `old` by the f64 sum `old + d`
    (resp. `old + dur.as_seconds()`); with `steer_absorbs_applied`, `d` is the applied change
    `actual − cur` resp. `−offset`.  So the controller's estimate moves by the applied amount up to the
    roundings of that one addition (and of `actual − cur`). -/
theorem estimate_tracks_steer_step (f f' : Filter) (id : Nat) :
    (∀ d, f.absorbFrequency id d = .ok f' → ∃ c old, getClock f.est id = .ok c ∧
      f.est.state.get (c.base + 1) 0 = some old ∧ f'.est.state.get (c.base + 1) 0 = some (F64.add old d)) ∧
    (∀ d, f.absorbOffset id d = .ok f' → ∃ c old, getClock f.est id = .ok c ∧
      f.est.state.get c.base 0 = some old ∧ f'.est.state.get c.base 0 = some (F64.add old d)) ∧
    (∀ dur, f.absorbSystem id dur = .ok f' → ∃ c old, getClock f.est id = .ok c ∧
      f.est.state.get c.base 0 = some old ∧
      f'.est.state.get c.base 0 = some (F64.add old (durAsSeconds dur))) := by
  have key : ∀ (m m' : Mat F64) (r : Nat) (d : F64), bumpCell m r d = some m' →
      ∃ old, m.get r 0 = some old ∧ m'.get r 0 = some (F64.add old d) := by
    intro m m' r d h
    unfold bumpCell at h
    cases hg : m.get r 0 with
    | none => simp [hg] at h
    | some old =>
      simp only [hg, Option.bind_eq_bind, Option.bind_some] at h
      unfold Mat.set at h
      split at h
      · rename_i hc
        cases h
        refine ⟨old, rfl, ?_⟩
        simp only [Mat.get, hc.1, hc.2.1, and_self, if_true]
        rw [List.getElem?_set]
        have := hc.2.2
        simp only [Nat.add_zero] at this
        simp [this]
        rfl
      · cases h
  refine ⟨?_, ?_, ?_⟩
  · intro d h
    unfold Filter.absorbFrequency at h
    obtain ⟨est, he, h⟩ := bindE h
    cases h
    have he := liftE_ok he
    unfold absorbFrequencySteer at he
    obtain ⟨c, hc, he⟩ := bindE he
    obtain ⟨st, hst, he⟩ := bindE he
    cases he
    cases hb : bumpCell f.est.state c.frequencyIndex d with
    | none => rw [hb] at hst; cases hst
    | some m' =>
      rw [hb] at hst
      cases hst
      obtain ⟨old, h1, h2⟩ := key _ _ _ _ hb
      exact ⟨c, old, hc, h1, h2⟩
  · intro d h
    unfold Filter.absorbOffset at h
    obtain ⟨est, he, h⟩ := bindE h
    cases h
    have he := liftE_ok he
    unfold absorbOffsetChange at he
    obtain ⟨c, hc, he⟩ := bindE he
    obtain ⟨st, hst, he⟩ := bindE he
    cases he
    cases hb : bumpCell f.est.state c.offsetIndex d with
    | none => rw [hb] at hst; cases hst
    | some m' =>
      rw [hb] at hst
      cases hst
      obtain ⟨old, h1, h2⟩ := key _ _ _ _ hb
      exact ⟨c, old, hc, h1, h2⟩
  · intro dur h
    unfold Filter.absorbSystem at h
    obtain ⟨est, he, h⟩ := bindE h
    cases h
    have he := liftE_ok he
    unfold absorbSystemClockOffsetChange at he
    obtain ⟨c, hc, he⟩ := bindE he
    obtain ⟨st, hst, he⟩ := bindE he
    cases he
    cases hb : bumpCell f.est.state c.offsetIndex (Num.ofDur dur) with
    | none => rw [hb] at hst; cases hst
    | some m' =>
      rw [hb] at hst
      cases hst
      obtain ⟨old, h1, h2⟩ := key _ _ _ _ hb
      exact ⟨c, old, hc, h1, h2⟩


/-- **C43.controller_invariant_history** — in every controller history the estimator is well-formed
    (C42's invariant: shapes, unique ids, index blocks partition the state vector), the steered clocks have
    pairwise different ids, all below the id counter. -/
theorem controller_invariant_history {now : Nat} {max w : F64} {cfg : Cfg} {c0 : Ctrl}
    (h0 : Ctrl.new now max w cfg = .ok c0) (ops : List COp) : CtrlInv (c0.run ops).1 :=
  inv_run ops c0 (inv_new h0)

/-- **C43.estimate_tracks_steer_tick** — one `steer_clocks` loop over clocks with pairwise different ids,
    starting from a well-formed estimator: for the clock `id` at any position,
    (1) the iterations before it leave its estimate (offset and frequency, value and uncertainty) as it was,
    (2) the iterations after it leave its estimate as its own iteration made it.
    With `estimate_tracks_steer_step` (its own iteration replaces the entry `old` by `old + absorbed`) and
    `steer_absorbs_applied` (absorbed = applied): at the end of the call the controller's estimate for every
    clock is the progressed estimate plus the step / frequency change applied to that clock. -/
theorem estimate_tracks_steer_tick (read : Filter) (leap : Option Leap) (rd : Int) (acc0 : SteerAcc)
    (h0 : WF acc0.filter.est) (pre post : List (Nat × Mock)) (id : Nat) (m : Mock)
    (hnd : ((pre ++ (id, m) :: post).map (·.1)).Nodup) :
    (clockOffset (steerLoop read leap rd acc0 0 pre).filter.est id = clockOffset acc0.filter.est id ∧
     clockFrequency (steerLoop read leap rd acc0 0 pre).filter.est id = clockFrequency acc0.filter.est id) ∧
    (clockOffset (steerLoop read leap rd acc0 0 (pre ++ (id, m) :: post)).filter.est id =
       clockOffset (steerClock read leap rd (steerLoop read leap rd acc0 0 pre) pre.length id m).filter.est id ∧
     clockFrequency (steerLoop read leap rd acc0 0 (pre ++ (id, m) :: post)).filter.est id =
       clockFrequency (steerClock read leap rd (steerLoop read leap rd acc0 0 pre) pre.length id m).filter.est id) := by
  simp only [List.map_append, List.map_cons] at hnd
  rw [List.nodup_append] at hnd
  obtain ⟨_, hpost, hdis⟩ := hnd
  have hpre : ∀ x ∈ pre, x.1 ≠ id := by
    intro x hx e
    exact hdis x.1 (List.mem_map.mpr ⟨x, hx, rfl⟩) id List.mem_cons_self e
  have hpo : ∀ x ∈ post, x.1 ≠ id := by
    intro x hx e
    rw [List.nodup_cons] at hpost
    exact hpost.1 (by rw [← e]; exact List.mem_map.mpr ⟨x, hx, rfl⟩)
  obtain ⟨w1, o1, f1⟩ := steerLoop_frame read leap rd (id := id) pre acc0 0 h0 hpre
  refine ⟨⟨o1, f1⟩, ?_⟩
  rw [steerLoop_split]
  simp only [Nat.zero_add]
  have w2 := steerClock_wf read leap rd (steerLoop read leap rd acc0 0 pre) pre.length id m w1
  obtain ⟨_, o2, f2⟩ := steerLoop_frame read leap rd (id := id) post _ (pre.length + 1) w2 hpo
  exact ⟨o2, f2⟩

/-- what `steer_clocks` runs the loop on: the progressed clone of the filter and the controller's clocks -/
theorem steerAcc_shape {c : Ctrl} {rd : Int} {acc : SteerAcc} (h : c.steerAcc = .ok (rd, acc)) :
    ∃ progressed leap, c.filter.progress c.now = .ok progressed ∧
      acc = steerLoop c.filter leap rd ⟨[], progressed, [], none, c.now⟩ 0 c.clocks := by
  unfold Ctrl.steerAcc at h
  split at h
  · cases h
  · obtain ⟨progressed, hp, h⟩ := bindE h
    obtain ⟨leap, _, h⟩ := bindE h
    obtain ⟨r, _, h⟩ := bindE h
    simp only [pure, Except.pure, Except.ok.injEq, Prod.mk.injEq] at h
    obtain ⟨rfl, rfl⟩ := h
    exact ⟨progressed, leap, hp, rfl⟩

/-- **C43.estimate_tracks_steer_history** — the same for every `steer_clocks` call of every controller
    history: the hypotheses of `estimate_tracks_steer_tick` hold at every reachable controller. -/
theorem estimate_tracks_steer_history {now : Nat} {max w : F64} {cfg : Cfg} {c0 : Ctrl}
    (h0 : Ctrl.new now max w cfg = .ok c0) (ops : List COp) {rd : Int} {acc : SteerAcc}
    (hs : (c0.run ops).1.steerAcc = .ok (rd, acc)) (pre post : List (Nat × Mock)) (id : Nat) (m : Mock)
    (hsplit : (c0.run ops).1.clocks = pre ++ (id, m) :: post) :
    ∃ progressed leap, (c0.run ops).1.filter.progress (c0.run ops).1.now = .ok progressed ∧
      let read := (c0.run ops).1.filter
      let acc0 : SteerAcc := ⟨[], progressed, [], none, (c0.run ops).1.now⟩
      let before := steerLoop read leap rd acc0 0 pre
      let mine := steerClock read leap rd before pre.length id m
      clockOffset before.filter.est id = clockOffset progressed.est id ∧
      clockFrequency before.filter.est id = clockFrequency progressed.est id ∧
      clockOffset acc.filter.est id = clockOffset mine.filter.est id ∧
      clockFrequency acc.filter.est id = clockFrequency mine.filter.est id := by
  have hinv := controller_invariant_history h0 ops
  obtain ⟨progressed, leap, hp, hacc⟩ := steerAcc_shape hs
  refine ⟨progressed, leap, hp, ?_⟩
  simp only
  have hnd := hinv.nodup
  rw [hsplit] at hnd hacc
  obtain ⟨⟨a, b⟩, ⟨c', d⟩⟩ := estimate_tracks_steer_tick (c0.run ops).1.filter leap rd
    ⟨[], progressed, [], none, (c0.run ops).1.now⟩ (progress_wf hinv.est hp) pre post id m hnd
  rw [hacc]
  exact ⟨a, b, c', d⟩


/-! ### no panics in the link filter and the controller; leap vote and local root delay -/

/-- **C43.windows_ordered** — (code as fixed by fixes/C43-negative-window.patch) every window `offset_window`
    computes is `[x − h, x + h]` with a half width `h ≥ 0` — whatever the configuration weights are — hence,
    by the one arithmetic fact `WindowLaw`, its low bound never sorts after its high bound. -/
theorem windows_ordered (hlaw : WindowLaw) (f : Filter) (cfg : Cfg) (h : WF f.est) :
    ∃ ws, windows f cfg = .ok ws ∧ ∀ o ∈ ws, ∀ w, o = some w → boundLe (w.low, false) (w.high, true) = true :=
  windows_total hlaw f cfg h

/-- **C43.consensus_never_panics** — with ordered windows `find_external_consensus_window` neither
    underflows its overlap counter (`cur -= 1`) nor trips `assert_eq!(maxlow, maxhigh)`: it returns a window
    or none.  (Before the fix a negative `select_*_window` weight gave low > high and the sweep panicked on the
    REAL code: finding F-C43c, witness = corpus case 1 of stream c43_ctrl.) -/
theorem consensus_never_panics (cfg : Cfg) (ws : List (Option Window))
    (hord : ∀ w ∈ ws.filterMap id, boundLe (w.low, false) (w.high, true) = true) :
    ∃ r, consensusOf cfg (boundsOf ws) = .ok r :=
  consensusOf_total cfg ws hord

/-- **C43.controller_never_panics_history** — along every controller history from `Ctrl.new` (so with at
    least the system clock) whose clocks report a maximum frequency `m` with `−m ≤ m` (not NaN, not negative:
    otherwise `f64::clamp` panics by contract), no call — clock / link management, external data update,
    `KalmanLink::measurement` with link selection, Kalman update and `steer_clocks` — fails with a panic or a
    `MatrixError`: no `clocks[0]` index failure, no matrix index out of range, no counter underflow, no failed
    assert.  What can fail are only the documented errors (unknown ids, both clocks external, clocks equal,
    clock in use, non-monotonic time, …).  Hypothesis `WindowLaw`: the IEEE fact `x − h` does not sort after
    `x + h` for `h ≥ 0` (arithmetic is otherwise uninterpreted, NaN estimates included). -/
theorem controller_never_panics_history (hlaw : WindowLaw) {now : Nat} {max w : F64} {cfg : Cfg} {c0 : Ctrl}
    (h0 : Ctrl.new now max w cfg = .ok c0) (hmax : F64.le (F64.neg max) max = true) (ops : List COp)
    (hops : ∀ op ∈ ops, op.Sane) (op : COp) (e : FErr)
    (he : (c0.run ops).1.failure op = some e) : e.isBug = false :=
  ctrl_failure_noBug hlaw (inv_run ops c0 (inv_new h0))
    (healthy_run ops c0 (inv_new h0) (healthy_new hmax h0) hops) op he

/-- **C43.link_estimator_sync_history** — in every controller history the estimator holds a link's delay state
    exactly while that link is tracked and active (`LinkSync.sync`), every delay state in the estimator belongs
    to such a link (`owned`), link ids are unique, and every link uid is below the uid counter. -/
theorem link_estimator_sync_history {now : Nat} {max w : F64} {cfg : Cfg} {c0 : Ctrl}
    (h0 : Ctrl.new now max w cfg = .ok c0) (ops : List COp) : CtrlSync (c0.run ops).1 :=
  ctrlSync_run ops c0 (inv_new h0) (ctrlSync_new h0)

/-- **C43.link_state_change_never_fails_spuriously** — with that invariant, letting a tracked link's delay
    state enter or leave the estimator (`add_link` / `remove_link` inside `LinkFilter::measurement`) can fail
    only with `UnknownClock` — an end point the estimator no longer knows, i.e. an external clock that was
    removed while links still use it (the FIXME in `remove_external_clock`) — never with `LinkAlreadyExists`
    or `UnknownLink`. -/
theorem link_state_change_never_fails_spuriously {f : Filter} (hs : LinkSync f) (hw : WF f.est) {l : FLink}
    (hl : l ∈ f.links) (delay noise : F64) (active' : Bool) {e : FErr}
    (he : f.syncEst l delay noise active' = .error e) : e = .est .UnknownClock :=
  syncEst_errors hs hw hl delay noise active' he


/-- **C43.leap_vote_strict_majority** — `leap_vote` announces a leap status exactly when a strict majority of
    the links that agree with the consensus window AND announce any status announce that one (links without
    a status do not vote); without a consensus window there is no vote. -/
theorem leap_vote_strict_majority {f : Filter} {cfg : Cfg} :
    (consensus f cfg = .ok none → f.leapVote cfg = .ok none) ∧
    (∀ cw ls, consensus f cfg = .ok (some cw) → agreeing f cfg cw = .ok ls → ∀ x : Leap,
      (f.leapVote cfg = .ok (some x) ↔ leapCount ls x * 2 > leapTotal ls)) := by
  refine ⟨leapVote_spec.1, ?_⟩
  intro cw ls hc ha x
  rw [leapVote_spec.2 cw ls hc ha]
  unfold leapTotal
  cases x <;> (split <;> (try split) <;> (try split)) <;> simp_all <;> omega

/-- **C43.local_root_delay_is_minimum** — `local_root_delay` is, over the links that agree with the consensus
    window, the minimum of `root_delay + link delay`: it is attained by one of them (or is `f64::MAX` when none
    has a value), is never NaN, and is `≤` every non-NaN candidate; without a consensus window it is `None`. -/
theorem local_root_delay_is_minimum {f : Filter} {cfg : Cfg} :
    (consensus f cfg = .ok none → f.localRootDelay cfg = .ok none) ∧
    (∀ cw ls, consensus f cfg = .ok (some cw) → agreeing f cfg cw = .ok ls →
      ∃ r, f.localRootDelay cfg = .ok (some r) ∧ r.isNaN = false ∧
        (∀ l ∈ ls, ∀ s, rootCandidate l = some s → s.isNaN = false → F64.le r s = true) ∧
        (r = F64_MAX ∨ ∃ l ∈ ls, rootCandidate l = some r)) := by
  refine ⟨localRootDelay_spec.1, ?_⟩
  intro cw ls hc ha
  obtain ⟨n, _, c, a⟩ := rdFold_spec ls F64_MAX rfl
  exact ⟨_, localRootDelay_spec.2 cw ls hc ha, n, c, a⟩


/-! #### non-vacuity of the whole-controller theorems (the arithmetic-dependent arms — links turning
active / inactive, frequency steering, clamping — are witnessed by the hit counters of stream c43_ctrl) -/

def demoCfg : Cfg := ⟨F64.one, F64.one, F64.one, F64.one, 1⟩

/-- a controller exists, gets a second clock and an untracked link between the two: the hypotheses of
    `internal_untracked_link_always_active` are satisfiable and its conclusion is visible -/
example : ∃ c0, Ctrl.new 5 F64.one F64.one demoCfg = .ok c0 ∧
    (((c0.run [.addClock ⟨F64.zero, F64.one⟩ F64.one, .link 0 1 none]).1.filter.links.map
      fun l => (l.id.uid, l.active, l.tracked.isSome, l.ext.isSome)) = [(0, true, false, false)]) :=
  ⟨_, rfl, rfl⟩

/-- an external untracked link starts inactive (and `created_link_shape` applies) -/
example : ∃ c0, Ctrl.new 5 F64.one F64.one demoCfg = .ok c0 ∧
    (((c0.run [.addExt, .link 0 1 none, .link 1 0 (some F64.one)]).1.filter.links.map
      fun l => (l.id.uid, l.active, l.tracked.isSome, l.ext.isSome)) =
        [(0, false, false, true), (1, false, true, true)]) :=
  ⟨_, rfl, rfl⟩

end NtpVerif.C43

#print axioms NtpVerif.C43.frequency_query
#print axioms NtpVerif.C43.unfixed_counterexample
#print axioms NtpVerif.C43.fixed_full
#print axioms NtpVerif.C43.steer_within_max
#print axioms NtpVerif.C43.steer_nan_passthrough
#print axioms NtpVerif.C43.steer_absorbs_applied
#print axioms NtpVerif.C43.estimate_tracks_steer
#print axioms NtpVerif.C43.internal_untracked_link_always_active
#print axioms NtpVerif.C43.created_link_shape
#print axioms NtpVerif.C43.external_link_activation_needs_consensus
#print axioms NtpVerif.C43.unfit_external_link_never_becomes_active
#print axioms NtpVerif.C43.no_window_if_unfit
#print axioms NtpVerif.C43.bookkeeping_keeps_external_data
#print axioms NtpVerif.C43.steer_within_max_history
#print axioms NtpVerif.C43.steer_log_sound_history
#print axioms NtpVerif.C43.estimate_tracks_steer_step
#print axioms NtpVerif.C43.controller_invariant_history
#print axioms NtpVerif.C43.estimate_tracks_steer_tick
#print axioms NtpVerif.C43.estimate_tracks_steer_history
#print axioms NtpVerif.C43.windows_ordered
#print axioms NtpVerif.C43.consensus_never_panics
#print axioms NtpVerif.C43.controller_never_panics_history
#print axioms NtpVerif.C43.link_estimator_sync_history
#print axioms NtpVerif.C43.link_state_change_never_fails_spuriously
#print axioms NtpVerif.C43.leap_vote_strict_majority
#print axioms NtpVerif.C43.local_root_delay_is_minimum
