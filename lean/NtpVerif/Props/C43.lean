/-
C43 — the PTP clock controller reports and steers consistently.

Model: `NtpVerif.Model.PtpCtrl` (`KalmanControllerState::steer_clocks` loop body for one clock,
`KalmanController::clock_frequency` / `clock_offset`) on top of `NtpVerif.Model.Estimator`.

Sentence of the property                                               theorem
  "the frequency query reports the estimated frequency of the          frequency_query  (FULL, on the fixed code)
   requested clock (not its offset)"                                    unfixed_counterexample (the code as found)
  "every frequency it sets on a clock lies within that clock's          steer_within_max (order-only, on f64 bits,
   maximum frequency"                                                   for every non-NaN wanted value)
  "after the controller steps a clock or changes its frequency, its     estimate_tracks_steer (exact arithmetic: any
   own estimate for that clock changes by the applied step or           element type whose + and − satisfy (a+d)−a=d);
   frequency change, to within floating-point rounding"                 steer_absorbs_applied (what is absorbed is
                                                                        what was applied, on f64 bits);
                                                                        the rounding clause itself is checked
                                                                        NUMERICALLY by the oracle (relative 1e-9),
                                                                        not proved.
-/
import NtpVerif.Proofs.EstimatorNum
import NtpVerif.Proofs.F64
import NtpVerif.Model.PtpCtrl

namespace NtpVerif.C43
open NtpVerif.Estimator NtpVerif.PtpCtrl

variable {α : Type}

/-- **C43.frequency_query** — (fixed code) `clock_frequency id` returns, for a known clock, the state's
    frequency entry `state[base+1]` and the square root of its variance `P[base+1, base+1]`; it fails
    with `UnknownClock` exactly when the clock is unknown. -/
theorem frequency_query [Num α] (filter : Est α) (id : Nat) :
    (∀ c, filter.clocks.find? (fun c => c.id == id) = some c →
      ∀ v u, filter.state.get (c.base + 1) 0 = some v → filter.unc.get (c.base + 1) (c.base + 1) = some u →
        ctrlClockFrequency filter id = .ok (v, Num.sqrt u)) ∧
    (filter.clocks.find? (fun c => c.id == id) = none →
      ctrlClockFrequency filter id = .error .UnknownClock) := by
  constructor
  · intro c hc v u hv hu
    simp [ctrlClockFrequency, clockFrequency, report, clockFrequencyRaw, getClock, hc, bind, Except.bind,
      ClockInfo.frequencyIndex, hv, hu, orPanic, pure, Except.pure, Except.map]
  · intro hc
    simp [ctrlClockFrequency, clockFrequency, report, clockFrequencyRaw, getClock, hc, bind, Except.bind,
      Except.map]

instance : Num Int where
  zero := 0
  one := 1
  negOne := -1
  two := 2
  three := 3
  sumInit := 0
  add := (· + ·)
  sub := (· - ·)
  mul := (· * ·)
  div := (· / ·)
  sqrt := fun x => x
  midpoint := fun a b => (a + b) / 2
  ofDur := fun d => d

def demo : Est Int :=
  match addClock (empty 0) 7 100 3 5 2 0 with
  | .ok s => s
  | .error _ => empty 0

/-- the query as stated: it must be the frequency pair for every state and clock -/
def Full (q : Est Int → Nat → R (Int × Int)) : Prop := ∀ s id, q s id = clockFrequency s id

/-- **C43.unfixed_counterexample** — the code as found (`clock_frequency` calling `clock_offset`)
    violates the statement: a clock added with offset 100±3 and frequency 5±2 is reported as (100, 9). -/
theorem unfixed_counterexample : ¬ Full ctrlClockFrequencyUnfixed := by
  intro h
  have := h demo 7
  have e1 : ctrlClockFrequencyUnfixed demo 7 = .ok (100, 9) := by rfl
  have e2 : clockFrequency demo 7 = .ok (5, 4) := by rfl
  rw [e1, e2] at this
  cases this

/-- the fixed query satisfies it (by definition of the controller query) -/
theorem fixed_full : Full ctrlClockFrequency := fun _ _ => rfl

/-- **C43.steer_within_max** — whenever the controller sets a frequency and the wanted value is not NaN,
    the value set lies in `[−max, max]` (IEEE order on the bit patterns; arithmetic uninterpreted). -/
theorem steer_within_max (isSystem : Bool) (offset unc freq cur max actual change : F64)
    (h : steerOne isSystem offset unc freq cur max = .setFreq actual change)
    (hw : (wanted offset freq cur).isNaN = false) :
    F64.le (F64.neg max) actual = true ∧ F64.le actual max = true := by
  unfold steerOne at h
  split at h
  · split at h
    · rename_i a hc
      simp only [Action.setFreq.injEq] at h
      obtain ⟨rfl, _⟩ := h
      exact F64.clamp_within hw hc
    · cases h
  · cases h

/-- a NaN wanted value is passed through unclamped (Rust's `f64::clamp`) — the only way out of range -/
theorem steer_nan_passthrough (isSystem : Bool) (offset unc freq cur max actual change : F64)
    (h : steerOne isSystem offset unc freq cur max = .setFreq actual change)
    (hw : (wanted offset freq cur).isNaN = true) : actual = wanted offset freq cur := by
  unfold steerOne at h
  split at h
  · split at h
    · rename_i a hc
      simp only [Action.setFreq.injEq] at h
      obtain ⟨rfl, _⟩ := h
      exact F64.clamp_nan hw hc
    · cases h
  · cases h

/-- **C43.steer_absorbs_applied** — what the estimator absorbs is what was applied to the clock:
    frequency change `actual − cur`; for the system clock the very `Duration` passed to `step_clock`
    (as seconds); for another clock `−offset`, of which the applied step is the `Duration` rounding. -/
theorem steer_absorbs_applied (isSystem : Bool) (offset unc freq cur max : F64) :
    (∀ actual change, steerOne isSystem offset unc freq cur max = .setFreq actual change →
      change = F64.sub actual cur) ∧
    (∀ dur absorbed, steerOne isSystem offset unc freq cur max = .step dur absorbed →
      dur = durOfF64 (F64.neg offset) ∧
      absorbed = (if isSystem then durAsSeconds dur else F64.neg offset)) := by
  constructor
  · intro actual change h
    unfold steerOne at h
    split at h
    · split at h
      · simp only [Action.setFreq.injEq] at h
        obtain ⟨rfl, rfl⟩ := h; rfl
      · cases h
    · cases h
  · intro dur absorbed h
    unfold steerOne at h
    split at h
    · split at h <;> cases h
    · simp only [Action.step.injEq] at h
      obtain ⟨rfl, rfl⟩ := h
      exact ⟨rfl, rfl⟩

/-- **C43.estimate_tracks_steer** (exact arithmetic) — absorbing a change `d` adds `d` to exactly the
    steered clock's entry: with `(a + d) − a = d` (any group, e.g. ℤ, ℚ, ℝ) the controller's estimate
    moves by the absorbed amount.  Stated on the estimator cell: the new cell is `old + d`. -/
theorem estimate_tracks_steer [Num α] (hlaw : ∀ a d : α, Num.sub (Num.add a d) a = d)
    {m m' : Mat α} {r : Nat} {d old : α} (hwf : m.WFm) (hold : m.get r 0 = some old)
    (h : bumpCell m r d = some m') :
    ∃ new, m'.get r 0 = some new ∧ Num.sub new old = d := by
  unfold bumpCell at h
  rw [hold] at h
  simp only [Option.bind_eq_bind, Option.bind_some] at h
  unfold Mat.set at h
  split at h
  · rename_i hc
    cases h
    refine ⟨Num.add old d, ?_, hlaw old d⟩
    simp only [Mat.get, hc.1, hc.2.1, and_self, if_true]
    rw [List.getElem?_set]
    have := hc.2.2
    simp only [Nat.add_zero] at this
    simp [this]
  · cases h

/-! #### non-vacuity -/

/-- a frequency steer that hits the clamp: offset 1 ms (σ = 1 µs), max 1e-6 → set to −max -/
example : steerOne false ⟨0x3f50624dd2f1a9fc⟩ ⟨0x3eb0c6f7a0b5ed8d⟩ F64.zero F64.zero ⟨0x3eb0c6f7a0b5ed8d⟩ =
    .setFreq ⟨0xbeb0c6f7a0b5ed8d⟩ (F64.sub ⟨0xbeb0c6f7a0b5ed8d⟩ F64.zero) := by
  simp only [steerOne, wantsFreq, F64.clamp]
  decide

/-- the group law holds for `Int` -/
example : ∀ a d : Int, Num.sub (Num.add a d) a = d := by
  intro a d; show a + d - a = d; omega

end NtpVerif.C43

#print axioms NtpVerif.C43.frequency_query
#print axioms NtpVerif.C43.unfixed_counterexample
#print axioms NtpVerif.C43.fixed_full
#print axioms NtpVerif.C43.steer_within_max
#print axioms NtpVerif.C43.steer_nan_passthrough
#print axioms NtpVerif.C43.steer_absorbs_applied
#print axioms NtpVerif.C43.estimate_tracks_steer
