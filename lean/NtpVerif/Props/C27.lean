/-
C27 — Server cookie keys persist safely across restarts and crashes.

Model: `NtpVerif.Model.KeySet` (`store`, `load`, `readKeys`, `startup` = the load-or-fresh start of
`nts_key_provider::spawn`, `encode`/`decode` for "can issue and decode cookies").  `load` is the code WITH
the two proposed fixes (fixes/C27-*.patch); `loadUnfixed` is the code as found.

Property sentence                                                        theorem
  "keys stored are restored on restart, so cookies issued before        load_store, cookies_survive_restart
   the restart stay valid"
  "crash at any point while storing ⇒ next start restores exactly       prefix_rejected, crash_restores_or_fresh
   the key set being stored or starts with fresh keys"                    (crash point = written prefix after the
                                                                           truncating open; every prefix covered)
  "truncated or corrupted file ⇒ rejected + fresh keys, or a key set    corrupt_total, startup_never_aborts,
   that can issue and decode cookies; never one that crashes it"          loaded_is_usable   (every byte string)
  the code as found violates the last sentence                          unfixed_violates (two witnesses)
  "a newly created key file is readable and writable by its owner       NOT a theorem: mode bits and the atomicity of
   only"; that a crash leaves a *prefix* on disk                          open(O_TRUNC)+write are OS behaviour —
                                                                           exercised by stream c27_spawn (partial)
-/
import NtpVerif.Proofs.KeySet

namespace NtpVerif.C27
open NtpVerif.KeySet

/-- **load_store** — what `store` writes, `load` reads back: the same keys, id offset and primary (and the
    stored time), for every provider (`Storable`: 64-byte keys, u32 words — true of every `KeySetProvider`)
    whose primary indexes a key, at every clock value a `SystemTime` can hold. -/
theorem load_store (p : Provider Bytes) (hs : p.Storable) (hprim : p.current.primary < p.current.keys.length)
    (now : Nat) (hnow : now < 9223372036854775808) (h : Nat) :
    ∃ b, store p now = some b ∧ load b h = .ok { current := p.current, history := h } now := by
  obtain ⟨hk, hl, ho, hp⟩ := hs
  refine ⟨mkFile now p.current.idOffset p.current.primary p.current.keys.length p.current.keys.flatten, ?_, ?_⟩
  · simp [store, mkFile]
  · simp only [M32] at hl ho hp
    rw [load_mkFile, if_neg (by omega), if_neg (by omega), Nat.mod_eq_of_lt hl]
    have := readKeys_flatten p.current.keys [] hk
    rw [List.append_nil] at this
    rw [this]
    simp only [Nat.mod_eq_of_lt ho, Nat.mod_eq_of_lt hp, Nat.mod_eq_of_lt (show now < 18446744073709551616 by omega)]

/-- **cookies_survive_restart** — the restored provider decodes every byte string exactly as the storing
    one did (same table of past encryptions): cookies issued before the restart stay valid, and no others
    become valid. -/
theorem cookies_survive_restart (p : Provider Bytes) (hs : p.Storable)
    (hprim : p.current.primary < p.current.keys.length) (now : Nat) (hnow : now < 9223372036854775808)
    (h : Nat) (b : Bytes) (hb : store p now = some b) :
    ∃ q t, load b h = .ok q t ∧ ∀ (tbl : Table Bytes) (cookie : Bytes),
      decode tbl q.current cookie = decode tbl p.current cookie := by
  obtain ⟨b', hb', hl⟩ := load_store p hs hprim now hnow h
  rw [hb] at hb'
  cases hb'
  exact ⟨_, _, hl, fun _ _ => rfl⟩

/-- **prefix_rejected** — every strict prefix of a stored file is rejected by `load` (with an error, not a
    panic).  A crash during truncate-then-write leaves such a prefix. -/
theorem prefix_rejected (p : Provider Bytes) (hs : p.Storable) (now : Int) (b q : Bytes)
    (hb : store p now = some b) (hq : q <+: b) (hne : q ≠ b) (h : Nat) :
    ∃ e, load q h = .err e := by
  obtain ⟨hk, hl, ho, hp⟩ := hs
  simp only [store] at hb
  split at hb
  · cases hb
  · simp only [Option.some.injEq] at hb
    have hqlen : q.length < b.length := by
      have := hq.length_le
      rcases Nat.lt_or_eq_of_le this with h1 | h1
      · exact h1
      · exact absurd (hq.eq_of_length h1) hne
    have hqt : q = b.take q.length := List.prefix_iff_eq_take.mp hq
    have hbf : b = mkFile now.toNat p.current.idOffset p.current.primary p.current.keys.length
        p.current.keys.flatten := by rw [← hb]; rfl
    have hflat : p.current.keys.flatten.length = 64 * p.current.keys.length := by
      have : ∀ (l : List Bytes), (∀ k ∈ l, k.length = 64) → l.flatten.length = 64 * l.length := by
        intro l hl
        induction l with
        | nil => rfl
        | cons a l ih =>
          simp only [List.flatten_cons, List.length_append, List.length_cons]
          rw [hl a (by simp), ih (fun k hk => hl k (by simp [hk]))]
          omega
      exact this _ hk
    have hblen : b.length = 20 + 64 * p.current.keys.length := by
      rw [hbf, (mkFile_fields _ _ _ _ _).1, hflat]
    by_cases h20 : q.length < 20
    · exact ⟨.eof, by unfold load; rw [if_pos h20]⟩
    · rw [hqt, hbf, mkFile_take _ _ _ _ _ _ (by omega), load_mkFile]
      simp only [M32] at hl
      split
      · exact ⟨_, rfl⟩
      · split
        · exact ⟨_, rfl⟩
        · rw [readKeys_short _ _ (by
            rw [Nat.mod_eq_of_lt hl, List.length_take, hflat]; omega)]
          exact ⟨_, rfl⟩

/-- **corrupt_total** — `load` never panics, whatever the bytes. -/
theorem corrupt_total (b : Bytes) (h : Nat) : load b h ≠ .panic := by
  unfold load
  split
  · simp
  · simp only
    split
    · simp
    · split
      · simp
      · split <;> simp

/-- **startup_never_aborts** — the daemon's load-or-fresh start never aborts, whatever is (or is not) in
    the key file. -/
theorem startup_never_aborts (file : Option Bytes) (h : Nat) (fresh : Bytes) :
    startup file h fresh ≠ .abort := by
  unfold startup
  cases file with
  | none => simp
  | some b =>
    simp only
    have := corrupt_total b h
    cases hl : load b h with
    | ok p t => simp
    | err e => simp
    | panic => exact absurd hl this

/-- **crash_restores_or_fresh** — if the daemon crashes at any point of a store (the file then holds some
    prefix `q` of the bytes being written, possibly none or all of them), the next start continues with
    exactly the key set that was being stored, or with fresh keys. -/
theorem crash_restores_or_fresh (p : Provider Bytes) (hs : p.Storable)
    (hprim : p.current.primary < p.current.keys.length) (now : Nat) (hnow : now < 9223372036854775808)
    (b q : Bytes) (hb : store p now = some b) (hq : q <+: b) (h : Nat) (fresh : Bytes) :
    startup (some q) h fresh = .loaded { current := p.current, history := h } now ∨
    startup (some q) h fresh = .fresh (Provider.new h fresh) := by
  by_cases hqb : q = b
  · left
    obtain ⟨b', hb', hl⟩ := load_store p hs hprim now hnow h
    rw [hb] at hb'
    cases hb'
    simp [startup, hqb, hl]
  · right
    obtain ⟨e, he⟩ := prefix_rejected p hs now b q hb hq hqb h
    simp [startup, he]

/-- **loaded_is_usable** (the full statement) — whatever bytes `load` accepts, the key set it returns can
    issue and decode cookies: its primary indexes a key, `encode_cookie` does not panic (for every output
    of a conforming cipher: 16-byte nonce, 16-byte tag), and the cookie decodes back. -/
theorem loaded_is_usable (b : Bytes) (h : Nat) (p : Provider Bytes) (t : Nat) (hl : load b h = .ok p t) :
    p.current.primary < p.current.keys.length ∧ p.Storable ∧
    ∀ (c : Cookie) (nonce ct : Bytes), nonce.length = 16 → ct.length = c.plaintext.length + 16 →
      ∃ cookie e, encode p.current c nonce ct = some (cookie, e) ∧
        (c.WF → ∀ tbl : Table Bytes, decode (e :: tbl) p.current cookie = some c) := by
  unfold load at hl
  split at hl
  · cases hl
  · rename_i h20
    simp only at hl
    split at hl
    · cases hl
    · split at hl
      · cases hl
      · rename_i hpl
        split at hl
        · cases hl
        · rename_i keys hr
          simp only [LoadOut.ok.injEq] at hl
          obtain ⟨hp, _⟩ := hl
          subst hp
          obtain ⟨hlen, h64⟩ := readKeys_length hr
          have l4 : ∀ k, k + 4 ≤ b.length → ((b.drop k).take 4).length = 4 := by
            intro k hk; simp; omega
          have hprim : beNat ((b.drop 12).take 4) < keys.length := by rw [hlen]; omega
          have hoff := beNat_lt4 _ (l4 8 (by omega))
          have hp32 := beNat_lt4 _ (l4 12 (by omega))
          have hl32 := beNat_lt4 _ (l4 16 (by omega))
          refine ⟨hprim, ⟨h64, by rw [hlen]; exact hl32, hoff, hp32⟩, ?_⟩
          intro c nonce ct hn hct
          obtain ⟨k, hk⟩ : ∃ k, keys[beNat ((b.drop 12).take 4)]? = some k :=
            ⟨_, List.getElem?_eq_getElem hprim⟩
          have henc : encode (KeySet.mk keys (beNat ((b.drop 8).take 4)) (beNat ((b.drop 12).take 4))) c nonce ct =
              some (be32 ((beNat ((b.drop 12).take 4) + beNat ((b.drop 8).take 4)) % M32) ++
                      be16 ct.length ++ nonce ++ ct,
                    { key := k, nonce := nonce, ct := ct, pt := c.plaintext }) := by
            simp only [encode, hk]
            rw [if_neg (by omega)]
          exact ⟨_, _, henc, fun hwf tbl => decode_encode tbl _ c hwf nonce ct _ _ hp32 hoff henc⟩

/-- **startupAt_never_aborts** — whatever is at the key-storage-path (missing parent directory, a directory,
    nothing, any file), the start never aborts; without a readable regular file it continues with fresh
    keys. -/
theorem startupAt_never_aborts (k : PathKind) (content : Bytes) (h : Nat) (fresh : Bytes) :
    startupAt k content h fresh ≠ .abort ∧
    (k ≠ .file → startupAt k content h fresh = .fresh (Provider.new h fresh)) := by
  refine ⟨startup_never_aborts _ h fresh, ?_⟩
  intro hk
  simp [startupAt, hk, startup]

/-- **store_path_outcomes** — the modelled store attempt (the code as it is): a missing parent directory or a
    directory at the path makes it fail without creating anything (the daemon only warns and keeps its keys
    in memory); a file is newly created only when the parent exists and the file does not, and then with
    mode 0600; an existing file keeps its mode.  (The mode bits themselves are the OS's: stream c27_spawn
    reads them from the real file system under umask 022 and 077.) -/
theorem store_path_outcomes (m : Nat) :
    storeOutcome .missingParent = .failed ∧ storeOutcome .directory = .failed ∧
    modeAfter .missingParent m = none ∧ modeAfter .directory m = none ∧
    (∀ k, storeOutcome k = .created ↔ k = .absent) ∧
    modeAfter .absent m = some 600 ∧ modeAfter .file m = some m := by
  refine ⟨rfl, rfl, rfl, rfl, ?_, rfl, rfl⟩
  intro k; cases k <;> simp [storeOutcome]

/-! #### the code as found -/

/-- the last sentence of the property for the unfixed `load` -/
def FullUnfixed : Prop :=
  (∀ b h, loadUnfixed b h ≠ .panic) ∧
  (∀ b h p t, loadUnfixed b h = .ok p t → p.current.primary < p.current.keys.length)

/-- witness 1 (F-C27): a 20-byte file `time = 0, id_offset = 0, primary = 0, len = 0` loads … -/
theorem unfixed_loads_empty_set :
    loadUnfixed (List.replicate 20 0) 3 = .ok { current := { keys := [], idOffset := 0, primary := 0 }, history := 3 } 0 := by
  decide

/-- … and the first `encode_cookie` on it panics (index out of bounds) -/
theorem unfixed_empty_set_panics (c : Cookie) (nonce ct : Bytes) :
    encode ({ keys := [], idOffset := 0, primary := 0 } : KeySet Bytes) c nonce ct = none := rfl

/-- witness 2 (F-C27b): a time word of `2^63` seconds makes `load` itself panic -/
theorem unfixed_time_panics :
    loadUnfixed (be64 9223372036854775808 ++ List.replicate 12 0) 0 = .panic := by
  decide

/-- **unfixed_violates** — the code as found does not satisfy the property. -/
theorem unfixed_violates : ¬ FullUnfixed := by
  intro ⟨h1, _⟩
  exact h1 _ _ unfixed_time_panics

theorem unfixed_violates_usable :
    ¬ (∀ b h p t, loadUnfixed b h = .ok p t → p.current.primary < p.current.keys.length) := by
  intro h
  have := h _ _ _ _ unfixed_loads_empty_set
  simp at this

/-! #### non-vacuity -/

/-- a two-key provider (after one rotation with history 1) is storable, its file is 148 bytes, and the
    hypotheses of `load_store` / `crash_restores_or_fresh` hold for it -/
example :
    let p : Provider Bytes := (Provider.new 1 (List.replicate 64 1)).rotate (List.replicate 64 2)
    p.Storable ∧ p.current.primary < p.current.keys.length ∧
    (store p 1700000000).map List.length = some 148 := by
  refine ⟨⟨?_, ?_, ?_, ?_⟩, ?_, ?_⟩ <;> decide +kernel

/-- the fixed `load` rejects both witnesses -/
example : load (List.replicate 20 0) 3 = .err .other ∧
    load (be64 9223372036854775808 ++ List.replicate 12 0) 0 = .err .other := by decide

/-- `loaded_is_usable` is not vacuous: a one-key file loads -/
example : load (mkFile 5 7 0 1 (List.replicate 64 9)) 2 =
    .ok { current := { keys := [List.replicate 64 9], idOffset := 7, primary := 0 }, history := 2 } 5 := by
  decide +kernel

/-- a strict prefix (here: the header and half a key) is rejected with `UnexpectedEof` -/
example : load ((mkFile 5 7 0 1 (List.replicate 64 9)).take 52) 2 = .err .eof := by decide +kernel

end NtpVerif.C27

#print axioms NtpVerif.C27.load_store
#print axioms NtpVerif.C27.cookies_survive_restart
#print axioms NtpVerif.C27.prefix_rejected
#print axioms NtpVerif.C27.corrupt_total
#print axioms NtpVerif.C27.startup_never_aborts
#print axioms NtpVerif.C27.startupAt_never_aborts
#print axioms NtpVerif.C27.store_path_outcomes
#print axioms NtpVerif.C27.crash_restores_or_fresh
#print axioms NtpVerif.C27.loaded_is_usable
#print axioms NtpVerif.C27.unfixed_violates
#print axioms NtpVerif.C27.unfixed_violates_usable
