/-
C08 — a source only accepts fresh answers to its own pending request.

Model: `NtpVerif.Model.SourceSM` (`handle_incoming`, `process_message`, `valid_server_response`,
`check_uid_extensionfield`, `is_expected_incoming_version` over the abstract packet record; packet parsing
itself is outside this model — it is covered by the tie of C23–C25).

Property sentence ↔ theorem
  "uses a received packet … only if it answers the most recent request (matching origin timestamp or NTPv5
   client cookie, and unique identifier when present), arrives within the poll window, has the expected
   protocol version, is in server mode, is not a KISS code and has stratum at most 16"
        ↔ `measurement_conditions` (+ `valid_means_bound` for what "matching" means)
  "Each request yields at most one measurement, so replays and duplicates are ignored"
        ↔ `accepted_clears_request`, `replay_ignored`, `at_most_one` (segment between two sends),
          `measurements_le_requests` (whole histories)
-/
import NtpVerif.Proofs.SourceSM
import NtpVerif.Model.SourceBytes

namespace NtpVerif.C08
open NtpVerif.SourceSM NtpVerif.CookieStash

/-- a field list that `check_uid_extensionfield` does not reject consists of fields starting with the uid -/
theorem checkUid_ne_false (fs : List (List UInt8)) (u : List UInt8) (h : checkUid fs u ≠ some false) :
    ∀ f ∈ fs, u.length ≤ f.length ∧ f.take u.length = u := by
  intro f hf
  unfold checkUid at h
  split at h
  · exact absurd rfl h
  · rename_i hany
    simp only [List.any_eq_true, not_exists, not_and, Bool.or_eq_true, decide_eq_true_eq, bne_iff_ne, ne_eq,
      not_or, Decidable.not_not] at hany
    have := hany f hf
    exact ⟨by omega, this.2⟩

theorem checkUid_isSome (fs : List (List UInt8)) (u : List UInt8) (h : (checkUid fs u).isSome = true) :
    fs ≠ [] := by
  intro e; subst e
  simp [checkUid] at h

/-- **C08.valid_means_bound** — what `valid_server_response` guarantees: the origin timestamp (v3/v4) or client
    cookie (v5) equals the one of the request, and, when the request carried a unique identifier, at least one
    unique-identifier field of the answer starts with it while none in the authenticated or encrypted part
    contradicts it. -/
theorem valid_means_bound (p : Pkt) (id : ReqId) (nts : Bool) (h : p.validResponse id nts = true) :
    p.origin = id.origin ∧
    ∀ u, id.uid = some u →
      (∃ f ∈ p.uidAuth ++ p.uidEnc ++ p.uidUntr, u.length ≤ f.length ∧ f.take u.length = u) ∧
      (∀ f ∈ p.uidAuth ++ p.uidEnc, u.length ≤ f.length ∧ f.take u.length = u) := by
  unfold Pkt.validResponse at h
  simp only [Bool.and_eq_true, beq_iff_eq] at h
  refine ⟨h.2, ?_⟩
  intro u hu
  have h1 := h.1
  rw [hu] at h1
  simp only [uidOk, Bool.and_eq_true, bne_iff_ne, ne_eq, Bool.or_eq_true, Bool.not_eq_eq_eq_not,
    Bool.not_true] at h1
  obtain ⟨⟨⟨ha, he⟩, _⟩, hsome⟩ := h1
  have hA := checkUid_ne_false _ _ ha
  have hE := checkUid_ne_false _ _ he
  constructor
  · rcases hsome with (hs | hs) | ⟨hcond, hs⟩
    · have := checkUid_isSome _ _ hs
      obtain ⟨f, hf⟩ := List.exists_mem_of_ne_nil _ this
      exact ⟨f, by simp [hf], hA f hf⟩
    · have := checkUid_isSome _ _ hs
      obtain ⟨f, hf⟩ := List.exists_mem_of_ne_nil _ this
      exact ⟨f, by simp [hf], hE f hf⟩
    · have hne := checkUid_isSome _ _ hs
      obtain ⟨f, hf⟩ := List.exists_mem_of_ne_nil _ hne
      -- in this arm the untrusted list is considered, so it must not contradict either
      have hU : checkUid p.uidUntr u ≠ some false := by
        rename_i hu'
        rcases hu' with hu' | hu'
        · exact hu'
        · rcases hcond with hc | hc
          · simp [hc] at hu'
          · simp [hc] at hu'
      exact ⟨f, by simp [hf], checkUid_ne_false _ _ hU f hf⟩
  · intro f hf
    rcases List.mem_append.mp hf with hf | hf
    · exact hA f hf
    · exact hE f hf

/-- **C08.measurement_conditions** — `handle_incoming` hands a packet to the controller (two measurements and a
    `set_usable`) only if a request is pending, the packet arrives no later than the end of its poll window,
    has the version the protocol state expects, is a valid response to exactly that request, is not a KISS
    code, has stratum ≤ 16 and server mode; the measurement carries the packet's timestamps; and the pending
    request is consumed. -/
theorem measurement_conditions (s s' : State) (now : Nat) (parsed : Option Pkt) (sendTs recvTs : Nat)
    (bl : Option Bool) (u : Bool) (m : Meas) (k : Nat)
    (h : handleIncoming s now parsed sendTs recvTs bl = (s', .accepted u m k)) :
    ∃ p id deadline, parsed = some p ∧ s.pending = some (id, deadline) ∧ now ≤ deadline ∧
      s.proto.expects p.version = true ∧ p.validResponse id s.nts.isSome = true ∧
      p.stratum ≠ 0 ∧ p.stratum ≤ 16 ∧ p.mode = 4 ∧
      s'.pending = none ∧
      m = { sendTs := sendTs, srvRecvTs := p.recvTs, srvXmitTs := p.xmitTs, recvTs := recvTs,
            rootDelay := p.rootDelay, rootDisp := p.rootDisp, leap := p.leap, precision := p.precision } := by
  obtain ⟨p, id, dl, hp, hacc, heq⟩ := accepted_iff_aux true s now parsed sendTs recvTs bl u m k s' h
  refine ⟨p, id, dl, hp, hacc.pending, hacc.inWindow, hacc.version, hacc.valid, hacc.notKiss, hacc.stratum,
    hacc.mode, ?_, ?_⟩
  · have := processMessage_pending { s with proto := protoOnValid s.proto p.isUpgrade } p sendTs recvTs bl
    rw [← heq] at this
    exact this
  · unfold processMessage at heq
    cases hn : s.nts with
    | none =>
      simp only [hn] at heq
      injection heq with _ h2
      injection h2 with _ hm _
    | some st =>
      simp only [hn] at heq
      split at heq
      · injection heq with _ h2; cases h2
      · injection heq with _ h2
        injection h2 with _ hm _

/-- **C08.accepted_clears_request** — after a measurement the request is no longer pending. -/
theorem accepted_clears_request (s s' : State) (now : Nat) (parsed : Option Pkt) (a b : Nat) (bl : Option Bool)
    (u : Bool) (m : Meas) (k : Nat) (h : handleIncoming s now parsed a b bl = (s', .accepted u m k)) :
    s'.pending = none := by
  obtain ⟨_, _, _, _, _, _, _, _, _, _, _, hp, _⟩ := measurement_conditions s s' now parsed a b bl u m k h
  exact hp

/-- **C08.replay_ignored** — without a pending request (in particular right after an accepted answer) every
    datagram, a replay of the accepted one included, is ignored and leaves the state untouched. -/
theorem replay_ignored (s : State) (now : Nat) (parsed : Option Pkt) (a b : Nat) (bl : Option Bool)
    (h : s.pending = none) : handleIncoming s now parsed a b bl = (s, .ignore) :=
  incoming_no_pending true s now parsed a b bl h

/-! #### end to end, on the received bytes

`incomingBytes` = parser model (`NtpVerif.Model.Packet`, any decryption oracle) ; `recordOfParse` ; state machine — tied to the
implementation by stream `sm_bytes_c08` (the Lean side computes the record from the BYTES). -/

open NtpVerif.Wire NtpVerif.SourceBytes in
/-- **C08.bytes_measurement_conditions** — if `handle_incoming` on the received BYTES yields a measurement, then the
    datagram parsed successfully (`NtpPacket::deserialize` returned `Ok`, in particular the NTS authenticator, if any,
    verified), and the parsed packet is an answer of the expected version, valid for exactly the pending request
    (origin timestamp / client cookie and unique identifier, `valid_means_bound`), not a KISS code, stratum ≤ 16,
    server mode, within the poll window; the request is consumed. -/
theorem bytes_measurement_conditions (dec : Dec) (s2c : Option Bytes) (s s' : State) (now : Nat) (data : Bytes)
    (sendTs recvTs : Nat) (bl : Option Bool) (u : Bool) (m : Meas) (k : Nat)
    (h : incomingBytes dec s2c s now data sendTs recvTs bl = (s', .accepted u m k)) :
    ∃ pkt cookie id deadline,
      parse dec (ctxOf s2c) data = .ok pkt cookie ∧
      s.pending = some (id, deadline) ∧ now ≤ deadline ∧
      s.proto.expects (recordOfPacket pkt).version = true ∧
      (recordOfPacket pkt).validResponse id s.nts.isSome = true ∧
      (recordOfPacket pkt).stratum ≠ 0 ∧ (recordOfPacket pkt).stratum ≤ 16 ∧ (recordOfPacket pkt).mode = 4 ∧
      s'.pending = none := by
  unfold incomingBytes at h
  obtain ⟨p, id, dl, hp, h1, h2, h3, h4, h5, h6, h7, h8, _⟩ :=
    measurement_conditions s s' now _ sendTs recvTs bl u m k h
  cases hpar : parse dec (ctxOf s2c) data with
  | ok pkt c =>
    rw [hpar] at hp
    simp only [recordOfParse, Option.some.injEq] at hp
    subst hp
    exact ⟨pkt, c, id, dl, rfl, h1, h2, h3, h4, h5, h6, h7, h8⟩
  | decryptErr pkt => rw [hpar] at hp; cases hp
  | err e => rw [hpar] at hp; cases hp
  | panic => rw [hpar] at hp; cases hp
  | fuel => rw [hpar] at hp; cases hp

open NtpVerif.Wire NtpVerif.SourceBytes in
/-- **C08.bytes_replay_ignored** — without a pending request every datagram, whatever its bytes, is ignored. -/
theorem bytes_replay_ignored (dec : Dec) (s2c : Option Bytes) (s : State) (now : Nat) (data : Bytes)
    (a b : Nat) (bl : Option Bool) (h : s.pending = none) :
    incomingBytes dec s2c s now data a b bl = (s, .ignore) :=
  replay_ignored s now _ a b bl h

theorem idxP_ok {bs : NtpVerif.Wire.Bytes} {i : Nat} {b : UInt8} (h : NtpVerif.Wire.idxP bs i = .ok b) : bs[i]? = some b := by
  unfold NtpVerif.Wire.idxP at h
  split at h
  · rename_i hb; injection h with h; subst h; exact hb
  · cases h

theorem sliceP_ok {bs r : NtpVerif.Wire.Bytes} {a b : Nat} (h : NtpVerif.Wire.sliceP bs a b = .ok r) :
    NtpVerif.Wire.slice? bs a b = some r := by
  unfold NtpVerif.Wire.sliceP at h
  split at h
  · rename_i hb; injection h with h; subst h; exact hb
  · cases h

open NtpVerif.Wire in
/-- what the header fields are on the wire, NTPv3/v4: the mode is bits 0–2 of the first byte, the stratum the
    second byte, the origin timestamp bytes 24..32 (big endian); a parsed header has at least 48 bytes -/
theorem header_v34_bytes (data : Bytes) (h : HeaderV34) (hs : Nat) (hd : HeaderV34.deserialize data = .ok (h, hs)) :
    48 ≤ data.length ∧ ∃ b0 b1 o, data[0]? = some b0 ∧ data[1]? = some b1 ∧ slice? data 24 32 = some o ∧
      h.mode = b0.toNat % 8 ∧ h.stratum = b1.toNat ∧ h.originTs = beNat o := by
  unfold HeaderV34.deserialize at hd
  split at hd
  · cases hd
  · rename_i hlen
    simp only [Gen.HEADER_V3V4_WIRE_LENGTH] at hlen
    simp only [bind, Except.bind] at hd
    cases h0 : idxP data 0 with
    | error e => rw [h0] at hd; cases hd
    | ok b0 =>
      rw [h0] at hd; simp only at hd
      cases hl : Leap.fromBits (b0.toNat / 64) with
      | error e => rw [hl] at hd; cases hd
      | ok lp =>
        rw [hl] at hd; simp only at hd
        have hm : modeFromBits (b0.toNat % 8) = .ok (b0.toNat % 8) := by
          unfold modeFromBits; simp [Nat.mod_lt]
        rw [hm] at hd; simp only at hd
        cases h1 : idxP data 1 with
        | error e => rw [h1] at hd; cases hd
        | ok b1 =>
          rw [h1] at hd; simp only at hd
          cases h2 : idxP data 2 with
          | error e => rw [h2] at hd; cases hd
          | ok b2 =>
            rw [h2] at hd; simp only at hd
            cases h3 : idxP data 3 with
            | error e => rw [h3] at hd; cases hd
            | ok b3 =>
              rw [h3] at hd; simp only at hd
              cases h4 : sliceP data 4 8 with
              | error e => rw [h4] at hd; cases hd
              | ok rd =>
                rw [h4] at hd; simp only at hd
                cases h5 : sliceP data 8 12 with
                | error e => rw [h5] at hd; cases hd
                | ok rdp =>
                  rw [h5] at hd; simp only at hd
                  cases h6 : sliceP data 12 16 with
                  | error e => rw [h6] at hd; cases hd
                  | ok rid =>
                    rw [h6] at hd; simp only at hd
                    cases h7 : sliceP data 16 24 with
                    | error e => rw [h7] at hd; cases hd
                    | ok rts =>
                      rw [h7] at hd; simp only at hd
                      cases h8 : sliceP data 24 32 with
                      | error e => rw [h8] at hd; cases hd
                      | ok ots =>
                        rw [h8] at hd; simp only at hd
                        cases h9 : sliceP data 32 40 with
                        | error e => rw [h9] at hd; cases hd
                        | ok rcv =>
                          rw [h9] at hd; simp only at hd
                          cases h10 : sliceP data 40 48 with
                          | error e => rw [h10] at hd; cases hd
                          | ok tts =>
                            rw [h10] at hd
                            simp only [pure, Except.pure, Except.ok.injEq, Prod.mk.injEq] at hd
                            obtain ⟨hh, _⟩ := hd
                            subst hh
                            exact ⟨by omega, b0, b1, ots, idxP_ok h0, idxP_ok h1, sliceP_ok h8, rfl, rfl, rfl⟩

open NtpVerif.Wire in
theorem constructPacket_header {header : Header} {remaining : Bytes} {ef : EFData} {p : Packet}
    (h : constructPacket header remaining ef = .ok p) : p.header = header := by
  unfold constructPacket at h
  split at h
  · simp only [bind, Except.bind, pure, Except.pure] at h
    split at h
    · cases h
    · cases h; rfl
  · cases h; rfl

open NtpVerif.Wire in
theorem parseEF_header {dec : Dec} {ctx : Ctx} {data : Bytes} {header : Header} {hs : Nat} {ver : Ver}
    {p : Packet} {c : Option Wire.Cookie} {v : Bool} (h : parseEF dec ctx data header hs ver = .ok (p, c, v)) :
    p.header = header := by
  unfold parseEF at h
  simp only [bind, Except.bind, pure, Except.pure] at h
  split at h
  · cases h
  · split at h
    · cases h
    · rename_i p' hp'
      simp only [Except.ok.injEq, Prod.mk.injEq] at h
      rw [← h.1]
      exact constructPacket_header hp'

open NtpVerif.Wire in
/-- a packet that parsed with an NTPv3/NTPv4 header: that header is `HeaderV34.deserialize` of the datagram -/
theorem parseR_header_v34 {dec : Dec} {ctx : Ctx} {data : Bytes} {p : Packet} {c : Option Wire.Cookie} {v : Bool}
    (h : parseR dec ctx data = .ok (p, c, v)) (hh : HeaderV34) (hv : p.header = .v3 hh ∨ p.header = .v4 hh) :
    ∃ hs, HeaderV34.deserialize data = .ok (hh, hs) := by
  unfold parseR at h
  split at h
  · cases h
  · simp only at h
    split at h
    · -- version 3
      simp only [bind, Except.bind, pure, Except.pure] at h
      split at h
      · cases h
      · rename_i x hx
        obtain ⟨hdr, hs⟩ := x
        simp only at h
        have hp : p.header = .v3 hdr := by
          split at h
          · split at h
            · cases h
            · split at h
              · cases h
              · cases h; rfl
          · cases h; rfl
        rw [hp] at hv
        rcases hv with hv | hv
        · injection hv with hv; subst hv; exact ⟨hs, hx⟩
        · cases hv
    · split at h
      · -- version 4
        simp only [bind, Except.bind, pure, Except.pure] at h
        split at h
        · cases h
        · rename_i x hx
          obtain ⟨hdr, hs⟩ := x
          simp only at h
          have hp := parseEF_header h
          rw [hp] at hv
          rcases hv with hv | hv
          · cases hv
          · injection hv with hv; subst hv; exact ⟨hs, hx⟩
      · split at h
        · -- version 5
          simp only [bind, Except.bind, pure, Except.pure] at h
          split at h
          · cases h
          · rename_i x hx
            obtain ⟨hdr, hs⟩ := x
            simp only at h
            split at h
            · cases h
            · rename_i y hy
              obtain ⟨p', c', v'⟩ := y
              have hp := parseEF_header hy
              simp only at h
              have : p = p' := by
                split at h
                · cases h; rfl
                · split at h
                  · cases h; rfl
                  · cases h
              subst this
              rw [hp] at hv
              rcases hv with hv | hv <;> cases hv
        · cases h

open NtpVerif.Wire NtpVerif.SourceBytes in
/-- **C08.bytes_measurement_wire_v34** — the conditions of `bytes_measurement_conditions` read off the datagram, for an
    NTPv3/NTPv4 answer: a datagram that yields a measurement has at least 48 bytes, mode bits (byte 0, bits 0–2) = 4
    (server), a stratum byte (byte 1) between 1 and 16, and bytes 24..32 — the origin timestamp — are, big endian, the
    origin of the pending request. -/
theorem bytes_measurement_wire_v34 (dec : Dec) (s2c : Option Bytes) (s s' : State) (now : Nat) (data : Bytes)
    (sendTs recvTs : Nat) (bl : Option Bool) (u : Bool) (m : Meas) (k : Nat)
    (h : incomingBytes dec s2c s now data sendTs recvTs bl = (s', .accepted u m k))
    (pkt : Packet) (c : Option Wire.Cookie) (hpar : parse dec (ctxOf s2c) data = .ok pkt c)
    (hh : HeaderV34) (hv : pkt.header = .v3 hh ∨ pkt.header = .v4 hh) :
    48 ≤ data.length ∧ ∃ b0 b1 o id deadline, data[0]? = some b0 ∧ data[1]? = some b1 ∧ slice? data 24 32 = some o ∧
      b0.toNat % 8 = 4 ∧ 1 ≤ b1.toNat ∧ b1.toNat ≤ 16 ∧
      s.pending = some (id, deadline) ∧ now ≤ deadline ∧ beNat o = id.origin := by
  obtain ⟨pkt', c', id, dl, hpar', hpend, hw, _, hvalid, hst0, hst, hmode, _⟩ :=
    bytes_measurement_conditions dec s2c s s' now data sendTs recvTs bl u m k h
  rw [hpar] at hpar'
  injection hpar' with hp1 _
  subst hp1
  have hR : parseR dec (ctxOf s2c) data = .ok (pkt, c, true) := by
    unfold parse at hpar
    split at hpar
    · rename_i p0 c0 hp0
      injection hpar with e1 e2
      subst e1; subst e2; exact hp0
    all_goals cases hpar
  obtain ⟨hs, hd⟩ := parseR_header_v34 hR hh hv
  obtain ⟨hlen, b0, b1, o, e0, e1, eo, hm, hs1, ho⟩ := header_v34_bytes data hh hs hd
  have hrec : (recordOfPacket pkt).mode = hh.mode ∧ (recordOfPacket pkt).stratum = hh.stratum ∧
      (recordOfPacket pkt).origin = hh.originTs := by
    unfold recordOfPacket
    rcases hv with hv | hv <;> rw [hv] <;> exact ⟨rfl, rfl, rfl⟩
  have horg := (valid_means_bound _ id _ hvalid).1
  rw [hrec.1, hm] at hmode
  rw [hrec.2.1, hs1] at hst0 hst
  rw [hrec.2.2, ho] at horg
  exact ⟨hlen, b0, b1, o, id, dl, e0, e1, eo, hmode, by omega, hst, hpend, hw, horg⟩

/-! #### histories -/

def isAccepted : Obs → Bool
  | .incoming (.accepted _ _ _) => true
  | _ => false

def isSend : Obs → Bool
  | .timer (.send _) => true
  | _ => false

def isPanic : Obs → Bool
  | .timer .panic => true
  | .incoming .panic => true
  | _ => false

/-- one step: how the pending request and the counters move -/
theorem step_pending (s : State) (op : Op) :
    let r := step s op
    isPanic r.2 = true ∨
    (isSend r.2 = true ∧ isAccepted r.2 = false) ∨
    (isSend r.2 = false ∧ isAccepted r.2 = true ∧ s.pending ≠ none ∧ r.1.pending = none) ∨
    (isSend r.2 = false ∧ isAccepted r.2 = false ∧ r.1.pending = s.pending) := by
  cases op with
  | timer now d o u t =>
    simp only [step]
    rcases timer_pending s now d o u t with ⟨i, e, _⟩ | ⟨hns, hp | hp⟩
    · right; left; rw [e]; exact ⟨rfl, rfl⟩
    · right; right; right
      refine ⟨?_, ?_, hp⟩
      · cases e : (handleTimer s now d o u t).2 <;> simp [isSend]
        exact hns _ e
      · cases e : (handleTimer s now d o u t).2 <;> simp [isAccepted]
    · left; rw [hp]; rfl
  | incoming now parsed a b bl =>
    simp only [step]
    cases e : (handleIncoming s now parsed a b bl).2 with
    | ignore =>
      right; right; right
      have := incoming_frame true s now parsed a b bl _ rfl (Or.inl e)
      exact ⟨rfl, rfl, this.1⟩
    | demobilize =>
      right; right; right
      have := incoming_frame true s now parsed a b bl _ rfl (Or.inr e)
      exact ⟨rfl, rfl, this.1⟩
    | panic => left; rfl
    | accepted u m k =>
      right; right; left
      have h : handleIncoming s now parsed a b bl = ((handleIncoming s now parsed a b bl).1, .accepted u m k) := by
        rw [← e]
      obtain ⟨p, id, dl, _, hp, _, _, _, _, _, _, hp', _⟩ := measurement_conditions s _ now parsed a b bl u m k h
      exact ⟨rfl, rfl, by rw [hp]; simp, hp'⟩

/-- **C08.at_most_one** — along any op list (from any state) during which no request is sent and nothing
    aborts, at most one measurement is taken; none at all if no request was pending. "Between two consecutive
    polls" is such a stretch. -/
theorem at_most_one (s : State) (ops : List Op)
    (hns : ∀ o ∈ observations s ops, isSend o = false) (hnp : ∀ o ∈ observations s ops, isPanic o = false) :
    (observations s ops).countP isAccepted ≤ (if s.pending = none then 0 else 1) := by
  induction ops generalizing s with
  | nil => simp [observations, run]
  | cons op ops ih =>
    simp only [observations, run, List.map_cons, List.mem_cons, forall_eq_or_imp] at hns hnp ⊢
    have ih' := ih (step s op).1 hns.2 hnp.2
    simp only [observations] at ih'
    rw [List.countP_cons]
    rcases step_pending s op with hp | ⟨hs, _⟩ | ⟨_, ha, hsp, hp'⟩ | ⟨_, ha, hp'⟩
    · rw [hnp.1] at hp; cases hp
    · rw [hns.1] at hs; cases hs
    · rw [hp'] at ih'
      simp only [if_true] at ih'
      simp only [ha, if_true, hsp, if_false]
      omega
    · rw [hp'] at ih'
      simp only [ha]
      simpa using ih'

/-- **C08.measurements_le_requests** — over every history from a state without pending request (e.g. a new
    source) in which nothing aborts, the number of measurements never exceeds the number of requests sent:
    each request yields at most one measurement. -/
theorem measurements_le_requests (s : State) (ops : List Op)
    (hnp : ∀ o ∈ observations s ops, isPanic o = false) :
    (observations s ops).countP isAccepted
      ≤ (observations s ops).countP isSend + (if s.pending = none then 0 else 1) := by
  induction ops generalizing s with
  | nil => simp [observations, run]
  | cons op ops ih =>
    simp only [observations, run, List.map_cons, List.mem_cons, forall_eq_or_imp] at hnp ⊢
    have ih' := ih (step s op).1 hnp.2
    simp only [observations] at ih'
    have hP : (if (step s op).1.pending = none then 0 else 1) ≤ 1 := by split <;> omega
    rw [List.countP_cons, List.countP_cons]
    rcases step_pending s op with hp | ⟨hs, ha⟩ | ⟨hs, ha, hsp, hp'⟩ | ⟨hs, ha, hp'⟩
    · rw [hnp.1] at hp; cases hp
    · simp only [hs, ha, if_true, Bool.false_eq_true, if_false]
      omega
    · rw [hp'] at ih'
      simp only [if_true] at ih'
      simp only [hs, ha, if_true, hsp, if_false, Bool.false_eq_true]
      omega
    · rw [hp'] at ih'
      simp only [hs, ha, Bool.false_eq_true, if_false]
      omega

/-! #### non-vacuity -/

def cfg0 : Cfg := ⟨⟨4, 10⟩, 16, [], 5⟩
def goodPkt (origin : Nat) : Pkt :=
  { version := 4, mode := 4, stratum := 2, poll := 6, kiss := .other, refid := 7, refTs := 0, origin := origin,
    uidAuth := [], uidEnc := [], uidUntr := [], authnak := false, cookiesAuth := [], cookiesEnc := [],
    cookiesUntr := [], rrAuth := false, rrUntr := false, leap := 0, precision := -20, rootDelay := 1, rootDisp := 2,
    recvTs := 11, xmitTs := 12 }

/-- a plain v4 source polls, the matching answer is accepted once, its replay is ignored -/
example :
    observations (init cfg0 .v4 none)
      [.timer 0 4 99 [] 16500000000, .incoming 1000 (some (goodPkt 99)) 1 2 none,
       .incoming 2000 (some (goodPkt 99)) 1 2 none] =
    [.timer (.send ⟨4, 4, false, none, 0, 48, false, true⟩),
     .incoming (.accepted true ⟨1, 11, 12, 2, 1, 2, 0, -20⟩ 0),
     .incoming .ignore] := by decide

/-- the same answer one nanosecond after the 5 s window is ignored; exactly at the end it is accepted -/
example :
    (handleIncoming (handleTimer (init cfg0 .v4 none) 0 4 99 [] 16500000000).1 5000000001 (some (goodPkt 99)) 1 2 none).2
      = .ignore ∧
    (handleIncoming (handleTimer (init cfg0 .v4 none) 0 4 99 [] 16500000000).1 5000000000 (some (goodPkt 99)) 1 2 none).2
      ≠ .ignore := by decide

end NtpVerif.C08

#print axioms NtpVerif.C08.valid_means_bound
#print axioms NtpVerif.C08.measurement_conditions
#print axioms NtpVerif.C08.accepted_clears_request
#print axioms NtpVerif.C08.replay_ignored
#print axioms NtpVerif.C08.at_most_one
#print axioms NtpVerif.C08.measurements_le_requests
#print axioms NtpVerif.C08.bytes_measurement_conditions
#print axioms NtpVerif.C08.bytes_replay_ignored
#print axioms NtpVerif.C08.header_v34_bytes
#print axioms NtpVerif.C08.bytes_measurement_wire_v34
