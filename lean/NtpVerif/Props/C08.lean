/-
C08 — a source only accepts fresh answers to its own pending request.

Model: `NtpVerif.Model.SourceSM` (`handle_incoming`, `process_message`, `valid_server_response`,
`check_uid_extensionfield`, `is_expected_incoming_version` over the abstract packet record; packet parsing
itself is outside this model — it is covered by the tie of C23–C25).

Property sentence ↔ theorem
  "uses a received packet … only if it answers the most recent request (matching origin timestamp or NTPv5
   client cookie, and unique identifier when present), arrives within the poll window, has the expected
   protocol version, is in server mode, is not a KISS code and has stratum at most 16"
        ↔ `measurement_conditions` (+ `valid_means_bound` for what "matching" means)
  "Each request yields at most one measurement, so replays and duplicates are ignored"
        ↔ `accepted_clears_request`, `replay_ignored`, `at_most_one` (segment between two sends),
          `measurements_le_requests` (whole histories)
-/
import NtpVerif.Proofs.SourceSM

namespace NtpVerif.C08
open NtpVerif.SourceSM NtpVerif.CookieStash

/-- a field list that `check_uid_extensionfield` does not reject consists of fields starting with the uid -/
theorem checkUid_ne_false (fs : List (List UInt8)) (u : List UInt8) (h : checkUid fs u ≠ some false) :
    ∀ f ∈ fs, u.length ≤ f.length ∧ f.take u.length = u := by
  intro f hf
  unfold checkUid at h
  split at h
  · exact absurd rfl h
  · rename_i hany
    simp only [List.any_eq_true, not_exists, not_and, Bool.or_eq_true, decide_eq_true_eq, bne_iff_ne, ne_eq,
      not_or, Decidable.not_not] at hany
    have := hany f hf
    exact ⟨by omega, this.2⟩

theorem checkUid_isSome (fs : List (List UInt8)) (u : List UInt8) (h : (checkUid fs u).isSome = true) :
    fs ≠ [] := by
  intro e; subst e
  simp [checkUid] at h

/-- **C08.valid_means_bound** — what `valid_server_response` guarantees: the origin timestamp (v3/v4) or client
    cookie (v5) equals the one of the request, and, when the request carried a unique identifier, at least one
    unique-identifier field of the answer starts with it while none in the authenticated or encrypted part
    contradicts it. -/
theorem valid_means_bound (p : Pkt) (id : ReqId) (nts : Bool) (h : p.validResponse id nts = true) :
    p.origin = id.origin ∧
    ∀ u, id.uid = some u →
      (∃ f ∈ p.uidAuth ++ p.uidEnc ++ p.uidUntr, u.length ≤ f.length ∧ f.take u.length = u) ∧
      (∀ f ∈ p.uidAuth ++ p.uidEnc, u.length ≤ f.length ∧ f.take u.length = u) := by
  unfold Pkt.validResponse at h
  simp only [Bool.and_eq_true, beq_iff_eq] at h
  refine ⟨h.2, ?_⟩
  intro u hu
  have h1 := h.1
  rw [hu] at h1
  simp only [uidOk, Bool.and_eq_true, bne_iff_ne, ne_eq, Bool.or_eq_true, Bool.not_eq_eq_eq_not,
    Bool.not_true] at h1
  obtain ⟨⟨⟨ha, he⟩, _⟩, hsome⟩ := h1
  have hA := checkUid_ne_false _ _ ha
  have hE := checkUid_ne_false _ _ he
  constructor
  · rcases hsome with (hs | hs) | ⟨hcond, hs⟩
    · have := checkUid_isSome _ _ hs
      obtain ⟨f, hf⟩ := List.exists_mem_of_ne_nil _ this
      exact ⟨f, by simp [hf], hA f hf⟩
    · have := checkUid_isSome _ _ hs
      obtain ⟨f, hf⟩ := List.exists_mem_of_ne_nil _ this
      exact ⟨f, by simp [hf], hE f hf⟩
    · have hne := checkUid_isSome _ _ hs
      obtain ⟨f, hf⟩ := List.exists_mem_of_ne_nil _ hne
      -- in this arm the untrusted list is considered, so it must not contradict either
      have hU : checkUid p.uidUntr u ≠ some false := by
        rename_i hu'
        rcases hu' with hu' | hu'
        · exact hu'
        · rcases hcond with hc | hc
          · simp [hc] at hu'
          · simp [hc] at hu'
      exact ⟨f, by simp [hf], checkUid_ne_false _ _ hU f hf⟩
  · intro f hf
    rcases List.mem_append.mp hf with hf | hf
    · exact hA f hf
    · exact hE f hf

/-- **C08.measurement_conditions** — `handle_incoming` hands a packet to the controller (two measurements and a
    `set_usable`) only if a request is pending, the packet arrives no later than the end of its poll window,
    has the version the protocol state expects, is a valid response to exactly that request, is not a KISS
    code, has stratum ≤ 16 and server mode; the measurement carries the packet's timestamps; and the pending
    request is consumed. -/
theorem measurement_conditions (s s' : State) (now : Nat) (parsed : Option Pkt) (sendTs recvTs : Nat)
    (bl : Option Bool) (u : Bool) (m : Meas) (k : Nat)
    (h : handleIncoming s now parsed sendTs recvTs bl = (s', .accepted u m k)) :
    ∃ p id deadline, parsed = some p ∧ s.pending = some (id, deadline) ∧ now ≤ deadline ∧
      s.proto.expects p.version = true ∧ p.validResponse id s.nts.isSome = true ∧
      p.stratum ≠ 0 ∧ p.stratum ≤ 16 ∧ p.mode = 4 ∧
      s'.pending = none ∧
      m = { sendTs := sendTs, srvRecvTs := p.recvTs, srvXmitTs := p.xmitTs, recvTs := recvTs,
            rootDelay := p.rootDelay, rootDisp := p.rootDisp, leap := p.leap, precision := p.precision } := by
  obtain ⟨p, id, dl, hp, hacc, heq⟩ := accepted_iff_aux true s now parsed sendTs recvTs bl u m k s' h
  refine ⟨p, id, dl, hp, hacc.pending, hacc.inWindow, hacc.version, hacc.valid, hacc.notKiss, hacc.stratum,
    hacc.mode, ?_, ?_⟩
  · have := processMessage_pending { s with proto := protoOnValid s.proto p.isUpgrade } p sendTs recvTs bl
    rw [← heq] at this
    exact this
  · unfold processMessage at heq
    cases hn : s.nts with
    | none =>
      simp only [hn] at heq
      injection heq with _ h2
      injection h2 with _ hm _
    | some st =>
      simp only [hn] at heq
      split at heq
      · injection heq with _ h2; cases h2
      · injection heq with _ h2
        injection h2 with _ hm _

/-- **C08.accepted_clears_request** — after a measurement the request is no longer pending. -/
theorem accepted_clears_request (s s' : State) (now : Nat) (parsed : Option Pkt) (a b : Nat) (bl : Option Bool)
    (u : Bool) (m : Meas) (k : Nat) (h : handleIncoming s now parsed a b bl = (s', .accepted u m k)) :
    s'.pending = none := by
  obtain ⟨_, _, _, _, _, _, _, _, _, _, _, hp, _⟩ := measurement_conditions s s' now parsed a b bl u m k h
  exact hp

/-- **C08.replay_ignored** — without a pending request (in particular right after an accepted answer) every
    datagram, a replay of the accepted one included, is ignored and leaves the state untouched. -/
theorem replay_ignored (s : State) (now : Nat) (parsed : Option Pkt) (a b : Nat) (bl : Option Bool)
    (h : s.pending = none) : handleIncoming s now parsed a b bl = (s, .ignore) :=
  incoming_no_pending true s now parsed a b bl h

/-! #### histories -/

def isAccepted : Obs → Bool
  | .incoming (.accepted _ _ _) => true
  | _ => false

def isSend : Obs → Bool
  | .timer (.send _) => true
  | _ => false

def isPanic : Obs → Bool
  | .timer .panic => true
  | .incoming .panic => true
  | _ => false

/-- one step: how the pending request and the counters move -/
theorem step_pending (s : State) (op : Op) :
    let r := step s op
    isPanic r.2 = true ∨
    (isSend r.2 = true ∧ isAccepted r.2 = false) ∨
    (isSend r.2 = false ∧ isAccepted r.2 = true ∧ s.pending ≠ none ∧ r.1.pending = none) ∨
    (isSend r.2 = false ∧ isAccepted r.2 = false ∧ r.1.pending = s.pending) := by
  cases op with
  | timer now d o u t =>
    simp only [step]
    rcases timer_pending s now d o u t with ⟨i, e, _⟩ | ⟨hns, hp | hp⟩
    · right; left; rw [e]; exact ⟨rfl, rfl⟩
    · right; right; right
      refine ⟨?_, ?_, hp⟩
      · cases e : (handleTimer s now d o u t).2 <;> simp [isSend]
        exact hns _ e
      · cases e : (handleTimer s now d o u t).2 <;> simp [isAccepted]
    · left; rw [hp]; rfl
  | incoming now parsed a b bl =>
    simp only [step]
    cases e : (handleIncoming s now parsed a b bl).2 with
    | ignore =>
      right; right; right
      have := incoming_frame true s now parsed a b bl _ rfl (Or.inl e)
      exact ⟨rfl, rfl, this.1⟩
    | demobilize =>
      right; right; right
      have := incoming_frame true s now parsed a b bl _ rfl (Or.inr e)
      exact ⟨rfl, rfl, this.1⟩
    | panic => left; rfl
    | accepted u m k =>
      right; right; left
      have h : handleIncoming s now parsed a b bl = ((handleIncoming s now parsed a b bl).1, .accepted u m k) := by
        rw [← e]
      obtain ⟨p, id, dl, _, hp, _, _, _, _, _, _, hp', _⟩ := measurement_conditions s _ now parsed a b bl u m k h
      exact ⟨rfl, rfl, by rw [hp]; simp, hp'⟩

/-- **C08.at_most_one** — along any op list (from any state) during which no request is sent and nothing
    aborts, at most one measurement is taken; none at all if no request was pending. "Between two consecutive
    polls" is such a stretch. -/
theorem at_most_one (s : State) (ops : List Op)
    (hns : ∀ o ∈ observations s ops, isSend o = false) (hnp : ∀ o ∈ observations s ops, isPanic o = false) :
    (observations s ops).countP isAccepted ≤ (if s.pending = none then 0 else 1) := by
  induction ops generalizing s with
  | nil => simp [observations, run]
  | cons op ops ih =>
    simp only [observations, run, List.map_cons, List.mem_cons, forall_eq_or_imp] at hns hnp ⊢
    have ih' := ih (step s op).1 hns.2 hnp.2
    simp only [observations] at ih'
    rw [List.countP_cons]
    rcases step_pending s op with hp | ⟨hs, _⟩ | ⟨_, ha, hsp, hp'⟩ | ⟨_, ha, hp'⟩
    · rw [hnp.1] at hp; cases hp
    · rw [hns.1] at hs; cases hs
    · rw [hp'] at ih'
      simp only [if_true] at ih'
      simp only [ha, if_true, hsp, if_false]
      omega
    · rw [hp'] at ih'
      simp only [ha]
      simpa using ih'

/-- **C08.measurements_le_requests** — over every history from a state without pending request (e.g. a new
    source) in which nothing aborts, the number of measurements never exceeds the number of requests sent:
    each request yields at most one measurement. -/
theorem measurements_le_requests (s : State) (ops : List Op)
    (hnp : ∀ o ∈ observations s ops, isPanic o = false) :
    (observations s ops).countP isAccepted
      ≤ (observations s ops).countP isSend + (if s.pending = none then 0 else 1) := by
  induction ops generalizing s with
  | nil => simp [observations, run]
  | cons op ops ih =>
    simp only [observations, run, List.map_cons, List.mem_cons, forall_eq_or_imp] at hnp ⊢
    have ih' := ih (step s op).1 hnp.2
    simp only [observations] at ih'
    have hP : (if (step s op).1.pending = none then 0 else 1) ≤ 1 := by split <;> omega
    rw [List.countP_cons, List.countP_cons]
    rcases step_pending s op with hp | ⟨hs, ha⟩ | ⟨hs, ha, hsp, hp'⟩ | ⟨hs, ha, hp'⟩
    · rw [hnp.1] at hp; cases hp
    · simp only [hs, ha, if_true, Bool.false_eq_true, if_false]
      omega
    · rw [hp'] at ih'
      simp only [if_true] at ih'
      simp only [hs, ha, if_true, hsp, if_false, Bool.false_eq_true]
      omega
    · rw [hp'] at ih'
      simp only [hs, ha, Bool.false_eq_true, if_false]
      omega

/-! #### non-vacuity -/

def cfg0 : Cfg := ⟨⟨4, 10⟩, 16, [], 5⟩
def goodPkt (origin : Nat) : Pkt :=
  { version := 4, mode := 4, stratum := 2, poll := 6, kiss := .other, refid := 7, refTs := 0, origin := origin,
    uidAuth := [], uidEnc := [], uidUntr := [], authnak := false, cookiesAuth := [], cookiesEnc := [],
    cookiesUntr := [], rrAuth := false, rrUntr := false, leap := 0, precision := -20, rootDelay := 1, rootDisp := 2,
    recvTs := 11, xmitTs := 12 }

/-- a plain v4 source polls, the matching answer is accepted once, its replay is ignored -/
example :
    observations (init cfg0 .v4 none)
      [.timer 0 4 99 [] 16500000000, .incoming 1000 (some (goodPkt 99)) 1 2 none,
       .incoming 2000 (some (goodPkt 99)) 1 2 none] =
    [.timer (.send ⟨4, 4, false, none, 0, 48, false, true⟩),
     .incoming (.accepted true ⟨1, 11, 12, 2, 1, 2, 0, -20⟩ 0),
     .incoming .ignore] := by decide

/-- the same answer one nanosecond after the 5 s window is ignored; exactly at the end it is accepted -/
example :
    (handleIncoming (handleTimer (init cfg0 .v4 none) 0 4 99 [] 16500000000).1 5000000001 (some (goodPkt 99)) 1 2 none).2
      = .ignore ∧
    (handleIncoming (handleTimer (init cfg0 .v4 none) 0 4 99 [] 16500000000).1 5000000000 (some (goodPkt 99)) 1 2 none).2
      ≠ .ignore := by decide

end NtpVerif.C08

#print axioms NtpVerif.C08.valid_means_bound
#print axioms NtpVerif.C08.measurement_conditions
#print axioms NtpVerif.C08.accepted_clears_request
#print axioms NtpVerif.C08.replay_ignored
#print axioms NtpVerif.C08.at_most_one
#print axioms NtpVerif.C08.measurements_le_requests
