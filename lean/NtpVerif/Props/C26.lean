/-
C26 — Server cookies are confidential, tamper-evident and rotate on schedule.

Model: `NtpVerif.Model.KeySet` (`Provider.new/rotate`, `encode`, `decode` over an IDEAL AEAD with an oracle
table, DESIGN §2.6; AES-SIV itself is trusted, not modelled).  `rotations key h n` = `KeySetProvider::new(h)`
followed by `n` rotations, the random keys being `key 0, key 1, …` (`key` injective = "a fresh random key
differs from the earlier ones", an assumption on `new_random`).  `Fresh t` = the table of all encryptions
has no repeated nonce and no repeated ciphertext (idealisation of a random 16-byte nonce / SIV tag; the
harness checks it on every run).

Property sentence                                                        theorem
  "decodes back to exactly the session keys and algorithm …             roundtrip (r = 0, any key set),
   as long as the issuing key is among the current and the               window (every history h incl. 0, every
   configured number of previous keys, and fails afterwards"             rotation count n, r; id offset wraps mod 2^32)
  "any modification of the cookie bytes within its declared length       tamper, decode_sound,
   … fails to decode"                                                     tamper_one_byte; whatever decodes
                                                                           carries nonce and ciphertext of ONE
                                                                           encryption under the key its id names)
  (bytes beyond the declared length are not covered)                     trailing_ignored
  "any cookie not issued by these keys fails to decode"                  foreign_fails, decode_sound
  "new cookies are always issued under the newest key"                   issued_under_newest
  "confidential"                                                         bytes_hide_plaintext (the cookie is id, length,
                                                                           nonce, ciphertext: the session keys enter
                                                                           only through the cipher; secrecy of the
                                                                           ciphertext is the cipher's, trusted)
  the same after a restart with a changed stale-key-count (key file     reload_gap, window_after_reload,
   holding more or fewer keys than the new history + 1)                  issued_after_reload
  invariant used by `window`                                             state_after, rotate_never_panics
-/
import NtpVerif.Proofs.KeySet

namespace NtpVerif.C26
open NtpVerif.KeySet

variable {κ : Type} [DecidableEq κ]

/-- **roundtrip** — on the key set that issued it, a cookie decodes to exactly the algorithm and keys it
    was made from (any key set whose two words are `u32`s; the encryption just made is in the table). -/
theorem roundtrip (t : Table κ) (ks : KeySet κ) (hp : ks.primary < 4294967296) (ho : ks.idOffset < 4294967296)
    (c : Cookie) (hwf : c.WF) (nonce ct b : Bytes) (e : Enc κ)
    (henc : encode ks c nonce ct = some (b, e)) : decode (e :: t) ks b = some c :=
  decode_encode t ks c hwf nonce ct b e hp ho henc

omit [DecidableEq κ] in
/-- **state_after** — after `n` rotations with history `h` the provider holds exactly the keys with
    sequence numbers `n - min n h, …, n` (so `min n h + 1` keys: the newest and up to `h` previous ones),
    in order; the id offset is the sequence number of the first (mod 2^32); the newest is primary. -/
theorem state_after (key : Nat → κ) (h n : Nat) (hsz : min n h + 1 < 4294967296) :
    (rotations key h n).current.keys = (List.range' (n - min n h) (min n h + 1)).map key ∧
    (rotations key h n).current.idOffset = (n - min n h) % 4294967296 ∧
    (rotations key h n).current.primary = min n h := by
  obtain ⟨_, h2, h3, h4⟩ := rotations_state key h n
  refine ⟨h2, h3, ?_⟩
  rw [h4]; simp only [M32]; omega

omit [DecidableEq κ] in
/-- **rotate_never_panics** — `rotate`'s `keys.len() as u32 - 1` cannot underflow while the key set holds
    fewer than 2^32 keys. -/
theorem rotate_never_panics (key : Nat → κ) (h n : Nat) (hsz : min (n + 1) h + 1 < 4294967296) :
    (rotations key h n).rotateChecked (key (n + 1)) = some (rotations key h (n + 1)) := by
  have hl : (rotations key h (n + 1)).current.keys.length = min (n + 1) h + 1 := by
    rw [(rotations_state key h (n + 1)).2.1]; simp
  unfold Provider.rotateChecked
  have e : (rotations key h n).rotate (key (n + 1)) = rotations key h (n + 1) := rfl
  rw [e, hl, if_neg (by simp only [M32]; omega)]

omit [DecidableEq κ] in
/-- **issued_under_newest** — after every rotation (and after `new`) the primary key is the key just
    generated, it is the last of the list, and `encode` encrypts under it and names it in the cookie id. -/
theorem issued_under_newest (key : Nat → κ) (h n : Nat) (hsz : min n h + 1 < 4294967296)
    (c : Cookie) (nonce ct b : Bytes) (e : Enc κ)
    (henc : encode (rotations key h n).current c nonce ct = some (b, e)) :
    (rotations key h n).current.keys.getLast? = some (key n) ∧
    (rotations key h n).current.primary + 1 = (rotations key h n).current.keys.length ∧
    e.key = key n ∧ cookieId b = n % 4294967296 := by
  obtain ⟨s1, s2, s3⟩ := state_after key h n hsz
  obtain ⟨k, hk, hn, hct, hb, he⟩ := encode_some henc
  have hk' := rotations_key key h n (rotations key h n).current.primary
  rw [s3, if_pos (by omega)] at hk'
  have hkn : k = key n := by
    rw [s3] at hk
    rw [hk] at hk'
    have : n - min n h + min n h = n := by omega
    rw [this] at hk'
    exact Option.some.inj hk'
  refine ⟨?_, ?_, ?_, ?_⟩
  · rw [s1, List.getLast?_eq_getElem?]
    simp only [List.length_map, List.length_range', Nat.add_sub_cancel]
    have := rotations_key key h n (min n h)
    rw [s1, if_pos (by omega)] at this
    rw [this]
    congr 2; omega
  · rw [s1, s3]; simp
  · rw [he, hkn]
  · rw [hb, (mkCookie_fields _ _ _ _ hn).1, s2, s3]
    simp only [M32]; omega

/-- **window** — a cookie issued after `n` rotations (under the then-newest key, sequence number `n`) is
    decoded, `r` rotations later, to exactly what it was made from if `r ≤ h`, and is rejected if `r > h` —
    for every history length `h` (0 included), all `n`, `r`, with the id offset wrapping mod 2^32, in every
    fresh table that contains the cookie's encryption. -/
theorem window (key : Nat → κ) (hinj : ∀ i j, key i = key j → i = j) (h n r : Nat)
    (hsz : min (n + r) h + 1 < 4294967296)
    (c : Cookie) (hwf : c.WF) (nonce ct b : Bytes) (e : Enc κ)
    (henc : encode (rotations key h n).current c nonce ct = some (b, e))
    (t : Table κ) (hfresh : Fresh t) (het : e ∈ t) :
    decode t (rotations key h (n + r)).current b = if r ≤ h then some c else none := by
  have hsz0 : min n h + 1 < 4294967296 := by omega
  obtain ⟨_, _, hek, hid⟩ := issued_under_newest key h n hsz0 c nonce ct b e henc
  obtain ⟨k, hk, hn, hct, hb, he⟩ := encode_some henc
  obtain ⟨s1, s2, s3⟩ := state_after key h (n + r) hsz
  have hen : e.nonce = nonce := by rw [he]
  have hec : e.ct = ct := by rw [he]
  have hep : e.pt = c.plaintext := by rw [he]
  -- the cookie in terms of the entry
  have hb' : b = mkCookie ((rotations key h n).current.primary + (rotations key h n).current.idOffset)
      e.ct.length e.nonce e.ct := by
    rw [hb, hen, hec]
    obtain ⟨g1, g2, g3, g4, g5⟩ := mkCookie_fields (((rotations key h n).current.primary +
      (rotations key h n).current.idOffset) % M32) ct.length nonce ct hn
    obtain ⟨f1, f2, f3, f4, f5⟩ := mkCookie_fields ((rotations key h n).current.primary +
      (rotations key h n).current.idOffset) ct.length nonce ct hn
    rw [cookie_split (mkCookie (((rotations key h n).current.primary +
      (rotations key h n).current.idOffset) % M32) ct.length nonce ct) (by omega), g1, g2, g3, g4,
      cookie_split (mkCookie ((rotations key h n).current.primary +
      (rotations key h n).current.idOffset) ct.length nonce ct) (by omega), f1, f2, f3, f4]
    simp [M32]
  have hidb : cookieId b = n % 4294967296 := hid
  by_cases hr : r ≤ h
  · rw [if_pos hr, hb']
    apply decode_issued e c hwf _ (by rw [hen]; exact hn) (by rw [hec]; exact hct) hep ?_
      (decrypt_fresh_mem hfresh het)
    -- the id maps to index n - (n + r - min (n+r) h), which holds key n
    have hid2 : ((rotations key h n).current.primary + (rotations key h n).current.idOffset) % M32 =
        n % M32 := by
      rw [hb, (mkCookie_fields _ _ _ _ hn).1] at hidb
      simp only [M32] at *; omega
    rw [hid2, s2, rotations_key, hek]
    have hidx : (n % M32 + M32 - (n + r - min (n + r) h) % 4294967296 % M32) % M32 =
        n - (n + r - min (n + r) h) := by simp only [M32]; omega
    rw [hidx, if_pos (by omega)]
    congr 2; omega
  · rw [if_neg hr]
    apply decode_none_of_forall
    intro c' hd
    obtain ⟨_, _, e', he't, hkey', hn', _, _⟩ := decode_some hd
    have hnb : cookieNonce b = e.nonce := by rw [hb, (mkCookie_fields _ _ _ _ hn).2.2.1, hen]
    have : e' = e := hfresh e' he't e het (Or.inl (by rw [hn', hnb]))
    rw [this, hek, rotations_key] at hkey'
    split at hkey'
    · have := hinj _ _ (Option.some.inj hkey')
      omega
    · cases hkey'

/-- **reload_gap** — between a (re)load and the first rotation every key held (every key of the file) still
    decodes its cookies, whatever the configured history is: `load` restores the stored set exactly (C27),
    the window of the new configuration is applied by rotations. -/
theorem reload_gap (p : Provider κ) (hoff : p.current.idOffset < 4294967296)
    (j : Nat) (hj : j < 4294967296) (e : Enc κ) (hkey : p.current.keys[j]? = some e.key)
    (id : Nat) (hid : id % 4294967296 = (p.current.idOffset + j) % 4294967296)
    (c : Cookie) (hwf : c.WF) (hn : e.nonce.length = 16) (hct : e.ct.length = c.plaintext.length + 16)
    (hpt : e.pt = c.plaintext) (t : Table κ) (hfresh : Fresh t) (het : e ∈ t) :
    decode t p.current (mkCookie id e.ct.length e.nonce e.ct) = some c := by
  apply decode_issued e c hwf id hn hct hpt ?_ (decrypt_fresh_mem hfresh het)
  have : (id % M32 + M32 - p.current.idOffset % M32) % M32 = j := by simp only [M32] at *; omega
  rw [this]; exact hkey

/-- **window_after_reload** — a provider `p` with ANY key list (e.g. loaded from a file written under a
    larger or smaller history), rotated `r ≥ 1` times under its own history `p.history`: a cookie made under
    the `j`-th key of the lineage (the keys `p` started with, then the new ones; id = id offset + j) decodes
    iff at most `p.history` keys of the lineage are newer — i.e. from the first rotation after a reload on,
    exactly the newest `history + 1` keys are valid, however many keys the file held. -/
theorem window_after_reload (p : Provider κ) (fresh : Nat → κ) (r : Nat) (hr : 1 ≤ r)
    (hoff : p.current.idOffset < 4294967296) (hsz : p.current.keys.length + r < 4294967296)
    (hnd : (lineage p fresh r).Nodup)
    (j : Nat) (e : Enc κ) (hkey : (lineage p fresh r)[j]? = some e.key)
    (id : Nat) (hid : id % 4294967296 = (p.current.idOffset + j) % 4294967296)
    (c : Cookie) (hwf : c.WF) (hn : e.nonce.length = 16) (hct : e.ct.length = c.plaintext.length + 16)
    (hpt : e.pt = c.plaintext) (t : Table κ) (hfresh : Fresh t) (het : e ∈ t) :
    decode t (rotFrom p fresh r).current (mkCookie id e.ct.length e.nonce e.ct) =
      if p.current.keys.length + r - 1 - j ≤ p.history then some c else none := by
  obtain ⟨_, s2, s3⟩ := rotFrom_state p fresh r hr
  have hjl : j < p.current.keys.length + r := by
    rcases Nat.lt_or_ge j (lineage p fresh r).length with h | h
    · rw [lineage_length] at h; exact h
    · rw [List.getElem?_eq_none h] at hkey; cases hkey
  by_cases hw : p.current.keys.length + r - 1 - j ≤ p.history
  · rw [if_pos hw]
    apply decode_issued e c hwf id hn hct hpt ?_ (decrypt_fresh_mem hfresh het)
    have hidx : (id % M32 + M32 - (rotFrom p fresh r).current.idOffset % M32) % M32 =
        j - (p.current.keys.length + r - (p.history + 1)) := by
      rw [s3]; simp only [M32] at *; omega
    rw [hidx, s2, List.getElem?_drop, ← hkey]
    congr 1; omega
  · rw [if_neg hw]
    apply decode_none_of_forall
    intro c' hd
    obtain ⟨_, _, e', he't, hkey', hn', _, _⟩ := decode_some hd
    have hnb : cookieNonce (mkCookie id e.ct.length e.nonce e.ct) = e.nonce :=
      (mkCookie_fields _ _ _ _ hn).2.2.1
    have : e' = e := hfresh e' he't e het (Or.inl (by rw [hn', hnb]))
    rw [this, s2, List.getElem?_drop, ← hkey] at hkey'
    have := (List.getElem?_inj (by rw [lineage_length]; exact hjl) hnd).mp hkey'.symm
    omega

omit [DecidableEq κ] in
/-- **issued_after_reload** — after `r ≥ 1` rotations of any provider, `encode` encrypts under the newest
    key (`fresh (r-1)`, the last of the lineage) and names it `id offset + position in the lineage`. -/
theorem issued_after_reload (p : Provider κ) (fresh : Nat → κ) (r : Nat) (hr : 1 ≤ r)
    (hsz : p.current.keys.length + r < 4294967296)
    (c : Cookie) (nonce ct b : Bytes) (e : Enc κ)
    (henc : encode (rotFrom p fresh r).current c nonce ct = some (b, e)) :
    (lineage p fresh r)[p.current.keys.length + r - 1]? = some e.key ∧ e.key = fresh (r - 1) ∧
    cookieId b = (p.current.idOffset + (p.current.keys.length + r - 1)) % 4294967296 := by
  obtain ⟨_, s2, s3⟩ := rotFrom_state p fresh r hr
  have s4 := rotFrom_primary p fresh r hr
  obtain ⟨k, hk, hn, _, hb, he⟩ := encode_some henc
  have hl : (rotFrom p fresh r).current.keys.length =
      p.current.keys.length + r - (p.current.keys.length + r - (p.history + 1)) := by
    rw [s2, List.length_drop, lineage_length]
  have hprim : (rotFrom p fresh r).current.primary =
      p.current.keys.length + r - (p.current.keys.length + r - (p.history + 1)) - 1 := by
    rw [s4, hl]; simp only [M32]; omega
  have hkey : (lineage p fresh r)[p.current.keys.length + r - 1]? = some k := by
    rw [hprim, s2, List.getElem?_drop] at hk
    rw [← hk]; congr 1; omega
  have hek : e.key = k := by rw [he]
  refine ⟨by rw [hek]; exact hkey, ?_, ?_⟩
  · rw [hek]
    have : (lineage p fresh r)[p.current.keys.length + r - 1]? = some (fresh (r - 1)) := by
      rw [lineage, List.getElem?_append_right (by omega), List.getElem?_map,
        List.getElem?_range (by omega)]
      simp
      congr 1; omega
    rw [this] at hkey
    exact (Option.some.inj hkey).symm
  · rw [hb, (mkCookie_fields _ _ _ _ hn).1, hprim, s3]
    simp only [M32] at *; omega

/-- **decode_sound** — whatever `decode` accepts carries, in its nonce and ciphertext fields, the output of
    one recorded encryption made under exactly the key its id field names in this key set, and decodes to
    that encryption's plaintext.  (Relative to the ideal AEAD: nothing else is ever accepted.) -/
theorem decode_sound (t : Table κ) (ks : KeySet κ) (b : Bytes) (c : Cookie) (h : decode t ks b = some c) :
    ∃ e ∈ t, ks.keys[keyIndex ks b]? = some e.key ∧ cookieNonce b = e.nonce ∧ cookieCt b = e.ct ∧
      parsePlain e.pt = some c := by
  obtain ⟨_, _, e, he, h1, h2, h3, h4⟩ := decode_some h
  exact ⟨e, he, h1, h2.symm, h3.symm, h4⟩

/-- **foreign_fails** — a cookie whose encryption was made under a key that is not in this key set (issued
    by another server, or by a key already rotated out) is rejected, in every fresh table. -/
theorem foreign_fails (t : Table κ) (hfresh : Fresh t) (ks : KeySet κ) (e : Enc κ) (het : e ∈ t)
    (hforeign : e.key ∉ ks.keys) (b : Bytes) (hb : cookieNonce b = e.nonce ∨ cookieCt b = e.ct) :
    decode t ks b = none := by
  apply decode_none_of_forall
  intro c hd
  obtain ⟨e', he', hk, hn, hc, _⟩ := decode_sound t ks b c hd
  have : e' = e := hfresh e' he' e het (by rcases hb with h | h; exact Or.inl (hn ▸ h); exact Or.inr (hc ▸ h))
  rw [this] at hk
  exact hforeign (List.mem_of_getElem? hk)

/-- **tamper** — let `b` be a cookie issued by `ks` (entry `e` of a fresh table).  Every byte string `b'` of
    the same length that differs from `b` anywhere, and still carries `b`'s nonce or `b`'s ciphertext, is
    rejected.  This covers every modification of a single byte, and every modification confined to
    id + length + nonce, or to id + length + ciphertext.  (Replacing nonce AND ciphertext wholesale yields
    either another genuine cookie or, by `decode_sound`, a rejection.) -/
theorem tamper (t : Table κ) (hfresh : Fresh t) (ks : KeySet κ) (hnd : ks.keys.Nodup)
    (hp : ks.primary < 4294967296) (ho : ks.idOffset < 4294967296)
    (c : Cookie) (hwf : c.WF) (nonce ct b : Bytes) (e : Enc κ)
    (henc : encode ks c nonce ct = some (b, e)) (het : e ∈ t)
    (b' : Bytes) (hlen : b'.length = b.length) (hne : b' ≠ b)
    (hshare : cookieNonce b' = cookieNonce b ∨ cookieCt b' = cookieCt b) :
    decode t ks b' = none := by
  apply decode_none_of_forall
  intro c' hd
  apply hne
  obtain ⟨k, hk, hn, hct, hb, he⟩ := encode_some henc
  obtain ⟨f1, f2, f3, f4, f5⟩ := mkCookie_fields ((ks.primary + ks.idOffset) % M32) ct.length nonce ct hn
  have hlt := wf_ct_length c hwf
  rw [← hb] at f1 f2 f3 f4 f5
  have hcl : cookieLen b = ct.length := by rw [f2]; omega
  have hcc : cookieCt b = ct := by rw [cookieCt, f4, hcl, List.take_length]
  have hen : e.nonce = nonce := by rw [he]
  have hec : e.ct = ct := by rw [he]
  obtain ⟨h22, hl', e', he't, hkey', hn', hc', _⟩ := decode_some hd
  have hee : e' = e := hfresh e' he't e het (by
    rcases hshare with h | h
    · exact Or.inl (by rw [hn', h, f3, hen])
    · exact Or.inr (by rw [hc', h, hcc, hec]))
  rw [hee] at hkey' hn' hc'
  -- length word and ciphertext
  have hdl : (b'.drop 22).length = ct.length := by simp only [List.length_drop]; omega
  have hclb' : cookieLen b' = ct.length := by
    have : (cookieCt b').length = cookieLen b' := by
      rw [cookieCt, List.length_take]; omega
    rw [← this, ← hc', hec]
  have hdrop : b'.drop 22 = ct := by
    have : cookieCt b' = b'.drop 22 := by
      rw [cookieCt, hclb', ← hdl, List.take_length]
    rw [← this, ← hc', hec]
  -- id word
  have hidx : keyIndex ks b' = ks.primary := by
    have hkp : ks.keys[ks.primary]? = some e.key := by rw [hk, he]
    have hlt : ks.primary < ks.keys.length := by
      rcases Nat.lt_or_ge ks.primary ks.keys.length with h | h
      · exact h
      · rw [List.getElem?_eq_none h] at hk; cases hk
    exact ((List.getElem?_inj hlt hnd).mp (hkp.trans hkey'.symm)).symm
  have hid : cookieId b' = (ks.primary + ks.idOffset) % M32 := by
    have h4 := beNat_lt4 (b'.take 4) (by simp; omega)
    have : cookieId b' < 4294967296 := h4
    rw [keyIndex] at hidx
    simp only [M32] at *; omega
  rw [cookie_split b' h22, hid, hclb', ← hn', hen, hdrop, hb]

/-- **tamper_one_byte** — changing any single byte of an issued cookie (id, length, nonce or ciphertext:
    the cookie is exactly as long as it declares) makes it undecodable. -/
theorem tamper_one_byte (t : Table κ) (hfresh : Fresh t) (ks : KeySet κ) (hnd : ks.keys.Nodup)
    (hp : ks.primary < 4294967296) (ho : ks.idOffset < 4294967296)
    (c : Cookie) (hwf : c.WF) (nonce ct b : Bytes) (e : Enc κ)
    (henc : encode ks c nonce ct = some (b, e)) (het : e ∈ t)
    (i : Nat) (hi : i < b.length) (v : UInt8) (hv : v ≠ b[i]) :
    decode t ks (b.set i v) = none := by
  apply tamper t hfresh ks hnd hp ho c hwf nonce ct b e henc het (b.set i v) (by simp)
  · intro h
    have : (b.set i v)[i]'(by simp; exact hi) = b[i] := by simp only [h]
    rw [List.getElem_set_self] at this
    exact hv this
  · by_cases h : i < 6 ∨ 22 ≤ i
    · exact Or.inl (nonce_set b i v h)
    · exact Or.inr (ct_set b i v (by omega))

/-- **trailing_ignored** — bytes after the declared ciphertext length do not influence decoding (they are
    not covered by the tamper guarantee; the NTP extension-field padding lives there). -/
theorem trailing_ignored (t : Table κ) (ks : KeySet κ) (b extra : Bytes) (h22 : 22 ≤ b.length)
    (hl : cookieLen b ≤ (b.drop 22).length) : decode t ks (b ++ extra) = decode t ks b := by
  have t4 : (b ++ extra).take 4 = b.take 4 := List.take_append_of_le_length (by omega)
  have d4 : ((b ++ extra).drop 4).take 2 = (b.drop 4).take 2 := by
    rw [List.drop_append_of_le_length (by omega), List.take_append_of_le_length (by simp; omega)]
  have d6 : ((b ++ extra).drop 6).take 16 = (b.drop 6).take 16 := by
    rw [List.drop_append_of_le_length (by omega), List.take_append_of_le_length (by simp; omega)]
  have hid : cookieId (b ++ extra) = cookieId b := by rw [cookieId, t4]; rfl
  have hlen : cookieLen (b ++ extra) = cookieLen b := by rw [cookieLen, d4]; rfl
  have hnon : cookieNonce (b ++ extra) = cookieNonce b := by rw [cookieNonce, d6]; rfl
  have hct : cookieCt (b ++ extra) = cookieCt b := by
    rw [cookieCt, hlen, List.drop_append_of_le_length (by omega), List.take_append_of_le_length hl]; rfl
  have hidx : keyIndex ks (b ++ extra) = keyIndex ks b := by rw [keyIndex, hid]; rfl
  have hl2 : cookieLen b ≤ b.length - 22 := by rw [List.length_drop] at hl; exact hl
  have e3 : ¬ (((b ++ extra).drop 22).length < cookieLen b) := by
    rw [List.length_drop, List.length_append]; omega
  have e4 : ¬ ((b.drop 22).length < cookieLen b) := by omega
  unfold decode
  rw [hidx, hlen, hnon, hct, if_neg (by rw [List.length_append]; omega), if_neg (by omega)]
  cases ks.keys[keyIndex ks b]? with
  | none => rfl
  | some key => simp only; rw [if_neg e3, if_neg e4]

omit [DecidableEq κ] in
/-- **bytes_hide_plaintext** — the cookie bytes are a function of the id words, the nonce and the
    ciphertext only: two different session-key sets whose encryptions (hypothetically) gave the same nonce
    and ciphertext give the same cookie, i.e. the plaintext reaches the wire only through the cipher. -/
theorem bytes_hide_plaintext (ks : KeySet κ) (c₁ c₂ : Cookie) (nonce ct b₁ b₂ : Bytes) (e₁ e₂ : Enc κ)
    (h₁ : encode ks c₁ nonce ct = some (b₁, e₁)) (h₂ : encode ks c₂ nonce ct = some (b₂, e₂)) :
    b₁ = b₂ ∧ b₁ = mkCookie ((ks.primary + ks.idOffset) % 4294967296) ct.length nonce ct := by
  obtain ⟨_, _, _, _, hb1, _⟩ := encode_some h₁
  obtain ⟨_, _, _, _, hb2, _⟩ := encode_some h₂
  exact ⟨hb1.trans hb2.symm, hb1⟩

/-! #### non-vacuity -/

/-- a concrete history: history 1, keys 10, 11, 12, … ; a 256-cookie issued after 1 rotation -/
def exCookie : Cookie := { alg := 15, s2c := List.replicate 32 1, c2s := List.replicate 32 2 }
def exNonce : Bytes := List.replicate 16 7
def exCt : Bytes := List.replicate 82 9

example : exCookie.WF := by decide

/-- the hypotheses of `window` are met: `encode` succeeds, the table is fresh; the cookie is accepted one
    rotation later (r = 1 = h) and rejected two rotations later -/
example :
    ∃ b e, encode (rotations (fun i => i + 10) 1 1).current exCookie exNonce exCt = some (b, e) ∧
      Fresh [e] ∧
      decode [e] (rotations (fun i => i + 10) 1 2).current b = some exCookie ∧
      decode [e] (rotations (fun i => i + 10) 1 3).current b = none :=
  ⟨_, _, rfl, by intro a ha b hb _; simp at ha hb; rw [ha, hb], by decide +kernel, by decide +kernel⟩

/-- history 0: valid now, invalid after one rotation -/
example :
    ∃ b e, encode (rotations (fun i => i + 10) 0 5).current exCookie exNonce exCt = some (b, e) ∧
      decode [e] (rotations (fun i => i + 10) 0 5).current b = some exCookie ∧
      decode [e] (rotations (fun i => i + 10) 0 6).current b = none :=
  ⟨_, _, rfl, by decide +kernel, by decide +kernel⟩

/-- the state after 7 rotations with history 2: keys 5, 6, 7 (here 15, 16, 17), offset 5, primary 2 -/
example : (rotations (fun i => i + 10) 2 7).current = { keys := [15, 16, 17], idOffset := 5, primary := 2 } := by
  decide +kernel

/-- a file with 4 keys (written under history 3) loaded with history 1 and rotated once: keys 3 and the new
    one stay, keys 1 and 2 are gone (ages 2, 3 > 1) -/
example :
    let p : Provider Nat := { current := { keys := [1, 2, 3, 4], idOffset := 7, primary := 3 }, history := 1 }
    (rotFrom p (fun i => i + 100) 1).current = { keys := [4, 100], idOffset := 10, primary := 1 } ∧
    (lineage p (fun i => i + 100) 1).Nodup := by decide +kernel

/-- (added by the ntske cluster, C28-e) a key set restored with `id_offset = u32::MAX` and primary 1: the wire id of
    a cookie it issues wraps to 0 (`primary.wrapping_add(id_offset)`), and `decode` — `wrapping_sub` — still finds
    key 1: hypotheses of `roundtrip` at the wrap-around corner, and its conclusion evaluated -/
example :
    let ks : KeySet Nat := { keys := [10, 11], idOffset := 4294967295, primary := 1 }
    ∃ b e, encode ks exCookie exNonce exCt = some (b, e) ∧ b.take 4 = [0, 0, 0, 0] ∧ e.key = 11 ∧
      decode [e] ks b = some exCookie :=
  ⟨_, _, rfl, by decide +kernel, by decide +kernel, by decide +kernel⟩

end NtpVerif.C26

#print axioms NtpVerif.C26.roundtrip
#print axioms NtpVerif.C26.state_after
#print axioms NtpVerif.C26.rotate_never_panics
#print axioms NtpVerif.C26.issued_under_newest
#print axioms NtpVerif.C26.window
#print axioms NtpVerif.C26.reload_gap
#print axioms NtpVerif.C26.window_after_reload
#print axioms NtpVerif.C26.issued_after_reload
#print axioms NtpVerif.C26.decode_sound
#print axioms NtpVerif.C26.foreign_fails
#print axioms NtpVerif.C26.tamper
#print axioms NtpVerif.C26.tamper_one_byte
#print axioms NtpVerif.C26.trailing_ignored
#print axioms NtpVerif.C26.bytes_hide_plaintext
