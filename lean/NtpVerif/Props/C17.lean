/-
C17 — A request-sized buffer always suffices for the server's answer.

The unchanged code VIOLATES this property (finding F-C17): a re-encoded field can be longer than the field of
the request it echoes, because the encoder pads every clear-text field to the RFC 7822 minimum (16 octets, 28
for the last one) and always writes a 16-octet nonce, while the parser accepts shorter fields / nonces.
The answer then does not fit the request-sized buffer and the accepted request is silently dropped
(statistics: internal error).  Witness (replayed against the real server as the first corpus case of every
stream): 48-octet NTPv4 client header + unique-identifier field of total length 8 + 17 trailing octets (taken
as MAC) = 73 octets; the answer needs 48 + 28 = 76.

  `Full`                  the property as stated (for requests that contain the fields they were parsed into)
  `counterexample`        ¬ Full, on the witness above
  `plain_fits_partial`    the property for NTPv3/NTPv4 requests without a valid cookie (plain, or failing
                          authentication) whose identifier fields are at least 28 octets long — every answer
                          (time, DENY, NTS-NAK) fits the request-sized buffer
  `answer_or_internal`    whenever an answer was decided, either it is sent or exactly one "internal error /
                          ignore" entry is recorded — the drop is at least never unaccounted
  `fits_unless_known_cause`  the property for EVERY request (NTPv3/4/5, plain and NTS) outside the known
                          causes: re-encoding lengthens no echoed field (¬F-C17a), the request nonce is at least
                          as long as the answer's (¬F-C17b/c), an NTPv5 request carries the draft
                          identification (¬F-C17d; automatic when it parsed without authentication failure)
The oracle `c17_request_sized_buffer` evaluates the property on the real server and labels each failure with its
cause (short-uid / short-nonce / short-uid+nonce / v5-no-draft; anything else is reported as a violation); the
oracle clause `c17_accounting` checks the accounting hypotheses of the theorem on every parsed request.
-/
import NtpVerif.Proofs.ServerFit
import NtpVerif.Model.ServerReq
import NtpVerif.Proofs.ServerParse
import NtpVerif.Proofs.ServerWire
import NtpVerif.Props.C22

namespace NtpVerif.C17
open NtpVerif.Server NtpVerif.RespSize

/-- octets the unique-identifier fields occupy in the request -/
def uidWire : List Field → Nat
  | [] => 0
  | .uid b :: fs => next4 (4 + b.length) + uidWire fs
  | _ :: fs => uidWire fs

/-- the request is at least as long as its header plus the identifier fields it was parsed into
    (checked by the harness on every parsed request) -/
def Accounted (req : Req) : Prop := 48 + uidWire (req.untrusted ++ req.auth) ≤ req.len

instance (req : Req) : Decidable (Accounted req) := by unfold Accounted; infer_instance

/-- The property as stated: whenever policy decides to answer, the answer can be serialised into a buffer as
    long as the request. -/
def Full : Prop :=
  ∀ (cfg : Config) (info : Info) (env : Env) (req : Req) a reason v nts r, Accounted req →
    handleInner cfg info env req = .answer a reason v nts r → serialize r req.len ≠ .err

def cfgW : Config := { denyAct := .deny, allowAct := .ignore, requireNts := none, versions := [3, 4, 5] }
def infoW : Info :=
  { stratum := 2, refid := [1, 2, 3, 4], leap := 0, precision := 4096, rootDelay := 65536, bloom := [], keysOk := true }
def envW : Env :=
  { inDeny := true, inAllow := true, rateOk := true, recv := 0xE800000000000000, now := 0xE800000000001000,
    rvar := F64.zero, bufLen := 73 }
/-- the design-time witness: identifier field of total length 8, 17 trailing octets -/
def reqW : Req :=
  { len := 73, fv := 4, parse := .ok, version := 4, client := true, poll := 0, xmit := [40, 41, 42, 43, 44, 45, 46, 47],
    reft := [0, 0, 0, 0, 0, 0, 0, 0], untrusted := [.uid [0xAA, 0xBB, 0xCC, 0xDD]], auth := [], enc := [],
    cookie := none, encw := 0, mac := 17 }

/-- The code does not have the property: the (DENY, and likewise the time) answer to the witness needs 76
    octets, the request has 73. -/
theorem counterexample : ¬ Full := by
  intro h
  have := h cfgW infoW envW reqW .deny .policy 4 false (denyResponse reqW) (by decide) (by decide)
  exact this (by decide)

theorem uidWire_append (a b : List Field) : uidWire (a ++ b) = uidWire a + uidWire b := by
  induction a with
  | nil => simp [uidWire]
  | cons f fs ih => cases f <;> simp [uidWire, ih] <;> omega

/-- identifier fields of at least 28 octets (24-octet body) and within the 16-bit length -/
def UidsLong (fs : List Field) : Prop := ∀ b, Field.uid b ∈ fs → 24 ≤ b.length ∧ b.length ≤ 65531

private theorem untrustedSize_le_sum (fs : List RField)
    (h : ∀ f ∈ fs, f.wire 28 = f.wire 16) :
    untrustedSize .v4 fs = (fs.map (RField.wire 16)).sum := by
  induction fs with
  | nil => rfl
  | cons f rest ih =>
    cases rest with
    | nil => simp [untrustedSize, untrustedMin, Gen.EF_MIN_V4_LAST, h f (by simp)]
    | cons g r =>
      have := ih (fun x hx => h x (by simp [hx]))
      simp only [untrustedSize] at this ⊢
      simp only [List.map_cons, List.sum_cons] at this ⊢
      simp [untrustedMin, Gen.EF_MIN_V4] at this ⊢
      omega

private theorem echo_wire (fs : List Field) (h : UidsLong fs) :
    (∀ f ∈ fs.filterMap uidOf, f.wire 28 = f.wire 16 ∧ f.frameOk = true) ∧
    ((fs.filterMap uidOf).map (RField.wire 16)).sum = uidWire fs := by
  induction fs with
  | nil => simp [uidWire]
  | cons f rest ih =>
    have ih' := ih (fun b hb => h b (by simp [hb]))
    cases f with
    | uid b =>
      have hb := h b (by simp)
      have hw : ∀ m, m ≤ 28 → (RField.uid b).wire m = next4 (4 + b.length) := by
        intro m hm
        simp only [RField.wire, RField.dataLen]
        rw [fieldWire_of_ge m b.length (by omega)]
        congr 1; omega
      constructor
      · intro x hx
        simp only [List.filterMap_cons, uidOf, List.mem_cons] at hx
        rcases hx with hx | hx
        · subst hx
          exact ⟨by rw [hw 28 (by omega), hw 16 (by omega)],
                 by simp only [RField.frameOk, RField.dataLen, RespSize.frameOk]; exact decide_eq_true hb.2⟩
        · exact ih'.1 x hx
      · simp only [List.filterMap_cons, uidOf, List.map_cons, List.sum_cons, uidWire]
        rw [hw 16 (by omega), ih'.2]
    | _ => simp only [List.filterMap_cons, uidOf, uidWire]; exact ih'

/-- shape of the answers built without a cookie for NTPv3/NTPv4 -/
private theorem plain_built {info env req a r} (hb : build info env req none a = .ok r) (h5 : req.version ≠ 5) :
    r.hdr.version = req.version ∧ r.auth = [] ∧ r.enc = [] ∧
    r.untrusted = if req.version = 3 then [] else (req.untrusted ++ req.auth).filterMap uidOf := by
  cases a with
  | nak =>
    simp only [build, nakResponse] at hb
    split at hb
    · simp at hb
    · simp only [Built.ok.injEq] at hb
      subst hb
      simp [plainKiss, kissHeader, draftTail, h5]
  | deny =>
    simp only [build, Built.ok.injEq] at hb
    subst hb
    simp [denyResponse, plainKiss, kissHeader, draftTail, h5]
  | time =>
    simp only [build, timestampResponse] at hb
    split at hb
    · simp at hb
    · simp only [Built.ok.injEq] at hb
      subst hb
      simp [timeHeader, h5]
  | ignore => simp [build] at hb

/-- For NTPv3/NTPv4 requests without a valid cookie whose identifier fields have at least the minimum size the
    encoder enforces, every answer the policy decides on (time, DENY, NTS-NAK) fits a request-sized buffer. -/
theorem plain_fits_partial (cfg : Config) (info : Info) (env : Env) (req : Req) {a reason v nts r}
    (hacc : Accounted req) (h5 : req.version ≠ 5) (hck : req.cookie = none)
    (hlong : UidsLong (req.untrusted ++ req.auth))
    (h : handleInner cfg info env req = .answer a reason v nts r) : serialize r req.len ≠ .err := by
  obtain ⟨_, _, a0, r0, c0, hr, hsrc⟩ := handleInner_answer h
  have hc0 : c0 = none := by
    rcases hsrc with ⟨_, _, h3⟩ | ⟨_, h3, _⟩
    · rw [h3, hck]
    · exact h3
  have hb := respond_built hr
  rw [hc0] at hb
  obtain ⟨hv, hauth, henc, hu⟩ := plain_built hb h5
  obtain ⟨hw, hsum⟩ := echo_wire _ hlong
  have hsize : efSize r ≤ uidWire (req.untrusted ++ req.auth) := by
    unfold efSize
    simp only [hv, hauth, henc, List.isEmpty_nil, Bool.and_self, ↓reduceIte, Nat.zero_add]
    split
    · omega
    · rename_i h3
      have : evOf req.version = .v4 := by simp [evOf, h5]
      rw [this, hu, if_neg h3, untrustedSize_le_sum _ (fun f hf => (hw f hf).1), hsum]
      omega
  have henc' : encodable r = true := by
    unfold encodable
    simp only [hauth, henc, List.append_nil, List.isEmpty_nil, Bool.and_self, Bool.true_or, Bool.and_true]
    rw [hu]
    split
    · simp
    · simp only [List.all_eq_true]
      exact fun f hf => (hw f hf).2
  unfold Accounted at hacc
  unfold serialize
  split
  · simp
  · split
    · simp
    · split
      · omega
      · simp only [henc', Bool.not_true, Bool.false_eq_true, ↓reduceIte]
        unfold padded
        split
        · omega
        · split
          · simp
          · simp [hv, h5]

/-- facts about every request record the parser produces (oracle clause `c17_accounting` checks them on every
    parsed request; `okDraft`, `draftFact` and `v5len` are theorems about the parser model for `reqOf`,
    see `reqOf_draft_facts` below and `C22.parserFacts_reqOf`) -/
structure ReqFacts (req : Req) : Prop where
  /-- field lengths are 16-bit -/
  bounded : ∀ b, Field.uid b ∈ req.untrusted ++ req.auth → b.length ≤ 65531
  /-- a datagram is at most 65535 octets -/
  udp : req.len ≤ 65535
  /-- accepted NTPv5 packets are a whole number of words -/
  v5len : req.version = 5 → req.len % 4 = 0
  /-- an NTPv5 packet that parsed without authentication failure identifies our draft version -/
  okDraft : req.parse = .ok → req.version = 5 → req.draftOk = true
  /-- … and then a draft-identification field of (at least) 23 octets is among its fields -/
  draftFact : req.version = 5 → req.draftOk = true → ∃ n, 23 ≤ n ∧ Field.draft n ∈ req.untrusted ++ req.auth

/-- Hypotheses of `fits_unless_known_cause`, for a request and the answer decided for it: the request is
    outside the three remaining known causes (F-C17d is fixed: an NTPv5 request without our draft identification
    is no longer answered). -/
structure Outside (req : Req) (r : Response) : Prop where
  /-- the request holds the fields it was parsed into (harness-checked: `c17_accounting`) -/
  accounted : 48 + wireSum (req.untrusted ++ req.auth) + req.encw ≤ req.len
  /-- ¬F-C17a: re-encoding does not lengthen an echoed field (each term of the encoder's sizes is at least the
      field's own length, so `≤` means: every echoed field already has its re-encoded length) -/
  stable : untrustedSize (evOf r.hdr.version) r.untrusted ≤ ownSum r.untrusted ∧ authSize r.auth ≤ ownSum r.auth
  /-- ¬F-C17b/c: the request's encrypted field is at least as long as one with a 16-octet nonce around the
      same fields (holds when the request nonce has 16 octets or more; harness-checked for those) -/
  nonceLong : req.cookie.isSome = true → encOverhead + wireSum req.enc ≤ req.encw
  facts : ReqFacts req

/-- **The property outside the known causes.**  For every configuration, synchronisation state, address and
    request (any version, plain or NTS, any field layout): if the policy decides to answer and the request is
    `Outside` the known causes, the answer can be serialised into a buffer as long as the request. -/
theorem fits_unless_known_cause (cfg : Config) (info : Info) (env : Env) (req : Req) {a reason v nts r}
    (h : handleInner cfg info env req = .answer a reason v nts r) (ho : Outside req r) :
    serialize r req.len ≠ .err := by
  obtain ⟨_, _, a0, r0, c0, hr, hsrc⟩ := handleInner_answer h
  have hb := respond_built hr
  have hc0 : c0 = none ∨ c0 = req.cookie := by
    rcases hsrc with ⟨_, _, h3⟩ | ⟨_, h3, _⟩
    · exact .inr h3
    · exact .inl h3
  have hm := efSize_mod r
  by_cases h3 : req.version = 3
  · -- NTPv3: no extension fields at all
    obtain ⟨hv, hu, ha, hen⟩ := built_v3 hb h3
    have he : efSize r = 0 := by simp [efSize, hv]
    have henc : encodable r = true := by simp [encodable, hu, ha, hen]
    have hacc := ho.accounted
    unfold serialize
    split
    · simp
    · split
      · simp
      · split
        · omega
        · simp only [henc, Bool.not_true, Bool.false_eq_true, ↓reduceIte, he]
          unfold padded
          split
          · omega
          · split
            · simp
            · simp [hv]
  · obtain ⟨hv, hecho, hck, hnone, hcipher, hdes, hfields⟩ := built_budget hb h3
    have hsum := sums_le (req.untrusted ++ req.auth)
    have hsumE := sums_le req.enc
    have hcapp := cookieSum_append req.auth req.enc
    have hcapp2 := cookieSum_append req.untrusted req.auth
    have hacc := ho.accounted
    obtain ⟨hstU, hstA⟩ := ho.stable
    have hdraft : (if req.version = 5 then 28 else 0) ≤ draftSum (req.untrusted ++ req.auth) := by
      split
      · rename_i h5
        have hdok : req.draftOk = true := by
          rcases hsrc with ⟨hp, _⟩ | ⟨hp, _⟩
          · exact ho.facts.okDraft hp h5
          · exact handleInner_answer_draft h hp
        exact draftSum_ge _ (ho.facts.draftFact h5 hdok)
      · omega
    -- size of the extension-field area
    have hsize : 48 + efSize r ≤ req.len := by
      unfold efSize
      rw [if_neg (by rw [hv]; exact h3)]
      have hencI : encInnerSize r.enc = ownSum r.enc := rfl
      split
      · -- no authenticated / encrypted part
        rename_i hemp
        have hao : ownSum r.auth = 0 := by
          have : r.auth = [] := by
            have := hemp; simp only [Bool.and_eq_true, List.isEmpty_iff] at this; exact this.1
          rw [this]; rfl
        omega
      · rename_i hne
        have hsome : c0 = req.cookie ∧ req.cookie.isSome = true := by
          rcases hc0 with hc | hc
          · exfalso
            obtain ⟨ha, he⟩ := hnone hc
            rw [ha, he] at hne; simp at hne
          · refine ⟨hc, ?_⟩
            cases hcc : req.cookie with
            | some x => rfl
            | none =>
              exfalso
              obtain ⟨ha, he⟩ := hnone (hc.trans hcc)
              rw [ha, he] at hne; simp at hne
        have hn := ho.nonceLong hsome.2
        rw [hencI]
        omega
    have henc : encodable r = true := by
      have hfr : (r.untrusted ++ r.auth ++ r.enc).all RField.frameOk = true := by
        rw [List.all_eq_true]
        intro f hf
        rcases hfields f hf with ⟨b, hfb, hmem⟩ | hok
        · subst hfb
          simp only [RField.frameOk, RField.dataLen, RespSize.frameOk]
          exact decide_eq_true (ho.facts.bounded b hmem)
        · exact hok
      have hci : ((r.auth.isEmpty && r.enc.isEmpty) || r.cipher || decide (r.hdr.version = 3)) = true := by
        rcases hcipher with hc | ⟨ha, he⟩
        · simp [hc]
        · simp [ha, he]
      simp only [encodable, hfr, Bool.true_and]
      exact hci
    unfold serialize
    split
    · simp
    · split
      · simp
      · split
        · omega
        · simp only [henc, Bool.not_true, Bool.false_eq_true, ↓reduceIte]
          unfold padded
          split
          · omega
          · rcases hdes with hd | hd
            · simp [hd]
            · simp only [hd]
              split
              · rename_i hcond
                have h4 := ho.facts.v5len (hv ▸ hcond.1)
                have hudp := ho.facts.udp
                have hid := next4_id (req.len - (48 + efSize r)) (by omega)
                split
                · simp
                · split
                  · omega
                  · split
                    · omega
                    · simp
              · simp

/-- The draft-identification facts of `ReqFacts` are theorems about the parser model: they hold for every request
    record `reqOf` derives from `Packet.parse`. -/
theorem reqOf_draft_facts (dec : Wire.Dec) (ks : Wire.KeySet) (data : List UInt8) (fv encw : Nat) :
    ((reqOf dec ks data fv encw).parse = .ok → (reqOf dec ks data fv encw).version = 5 →
      (reqOf dec ks data fv encw).draftOk = true) ∧
    ((reqOf dec ks data fv encw).version = 5 → (reqOf dec ks data fv encw).draftOk = true →
      ∃ n, 23 ≤ n ∧ Field.draft n ∈ (reqOf dec ks data fv encw).untrusted ++ (reqOf dec ks data fv encw).auth) := by
  have hfind : ∀ (p : Wire.Packet), Wire.draftIdOf p.ef = some Wire.draftVersion →
      Field.draft 23 ∈ p.ef.untrusted.map fieldOf ++ p.ef.authenticated.map fieldOf := by
    intro p hd
    unfold Wire.draftIdOf at hd
    obtain ⟨f, hf, hs⟩ := List.exists_of_findSome?_eq_some hd
    cases f <;> simp at hs
    subst hs
    have : fieldOf (.draftId Wire.draftVersion) = .draft 23 := by
      simp only [fieldOf]; congr 1
    rw [← this, ← List.map_append]
    exact List.mem_map_of_mem hf
  have hpk : ∀ (parse : Parse) (p : Wire.Packet) (c : Option Wire.Cookie),
      (reqOfPacket data.length fv encw parse p c).version = 5 →
      (reqOfPacket data.length fv encw parse p c).draftOk = true →
      ∃ n, 23 ≤ n ∧ Field.draft n ∈ (reqOfPacket data.length fv encw parse p c).untrusted ++
        (reqOfPacket data.length fv encw parse p c).auth := by
    intro parse p c h5 hd
    cases hh : p.header with
    | v3 h => simp [reqOfPacket, versionOf, hh] at h5
    | v4 h => simp [reqOfPacket, versionOf, hh] at h5
    | v5 h =>
      simp only [reqOfPacket, hh, decide_eq_true_eq] at hd
      exact ⟨23, Nat.le_refl _, hfind p hd⟩
  unfold reqOf
  cases hp : Wire.parse dec (.keyset ks) data with
  | ok p cookie =>
    have hr : Wire.parseR dec (.keyset ks) data = .ok (p, cookie, true) := by
      unfold Wire.parse at hp
      split at hp <;> first | (cases hp; done) | (cases hp; assumption)
    have hf := ServerParse.parseR_facts hr
    refine ⟨?_, hpk _ _ _⟩
    intro _ h5
    cases hh : p.header with
    | v3 h => simp [reqOfPacket, versionOf, hh] at h5
    | v4 h => simp [reqOfPacket, versionOf, hh] at h5
    | v5 h =>
      rw [hh] at hf
      simp [reqOfPacket, hh, hf.2 rfl]
  | decryptErr p => exact ⟨fun h => by simp [reqOfPacket] at h, hpk _ _ _⟩
  | err e => exact ⟨fun _ h5 => by simp [reqNone] at h5, fun h5 => by simp [reqNone] at h5⟩
  | panic => exact ⟨fun _ h5 => by simp [reqNone] at h5, fun h5 => by simp [reqNone] at h5⟩
  | fuel => exact ⟨fun _ h5 => by simp [reqNone] at h5, fun h5 => by simp [reqNone] at h5⟩

/-- All of `ReqFacts` is a theorem about the parser model, except that a datagram has at most 65535 octets
    (a fact about UDP, not about the parser). -/
theorem reqFacts_reqOf (dec : Wire.Dec) (ks : Wire.KeySet) (data : List UInt8) (fv encw : Nat)
    (hudp : data.length ≤ 65535) : ReqFacts (reqOf dec ks data fv encw) := by
  obtain ⟨hok, hdf⟩ := reqOf_draft_facts dec ks data fv encw
  have hpf := C22.parserFacts_reqOf dec ks data fv encw
  have hmem : ∀ (p : Wire.Packet) (b : List UInt8),
      Field.uid b ∈ p.ef.untrusted.map fieldOf ++ p.ef.authenticated.map fieldOf →
      Wire.EF.uniqueId b ∈ p.ef.untrusted ++ p.ef.authenticated := by
    intro p b hb
    rw [← List.map_append, List.mem_map] at hb
    obtain ⟨f, hf, hfb⟩ := hb
    cases f <;> simp [fieldOf] at hfb
    subst hfb
    exact hf
  refine ⟨?_, ?_, hpf.2, hok, hdf⟩
  · intro b hb
    unfold reqOf at hb
    cases hp : Wire.parse dec (.keyset ks) data with
    | ok p cookie =>
      have hr : Wire.parseR dec (.keyset ks) data = .ok (p, cookie, true) := by
        unfold Wire.parse at hp
        split at hp <;> first | (cases hp; done) | (cases hp; assumption)
      simp only [hp, reqOfPacket] at hb
      exact ServerParse.parseR_uid hr b (hmem p b hb)
    | decryptErr p =>
      have hr : ∃ c, Wire.parseR dec (.keyset ks) data = .ok (p, c, false) := by
        unfold Wire.parse at hp
        split at hp <;> first | (cases hp; done) | (cases hp; exact ⟨_, by assumption⟩)
      obtain ⟨c, hr⟩ := hr
      simp only [hp, reqOfPacket] at hb
      exact ServerParse.parseR_uid hr b (hmem p b hb)
    | err e => simp [hp, reqNone] at hb
    | panic => simp [hp, reqNone] at hb
    | fuel => simp [hp, reqNone] at hb
  · unfold reqOf
    cases Wire.parse dec (.keyset ks) data <;> simpa [reqOfPacket, reqNone] using hudp

/-- **Byte-level form of `fits_unless_known_cause`.**  For every datagram of at most 65535 octets, decryption
    oracle, key set, configuration and synchronisation state: if the policy decides to answer the request derived
    from the bytes, the answer fits a buffer as long as the datagram — unless one of the three known causes
    applies (`stable` fails: F-C17a; `nonceLong` fails: F-C17b/c) — given the size accounting of the request
    (`accounted`, `nonceLong` relate the harness-measured `encw` to the datagram; oracle-checked). -/
theorem fits_unless_known_cause_wire (cfg : Config) (info : Info) (env : Env) (dec : Wire.Dec) (ks : Wire.KeySet)
    (data : List UInt8) (fv encw : Nat) (hudp : data.length ≤ 65535) {a reason v nts r}
    (h : handleInner cfg info env (reqOf dec ks data fv encw) = .answer a reason v nts r)
    (hacc : 48 + wireSum ((reqOf dec ks data fv encw).untrusted ++ (reqOf dec ks data fv encw).auth)
              + (reqOf dec ks data fv encw).encw ≤ (reqOf dec ks data fv encw).len)
    (hstable : untrustedSize (evOf r.hdr.version) r.untrusted ≤ ownSum r.untrusted ∧ authSize r.auth ≤ ownSum r.auth)
    (hnonce : (reqOf dec ks data fv encw).cookie.isSome = true →
              encOverhead + wireSum (reqOf dec ks data fv encw).enc ≤ (reqOf dec ks data fv encw).encw) :
    serialize r (reqOf dec ks data fv encw).len ≠ .err :=
  fits_unless_known_cause cfg info env _ h ⟨hacc, hstable, hnonce, reqFacts_reqOf dec ks data fv encw hudp⟩

/-- `accounted` is a theorem about the parser model once `encw` is computed from the bytes (`reqOfB`, `encwOf`):
    for every datagram that parsed (possibly failing authentication only), header + the fields it was parsed into
    + the framed authenticator fields fit into the datagram. -/
theorem accounted_reqOfB (dec : Wire.Dec) (ks : Wire.KeySet) (data : List UInt8) (fv : Nat)
    (hp : (reqOfB dec ks data fv).parse = .ok ∨ (reqOfB dec ks data fv).parse = .dec) :
    48 + wireSum ((reqOfB dec ks data fv).untrusted ++ (reqOfB dec ks data fv).auth)
      + (reqOfB dec ks data fv).encw ≤ (reqOfB dec ks data fv).len := by
  have hws : ∀ (p : Wire.Packet), wireSum (p.ef.untrusted.map fieldOf ++ p.ef.authenticated.map fieldOf)
      = ServerParse.fwSum p.ef.untrusted + ServerParse.fwSum p.ef.authenticated := by
    intro p
    simp [wireSum, ServerParse.fwSum, List.map_append, List.sum_append, Function.comp_def]
    rfl
  unfold reqOfB reqOf at hp ⊢
  cases hpp : Wire.parse dec (.keyset ks) data with
  | ok p cookie =>
    have hr : Wire.parseR dec (.keyset ks) data = .ok (p, cookie, true) := by
      unfold Wire.parse at hpp
      split at hpp <;> first | (cases hpp; done) | (cases hpp; assumption)
    have := ServerParse.parseR_account hr
    simp only [reqOfPacket, hws]
    omega
  | decryptErr p =>
    have hr : ∃ c, Wire.parseR dec (.keyset ks) data = .ok (p, c, false) := by
      unfold Wire.parse at hpp
      split at hpp <;> first | (cases hpp; done) | (cases hpp; exact ⟨_, by assumption⟩)
    obtain ⟨c, hr⟩ := hr
    have := ServerParse.parseR_account hr
    simp only [reqOfPacket, hws]
    omega
  | err e => simp [hpp, reqNone] at hp
  | panic => simp [hpp, reqNone] at hp
  | fuel => simp [hpp, reqNone] at hp

/-- **Byte-level form with everything computed from the bytes.**  For every datagram of at most 65535 octets,
    decryption oracle, key set, configuration and synchronisation state: if the policy decides to answer the
    request record derived from the bytes (`reqOfB`: parser model, `encw` measured by the field streamer), the
    answer fits a buffer as long as the datagram unless a known cause applies — `stable` fails (F-C17a) or
    `nonceLong` fails (F-C17b/c).  The size accounting is no longer a hypothesis. -/
theorem fits_unless_known_cause_bytes (cfg : Config) (info : Info) (env : Env) (dec : Wire.Dec) (ks : Wire.KeySet)
    (data : List UInt8) (fv : Nat) (hudp : data.length ≤ 65535) {a reason v nts r}
    (h : handleInner cfg info env (reqOfB dec ks data fv) = .answer a reason v nts r)
    (hstable : untrustedSize (evOf r.hdr.version) r.untrusted ≤ ownSum r.untrusted ∧ authSize r.auth ≤ ownSum r.auth)
    (hnonce : (reqOfB dec ks data fv).cookie.isSome = true →
              encOverhead + wireSum (reqOfB dec ks data fv).enc ≤ (reqOfB dec ks data fv).encw) :
    serialize r (reqOfB dec ks data fv).len ≠ .err := by
  have hparse : (reqOfB dec ks data fv).parse = .ok ∨ (reqOfB dec ks data fv).parse = .dec := by
    obtain ⟨_, _, _, _, _, _, hsrc⟩ := handleInner_answer h
    rcases hsrc with ⟨hp, _⟩ | ⟨hp, _⟩
    · exact .inl hp
    · exact .inr hp
  exact fits_unless_known_cause_wire cfg info env dec ks data fv (encwOf data) hudp h
    (accounted_reqOfB dec ks data fv hparse) hstable hnonce

/-- An answer that was decided on is either sent, or its loss is recorded as exactly one
    "internal error / ignore" entry (or the serialiser panicked, excluded by C22 under its assumptions). -/
theorem answer_or_internal (cfg : Config) (info : Info) (env : Env) (req : Req) {a reason v nts r}
    (h : handleInner cfg info env req = .answer a reason v nts r) :
    (∃ n, handle cfg info env req = .respond r n [⟨v, nts, reason, a⟩]) ∨
    handle cfg info env req = .ignore [⟨v, nts, .internal, .ignore⟩] ∨
    handle cfg info env req = .panic := by
  unfold handle
  simp only [h]
  cases serialize r env.bufLen with
  | ok n => exact .inl ⟨n, rfl⟩
  | err => exact .inr (.inl rfl)
  | panic => exact .inr (.inr rfl)

/-! #### non-vacuity -/

/-- a request with a 32-octet identifier (36-octet field) and a 17-octet MAC: answered within its own size -/
def reqOk : Req := { reqW with len := 48 + 36 + 17, untrusted := [.uid (List.replicate 32 7)] }
example : Accounted reqOk ∧ reqOk.version ≠ 5 ∧ reqOk.cookie = none ∧ UidsLong (reqOk.untrusted ++ reqOk.auth) := by
  refine ⟨by decide, by decide, rfl, ?_⟩
  intro b hb
  have : b = List.replicate 32 7 := by simpa [reqOk, reqW] using hb
  subst this; decide
example : handle cfgW infoW { envW with bufLen := reqOk.len } reqOk
    = .respond (denyResponse reqOk) 84 [⟨4, false, .policy, .deny⟩] := by decide
/-- the witness itself: decided answer, dropped as internal error -/
example : handle cfgW infoW envW reqW = .ignore [⟨4, false, .internal, .ignore⟩] := by decide

/-- an NTS NTPv4 request: 32-octet identifier, cookie and one placeholder (104 octets each), 16-octet nonce
    (encrypted field 8 + 16 + 16 = 40 octets, nothing inside) -/
def reqNts : Req :=
  { len := 48 + 36 + 108 + 108 + 40, fv := 4, parse := .ok, version := 4, client := true, poll := 6,
    xmit := [1, 2, 3, 4, 5, 6, 7, 8], reft := [0, 0, 0, 0, 0, 0, 0, 0], untrusted := [],
    auth := [.uid (List.replicate 32 7), .cookie 104, .placeholder 104], enc := [], cookie := some 15,
    encw := 40, mac := 0 }

/-- it is `Outside` the known causes with respect to its (NTS) DENY answer, which is non-trivial: identifier
    echoed under the s2c key -/
example : ∃ r, ntsDenyResponse reqNts = .ok r ∧ Outside reqNts r ∧ efSize r = 36 + 40 := by
  refine ⟨_, rfl, ⟨by decide, ⟨by decide, by decide⟩, fun _ => by decide,
    ⟨?_, by decide, fun h => absurd h (by decide), fun _ h => absurd h (by decide), fun h => absurd h (by decide)⟩⟩, by decide⟩
  intro b hb
  have : b = List.replicate 32 7 := by simpa [reqNts] using hb
  subst this; decide

/-- the short-nonce finding is excluded by `nonceLong`: with an 8-octet nonce the same request has a 32-octet
    encrypted field -/
example : ¬ (encOverhead + wireSum reqNts.enc ≤ ({ reqNts with encw := 32 } : Req).encw) := by decide

end NtpVerif.C17

#print axioms NtpVerif.C17.counterexample
#print axioms NtpVerif.C17.plain_fits_partial
#print axioms NtpVerif.C17.fits_unless_known_cause
#print axioms NtpVerif.C17.reqOf_draft_facts
#print axioms NtpVerif.C17.reqFacts_reqOf
#print axioms NtpVerif.C17.fits_unless_known_cause_wire
#print axioms NtpVerif.C17.accounted_reqOfB
#print axioms NtpVerif.C17.fits_unless_known_cause_bytes
#print axioms NtpVerif.C17.answer_or_internal
