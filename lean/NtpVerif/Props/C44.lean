/-
C44 — CSPTP clients survive any server traffic and only use matching answers.

Property theorems only (helper lemmas: `NtpVerif.Proofs.CsptpSource`, `NtpVerif.Proofs.PtpWire`).
Model: `NtpVerif.CsptpSource.step` = the body of the poll loop of `CsptpSource::run`
(`statime-csptp/src/source.rs`): sending the request, `collect_response` (one received datagram / recv error
per op), `add_correction`, `convert_to_ntp`, the status update — over the models of `CsptpMessage::deserialize`
and the statime-wire parser.  A script is any list of ops `req send` (the next poll, with the outcome of
`send_event`) and `ev e` (what `recv` hands out: an error, or any byte string with or without a receive
timestamp).  The model is the code WITH the proposed fix F-C44a (`add_correction` returns `None` outside
`[0, 2^48)` s, the response is then ignored; `steps_removed` saturates) and the earlier F-C41 / F-C44b.

Sentence ↔ theorem
* "No sequence of datagrams received by a CSPTP source crashes the daemon"        → `no_panic`
  (every `expect`/`unwrap`/`debug_assert`/checked `+` on the path is an explicit `.panic` in the model;
   `counterexample_unfixed` shows the unfixed `add_correction` / `steps_removed + 1` do panic)
* "A measurement is produced only from a response (and its follow-up, for two-step servers) with the
   current request's domain and sequence id"                                       → `only_matching`
  (+ `history_is_current_request`: the datagrams referred to are exactly those received since this request
   was sent, and id / send time are this request's)
* "at most once per request"                                                       → `at_most_once`

Hypothesis `Op.WF`: receive timestamps handed over by the socket are `statime_wire::Timestamp`s, whose only
constructors (`new`, `deserialize`, `default`) enforce seconds < 2^48 and nanos < 10^9 (private fields).
-/
import NtpVerif.Proofs.CsptpSource

namespace NtpVerif.C44
open NtpVerif.PtpWire NtpVerif.Csptp NtpVerif.CsptpSource

/-- the source right after `run` starts: nothing sent yet -/
def start (domain : Nat) (active : Bool) (gm : GmState) : St :=
  { domain, active, nextId := 0, phase := .idle, gm }

theorem start_inv (domain : Nat) (active : Bool) (gm : GmState) : (start domain active gm).Inv := by
  simp [start, St.Inv]

/-- **No panic, for every datagram sequence.**  From the start (or any reachable) state, every script of
    polls, send failures, receive errors and arbitrary datagrams runs to the end: the model never takes one
    of its explicit panic branches (nor any other failure), and yields one observation per op. -/
theorem no_panic (s : St) (ops : List Op) (hi : s.Inv) (hw : ∀ op ∈ ops, op.WF) :
    run s ops ≠ .error .panic ∧ ∃ obs, run s ops = .ok obs ∧ obs.length = ops.length := by
  obtain ⟨obs, h, hl⟩ := run_ok s ops hi hw
  exact ⟨by rw [h]; simp, obs, h, hl⟩

/-- **Only matching answers.**  If, after any script `pre`, the datagram event `e` makes the source hand a
    measurement `m` to the controller, then a request is open (id `reqId`, sent at `sendTs`) and among the
    datagrams received for it (`e` and the earlier ones, `hist`) there is a CSPTP Sync `sy` that
    * has the configured domain and the request's sequence id, carries a valid response TLV `r`, and came
      with a receive timestamp `rx`;
    * if it is one-step, supplies the server send time itself; if it is two-step, there is also a CSPTP
      Follow_Up `fu` among them with the same domain and sequence id supplying it;
    and `m` is computed (`finish`) from exactly these: local send time + `r.correction`, `r.ingress`,
    server send time + correction field(s), `rx`. -/
theorem only_matching (s0 s s' : St) (pre : List Op) (e : Ev) (m : Meas) (gm : GmState)
    (hi : s0.Inv) (hw : ∀ op ∈ pre, op.WF) (he : e.WF)
    (hpre : stateAfter s0 pre = .ok s) (hstep : step s (.ev e) = .ok (s', .meas m gm)) :
    ∃ reqId sendTs st hist raw,
      s.phase = .collecting reqId sendTs st hist ∧ finish raw = .ok (some m) ∧ s'.phase = .idle ∧
      ∃ sy ∈ e :: hist, ∃ msg tlvs r rx origin,
        SyncFor s0.domain reqId sy msg tlvs r rx origin ∧
        raw.reqSend = sendTs ∧ raw.reqRecv = r.ingress ∧ raw.reqCorr = r.correction ∧ raw.respRecv = rx ∧
        (msg.header.twoStep = false → raw.respSend = origin ∧ raw.respCorr = msg.header.correction) ∧
        (msg.header.twoStep = true → ∃ fu ∈ e :: hist, ∃ msg2,
           FuFor s0.domain reqId fu msg2 raw.respSend ∧
           raw.respCorr = satAdd64 msg.header.correction msg2.header.correction) := by
  obtain ⟨s1, h1, hi1, hd1⟩ := stateAfter_ok s0 pre hi hw
  rw [hpre] at h1; cases h1
  obtain ⟨s2, o, hs, _, _, hm⟩ := step_spec s (.ev e) hi1 he
  rw [hstep] at hs; cases hs
  obtain ⟨e', reqId, sendTs, st, hist, raw, he', hp, hjr, hf, hidle⟩ := hm m gm rfl
  cases he'
  obtain ⟨sy, hsy, msg, tlvs, r, rx, origin, hsf, a1, a2, a3, a4, _, a6, a7⟩ := hjr
  rw [hd1] at hsf a7
  exact ⟨reqId, sendTs, st, hist, raw, hp, hf, hidle, sy, hsy, msg, tlvs, r, rx, origin, hsf, a1, a2, a3, a4, a6, a7⟩

/-- The datagrams `only_matching` refers to are exactly those received since the current request was
    sent, and `reqId` / `sendTs` are that request's id and send timestamp: after `pre`, a successful poll
    `req (some ts)` and the events `evs`, an open request has id = the sequence counter at the poll, send time
    `ts` and history `evs` (newest first). -/
theorem history_is_current_request (s0 s1 s : St) (pre : List Op) (ts : Timestamp) (evs : List Ev)
    (hi : s0.Inv) (hw : ∀ op ∈ pre, op.WF) (hwe : ∀ e ∈ evs, e.WF)
    (hpre : stateAfter s0 pre = .ok s1)
    (h : stateAfter s0 (pre ++ .req (some ts) :: evs.map .ev) = .ok s)
    (reqId : Nat) (sendTs : Timestamp) (st : ReqState) (hist : List Ev)
    (hp : s.phase = .collecting reqId sendTs st hist) :
    hist = evs.reverse ∧ reqId = s1.nextId ∧ sendTs = ts := by
  have happ : ∀ (a b : List Op) (x y : St), stateAfter x a = .ok y → stateAfter x (a ++ b) = stateAfter y b := by
    intro a b
    induction a with
    | nil => intro x y h; simp [stateAfter] at h; subst h; rfl
    | cons op a ih =>
      intro x y h
      cases hs : step x op with
      | error f => simp [stateAfter, hs, bind, Except.bind] at h
      | ok r =>
        obtain ⟨x', o⟩ := r
        rw [stateAfter_cons _ _ _ _ _ hs] at h
        rw [List.cons_append, stateAfter_cons _ _ _ _ _ hs]
        exact ih x' y h
  rw [happ _ _ _ _ hpre] at h
  obtain ⟨s1', h1, hi1, _⟩ := stateAfter_ok s0 pre hi hw
  rw [hpre] at h1; cases h1
  obtain ⟨s2, o, hs, hi2, _, _⟩ := step_spec s1 (.req (some ts)) hi1 trivial
  rw [stateAfter_cons _ _ _ _ _ hs] at h
  have hp2 : s2.phase = .collecting s1.nextId ts .waitingForResponse [] := by
    obtain ⟨b, hb⟩ := requestBytes_ok s1.domain s1.nextId
    simp [step, hb, bind, Except.bind, pure, Except.pure] at hs
    rw [← hs.1]
  have := collecting_hist s2 s evs _ _ _ _ reqId sendTs st hist hp2 hi2 hwe h hp
  simpa using this

/-- **At most once per request.**  Whatever datagrams arrive while no new request is sent, at most one
    measurement is handed to the controller. -/
theorem at_most_once (s : St) (evs : List Ev) (obs : List Obs) (hi : s.Inv) (hw : ∀ e ∈ evs, e.WF)
    (h : run s (evs.map .ev) = .ok obs) : (obs.filter Obs.isMeas).length ≤ 1 :=
  meas_at_most_once s evs obs hi hw h

/-- the unfixed code does panic (finding F-C44a / F-C44c): origin seconds 0 with a correction field of
    −1 ns; origin seconds 2^48−1 with +1 s; a status TLV with stepsRemoved = 65535 on the active source -/
theorem counterexample_unfixed :
    addCorrectionOrig ⟨0, 0⟩ (-65536) = .error .panic ∧
    addCorrectionOrig ⟨2 ^ 48 - 1, 0⟩ (65536 * 1000000000) = .error .panic ∧
    addCorrection ⟨0, 0⟩ (-65536) = .ok none ∧
    addCorrection ⟨2 ^ 48 - 1, 0⟩ (65536 * 1000000000) = .ok none ∧
    (∀ raw g st, raw.status = some st → st.stepsRemoved = 65535 → updateStateOrig true raw g = .error .panic) := by
  refine ⟨by rfl, by rfl, by rfl, by rfl, ?_⟩
  intro raw g st h1 h2
  simp [updateStateOrig, h1, h2]

/-! ### non-vacuity -/

def exGm : GmState :=
  { identity := 0, priority1 := 255, priority2 := 255, quality := ⟨248, .unknown, 26880⟩, stepsRemoved := 0,
    ptp := true, tt := false, ft := false }

/-- a two-step response (Sync, then Follow_Up) to request 0 in domain 128 -/
def exSync : Bytes :=
  [0x30,0x12,0x00,0x42,0x80,0x00,0x02,0x00, 0,0,0,0,0,1,0,0, 0,0,0,0, 0,0,0,0,0,0,0,0,0,0, 0,0, 0,0x7f,
   0,0,0,0,0,0,0,0,0,0, 0xff,0x01,0x00,0x12, 0,0,0x65,0x53,0xf1,0x00,0,0,0,6, 0,0,0,0,0,2,0,0]
def exFollowUp : Bytes :=
  [0x38,0x12,0x00,0x2c,0x80,0x00,0x02,0x00, 0,0,0,0,0,3,0,0, 0,0,0,0, 0,0,0,0,0,0,0,0,0,0, 0,0, 0,0x7f,
   0,0,0x65,0x53,0xf1,0x00,0,0,0,7]

def exOps : List Op :=
  [.req (some ⟨1700000000, 5⟩), .ev (.dg exSync (some ⟨1700000000, 9⟩)), .ev (.dg exFollowUp none)]

/-- the example script yields a request, nothing for the Sync, and a measurement at the Follow_Up:
    the hypotheses of `only_matching` / `at_most_once` are met by a concrete non-trivial run -/
example : (match run (start 128 true exGm) exOps with
           | .ok [.sent _, .none, .meas _ _] => true
           | _ => false) = true := by decide +kernel

example : ∀ op ∈ exOps, op.WF := by
  intro op h
  simp [exOps] at h
  rcases h with h | h | h <;> subst h <;> simp [Op.WF, Ev.WF, Timestamp.WF]

end NtpVerif.C44

#print axioms NtpVerif.C44.no_panic
#print axioms NtpVerif.C44.only_matching
#print axioms NtpVerif.C44.history_is_current_request
#print axioms NtpVerif.C44.at_most_once
#print axioms NtpVerif.C44.counterexample_unfixed
