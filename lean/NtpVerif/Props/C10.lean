/-
C10 — poll intervals stay within configured and requested bounds (the NtpSource half: poll field of every
request, scheduling of the next poll).  The clock filter's own desired interval is `C10Filter.lean`
(`filter_desire_in_limits`, builder kfilter): it supplies the hypothesis `cfg.min ≤ desired ≤ cfg.max` used here.

Model: `NtpVerif.Model.SourceSM` (`current_poll_interval`, `handle_timer`, `process_message`'s NTPv5 poll
request, the RATE arm, `PollInterval::as_system_duration`).

Property sentence ↔ theorem
  "Every poll a source sends uses a poll exponent no smaller than the configured minimum and no larger than the
   larger of the configured maximum and any interval the server asked for"
        ↔ `send_poll_bounds` (one step, from the state), `remote_min_bounded` (history: `remote_min_poll_interval`
          never exceeds the larger of cfg.max and the largest poll an accepted NTPv5 answer asked for) ,
          `send_poll_bounds_history`
  "the next poll is scheduled between 1.01 and 1.05 times that interval"
        ↔ `timer_jitter` (the check the model applies to the observed SetTimer is exactly that bound on the
          interval of the poll just sent) and `interval_of_poll` (what "that interval" is: 2^poll s, clamped to
          [1 s, 2^31 s])
-/
import NtpVerif.Proofs.SourceSM
import NtpVerif.Props.C10Filter

namespace NtpVerif.C10
open NtpVerif.SourceSM NtpVerif.CookieStash

/-- **C10.send_poll_bounds** — the poll exponent of a request is `max desired remote_min`; with the filter's
    desire inside the configured limits it is at least `cfg.min` and at most `max cfg.max remote_min`. -/
theorem send_poll_bounds (s : State) (now : Nat) (d : Int) (o : Nat) (u : List UInt8) (t : Nat) (i : SendInfo)
    (hd : s.cfg.limits.min ≤ d ∧ d ≤ s.cfg.limits.max)
    (h : (handleTimer s now d o u t).2 = .send i) :
    i.poll = max d s.remoteMinPoll ∧ s.cfg.limits.min ≤ i.poll ∧ i.poll ≤ max s.cfg.limits.max s.remoteMinPoll := by
  rcases timer_cases s now d o u t with ⟨_, e⟩ | ⟨_, ⟨hn, e⟩ | ⟨st, st', hn, _, e⟩ | ⟨st, st', hn, _, e⟩ |
      ⟨st, st', c, n, hn, _, ⟨_, e⟩ | ⟨_, e⟩⟩⟩
  all_goals (rw [e] at h)
  · cases hd' : s.haveDeny <;> simp [hd'] at h
  · cases h; simp only; refine ⟨trivial, ?_, ?_⟩ <;> omega
  · cases h
  · cases h
  · cases h
  · cases h; simp only; refine ⟨trivial, ?_, ?_⟩ <;> omega

/-- raise the bound by the poll value of an accepted NTPv5 answer -/
def bump (lo : Int) : Op → Obs → Int
  | .incoming _ (some p) _ _ _, .incoming (.accepted _ _ _) => if p.version = 5 then max lo p.poll else lo
  | _, _ => lo

/-- the largest poll value an accepted NTPv5 answer has asked for so far (or `lo` if none) along a run -/
def maxAsked (lo : Int) (s : State) : List Op → Int
  | [] => lo
  | op :: ops => maxAsked (bump lo op (step s op).2) (step s op).1 ops

theorem bump_ge (lo : Int) (op : Op) (o : Obs) : lo ≤ bump lo op o := by
  unfold bump
  split
  · split
    · exact Int.le_max_left _ _
    · exact Int.le_refl _
  · exact Int.le_refl _

theorem maxAsked_ge (lo : Int) (s : State) (ops : List Op) : lo ≤ maxAsked lo s ops := by
  induction ops generalizing lo s with
  | nil => simp [maxAsked]
  | cons op ops ih =>
    simp only [maxAsked]
    exact Int.le_trans (bump_ge _ _ _) (ih _ _)

/-- one step keeps `remote_min ≤ max cfg.max (largest asked)`; `lastPoll` obeys the same bound -/
theorem step_remote_bound (s : State) (op : Op) (B : Int)
    (hop : ∀ now d o u t, op = .timer now d o u t → d ≤ s.cfg.limits.max)
    (hB : s.cfg.limits.max ≤ B) (hr : s.remoteMinPoll ≤ B) (hl : s.lastPoll ≤ B)
    (hnp : (step s op).2 ≠ .incoming .panic) :
    (step s op).1.cfg = s.cfg ∧ (step s op).1.remoteMinPoll ≤ bump B op (step s op).2 ∧
      (step s op).1.lastPoll ≤ bump B op (step s op).2 := by
  cases op with
  | timer now d o u t =>
    have hop := hop now d o u t rfl
    simp only [step]
    rcases timer_cases s now d o u t with ⟨_, e⟩ | ⟨_, ⟨hn, e⟩ | ⟨st, st', hn, _, e⟩ | ⟨st, st', hn, _, e⟩ |
        ⟨st, st', c, n, hn, _, ⟨_, e⟩ | ⟨_, e⟩⟩⟩
    all_goals (rw [e]; simp only [timerSent, timerBase])
    all_goals (refine ⟨trivial, ?_, ?_⟩ <;> simp only [bump] <;> omega)
  | incoming now parsed a b bl =>
    simp only [step, handleIncoming] at hnp ⊢
    rcases incoming_cases true s now parsed a b bl with e | ⟨p, id, dl, hp, hpend, hw, hv, hval, hc⟩
    · rw [e]; cases parsed <;> exact ⟨rfl, hr, hl⟩
    · subst hp
      rcases hc with ⟨_, _, e⟩ | ⟨_, _, ⟨_, e⟩ | ⟨rr, hrr, e⟩⟩ | ⟨_, _, _, ⟨_, e⟩ | ⟨_, e⟩⟩ | ⟨_, _, _, e⟩
      · rw [e]; exact ⟨rfl, hr, hl⟩
      · rw [e]; exact ⟨rfl, hr, hl⟩
      · rw [e]; refine ⟨rfl, ?_, hl⟩
        unfold pollInc at hrr
        split at hrr
        · cases hrr
        · injection hrr with hrr; subst hrr; simp only [bump]; omega
      · rw [e]; exact ⟨rfl, hr, hl⟩
      · rw [e]; exact ⟨rfl, hr, hl⟩
      · rw [e]
        have hf := processMessage_fields { s with proto := protoOnValid s.proto p.isUpgrade } p a b bl
        simp only at hf
        rcases processMessage_out { s with proto := protoOnValid s.proto p.isUpgrade } p a b bl with ⟨u, m, k, e'⟩ | e'
        · rw [e']; simp only [bump]
          refine ⟨hf.2.2.2.1, ?_, ?_⟩
          · rw [hf.2.2.2.2.2.2.2.2.2]; split <;> split <;> omega
          · rw [hf.2.2.2.2.2.2.1]; split <;> omega
        · rw [e, e'] at hnp; exact absurd rfl hnp

/-- **C10.send_poll_bounds_history** — along every history (controller's desire within the configured limits at
    every timer, nothing aborts) started from a state with `remote_min, last_poll ≤ B₀` (`B₀ ≥ cfg.max`; a new
    source has `B₀ = cfg.max`), every request sent has `cfg.min ≤ poll ≤ max B₀ (largest poll an accepted NTPv5
    answer asked for)`. -/
theorem send_poll_bounds_history (ops : List Op) (s : State) (B : Int)
    (hB : s.cfg.limits.max ≤ B) (hr : s.remoteMinPoll ≤ B) (hl : s.lastPoll ≤ B)
    (hdes : ∀ now d o u t, Op.timer now d o u t ∈ ops → s.cfg.limits.min ≤ d ∧ d ≤ s.cfg.limits.max)
    (hnp : ∀ o ∈ observations s ops, o ≠ .incoming .panic) :
    ∀ o ∈ observations s ops, ∀ i, o = .timer (.send i) →
      s.cfg.limits.min ≤ i.poll ∧ i.poll ≤ maxAsked B s ops := by
  induction ops generalizing s B with
  | nil => simp [observations, run]
  | cons op ops ih =>
    simp only [observations, run, List.map_cons, List.mem_cons, forall_eq_or_imp] at hnp ⊢
    have hop1 : ∀ now d o u t, op = .timer now d o u t → d ≤ s.cfg.limits.max := by
      intro now d o u t h; subst h
      exact (hdes now d o u t (by simp)).2
    obtain ⟨hcfg, hr', hl'⟩ := step_remote_bound s op B hop1 hB hr hl hnp.1
    have hBB' := bump_ge B op (step s op).2
    constructor
    · intro i hi
      cases op with
      | incoming => simp [step] at hi
      | timer now d o u t =>
        simp only [step] at hi
        have hd := hdes now d o u t (by simp)
        have hi' : (handleTimer s now d o u t).2 = .send i := by injection hi
        obtain ⟨_, h2, h3⟩ := send_poll_bounds s now d o u t i hd hi'
        refine ⟨h2, Int.le_trans h3 ?_⟩
        simp only [maxAsked]
        refine Int.le_trans ?_ (maxAsked_ge _ _ _)
        omega
    · intro o ho i hi
      simp only [maxAsked]
      have := ih (step s op).1 _ (by rw [hcfg]; exact Int.le_trans hB hBB') hr' hl'
        (fun now d o u t ho => by rw [hcfg]; exact hdes now d o u t (by simp [ho])) hnp.2 o ho i hi
      rw [hcfg] at this
      exact this

/-- **C10.interval_of_poll** — `as_system_duration`: the interval of a poll exponent `p` is `2^p` seconds for
    `0 ≤ p ≤ 31`, one second below and `2^31` seconds above (a server may ask for more than 31). -/
theorem interval_of_poll (p : Int) :
    sysDurationNs p = 2 ^ (if p < 0 then 0 else if p > 31 then 31 else p.toNat) * 1000000000 := by
  unfold sysDurationNs
  simp only [Gen.SYSDUR_MAX_SHIFT]
  rfl

/-- **C10.timer_jitter** — the jitter flag the model attaches to a sent request is true exactly when the observed
    `SetTimer` duration `t` satisfies `1.01·I ≤ t ≤ 1.05·I` for the interval `I` of the poll exponent just sent
    (integers: `101·I ≤ 100·t ≤ 105·I`, in ns). The correspondence stream compares this flag with `jit=1`. -/
theorem timer_jitter (s : State) (now : Nat) (d : Int) (o : Nat) (u : List UInt8) (t : Nat) (i : SendInfo)
    (h : (handleTimer s now d o u t).2 = .send i) :
    (i.jitterOk = true ↔ (101 * sysDurationNs i.poll ≤ 100 * t ∧ 100 * t ≤ 105 * sysDurationNs i.poll)) ∧
    (handleTimer s now d o u t).1.lastPoll = i.poll := by
  rcases timer_cases s now d o u t with ⟨_, e⟩ | ⟨_, ⟨hn, e⟩ | ⟨st, st', hn, _, e⟩ | ⟨st, st', hn, _, e⟩ |
      ⟨st, st', c, n, hn, _, ⟨_, e⟩ | ⟨_, e⟩⟩⟩
  all_goals (rw [e] at h ⊢)
  · cases hd' : s.haveDeny <;> simp [hd'] at h
  · cases h
    simp only [jitterOk, Gen.JITTER_LO_HUNDREDTHS, Gen.JITTER_HI_HUNDREDTHS, timerSent, Bool.and_eq_true]
    exact ⟨⟨fun h => ⟨of_decide_eq_true h.1, of_decide_eq_true h.2⟩, fun h => ⟨decide_eq_true h.1, decide_eq_true h.2⟩⟩, trivial⟩
  · cases h
  · cases h
  · cases h
  · cases h
    simp only [jitterOk, Gen.JITTER_LO_HUNDREDTHS, Gen.JITTER_HI_HUNDREDTHS, timerSent, Bool.and_eq_true]
    exact ⟨⟨fun h => ⟨of_decide_eq_true h.1, of_decide_eq_true h.2⟩, fun h => ⟨decide_eq_true h.1, decide_eq_true h.2⟩⟩, trivial⟩

/-! #### non-vacuity -/

def cfg0 : Cfg := ⟨⟨4, 10⟩, 16, [], 5⟩

/-- poll 4: interval 16 s; 16.5 s is inside [16.16 s, 16.8 s], 16.9 s is not -/
example : jitterOk 4 16500000000 = true ∧ jitterOk 4 16900000000 = false ∧ jitterOk 4 16100000000 = false := by
  decide

/-- clamping of the interval: poll -3 ↦ 1 s, poll 40 ↦ 2^31 s -/
example : sysDurationNs (-3) = 1000000000 ∧ sysDurationNs 40 = 2147483648000000000 := by decide

/-- a new source with desire 4 sends poll 4 -/
example : ∃ i, (handleTimer (SourceSM.init cfg0 .v4 none) 0 4 99 [] 16500000000).2 = .send i ∧ i.poll = 4 ∧
    i.jitterOk = true := ⟨_, rfl, by decide, by decide⟩

end NtpVerif.C10

#print axioms NtpVerif.C10.send_poll_bounds
#print axioms NtpVerif.C10.send_poll_bounds_history
#print axioms NtpVerif.C10.interval_of_poll
#print axioms NtpVerif.C10.timer_jitter
-- the filter half (Props/C10Filter.lean, built by the kfilter cluster)
#print axioms NtpVerif.C10Filter.filter_desire_in_limits
#print axioms NtpVerif.C10Filter.filter_desire_in_limits_c10
#print axioms NtpVerif.C10Filter.initial_desire_is_min
#print axioms NtpVerif.C10Filter.desire_step_shape
#print axioms NtpVerif.C10Filter.filter_history_desire_in_limits
