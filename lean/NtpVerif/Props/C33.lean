/-
C33 — advertised stratum and loop avoidance are consistent.

Model: `NtpVerif.Model.SourceSM`: `accept` (= `NtpSourceSnapshot::accept_synchronization`), `State.usable` (the flag
`handle_timer` / `process_message` hand to the controller), `fromUsedSources` / `updateUsedSources`
(= `NtpSnapshot::from_used_sources`, `NtpManager::update_used_sources`); Bloom filters as sets of bit positions.

Property sentence ↔ theorem
  "Once its used sources have reported, the daemon advertises a stratum one more than that of its primary source
   (or the configured local stratum when it has none), with the primary source's identifier as reference id"
        ↔ `advertise`, `advertise_waits_for_reports`, `advertise_bloom`
  "A source is never used for synchronisation if its stratum is not below the local stratum, if it is unreachable,
   … or by an NTPv5 Bloom filter containing this daemon's server id"      ↔ `accept_partial`, `usable_flag`
  "… if it is this daemon itself, or if it reports that it synchronises to this daemon (by its reference id when
   its stratum is above 1 …)"   ↔ FALSE on the code: `Full`, `counterexample` (finding F-C33: the loop test compares
   the local addresses with the source's OWN id, never with the reference id it reports, and skips the test at
   stratum 1); what does hold is the `source_id` clause of `accept_partial` for strata other than 1.
-/
import NtpVerif.Proofs.SourceSM

namespace NtpVerif.C33
open NtpVerif.SourceSM NtpVerif.CookieStash

/-- **C33.advertise** — with at least one used source the advertised stratum is the first (primary) source's
    stratum plus one, saturating at 255, and the reference id is that source's identifier; with none it is the
    configured local stratum and `ReferenceId::NONE`. -/
theorem advertise (localStratum : Nat) (own : List Nat) (srcs : List SrcSnap) :
    (srcs = [] → (fromUsedSources localStratum own srcs).stratum = localStratum ∧
                 (fromUsedSources localStratum own srcs).refid = REFID_NONE) ∧
    (∀ f rest, srcs = f :: rest →
      (fromUsedSources localStratum own srcs).stratum = (if f.stratum ≥ 255 then 255 else f.stratum + 1) ∧
      (fromUsedSources localStratum own srcs).refid = f.sourceId) := by
  constructor
  · intro h; subst h; exact ⟨rfl, rfl⟩
  · intro f rest h; subst h; exact ⟨rfl, rfl⟩

/-- **C33.advertise_bloom** — the advertised Bloom filter is the union of the filters of all used NTP sources that
    have one, plus the daemon's own server id (so it always contains the own id). -/
theorem advertise_bloom (localStratum : Nat) (own : List Nat) (srcs : List SrcSnap) (b : Nat) :
    b ∈ (fromUsedSources localStratum own srcs).bloomBits ↔ (b ∈ own ∨ ∃ s ∈ srcs, b ∈ s.bits) := by
  simp only [fromUsedSources, List.mem_append, List.mem_flatMap]
  constructor
  · rintro (⟨s, hs, hb⟩ | h)
    · exact Or.inr ⟨s, hs, hb⟩
    · exact Or.inl h
  · rintro (h | ⟨s, hs, hb⟩)
    · exact Or.inr h
    · exact Or.inl ⟨s, hs, hb⟩

/-- **C33.advertise_waits_for_reports** — while some used NTP source has not reported a snapshot yet, the
    advertisement stays what it was; once all have, it is `from_used_sources` of their snapshots. -/
theorem advertise_waits_for_reports (prev : Advert) (localStratum : Nat) (own : List Nat)
    (srcs : List (Option SrcSnap)) :
    ((∃ x ∈ srcs, x = none) → updateUsedSources prev localStratum own srcs = prev) ∧
    ((∀ x ∈ srcs, x ≠ none) →
      updateUsedSources prev localStratum own srcs = fromUsedSources localStratum own (srcs.filterMap id)) := by
  unfold updateUsedSources
  constructor
  · rintro ⟨x, hx, rfl⟩
    have : srcs.all Option.isSome = false := by
      simp only [List.all_eq_false]
      exact ⟨none, hx, by simp⟩
    simp [this]
  · intro h
    have : srcs.all Option.isSome = true := by
      simp only [List.all_eq_true]
      intro x hx
      cases x with
      | none => exact absurd rfl (h none hx)
      | some _ => rfl
    simp [this]

/-- **C33.accept_partial** — `accept_synchronization` succeeds only for a source whose stratum is below the local
    stratum, which is reachable, whose Bloom filter (if complete) does not contain this daemon's server id, and —
    unless it claims stratum 1 — whose own identifier is not one of this daemon's addresses. -/
theorem accept_partial (stratum sourceId : Nat) (bloom : Option Bool) (reach localStratum : Nat)
    (localIds : List Nat) (h : accept stratum sourceId bloom reach localStratum localIds = .ok ()) :
    stratum < localStratum ∧ reach ≠ 0 ∧ bloom ≠ some true ∧ (stratum ≠ 1 → sourceId ∉ localIds) := by
  unfold accept at h
  split at h
  · cases h
  · split at h
    · cases h
    · split at h
      · cases h
      · split at h
        · cases h
        · rename_i h1 h2 h3 h4
          refine ⟨by omega, h4, h3, ?_⟩
          intro hs hmem
          apply h2
          refine ⟨hs, ?_⟩
          simp only [List.any_eq_true, beq_iff_eq]
          exact ⟨sourceId, hmem, rfl⟩

/-- the order of the error kinds (what `accept_synchronization` reports first) -/
theorem accept_errors (stratum sourceId : Nat) (bloom : Option Bool) (reach localStratum : Nat)
    (localIds : List Nat) :
    (localStratum ≤ stratum → accept stratum sourceId bloom reach localStratum localIds = .error .stratum) ∧
    (stratum < localStratum → stratum ≠ 1 → sourceId ∈ localIds →
      accept stratum sourceId bloom reach localStratum localIds = .error .loop) := by
  constructor
  · intro h; simp [accept, h]
  · intro h1 h2 h3
    have : ¬ stratum ≥ localStratum := by omega
    have hany : localIds.any (· == sourceId) = true := by
      simp only [List.any_eq_true, beq_iff_eq]; exact ⟨sourceId, h3, rfl⟩
    simp [accept, this, h2, hany]

/-- **C33.usable_flag** — the flag handed to the controller with every request sent and every accepted answer is
    exactly "`accept_synchronization` of the snapshot of the new state is `Ok`". -/
theorem usable_flag (s : State) :
    (s.usable = true ↔ accept s.stratum s.cfg.sourceId s.bloom s.reach s.cfg.localStratum s.cfg.localIds = .ok ()) ∧
    (∀ now d o u t i, (handleTimer s now d o u t).2 = .send i → i.usable = (handleTimer s now d o u t).1.usable) ∧
    (∀ now parsed a b bl us m k, (handleIncoming s now parsed a b bl).2 = .accepted us m k →
        us = { (handleIncoming s now parsed a b bl).1 with nts := s.nts }.usable) := by
  refine ⟨?_, ?_, ?_⟩
  · unfold State.usable
    cases accept s.stratum s.cfg.sourceId s.bloom s.reach s.cfg.localStratum s.cfg.localIds <;> simp
  · intro now d o u t i h
    rcases timer_cases s now d o u t with ⟨_, e⟩ | ⟨_, ⟨hn, e⟩ | ⟨st, st', hn, _, e⟩ | ⟨st, st', hn, _, e⟩ |
        ⟨st, st', c, n, hn, _, ⟨_, e⟩ | ⟨_, e⟩⟩⟩
    all_goals (rw [e] at h ⊢)
    · cases hd : s.haveDeny <;> simp [hd] at h
    · cases h; rfl
    · cases h
    · cases h
    · cases h
    · cases h; rfl
  · intro now parsed a b bl us m k h
    have h' : handleIncoming s now parsed a b bl = ((handleIncoming s now parsed a b bl).1, .accepted us m k) := by
      rw [← h]
    obtain ⟨p, id, dl, hp, _, heq⟩ := accepted_iff_aux true s now parsed a b bl us m k _ h'
    unfold processMessage at heq
    cases hn : s.nts with
    | none =>
      simp only [hn] at heq
      injection heq with h1 h2
      injection h2 with hu _ _
      rw [hu, h1]
    | some st =>
      simp only [hn] at heq
      split at heq
      · injection heq with _ h2; cases h2
      · injection heq with h1 h2
        injection h2 with hu _ _
        rw [hu, h1]

/-! #### one server id: the advertised filter and the loop test

The daemon has ONE server id `own` (its bit positions in a Bloom filter).  `NtpManager` folds it into the advertised
filter (`from_used_sources … server_id`) and hands it to every source (`NtpSourceInfo.server_id`), which tests the
peers' complete filters against it (`accept_synchronization`: `bloom_filter.contains_id(&server_id)`).
**Named assumption `WiringOneId`** — both uses receive the same id — is not a fact about this model (the model has a
single `own`) but about `NtpManager::new`; it is evaluated directly on the implementation after every op by the
oracle clauses `one_server_id` / `bloom_loop_end_to_end` (streams `c33_manager`, `c33_advert`, manager mode of
`sm_c33`). -/

/-- `BloomFilter::contains_id` on bit positions -/
def containsId (bits own : List Nat) : Bool := own.all fun b => bits.contains b

/-- **C33.advertised_contains_own** — whatever sources are used, the advertised filter contains the daemon's id. -/
theorem advertised_contains_own (localStratum : Nat) (own : List Nat) (srcs : List SrcSnap) :
    containsId (fromUsedSources localStratum own srcs).bloomBits own = true := by
  simp only [containsId, List.all_eq_true, List.contains_iff_mem]
  intro b hb
  exact (advertise_bloom localStratum own srcs b).mpr (Or.inl hb)

/-- **C33.relayed_advertisement_refused** — (under `WiringOneId`) a peer whose complete Bloom filter contains
    everything this daemon advertises — e.g. a downstream server that folded our filter into its own, as
    `from_used_sources` does — is never accepted for synchronisation: the value `accept` tests,
    `containsId peerBits own`, is true, and `accept … (some true) …` is never `Ok`. -/
theorem relayed_advertisement_refused (localStratum : Nat) (own : List Nat) (srcs : List SrcSnap)
    (peerBits : List Nat) (h : ∀ b ∈ (fromUsedSources localStratum own srcs).bloomBits, b ∈ peerBits)
    (stratum sourceId reach lst : Nat) (lids : List Nat) :
    containsId peerBits own = true ∧
    accept stratum sourceId (some (containsId peerBits own)) reach lst lids ≠ .ok () := by
  have hc : containsId peerBits own = true := by
    simp only [containsId, List.all_eq_true, List.contains_iff_mem]
    intro b hb
    exact h b ((advertise_bloom localStratum own srcs b).mpr (Or.inl hb))
  refine ⟨hc, ?_⟩
  intro hok
  have := (accept_partial _ _ _ _ _ _ hok).2.2.1
  rw [hc] at this
  exact this rfl

/-- the converse direction of the test: a filter that lacks one of the id's bits does not trigger the Bloom clause -/
example : containsId [1, 2, 3] [2, 3] = true ∧ containsId [1, 2] [2, 3] = false := by decide

/-! #### the full statement and the finding -/

/-- what the property demands of a source that is marked usable -/
def Full : Prop :=
  ∀ s : State, s.usable = true →
    s.stratum < s.cfg.localStratum ∧ s.reach ≠ 0 ∧ s.bloom ≠ some true ∧
    s.cfg.sourceId ∉ s.cfg.localIds ∧                       -- "if it is this daemon itself"
    (s.stratum > 1 → s.refid ∉ s.cfg.localIds)              -- "reports that it synchronises to this daemon"

def stateWith (stratum refid sourceId : Nat) : State :=
  { SourceSM.init ⟨⟨4, 10⟩, 16, [167772161], sourceId⟩ .v4 none with stratum := stratum, refid := refid, reach := 1 }

/-- **C33.counterexample** — (a) a stratum-2 server whose reported reference id is this daemon's address
    (10.0.0.1) is marked usable; (b) so is the daemon's own address when it claims stratum 1. -/
theorem counterexample : ¬ Full := by
  intro h
  have := (h (stateWith 2 167772161 3232235781) (by decide)).2.2.2.2 (by decide)
  exact this (by decide)

theorem counterexample_self : (stateWith 1 0 167772161).usable = true ∧
    (stateWith 1 0 167772161).cfg.sourceId ∈ (stateWith 1 0 167772161).cfg.localIds := by decide

/-- **C33.usable_partial** — what does hold for every state marked usable. -/
theorem usable_partial (s : State) (h : s.usable = true) :
    s.stratum < s.cfg.localStratum ∧ s.reach ≠ 0 ∧ s.bloom ≠ some true ∧
    (s.stratum ≠ 1 → s.cfg.sourceId ∉ s.cfg.localIds) :=
  accept_partial _ _ _ _ _ _ ((usable_flag s).1.mp h)

/-! #### non-vacuity -/

def code : Except AcceptErr Unit → Nat
  | .ok _ => 0 | .error .stratum => 1 | .error .loop => 2 | .error .unreachable => 3

example : code (accept 2 5 (some false) 1 16 [7, 8]) = 0 ∧ code (accept 2 7 none 1 16 [7, 8]) = 2 ∧
    code (accept 2 5 (some true) 1 16 []) = 2 ∧ code (accept 2 5 none 0 16 []) = 3 ∧
    code (accept 16 5 none 1 16 []) = 1 := by decide

example : fromUsedSources 16 [3] [.ntp 2 77 (some [1, 2]), .ext 0 88] = ⟨3, 77, [1, 2, 3]⟩ ∧
    updateUsedSources ⟨16, REFID_NONE, []⟩ 16 [3] [some (.ntp 2 77 none), none] = ⟨16, REFID_NONE, []⟩ := by decide

end NtpVerif.C33

#print axioms NtpVerif.C33.advertise
#print axioms NtpVerif.C33.advertise_bloom
#print axioms NtpVerif.C33.advertise_waits_for_reports
#print axioms NtpVerif.C33.accept_partial
#print axioms NtpVerif.C33.usable_flag
#print axioms NtpVerif.C33.usable_partial
#print axioms NtpVerif.C33.counterexample
#print axioms NtpVerif.C33.advertised_contains_own
#print axioms NtpVerif.C33.relayed_advertisement_refused
