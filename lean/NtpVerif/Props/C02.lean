/-
C02 — Frequency corrections stay within the configured maximum.

Property text ↔ theorems (model: `NtpVerif.Model.Steer`; helper lemmas: `NtpVerif.Proofs.Steer`):

  "Every frequency offset the daemon applies to the system clock lies within plus/minus the configured
   maximum frequency steer"                                   freq_within_max (every `set_frequency` of every run),
                                                              steer_frequency_result (what is applied: the clamp; NaN only from NaN),
                                                              steer_frequency_no_nan
  "every slew it starts uses an extra frequency no larger than the configured maximum slew frequency"
                                                              slew_freq_le_max (every slew of every run),
                                                              slew_decision (which frequency, which `desired_freq`)
  "regardless of the frequency the kernel reported at startup and of the measurement history"
                                                              all run theorems quantify over every initial state
                                                              (`freqOffset` = the kernel's value, arbitrary bits) and every
                                                              input list with arbitrary `F64` estimates
  the same clauses over the WHOLE controller (`Model/Controller`, which computes select / combine itself)
                                                              whole_freq_within_max, whole_slew_freq_le_max
  provenance (C06-flavoured): every `set_frequency` argument is the clamp of the named expression (NaN only
   out of that arithmetic), the dispersion given to `error_estimate_update` is `from_seconds` of a finite value
                                                              whole_setFreq_is_clamp, whole_error_estimate_is_from_seconds

These are ORDER-ONLY theorems about `F64` (DESIGN §2.5 kind 1): `+ - * /` are uninterpreted, so they hold for
whatever bits the arithmetic produces, NaN and infinities included.  Consequences of that choice, stated
rather than hidden:
  * "within ±max" is proved for every applied value that is not NaN, and the applied value is NaN exactly
    when the unclamped value `(1+freq_offset)*(1+change)-1` is NaN (`steer_frequency_result`); that the
    unclamped value is not NaN for finite inputs is an arithmetic fact, checked on the implementation by the
    oracle clause `freq_not_nan`.
  * for a slew the theorem bounds the chosen magnitude `freq = slew_max.min(|change| / min_duration)` from
    above; `desired_freq = -freq * change.signum()` (`slew_decision`).  That `|desired_freq| = freq` and
    `freq ≥ 0` are IEEE sign rules of `*` and `/` (multiplication by ±1.0 is exact; a quotient of
    non-negatives is non-negative); they are not provable with uninterpreted arithmetic and are checked on
    the implementation by the oracle clause `slew_within_max` (`|desired_freq| ≤ slew_max`).
  * a negative or NaN `maximum_frequency_steer` makes Rust's `clamp` panic: a modelled outcome
    (`End.panic`), outside the property's "positive limits".
-/
import NtpVerif.Proofs.Steer
import NtpVerif.Proofs.Controller

namespace NtpVerif.C02
open NtpVerif.Steer NtpVerif.Wrap

/-- **C02.freq_within_max** — along every run (any configuration, any initial kernel frequency, any
    inputs), every frequency handed to `set_frequency` that is not NaN lies in
    `[-maximum_frequency_steer, +maximum_frequency_steer]`. -/
theorem freq_within_max (cfg : Cfg) (st : St) (inps : List Input) (b : Bool) (f : F64)
    (h : (b, Ev.setFreq f) ∈ (run cfg st inps).1) (hn : f.isNaN = false) :
    F64.le (F64.neg cfg.maxSteer) f = true ∧ F64.le f cfg.maxSteer = true := by
  obtain ⟨st', inp, hev, _⟩ := run_mem h
  exact (ctrlStep_spec cfg st' inp).1 _ hev hn

/-- **C02.steer_frequency_result** — `steer_frequency` either panics (exactly when
    `!(−max ≤ max)`, i.e. the limit is negative or NaN) or applies exactly one frequency `f`, which becomes
    `freq_offset`; `f` is the unclamped value `x`, or a bound when `x` is beyond it; `f` is NaN iff `x` is. -/
theorem steer_frequency_result (cfg : Cfg) (st : St) (c : F64) :
    let x := (F64.one + st.freqOffset) * (F64.one + c) - F64.one
    (F64.le (F64.neg cfg.maxSteer) cfg.maxSteer = false ∧ steerFrequency cfg st c = ⟨st, [], .panic⟩) ∨
    (F64.le (F64.neg cfg.maxSteer) cfg.maxSteer = true ∧ ∃ f,
      steerFrequency cfg st c = ⟨{ st with freqOffset := f }, [.setFreq f], .ok⟩ ∧
      (f = x ∨ f = F64.neg cfg.maxSteer ∨ f = cfg.maxSteer) ∧ (f.isNaN = x.isNaN)) := by
  intro x
  cases hle : F64.le (F64.neg cfg.maxSteer) cfg.maxSteer
  · left
    refine ⟨rfl, ?_⟩
    simp [steerFrequency, F64.clamp, hle]
  · right
    refine ⟨rfl, ?_⟩
    have hlo : (F64.neg cfg.maxSteer).isNaN = false := by
      simp only [F64.le, Bool.and_eq_true, Bool.not_eq_true'] at hle; exact hle.1.1
    have hhi : cfg.maxSteer.isNaN = false := by
      simp only [F64.le, Bool.and_eq_true, Bool.not_eq_true'] at hle; exact hle.1.2
    simp only [steerFrequency, F64.clamp, hle, Bool.not_true, Bool.false_eq_true, if_false]
    by_cases h1 : F64.lt x (F64.neg cfg.maxSteer) = true
    · refine ⟨F64.neg cfg.maxSteer, by simp only [x] at h1; simp [h1], Or.inr (Or.inl rfl), ?_⟩
      simp only [F64.lt, Bool.and_eq_true, Bool.not_eq_true'] at h1
      rw [hlo, h1.1.1]
    · by_cases h2 : F64.lt cfg.maxSteer x = true
      · refine ⟨cfg.maxSteer, by simp only [x] at h1 h2; simp [h1, h2], Or.inr (Or.inr rfl), ?_⟩
        simp only [F64.lt, Bool.and_eq_true, Bool.not_eq_true'] at h2
        rw [hhi, h2.1.2]
      · exact ⟨x, by simp only [x] at h1 h2; simp [h1, h2, x], Or.inl rfl, rfl⟩

/-- **C02.steer_frequency_no_nan** — if the unclamped value is not NaN, the applied frequency is not NaN
    and lies within ±max. -/
theorem steer_frequency_no_nan (cfg : Cfg) (st : St) (c f : F64)
    (hx : ((F64.one + st.freqOffset) * (F64.one + c) - F64.one).isNaN = false)
    (h : Ev.setFreq f ∈ (steerFrequency cfg st c).evs) :
    f.isNaN = false ∧ F64.le (F64.neg cfg.maxSteer) f = true ∧ F64.le f cfg.maxSteer = true := by
  rcases steer_frequency_result cfg st c with ⟨_, hp⟩ | ⟨_, f', hr, _, hnan⟩
  · rw [hp] at h; simp at h
  · rw [hr] at h
    simp only [List.mem_singleton, Ev.setFreq.injEq] at h
    subst h
    have hn : f.isNaN = false := by rw [hnan]; exact hx
    obtain ⟨_, _, _, h4⟩ := steerFrequency_spec cfg st c
    obtain ⟨f'', he, hw⟩ := h4 (.setFreq f) (by rw [hr]; simp)
    simp only [Ev.setFreq.injEq] at he
    subst he
    exact ⟨hn, hw hn⟩

/-- **C02.slew_freq_le_max** — along every run, every slew that is started uses a frequency
    `freq ≤ slew_maximum_frequency_offset` (for every configuration whose maximum is not NaN; `change`, the
    minimum duration and everything else arbitrary, NaN included). -/
theorem slew_freq_le_max (cfg : Cfg) (st : St) (inps : List Input) (b : Bool) (fr de : F64)
    (h : (b, Ev.slew fr de) ∈ (run cfg st inps).1) (hn : cfg.slewMax.isNaN = false) :
    F64.le fr cfg.slewMax = true := by
  obtain ⟨st', inp, hev, _⟩ := run_mem h
  exact (ctrlStep_spec cfg st' inp).1 _ hev hn

/-- **C02.slew_decision** — what `steer_offset` does below the step threshold: unless
    `Duration::from_secs_f64` panics, it starts a slew with `freq = slew_max.min(|change| / min_duration)`,
    sets `desired_freq = -freq * change.signum()` and applies the frequency change through
    `steer_frequency` (hence clamped). -/
theorem slew_decision (cfg : Cfg) (st : St) (c fd : F64)
    (hslew : F64.gt (F64.abs c) cfg.stepThreshold = false) :
    let freq := F64.min cfg.slewMax (F64.abs c / cfg.slewMinDuration)
    let desired := F64.neg freq * signum c
    (durationOk (F64.abs c / freq) = false ∧ steerOffset cfg st c fd = ⟨st, [], .panic⟩) ∨
    (durationOk (F64.abs c / freq) = true ∧
      steerOffset cfg st c fd =
        ⟨(changeDesiredFrequency cfg st desired fd).st,
         .slew freq desired :: (changeDesiredFrequency cfg st desired fd).evs,
         (changeDesiredFrequency cfg st desired fd).fin⟩ ∧
      ((changeDesiredFrequency cfg st desired fd).fin ≠ .panic →
        (changeDesiredFrequency cfg st desired fd).st.desiredFreq = desired)) := by
  intro freq desired
  cases hd : durationOk (F64.abs c / freq)
  · left; refine ⟨rfl, ?_⟩
    simp only [freq] at hd
    simp [steerOffset, hslew, hd]
  · right
    refine ⟨rfl, ?_, ?_⟩
    · simp only [freq] at hd
      simp [steerOffset, hslew, hd, desired, freq]
    · intro hne
      simp only [changeDesiredFrequency, steerFrequency] at hne ⊢
      split
      · rename_i hc; simp [hc] at hne
      all_goals rfl

/-- `change.signum()` is `1.0`, `-1.0`, or NaN (for NaN) -/
theorem signum_cases (x : F64) : signum x = F64.one ∨ signum x = negOne ∨ (x.isNaN = true ∧ signum x = F64.nan) := by
  unfold signum
  cases hx : x.isNaN
  · cases x.signBit <;> simp
  · simp

/-- nothing but `steer_frequency` calls `set_frequency`: in every controller call, every applied
    frequency is a clamp result (so `freq_within_max` covers slews, end of slews and frequency steers alike) -/
theorem time_update_clamped (cfg : Cfg) (st : St) (f : F64)
    (h : Ev.setFreq f ∈ (ctrlStep cfg st .timeUpdate).evs) (hn : f.isNaN = false) :
    F64.le (F64.neg cfg.maxSteer) f = true ∧ F64.le f cfg.maxSteer = true :=
  (ctrlStep_spec cfg st .timeUpdate).1 _ h hn

/-! #### non-vacuity (concrete bit patterns; arithmetic-free instances of `clamp` / `min`) -/

/-- 495e-6 = 0x3f40385c67dfe32a, 1e-3 = 0x3f50624dd2f1a9fc: a value beyond the limit is clamped to the
    limit, a value inside is kept, the negative side likewise -/
example : F64.clamp ⟨0x3f50624dd2f1a9fc⟩ (F64.neg ⟨0x3f40385c67dfe32a⟩) ⟨0x3f40385c67dfe32a⟩ = some ⟨0x3f40385c67dfe32a⟩ ∧
    F64.clamp ⟨0xbf50624dd2f1a9fc⟩ (F64.neg ⟨0x3f40385c67dfe32a⟩) ⟨0x3f40385c67dfe32a⟩ = some ⟨0xbf40385c67dfe32a⟩ ∧
    F64.clamp F64.zero (F64.neg ⟨0x3f40385c67dfe32a⟩) ⟨0x3f40385c67dfe32a⟩ = some F64.zero ∧
    F64.clamp F64.inf (F64.neg ⟨0x3f40385c67dfe32a⟩) ⟨0x3f40385c67dfe32a⟩ = some ⟨0x3f40385c67dfe32a⟩ := by
  decide

/-- a negative limit makes `clamp` panic (modelled), a NaN input passes through -/
example : F64.clamp F64.zero (F64.neg negOne) negOne = none ∧
    F64.clamp F64.nan (F64.neg F64.one) F64.one = some F64.nan := by decide

/-- 200e-6 = 0x3f2a36e2eb1c432d: `min` picks the limit against a larger or NaN candidate, the candidate
    when it is smaller -/
example : F64.min ⟨0x3f2a36e2eb1c432d⟩ F64.one = ⟨0x3f2a36e2eb1c432d⟩ ∧
    F64.min ⟨0x3f2a36e2eb1c432d⟩ F64.nan = ⟨0x3f2a36e2eb1c432d⟩ ∧
    F64.min ⟨0x3f2a36e2eb1c432d⟩ F64.zero = F64.zero := by decide


/-! ### the same clauses over the WHOLE controller model (`Model/Controller`), and where the values come from

The whole model computes the combined estimate itself (select → merge of the selected snapshots), for every
iteration order of the source map; `Proofs/Controller.run_sim` reduces its steering events to `Steer.run`. -/

open NtpVerif.Controller in
/-- **C02.whole_freq_within_max** — every non-NaN frequency the whole controller hands to `set_frequency`
    lies within ±`maximum_frequency_steer`. -/
theorem whole_freq_within_max (cfg : Controller.Cfg) (c : Ctrl) (msgs : List Msg) (b : Bool) (o : Out)
    (f : F64) (ho : (b, o) ∈ Controller.run cfg c msgs) (hc : Call.setFreq f ∈ o.calls)
    (hn : f.isNaN = false) :
    F64.le (F64.neg cfg.steer.maxSteer) f = true ∧ F64.le f cfg.steer.maxSteer = true :=
  freq_within_max cfg.steer c.st _ b f (setFreq_call_in_trace ho hc) hn

open NtpVerif.Controller in
/-- **C02.whole_slew_freq_le_max** — every slew the whole controller starts uses `freq ≤ slew_max`. -/
theorem whole_slew_freq_le_max (cfg : Controller.Cfg) (c : Ctrl) (msgs : List Msg) (b : Bool) (o : Out)
    (fr de : F64) (ho : (b, o) ∈ Controller.run cfg c msgs) (he : Steer.Ev.slew fr de ∈ o.evs)
    (hn : cfg.steer.slewMax.isNaN = false) : F64.le fr cfg.steer.slewMax = true := by
  have := mem_steerTrace ho he
  rw [run_sim] at this
  exact slew_freq_le_max cfg.steer c.st _ b fr de this hn

open NtpVerif.Controller in
/-- **C02.whole_setFreq_is_clamp** (provenance, C06-flavoured) — every value the whole controller hands to
    `set_frequency` is `((1 + freq_offset) * (1 + change) - 1).clamp(-max, max)` for the controller's
    `freq_offset` at that call and some `change`: the value is a named operation on the inputs, so it is NaN
    only if that arithmetic expression is NaN — never through control flow. -/
theorem whole_setFreq_is_clamp (cfg : Controller.Cfg) (c : Ctrl) (msgs : List Msg) (b : Bool) (o : Out)
    (f : F64) (ho : (b, o) ∈ Controller.run cfg c msgs) (hc : Call.setFreq f ∈ o.calls) :
    ∃ (fo ch : F64),
      F64.clamp ((F64.one + fo) * (F64.one + ch) - F64.one) (F64.neg cfg.steer.maxSteer) cfg.steer.maxSteer
        = some f ∧
      (f.isNaN = true → ((F64.one + fo) * (F64.one + ch) - F64.one).isNaN = true) := by
  obtain ⟨st', inp, hev, _⟩ := run_mem (setFreq_call_in_trace ho hc)
  rcases ctrlStep_evs hev with h | ⟨_, _, h, _⟩ | ⟨_, _, h⟩ | ⟨f', st'', ch, h, _, hcl⟩
  · cases h
  · cases h
  · cases h
  · cases h
    refine ⟨st''.freqOffset, ch, hcl, ?_⟩
    intro hn
    cases hx : ((F64.one + st''.freqOffset) * (F64.one + ch) - F64.one).isNaN
    · have hw := F64.clamp_within hx hcl
      simp only [F64.le, Bool.and_eq_true, Bool.not_eq_true'] at hw
      rw [hw.1.1.2] at hn; cases hn
    · rfl

open NtpVerif.Controller in
/-- **C02.whole_error_estimate_is_from_seconds** (provenance) — the dispersion handed to
    `error_estimate_update` is `from_seconds` of a value that is neither NaN nor infinite (the root of the
    clamped variance polynomial): a NaN dispersion stops the daemon (debug assertion) instead of reaching the
    clock. -/
theorem whole_error_estimate_is_from_seconds (cfg : Controller.Cfg) (c : Ctrl) (msgs : List Msg) (b : Bool)
    (o : Out) (d r : Int) (ho : (b, o) ∈ Controller.run cfg c msgs)
    (hc : Call.errorEstimate d r ∈ o.calls) :
    ∃ x : F64, Steer.fromSeconds x = some d ∧ x.isNaN = false ∧ x.isInf = false := by
  obtain ⟨c', m, rfl, _⟩ := run_mem_step ho
  rcases (step_sim cfg c' m).1 _ hc with h | ⟨d', r', td, now, h, hrd⟩ | ⟨_, h⟩
  · rcases mem_evCalls h with ⟨h, _⟩ | ⟨_, h, _⟩ | ⟨_, h, _⟩ <;> cases h
  · cases h
    exact ⟨_, hrd, fromSeconds_finite hrd⟩
  · cases h

end NtpVerif.C02

#print axioms NtpVerif.C02.freq_within_max
#print axioms NtpVerif.C02.steer_frequency_result
#print axioms NtpVerif.C02.steer_frequency_no_nan
#print axioms NtpVerif.C02.slew_freq_le_max
#print axioms NtpVerif.C02.slew_decision
#print axioms NtpVerif.C02.signum_cases
#print axioms NtpVerif.C02.time_update_clamped
#print axioms NtpVerif.C02.whole_freq_within_max
#print axioms NtpVerif.C02.whole_slew_freq_le_max
#print axioms NtpVerif.C02.whole_setFreq_is_clamp
#print axioms NtpVerif.C02.whole_error_estimate_is_from_seconds
