/-
C18 — Server answers echo the request correctly and reflect nothing else.

Model: the response builders of `NtpVerif.Model.Server` (`timestamp_response`, `nts_timestamp_response`,
`deny_response`, `nts_deny_response`, `nts_nak_response`, the v5 builders).  `build info env req c a` is the
builder `handle_inner` selects for action `a` and decoded cookie `c`; `handle_respond_full` (Proofs.Server) shows
every datagram sent is `build … = .ok r` for the action recorded in the statistics.  A `Response` lists the header
fields and the extension fields handed to the encoder; the byte layout is the packet codec's (C23–C25) and is
compared byte-for-byte with the real answer by the differential stream.

  sentence of the property                                               theorem
  time answer: server mode, request's version, echoes xmit/cookie + poll,
    reception time, current stratum / leap / reference data             time_answer_header
  DENY / NTS-NAK: stratum 0, no server timestamps or reference data      kiss_answer_header
  (RATE answers are never produced by the server: rate-limited → ignore) no_rate_answer
  only unique identifiers and reference-id responses are echoed          only_identifiers_echoed
  nothing from an undecryptable part of the request is returned          nothing_from_undecryptable
-/
import NtpVerif.Proofs.Server

namespace NtpVerif.C18
open NtpVerif.Server NtpVerif.RespSize

/-- A time answer is in server mode (4), uses the request's version, echoes the request's transmit timestamp
    (NTPv5: client cookie) and poll, carries the reception time, the transmit time, and the server's current
    stratum, leap indicator, root delay, precision and (v3/v4) reference id. -/
theorem time_answer_header {info env req c r} (h : build info env req c .time = .ok r) :
    r.hdr.mode = 4 ∧ r.hdr.version = req.version ∧ r.hdr.origin = req.xmit ∧ r.hdr.poll = req.poll ∧
    r.hdr.recv = env.recv ∧ r.hdr.xmit = env.now ∧ r.hdr.stratum = info.stratum ∧
    r.hdr.leap = leapBits info.leap ∧ r.hdr.rootDelay = info.rootDelay ∧
    r.hdr.precision = durLog2 info.precision ∧ rootDispersion env.rvar = some r.hdr.rootDisp ∧
    (req.version ≠ 5 → r.hdr.refid = info.refid) ∧ r.hdr.authnak = false := by
  cases c with
  | none =>
    simp only [build, timestampResponse] at h
    split at h
    · simp at h
    · rename_i d hd
      simp only [Built.ok.injEq] at h
      subst h
      simp [timeHeader, hd]
      intro h5 h5'; exact absurd h5' h5
  | some alg =>
    simp only [build, ntsTimestampResponse] at h
    split at h
    · simp at h
    · split at h
      · simp at h
      · rename_i d hd
        split at h
        · simp at h
        · simp only [Built.ok.injEq] at h
          subst h
          simp [timeHeader, hd]
          intro h5 h5'; exact absurd h5' h5

/-- DENY and NTS-NAK answers: server mode, request's version, echo of the transmit timestamp / client cookie,
    stratum 0 and none of the server's timestamps or reference data (all zero). -/
theorem kiss_answer_header {info env req c a r} (ha : a = .deny ∨ a = .nak)
    (h : build info env req c a = .ok r) :
    r.hdr.mode = 4 ∧ r.hdr.version = req.version ∧ r.hdr.origin = req.xmit ∧ r.hdr.stratum = 0 ∧
    r.hdr.recv = 0 ∧ r.hdr.xmit = 0 ∧ r.hdr.rootDelay = 0 ∧ r.hdr.rootDisp = 0 ∧ r.hdr.leap = 0 ∧
    r.hdr.precision = 0 ∧ r.hdr.synchronized = false ∧
    (req.version ≠ 5 → r.hdr.refid = if a = .deny then kissDeny else kissNtsn) ∧
    (r.hdr.authnak = true ↔ (a = .nak)) := by
  rcases ha with ha | ha <;> subst ha
  · cases c with
    | none =>
      simp only [build, Built.ok.injEq] at h
      subst h
      simp [denyResponse, plainKiss, kissHeader]
      intro h5 h5'; exact absurd h5' h5
    | some alg =>
      simp only [build, ntsDenyResponse] at h
      split at h
      · simp at h
      · simp only [Built.ok.injEq] at h
        subst h
        simp [kissHeader]
        intro h5 h5'; exact absurd h5' h5
  · simp only [build, nakResponse] at h
    split at h
    · simp at h
    · simp only [Built.ok.injEq] at h
      subst h
      simp [plainKiss, kissHeader]
      intro h5 h5'; exact absurd h5' h5

/-- The server never sends a RATE answer (or any other kiss code): a sent datagram is a time answer, a DENY or
    an NTS-NAK, and rate-limited requests are dropped. -/
theorem no_rate_answer (cfg : Config) (info : Info) (env : Env) (req : Req) :
    (∀ r n s, handle cfg info env req = .respond r n s →
      ∃ v nts reason a, s = [⟨v, nts, reason, a⟩] ∧ (a = .time ∨ a = .deny ∨ a = .nak)) ∧
    (env.inDeny = false → env.inAllow = true → env.rateOk = false →
      handle cfg info env req = .ignore [⟨req.fv, false, .rate, .ignore⟩]) := by
  constructor
  · intro r n s h
    obtain ⟨a, reason, nts, c, hs, hb, _⟩ := handle_respond_full h
    refine ⟨_, _, _, _, hs, ?_⟩
    cases a <;> simp [build] at hb ⊢
  · intro hd ha hr
    unfold handle handleInner
    rw [intendedAction_pass cfg env hd ha, hr]
    simp

/-- an extension field of an answer is an echo of an identifier of the request, the answer to a reference-id
    request of the request (octets of the server's own Bloom filter), or the NTPv5 draft identification -/
def Echoed (info : Info) (req : Req) (f : RField) : Prop :=
  (∃ b, f = .uid b ∧ Field.uid b ∈ req.untrusted ++ req.auth) ∨
  (∃ o l, Field.refReq o l ∈ req.untrusted ++ req.auth ∧ f = .refResp ((info.bloom.drop o).take l)) ∨
  f = .draft

private theorem mem_uids {fs : List Field} {f : RField} (h : f ∈ fs.filterMap uidOf) :
    ∃ b, f = .uid b ∧ Field.uid b ∈ fs := by
  simp only [List.mem_filterMap] at h
  obtain ⟨x, hx, hf⟩ := h
  cases x <;> simp [uidOf] at hf
  exact ⟨_, hf.symm, hx⟩

private theorem mem_echoV5 {bloom : Bytes} {fs : List Field} {f : RField} (h : f ∈ fs.filterMap (echoV5 bloom)) :
    (∃ b, f = .uid b ∧ Field.uid b ∈ fs) ∨
    (∃ o l, Field.refReq o l ∈ fs ∧ f = .refResp ((bloom.drop o).take l)) := by
  simp only [List.mem_filterMap] at h
  obtain ⟨x, hx, hf⟩ := h
  cases x <;> simp [echoV5, refResponse] at hf
  · exact .inl ⟨_, hf.symm, hx⟩
  · exact .inr ⟨_, _, hx, hf.2.symm⟩

private theorem sub_left {a b : List Field} {x : Field} (h : x ∈ a) : x ∈ a ++ b := by simp [h]
private theorem sub_right {a b : List Field} {x : Field} (h : x ∈ b) : x ∈ a ++ b := by simp [h]

/-- Only unique-identifier fields and reference-id responses of the request are echoed: every clear-text or
    authenticated field of any answer is `Echoed`, and the encrypted part holds nothing but fresh cookies
    (generated by the server).  Cookies, placeholders, padding, unknown fields, reference-id *responses*,
    draft identifications and undecryptable fields of the request never appear. -/
theorem only_identifiers_echoed {info env req c a r} (h : build info env req c a = .ok r) :
    (∀ f ∈ r.untrusted ++ r.auth, Echoed info req f) ∧ (∀ f ∈ r.enc, ∃ n, f = .cookie n) := by
  have key : ∀ (r : Response),
      ((∀ f ∈ r.untrusted, (f ∈ (req.untrusted ++ req.auth).filterMap uidOf ∨
          f ∈ (req.untrusted ++ req.auth).filterMap (echoV5 info.bloom) ∨ f = .draft)) ∧
       (∀ f ∈ r.auth, (f ∈ req.auth.filterMap uidOf ∨ f ∈ req.auth.filterMap (echoV5 info.bloom) ∨ f = .draft)) ∧
       (∀ f ∈ r.enc, ∃ n, f = .cookie n)) →
      (∀ f ∈ r.untrusted ++ r.auth, Echoed info req f) ∧ (∀ f ∈ r.enc, ∃ n, f = .cookie n) := by
    intro r ⟨h1, h2, h3⟩
    refine ⟨?_, h3⟩
    intro f hf
    rcases List.mem_append.mp hf with hf | hf
    · rcases h1 f hf with h | h | h
      · obtain ⟨b, hb, hm⟩ := mem_uids h; exact .inl ⟨b, hb, hm⟩
      · rcases mem_echoV5 h with ⟨b, hb, hm⟩ | ⟨o, l, hm, hb⟩
        · exact .inl ⟨b, hb, hm⟩
        · exact .inr (.inl ⟨o, l, hm, hb⟩)
      · exact .inr (.inr h)
    · rcases h2 f hf with h | h | h
      · obtain ⟨b, hb, hm⟩ := mem_uids h; exact .inl ⟨b, hb, sub_right hm⟩
      · rcases mem_echoV5 h with ⟨b, hb, hm⟩ | ⟨o, l, hm, hb⟩
        · exact .inl ⟨b, hb, sub_right hm⟩
        · exact .inr (.inl ⟨o, l, sub_right hm, hb⟩)
      · exact .inr (.inr h)
  have draft_tail : ∀ f, f ∈ draftTail req → f = .draft := by
    intro f hf; unfold draftTail at hf; split at hf <;> simp at hf; exact hf
  have cookies : ∀ alg f, f ∈ freshCookies alg req → ∃ n, f = .cookie n := by
    intro alg f hf
    exact ⟨_, mem_freshCookies hf⟩
  apply key
  cases a with
  | ignore => simp [build] at h
  | nak =>
    simp only [build, nakResponse] at h
    split at h
    · simp at h
    · simp only [Built.ok.injEq] at h
      subst h
      refine ⟨?_, by simp [plainKiss], by simp [plainKiss]⟩
      intro f hf
      simp only [plainKiss] at hf
      split at hf
      · simp at hf
      · rcases List.mem_append.mp hf with hf | hf
        · exact .inl hf
        · exact .inr (.inr (draft_tail f hf))
  | deny =>
    cases c with
    | none =>
      simp only [build, Built.ok.injEq] at h
      subst h
      refine ⟨?_, by simp [denyResponse, plainKiss], by simp [denyResponse, plainKiss]⟩
      intro f hf
      simp only [denyResponse, plainKiss] at hf
      split at hf
      · simp at hf
      · rcases List.mem_append.mp hf with hf | hf
        · exact .inl hf
        · exact .inr (.inr (draft_tail f hf))
    | some alg =>
      simp only [build, ntsDenyResponse] at h
      split at h
      · simp at h
      · simp only [Built.ok.injEq] at h
        subst h
        refine ⟨by simp, ?_, by simp⟩
        intro f hf
        rcases List.mem_append.mp hf with hf | hf
        · exact .inl hf
        · exact .inr (.inr (draft_tail f hf))
  | time =>
    cases c with
    | none =>
      simp only [build, timestampResponse] at h
      split at h
      · simp at h
      · simp only [Built.ok.injEq] at h
        subst h
        refine ⟨?_, by simp, by simp⟩
        intro f hf
        simp only at hf
        split at hf
        · simp at hf
        · split at hf
          · rcases List.mem_append.mp hf with hf | hf
            · exact .inr (.inl hf)
            · exact .inr (.inr (by simpa using hf))
          · exact .inl hf
    | some alg =>
      simp only [build, ntsTimestampResponse] at h
      split at h
      · simp at h
      · split at h
        · simp at h
        · split at h
          · simp at h
          · simp only [Built.ok.injEq] at h
            subst h
            refine ⟨by simp, ?_, cookies alg⟩
            intro f hf
            simp only at hf
            split at hf
            · rcases List.mem_append.mp hf with hf | hf
              · exact .inr (.inl hf)
              · exact .inr (.inr (by simpa using hf))
            · exact .inl hf

/-- Nothing from an undecryptable part of the request is returned: for a request whose authentication failed
    the outcome does not depend on what its encrypted part contained, nor on the cookie. -/
theorem nothing_from_undecryptable (cfg : Config) (info : Info) (env : Env) (req : Req) (hd : req.parse = .dec)
    (e : List Field) (ck : Option Nat) :
    handle cfg info env { req with enc := e, cookie := ck } = handle cfg info env req := by
  have hr : ∀ p a rsn, respond cfg info env { req with parse := p, enc := e, cookie := ck } a rsn none
      = respond cfg info env req a rsn none := by
    intro p a rsn
    unfold respond
    cases a <;> rfl
  unfold handle handleInner
  simp only [hd, hr]

/-- The reference timestamp of an NTPv3/NTPv4 time answer does not depend on the request's reference timestamp
    unless that is EXACTLY the upgrade marker (and the request is NTPv4): it is the server's own value — the
    receive time truncated to 2^7 s — for every other request, near misses of the marker included. -/
theorem reference_ts_not_reflected {info env req c r} (h : build info env req c .time = .ok r)
    (h5 : req.version ≠ 5) (hm : ¬ (req.version = 4 ∧ req.reft = upgradeMarker)) :
    r.hdr.refTime = u64Bytes (truncRef env.recv) := by
  cases c with
  | none =>
    simp only [build, timestampResponse] at h
    split at h
    · simp at h
    · simp only [Built.ok.injEq] at h
      subst h
      simp [timeHeader, h5, hm]
  | some alg =>
    simp only [build, ntsTimestampResponse] at h
    repeat' split at h
    all_goals first
      | (simp at h; done)
      | (simp only [Built.ok.injEq] at h; subst h; simp [timeHeader, h5, hm])

/-- … and for a plain NTPv4 request with exactly the marker the answer carries exactly the marker (a constant);
    NTS time answers never carry it. -/
theorem reference_ts_marker {info env req r} (h : build info env req none .time = .ok r)
    (h4 : req.version = 4) (hm : req.reft = upgradeMarker) : r.hdr.refTime = upgradeMarker := by
  simp only [build, timestampResponse] at h
  split at h
  · simp at h
  · simp only [Built.ok.injEq] at h
    subst h
    simp [timeHeader, h4, hm]

theorem reference_ts_nts_own {info env req alg r} (h : build info env req (some alg) .time = .ok r)
    (h5 : req.version ≠ 5) : r.hdr.refTime = u64Bytes (truncRef env.recv) := by
  simp only [build, ntsTimestampResponse] at h
  repeat' split at h
  all_goals first
    | (simp at h; done)
    | (simp only [Built.ok.injEq] at h; subst h; simp [timeHeader, h5])

/-- The poll field is echoed for EVERY byte value (no clamping, also for 0x80..0xff): a one-line corollary of
    `time_answer_header`, stated for the record because the oracle clause `c18_echo_poll` checks it on the bytes. -/
theorem poll_echoed_all_bytes {info env req c r} (h : build info env req c .time = .ok r) :
    ∀ b : Nat, req.poll = b → r.hdr.poll = b := by
  intro b hb
  rw [← hb]
  exact (time_answer_header h).2.2.2.1

/-! #### non-vacuity -/

def info0 : Info :=
  { stratum := 2, refid := [1, 2, 3, 4], leap := 1, precision := 4096, rootDelay := 65536,
    bloom := List.replicate 512 9, keysOk := true }
def env0 : Env :=
  { inDeny := false, inAllow := true, rateOk := true, recv := 0xE800000000000000, now := 0xE800000000001000,
    rvar := F64.zero, bufLen := 4096 }
/-- a v5 request with an identifier, a reference-id request, a padding field and a cookie in clear text -/
def req5 : Req :=
  { len := 200, fv := 5, parse := .ok, version := 5, client := true, poll := 6, xmit := [1, 2, 3, 4, 5, 6, 7, 8],
    reft := [], untrusted := [.uid [1, 2, 3, 4], .refReq 8 4, .padding 16, .cookie 100, .draft 23],
    auth := [], enc := [], cookie := none, encw := 0, mac := 0 }

/-- the DENY answer to it echoes the identifier and adds the draft identification — nothing else -/
example : build info0 env0 req5 none .deny
    = .ok { hdr := kissHeader req5 kissDeny 127 false, untrusted := [.uid [1, 2, 3, 4], .draft], auth := [],
            enc := [], cipher := false, desired := none } := by decide

end NtpVerif.C18

#print axioms NtpVerif.C18.time_answer_header
#print axioms NtpVerif.C18.kiss_answer_header
#print axioms NtpVerif.C18.no_rate_answer
#print axioms NtpVerif.C18.only_identifiers_echoed
#print axioms NtpVerif.C18.nothing_from_undecryptable
#print axioms NtpVerif.C18.reference_ts_not_reflected
#print axioms NtpVerif.C18.reference_ts_marker
#print axioms NtpVerif.C18.reference_ts_nts_own
#print axioms NtpVerif.C18.poll_echoed_all_bytes
