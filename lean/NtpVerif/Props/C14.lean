/-
C14 — building a poll request never fails.

Model: `NtpVerif.Model.SourceSM.handleTimer` with `NtpVerif.Model.CookieStash` (cookie count
`gap.min((1024-300)/max(len,1))`) and the serialiser's size arithmetic `requestSize` (header 48, unique-id field,
cookie field and placeholders with the 16-byte minimum and 4-byte padding, NTPv5 draft-id and reference-id-request
fields, NTS authenticator 8+16+16). `.panic` in the model stands for the two abort sites of `handle_timer`:
the stash index and `expect("could not serialize packet")` (request larger than the 1024-byte buffer).

Property sentence ↔ theorem
  "For every cookie the client may hold and every protocol version, producing the next request either yields a
   packet that fits the 1024-byte send buffer or asks for a reset; it never crashes the daemon."
        ↔ `fits_or_reset` (all cookie lengths `ℓ : Nat`, all fill levels, NTS on/off, all four protocol states),
          `size_bound` (the arithmetic core), `oversize_cookie_resets` (ℓ ≥ 725 ⇒ Reset)
  the tie of `requestSize` to the real serialiser is the EXHAUSTIVE stream `c14_exh`
-/
import NtpVerif.Proofs.SourceSM
import NtpVerif.Proofs.CookieStash

namespace NtpVerif.C14
open NtpVerif.SourceSM NtpVerif.CookieStash

/-- **C14.size_bound** — with `n` cookie-or-placeholder fields for a cookie of `ℓ` bytes, `1 ≤ n ≤ 8` and
    `n · max ℓ 1 ≤ 724` (what the margin computation guarantees), an NTS request of either version is at most
    952 bytes. -/
theorem size_bound (v5 : Bool) (l n : Nat) (h1 : 1 ≤ n) (h8 : n ≤ 8) (hm : n * max l 1 ≤ 724) :
    requestSize v5 (some (l, n)) ≤ 952 := by
  have hn : n = 1 ∨ n = 2 ∨ n = 3 ∨ n = 4 ∨ n = 5 ∨ n = 6 ∨ n = 7 ∨ n = 8 := by omega
  cases v5 <;>
    simp only [requestSize, efSize, roundUp4, AUTH_EF, REFID_REQ_EF, DRAFT_LEN] <;>
    rcases hn with rfl | rfl | rfl | rfl | rfl | rfl | rfl | rfl <;> omega

/-- what the cookie computation hands to the request builder -/
theorem timerCookies_send (st st' : Stash) (c : Cookie) (n : Nat) (hwf : CookieStash.WF st)
    (h : timerCookies st = (st', .send c n)) : 1 ≤ n ∧ n ≤ 8 ∧ n * max c.length 1 ≤ 724 := by
  unfold timerCookies at h
  have hw := wf_get st hwf
  rcases hg : get st with ⟨s1, o⟩
  rw [hg] at h hw
  cases o with
  | none => simp at h
  | panic => simp at h
  | some c' =>
    simp only at h hw
    have hgap := gap_eq s1 hw
    rw [hgap] at h
    simp only at h
    split at h
    · cases h
    · rename_i hn0
      injection h with _ h2
      injection h2 with hc hn
      subst hc; subst hn
      have hle : Spec.gap (abs s1) ≤ 8 := by simp [Spec.gap, Spec.cap]
      simp only [newCookies, Gen.SOURCE_BUFFER_LEN, Gen.COOKIE_MARGIN, show (1024 - 300 : Nat) = 724 from rfl] at hn0 ⊢
      have hpos : 0 < max c'.length 1 := by omega
      have key : min (Spec.gap (abs s1)) (min (724 / max c'.length 1) 255) ≤ 724 / max c'.length 1 := by
        generalize 724 / max c'.length 1 = q
        omega
      refine ⟨?_, ?_, (Nat.le_div_iff_mul_le hpos).mp key⟩
      · generalize 724 / max c'.length 1 = q at hn0 ⊢
        omega
      · generalize 724 / max c'.length 1 = q
        omega

theorem timerCookies_no_panic (st : Stash) (hwf : CookieStash.WF st) : (timerCookies st).2 ≠ .panic := by
  unfold timerCookies
  have hw := wf_get st hwf
  have hget := (abs_get st hwf).2
  rcases hg : get st with ⟨s1, o⟩
  rw [hg] at hw hget
  cases o with
  | none => simp
  | panic =>
    simp only at hget
    cases h : (Spec.get (abs st)).2 <;> rw [h] at hget <;> cases hget
  | some c' =>
    simp only at hw ⊢
    rw [gap_eq s1 hw]
    simp only
    split <;> simp

/-- **C14.fits_or_reset** — for every state whose cookie stash is well-formed (any cookies of any lengths, any fill
    level), NTS or not, in any of the four protocol states, and for any inputs: `handle_timer` never aborts, and
    it returns `Reset`, `Demobilize`, or a request whose serialised length is at most 1024 (in fact ≤ 952). -/
theorem fits_or_reset (s : State) (now : Nat) (d : Int) (o : Nat) (u : List UInt8) (t : Nat)
    (hwf : ∀ st, s.nts = some st → CookieStash.WF st) :
    (handleTimer s now d o u t).2 ≠ .panic ∧
    ∀ i, (handleTimer s now d o u t).2 = .send i → i.len ≤ 1024 ∧ i.len ≤ 952 := by
  rcases timer_cases s now d o u t with ⟨_, e⟩ | ⟨_, ⟨hn, e⟩ | ⟨st, st', hn, htc, e⟩ | ⟨st, st', hn, htc, e⟩ |
      ⟨st, st', c, n, hn, htc, ⟨hl, e⟩ | ⟨hl, e⟩⟩⟩
  all_goals (rw [e])
  · constructor
    · cases s.haveDeny <;> simp
    · intro i hi; cases hd : s.haveDeny <;> simp [hd] at hi
  · refine ⟨by simp, ?_⟩
    intro i hi; cases hi
    cases plainV5 (timerProto s) <;>
      simp only [requestSize, efSize, roundUp4, REFID_REQ_EF, DRAFT_LEN] <;> omega
  · exact ⟨by simp, fun i hi => by cases hi⟩
  · exfalso
    have := timerCookies_no_panic st (hwf st hn)
    rw [htc] at this; exact this rfl
  · exfalso
    obtain ⟨h1, h8, hm⟩ := timerCookies_send st st' c n (hwf st hn) htc
    have := size_bound (ntsV5 (timerProto s)) c.length n h1 h8 hm
    simp only [Gen.SOURCE_BUFFER_LEN] at hl; omega
  · refine ⟨by simp, ?_⟩
    intro i hi; cases hi
    obtain ⟨h1, h8, hm⟩ := timerCookies_send st st' c n (hwf st hn) htc
    have := size_bound (ntsV5 (timerProto s)) c.length n h1 h8 hm
    simp only; omega

/-- **C14.oversize_cookie_resets** — a cookie of 725 bytes or more (whatever the server delivered) makes the count
    zero: the timer asks for a reset instead of building a request. -/
theorem oversize_cookie_resets (g l : Nat) (h : 725 ≤ l) : newCookies g l = 0 := by
  simp only [newCookies, Gen.SOURCE_BUFFER_LEN, Gen.COOKIE_MARGIN]
  have : (1024 - 300) / max l 1 = 0 := Nat.div_eq_of_lt (by omega)
  omega

/-- the well-formedness of the stash is an invariant of the source (stash ops keep `WF`) -/
theorem stash_wf_kept (st : Stash) (cs : List Cookie) (h : CookieStash.WF st) :
    ∃ st', storeAll st cs = some st' ∧ CookieStash.WF st' := by
  induction cs generalizing st with
  | nil => exact ⟨st, rfl, h⟩
  | cons c cs ih =>
    simp only [storeAll, storeChecked_eq st c h]
    exact ih _ (wf_store st c h)

/-! #### non-vacuity -/

/-- the largest request of the default setup: 8 fields for a 90-byte cookie, NTPv5 — 940 bytes; and an over-long cookie resets -/
example : requestSize true (some (90, 8)) = 940 ∧ requestSize false (some (90, 8)) = 892 ∧
    requestSize true none = 96 ∧ requestSize false none = 48 := by decide

example : CookieStash.WF ⟨List.replicate 8 (List.replicate 90 1), 0, 8⟩ := by decide

end NtpVerif.C14

#print axioms NtpVerif.C14.size_bound
#print axioms NtpVerif.C14.fits_or_reset
#print axioms NtpVerif.C14.oversize_cookie_resets
#print axioms NtpVerif.C14.stash_wf_kept
