/-
C07 — NTS sources ignore everything that is not authenticated.

Model: `NtpVerif.Model.SourceSM` (`handle_incoming` with `valid_server_response` / `check_uid_extensionfield` and
the KISS dispatch, `process_message`'s cookie intake), WITH the proposed fix
`fixes/C07-ntsnak-before-rate-deny.patch` (`handleIncoming = handleIncomingG true`); the unchanged code is
`handleIncomingG false`, for which the property fails (`counterexample`, finding F-C07).

What "authenticated under the session's s2c key and bound to the pending request" means on the abstract packet
record: the parser (real `NtpPacket::deserialize` under the s2c cipher — trusted here, tied by C23–C25) puts a
field into the `authenticated` / `encrypted` lists only when the NTS authenticator verified under that key; so a
datagram is `Authentic` when it parsed, a request is pending and not expired, its origin / client cookie matches,
and a unique-identifier field in the authenticated or encrypted part equals the request's identifier.

Property sentence ↔ theorem
  "no received datagram that is not authenticated … and bound to the pending request has any observable effect:
   no measurement, no demobilisation, no poll-rate change, no protocol-version change and no stored cookie"
        ↔ `unauthenticated_no_effect` (one datagram: state unchanged, nothing emitted),
          `unauthenticated_no_effect_history` (interleaved with genuine traffic, over every history)
  "New cookies are only ever taken from the encrypted part of an authenticated response"
        ↔ `cookies_from_encrypted`, `cookies_only_when_accepted`
  unchanged code                          ↔ `FullUnfixed`, `counterexample`
-/
import NtpVerif.Proofs.SourceSM
import NtpVerif.Model.SourceBytes
import NtpVerif.Props.C25

namespace NtpVerif.C07
open NtpVerif.SourceSM NtpVerif.CookieStash

/-- the datagram is authenticated under the s2c key and bound to the pending request -/
def Authentic (s : State) (now : Nat) (parsed : Option Pkt) : Prop :=
  ∃ p id dl uid, parsed = some p ∧ s.pending = some (id, dl) ∧ now ≤ dl ∧ id.uid = some uid ∧
    p.origin = id.origin ∧ (checkUid p.uidAuth uid = some true ∨ checkUid p.uidEnc uid = some true)

/-- invariant of an NTS source: the version is one a key exchange yields, and a pending request carries a uid -/
def NtsInv (s : State) : Prop :=
  s.nts.isSome = true ∧ (s.proto = .v4 ∨ s.proto = .v5) ∧ ∀ id dl, s.pending = some (id, dl) → id.uid.isSome = true

theorem checkUid_cases (fs : List (List UInt8)) (u : List UInt8) :
    checkUid fs u = some false ∨ checkUid fs u = none ∨ checkUid fs u = some true := by
  unfold checkUid; split
  · left; rfl
  · split
    · right; left; rfl
    · right; right; rfl

/-- the statement of the property for one datagram, parametrised by the order of the KISS arms -/
def NoEffect (ntsnFirst : Bool) : Prop :=
  ∀ (s : State) (now : Nat) (parsed : Option Pkt) (a b : Nat) (bl : Option Bool),
    NtsInv s → ¬ Authentic s now parsed → handleIncomingG ntsnFirst s now parsed a b bl = (s, .ignore)

/-- **C07.unauthenticated_no_effect** — (code with the fix) for an NTS source, a datagram that is not authentic
    is ignored: the state — poll intervals, protocol version, cookie stash, reach, deny mark, pending request —
    is unchanged and there is no action, no measurement, no `set_usable`. -/
theorem unauthenticated_no_effect : NoEffect true := by
  intro s now parsed a b bl ⟨hnts, hproto, hpuid⟩ hna
  rcases incoming_cases true s now parsed a b bl with e | ⟨p, id, dl, hp, hpend, hw, hv, hval, hc⟩
  · exact e
  · -- a matching answer: it is valid for an NTS request, so either bound through auth/enc, or an NTS-NAK
    have hu := hpuid id dl hpend
    obtain ⟨uid, huid⟩ := Option.isSome_iff_exists.mp hu
    have hval' := hval
    unfold Pkt.validResponse at hval'
    rw [huid, hnts] at hval'
    simp only [Bool.and_eq_true, beq_iff_eq] at hval'
    obtain ⟨hok, horg⟩ := hval'
    simp only [uidOk, Bool.and_eq_true, bne_iff_ne, ne_eq, Bool.or_eq_true, Bool.not_eq_eq_eq_not, Bool.not_true,
      Bool.true_and, Bool.not_eq_true'] at hok
    obtain ⟨⟨⟨ha, he⟩, _⟩, hsome⟩ := hok
    have hnak : p.isKissNtsn = true := by
      rcases hsome with (hs | hs) | ⟨hc', _⟩
      · exfalso; apply hna
        refine ⟨p, id, dl, uid, hp, hpend, hw, huid, horg, Or.inl ?_⟩
        rcases checkUid_cases p.uidAuth uid with h | h | h
        · exact absurd h ha
        · rw [h] at hs; cases hs
        · exact h
      · exfalso; apply hna
        refine ⟨p, id, dl, uid, hp, hpend, hw, huid, horg, Or.inr ?_⟩
        rcases checkUid_cases p.uidEnc uid with h | h | h
        · exact absurd h he
        · rw [h] at hs; cases hs
        · exact h
      · rcases hc' with h | h
        · cases h
        · exact h
    have hs1 : ({ s with proto := protoOnValid s.proto p.isUpgrade } : State) = s := by
      rcases hproto with h | h <;> (cases s; simp only at h; subst h; rfl)
    rcases hc with ⟨_, _, e⟩ | ⟨_, h1, _⟩ | ⟨_, h1, _⟩ | ⟨h5, _⟩
    · rw [e, hs1]
    · simp [hnak] at h1
    · simp [hnak] at h1
    · simp only [Pkt.isKissNtsn, Bool.and_eq_true] at hnak
      rw [h5] at hnak; exact absurd hnak.1 (by simp)

/-- `NtsInv` is kept by every op -/
theorem ntsInv_step (s : State) (op : Op) (h : NtsInv s) (hnp : ∀ o, (step s op).2 = o → o ≠ .incoming .panic) :
    NtsInv (step s op).1 := by
  obtain ⟨hnts, hproto, hpuid⟩ := h
  have hv : ∀ b, protoOnValid s.proto b = s.proto := by
    intro b; rcases hproto with h | h <;> rw [h] <;> rfl
  cases op with
  | timer now d o u t =>
    simp only [step]
    have htp : timerProto s = s.proto := by
      unfold timerProto; rcases hproto with h | h <;> rw [h] <;> simp
    rcases timer_cases s now d o u t with ⟨_, e⟩ | ⟨_, ⟨hn, e⟩ | ⟨st, st', hn, _, e⟩ | ⟨st, st', hn, _, e⟩ |
        ⟨st, st', c, n, hn, _, ⟨_, e⟩ | ⟨_, e⟩⟩⟩
    all_goals (rw [e])
    · exact ⟨hnts, hproto, hpuid⟩
    · rw [hn] at hnts; cases hnts
    · exact ⟨rfl, by simp only [timerBase, htp]; exact hproto, hpuid⟩
    · exact ⟨rfl, by simp only [timerBase, htp]; exact hproto, hpuid⟩
    · refine ⟨rfl, by simp only [timerSent, timerBase, htp]; exact hproto, ?_⟩
      intro id dl hp; simp only [timerSent, Option.some.injEq, Prod.mk.injEq] at hp; rw [← hp.1]; rfl
    · refine ⟨rfl, by simp only [timerSent, timerBase, htp]; exact hproto, ?_⟩
      intro id dl hp; simp only [timerSent, Option.some.injEq, Prod.mk.injEq] at hp; rw [← hp.1]; rfl
  | incoming now parsed a b bl =>
    simp only [step, handleIncoming] at hnp ⊢
    rcases incoming_cases true s now parsed a b bl with e | ⟨p, id, dl, hp, hpend, hw, hv', hval, hc⟩
    · rw [e]; exact ⟨hnts, hproto, hpuid⟩
    · rcases hc with ⟨_, _, e⟩ | ⟨_, _, ⟨_, e⟩ | ⟨rr, _, e⟩⟩ | ⟨_, _, _, ⟨_, e⟩ | ⟨_, e⟩⟩ | ⟨_, _, _, e⟩
      · rw [e]; exact ⟨hnts, by simp only [hv]; exact hproto, hpuid⟩
      · rw [e]; exact ⟨hnts, by simp only [hv]; exact hproto, hpuid⟩
      · rw [e]; exact ⟨hnts, by simp only [hv]; exact hproto, hpuid⟩
      · rw [e]; exact ⟨hnts, by simp only [hv]; exact hproto, hpuid⟩
      · rw [e]; exact ⟨hnts, by simp only [hv]; exact hproto, hpuid⟩
      · rw [e]
        have hf := processMessage_fields { s with proto := protoOnValid s.proto p.isUpgrade } p a b bl
        have hpe := processMessage_pending { s with proto := protoOnValid s.proto p.isUpgrade } p a b bl
        simp only at hf
        refine ⟨by rw [hf.2.2.2.2.1]; exact hnts, by rw [hf.2.2.2.2.2.1, hv]; exact hproto, ?_⟩
        intro id dl h; rw [hpe] at h; cases h

/-- **C07.unauthenticated_no_effect_history** — along every history of an NTS source (genuine traffic, timers and
    attacker datagrams interleaved, nothing aborts), every datagram that is not authentic at the moment it
    arrives leaves the state exactly as it was and produces no output. -/
theorem unauthenticated_no_effect_history (ops : List Op) (s : State) (h : NtsInv s)
    (hnp : ∀ o ∈ observations s ops, o ≠ .incoming .panic) :
    ∀ (pre : List Op) (now : Nat) (parsed : Option Pkt) (a b : Nat) (bl : Option Bool) (post : List Op),
      ops = pre ++ .incoming now parsed a b bl :: post →
      ¬ Authentic (run s pre).1 now parsed →
      step (run s pre).1 (.incoming now parsed a b bl) = ((run s pre).1, .incoming .ignore) := by
  induction ops generalizing s with
  | nil => intro pre now parsed a b bl post h; cases pre <;> simp at h
  | cons op ops ih =>
    intro pre now parsed a b bl post heq hna
    cases pre with
    | nil =>
      simp only [run]
      simp only [step, handleIncoming]
      rw [unauthenticated_no_effect s now parsed a b bl h (by simpa [run] using hna)]
    | cons p0 pre' =>
      simp only [List.cons_append, List.cons.injEq] at heq
      obtain ⟨hop, heq⟩ := heq
      subst hop
      simp only [observations, run, List.map_cons, List.mem_cons, forall_eq_or_imp] at hnp
      have h' := ntsInv_step s op h (fun o ho => by rw [← ho]; exact hnp.1)
      simp only [run] at hna ⊢
      exact ih (step s op).1 h' hnp.2 pre' now parsed a b bl post heq hna

/-- **C07.cookies_from_encrypted** — when an answer is accepted, the cookies stored are exactly the `NtsCookie`
    fields of its *encrypted* list, in order (cookie fields of the authenticated or untrusted lists are never
    stored). -/
theorem cookies_from_encrypted (s s' : State) (st : Stash) (now : Nat) (p : Pkt) (a b : Nat) (bl : Option Bool)
    (u : Bool) (m : Meas) (k : Nat) (hn : s.nts = some st)
    (h : handleIncoming s now (some p) a b bl = (s', .accepted u m k)) :
    ∃ st', storeAll st p.cookiesEnc = some st' ∧ s'.nts = some st' ∧ k = p.cookiesEnc.length := by
  obtain ⟨p', id, dl, hp, _, heq⟩ := accepted_iff_aux true s now (some p) a b bl u m k s' h
  injection hp with hp; subst hp
  unfold processMessage at heq
  simp only [hn] at heq
  split at heq
  · injection heq with _ h2; cases h2
  · rename_i st' hst
    injection heq with h1 h2
    injection h2 with _ _ hk
    exact ⟨st', hst, by rw [h1], hk⟩

/-- **C07.cookies_only_when_accepted** — every other outcome leaves the cookie stash untouched. -/
theorem cookies_only_when_accepted (s : State) (now : Nat) (parsed : Option Pkt) (a b : Nat) (bl : Option Bool)
    (h : (handleIncoming s now parsed a b bl).2 = .ignore ∨ (handleIncoming s now parsed a b bl).2 = .demobilize) :
    (handleIncoming s now parsed a b bl).1.nts = s.nts :=
  (incoming_frame true s now parsed a b bl _ rfl h).2.2.2.2.1

/-! #### end to end, on the received bytes

`incomingBytes` = real parser model (`NtpVerif.Model.Packet`, ideal-AEAD oracle) followed by `recordOfParse` and the
state machine; tied to the implementation by stream `sm_bytes` (the Lean side computes the record from the BYTES).
Combines `unauthenticated_no_effect` with C25's `nothing_unless_decrypt` / `authentic_implies_sealed_prefix`. -/

open NtpVerif.Wire NtpVerif.SourceBytes in
/-- a packet in which the parser reports nothing as authentic yields a record without authenticated or encrypted
    unique identifiers -/
theorem record_nothing_authentic (p : Packet) (h : p.NothingAuthentic) :
    (recordOfPacket p).uidAuth = [] ∧ (recordOfPacket p).uidEnc = [] := by
  obtain ⟨ha, he⟩ := h
  unfold recordOfPacket
  cases hh : p.header <;> simp [record34, record5, uidsOf, ha, he]

open NtpVerif.Wire NtpVerif.SourceBytes in
/-- **C07.bytes_no_decrypt_no_effect** — for EVERY cipher (decryption oracle `dec`): if no decryption whose
    associated data is a prefix (of at least the 48 header bytes) of the received datagram succeeds, then
    `handle_incoming` on those bytes, for an NTS source, changes nothing and emits nothing. -/
theorem bytes_no_decrypt_no_effect (dec : Dec) (key : Bytes) (s : State) (now : Nat) (data : Bytes) (a b : Nat)
    (bl : Option Bool) (hinv : NtsInv s) (h : NoPrefixDecrypts dec data) :
    incomingBytes dec (some key) s now data a b bl = (s, .ignore) := by
  have hrn := C25.nothing_unless_decrypt dec (ctxOf (some key)) data h
  unfold incomingBytes
  cases hp : parse dec (ctxOf (some key)) data with
  | ok p c =>
    rw [hp] at hrn
    obtain ⟨hua, hue⟩ := record_nothing_authentic p hrn.1
    apply unauthenticated_no_effect s now _ a b bl hinv
    rintro ⟨p', id, dl, uid, hp', _, _, _, _, hc⟩
    simp only [recordOfParse, Option.some.injEq] at hp'
    subst hp'
    rw [hua, hue] at hc
    rcases hc with hc | hc <;> simp [checkUid] at hc
  | decryptErr p => rfl
  | err e => rfl
  | panic => rfl
  | fuel => rfl

open NtpVerif.Wire NtpVerif.SourceBytes in
/-- **C07.bytes_unauthenticated_no_effect** — ideal AEAD with the table `T` of all sealings ever performed (under
    any key): if no recorded sealing has as associated data a prefix (≥ 48 bytes) of the received datagram — i.e.
    the datagram is not an authenticator-carrying packet whose covered part was sealed by a key holder — then
    `incoming` on those bytes is a no-op for an NTS source: no measurement, no demobilisation, no poll-rate,
    version or cookie change. -/
theorem bytes_unauthenticated_no_effect (T : Table) (key : Bytes) (s : State) (now : Nat) (data : Bytes)
    (a b : Nat) (bl : Option Bool) (hinv : NtsInv s)
    (h : ∀ e ∈ T, ¬ (48 ≤ e.aad.length ∧ e.aad = data.take e.aad.length)) :
    incomingBytes T.decrypt (some key) s now data a b bl = (s, .ignore) := by
  apply bytes_no_decrypt_no_effect T.decrypt key s now data a b bl hinv
  intro k nonce ct n h48 hn
  cases hd : T.decrypt k nonce ct (data.take n) with
  | none => rfl
  | some pt =>
    exfalso
    obtain ⟨e, he, _, _, _, ha⟩ := Table.decrypt_some hd
    apply h e he
    rw [ha]
    simp only [List.length_take, Nat.min_eq_left hn]
    exact ⟨h48, trivial⟩

/-! #### the unchanged code: finding F-C07 -/

/-- the property for the code as it stands (RATE / DENY tested before the NTS-NAK arm) -/
def FullUnfixed : Prop := NoEffect false

def cfg0 : Cfg := ⟨⟨4, 10⟩, 16, [], 5⟩
def uid0 : List UInt8 := List.replicate 32 7
def stash8 : Stash := ⟨List.replicate 8 (List.replicate 100 1), 0, 8⟩

/-- an NTS NTPv5 source that has just polled with poll 4 -/
def witnessState : State :=
  (handleTimer (SourceSM.init cfg0 .v5 (some stash8)) 0 4 99 uid0 16500000000).1

/-- forged, unauthenticated NTPv5 answer: the request's clear-text uid in the untrusted list, stratum 0,
    `authnak` set; poll 10 (RATE arm) or 127 (DENY arm) -/
def forged (poll : Int) : Pkt :=
  { version := 5, mode := 4, stratum := 0, poll := poll, kiss := .other, refid := 0, refTs := 0, origin := 99,
    uidAuth := [], uidEnc := [], uidUntr := [uid0], authnak := true, cookiesAuth := [], cookiesEnc := [],
    cookiesUntr := [], rrAuth := false, rrUntr := false, leap := 0, precision := 0, rootDelay := 0, rootDisp := 0,
    recvTs := 0, xmitTs := 0 }

theorem witness_inv : NtsInv witnessState := by
  refine ⟨by decide, Or.inr (by decide), ?_⟩
  intro id dl h
  have : witnessState.pending = some (⟨99, some uid0⟩, 5000000000) := by decide
  rw [this] at h; injection h with h; injection h with h1 _; rw [← h1]; rfl

theorem witness_not_authentic (poll : Int) : ¬ Authentic witnessState 1000000 (some (forged poll)) := by
  rintro ⟨p, id, dl, uid, hp, _, _, _, _, h⟩
  injection hp with hp; subst hp
  rcases h with h | h <;> simp [forged, checkUid] at h

/-- **C07.counterexample** — the unchanged code violates the property: the forged packet raises the poll floor
    (16 s → 32 s at the next poll) and, with poll 127, demobilises the source. -/
theorem counterexample : ¬ FullUnfixed := by
  intro h
  have := h witnessState 1000000 (some (forged 10)) 0 0 none witness_inv (witness_not_authentic 10)
  have hne : handleIncomingG false witnessState 1000000 (some (forged 10)) 0 0 none ≠ (witnessState, .ignore) := by
    decide
  exact hne this

/-- the two effects on the unchanged code, and their absence with the fix -/
example :
    (handleIncomingG false witnessState 1000000 (some (forged 10)) 0 0 none).1.remoteMinPoll = 5 ∧
    (handleIncomingG false witnessState 1000000 (some (forged 127)) 0 0 none).2 = .demobilize ∧
    handleIncoming witnessState 1000000 (some (forged 10)) 0 0 none = (witnessState, .ignore) ∧
    handleIncoming witnessState 1000000 (some (forged 127)) 0 0 none = (witnessState, .ignore) := by
  decide

/-! #### non-vacuity: an authentic answer IS used, and its encrypted cookies are stored -/

def genuine : Pkt :=
  { forged 6 with stratum := 2, authnak := false, uidAuth := [uid0], uidUntr := [],
                  cookiesEnc := [[9, 9], [8, 8]], cookiesAuth := [[6]], cookiesUntr := [[5]] }

example :
    (match (handleIncoming witnessState 1000000 (some genuine) 0 0 none).2 with
      | .accepted _ _ 2 => true | _ => false) = true ∧
    (handleIncoming witnessState 1000000 (some genuine) 0 0 none).1.nts =
      (storeAll (witnessState.nts.getD CookieStash.init) [[9, 9], [8, 8]]) := by
  decide

end NtpVerif.C07

#print axioms NtpVerif.C07.unauthenticated_no_effect
#print axioms NtpVerif.C07.unauthenticated_no_effect_history
#print axioms NtpVerif.C07.cookies_from_encrypted
#print axioms NtpVerif.C07.cookies_only_when_accepted
#print axioms NtpVerif.C07.counterexample
#print axioms NtpVerif.C07.bytes_no_decrypt_no_effect
#print axioms NtpVerif.C07.bytes_unauthenticated_no_effect
