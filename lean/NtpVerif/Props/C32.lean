/-
C32 — time arithmetic is exact, era-safe and never panics.

Model: `NtpVerif.Model.Time` — `NtpTimestamp` / `NtpDuration` / `PollInterval` of
`ntp-proto/src/time_types.rs` WITH the proposed fix `fixes/C32-saturating-duration-ops.patch`
(`saturating_abs`, `saturating_neg`, `saturating_div`, `saturating_add/sub` in `PollInterval::inc/dec`)
and the wrapping / saturating part of `statime-base/src/time_types.rs`.  The unfixed operations are kept
as `durNegOrig`, `durAbsOrig`, `durDivOrig`, `pollIncOrig`, `pollDecOrig` so that finding F-C32 is a theorem
(`unfixed_counterexample`) and the fix is shown to change nothing else (`fix_is_conservative`).

Operations that return a plain `Int` in the model (`tsSub`, `tsAddDur`, `tsSubDur`, `isBefore`, `durAdd`,
`durSub`, `durMul`, `durNeg`, `durAbs`, `durAbsDiff`, `pollInc`, … and the `pt*`/`pd*` ones) have no
panic site in the Rust code (wrapping_* / saturating_* / comparisons only); the ones with panic sites
return `Option` and their `none` cases are characterised exactly below.

  property sentence                                           theorem
  timestamp difference = shortest signed difference across
    era boundaries                                            ts_sub_shortest, ts_era_safe
  adding it back restores the timestamp                       ts_sub_add_back, ts_add_sub_cancel, ts_sub_of_add
  (is_before is the sign of that difference)                  ts_is_before
  (order/algebra consequences: antisymmetry away from the
    era midpoint, group action of +, wire commutes with +)    ts_sub_self, ts_sub_antisymm, ts_before_asymm,
                                                              ts_add_add, ts_add_wire
  (saturating ops are commutative / monotone, abs ≥ 0)        dur_add_comm_mono, dur_abs_nonneg, dur_mul_mono
  duration + − neg abs scaling saturate, never wrap           dur_add_saturates, dur_sub_saturates,
                                                              dur_mul_saturates, dur_neg_saturates,
                                                              dur_abs_saturates, dur_absdiff_saturates,
                                                              dur_div_saturates, dur_div_exact
  … and never panic                                           dur_never_panics (division by zero is excluded by
                                                              Rust's own contract: dur_div_none_iff)
  the UNFIXED code violates this (F-C32)                      unfixed_counterexample, fix_is_conservative
  seconds → duration preserves sign and saturates             from_seconds_never_panics, from_seconds_saturates,
                                                              from_seconds_sign (integer core),
                                                              from_seconds_within_second (no carry into the
                                                              seconds field), from_seconds_error_bound (result
                                                              in (x·2³² − 2, x·2³²], exact-rational fraction),
                                                              from_seconds_preserves_sign (F64, under the
                                                              stated hardware facts `HwFloor`)
  duration → seconds → duration changes it by < 1e-9 + 1 unit roundtrip_ideal_bound — IDEALISED: exact rational
                                                              arithmetic, no rounding; the binary64 round trip
                                                              itself is oracle-monitored (clause roundtrip_bound)
                                                              and does NOT meet the bound: known finding F-C32b
                                                              (error 2 units for some −10⁹ < d < 0; the real code
                                                              meets 10⁻⁹·|d| + 2, clause roundtrip_bound_plus_one)
  short / time32 wire formats: within one unit of the format  short_roundtrip, short_decode_encode, short_none_iff,
                                                              time32_roundtrip, time32_saturates,
                                                              time32_decode_encode, time32_none_iff
  (as_seconds_nanos = floor decomposition; from_exponent =
     2^e s, clamped, inverted by log2)                        as_seconds_nanos_floor, from_exponent_log2
  (PollInterval stays within limits, as_duration clamps)      poll_inc_dec, poll_as_duration
  (… as_duration monotone, wire byte round trip, inc/dec
     inverse inside the limits)                               poll_as_duration_mono, poll_byte_roundtrip,
                                                              poll_inc_dec_inverse
  PTP Timestamp / Duration obey the same laws                 pt_sub_shortest, pt_sub_add_back, pt_add_sub_cancel,
                                                              pd_saturates, pd_div_exact
                                                              pt_sub_antisymm, pt_add_add, pd_add_comm_mono
-/
import NtpVerif.Proofs.Time

namespace NtpVerif.C32
open NtpVerif.Wrap NtpVerif.Time

/-- a 64-bit NTP timestamp -/
def isTs (a : Int) : Prop := 0 ≤ a ∧ a ≤ U64_MAX
def inI8 (p : Int) : Prop := -128 ≤ p ∧ p ≤ 127
instance (p : Int) : Decidable (inI8 p) := by unfold inI8; infer_instance

/-- `result` is `exact` saturated into the `i64` range -/
def Saturates (exact result : Int) : Prop :=
  inI64 result ∧ (inI64 exact → result = exact) ∧ (exact > I64_MAX → result = I64_MAX) ∧
    (exact < I64_MIN → result = I64_MIN)

theorem saturates_sat (x : Int) : Saturates x (satI64 x) := satI64_spec x

/-! ### timestamps -/

/-- The difference of two timestamps is congruent to `a − b` modulo 2⁶⁴, fits `i64`, and no other
    representative of that residue class has smaller absolute value. -/
theorem ts_sub_shortest (a b : Int) :
    inI64 (tsSub a b) ∧ (∃ k : Int, tsSub a b = a - b + k * 18446744073709551616) ∧
      ∀ k : Int, (tsSub a b).natAbs ≤ (a - b + k * 18446744073709551616).natAbs := by
  refine ⟨tsSub_in a b, ?_, ?_⟩
  · unfold tsSub wrapS64; simp only; split
    · exact ⟨-((a - b) / 18446744073709551616) - 1, by omega⟩
    · exact ⟨-((a - b) / 18446744073709551616), by omega⟩
  · intro k; unfold tsSub wrapS64; simp only; split <;> omega

/-- across the era boundary: 1 − (2⁶⁴−1) = 2, and the era midpoint goes to −2⁶³ -/
example : tsSub 1 18446744073709551615 = 2 ∧ tsSub 18446744073709551615 1 = -2 ∧
    tsSub 0 9223372036854775808 = I64_MIN := by decide

/-- era safety: for true times on the integer timeline whose difference fits `i64`, the difference of
    the wire values (mod 2⁶⁴) is the true difference -/
theorem ts_era_safe (x y : Int) (h : inI64 (x - y)) : tsSub (wrapU64 x) (wrapU64 y) = x - y :=
  tsSub_wire x y h

example : tsSub (wrapU64 (3 * 2^64 + 5)) (wrapU64 (3 * 2^64 - 7)) = 12 := by decide

/-- `b + (a − b) = a` -/
theorem ts_sub_add_back (a b : Int) (ha : isTs a) : tsAddDur b (tsSub a b) = a := by
  unfold isTs U64_MAX at ha
  unfold tsAddDur tsSub wrapS64 wrapU64; simp only; split <;> omega

example : tsAddDur 18446744073709551615 (tsSub 1 18446744073709551615) = 1 := by decide

/-- `(a + d) − d = a` and `(a − d) + d = a`, for every duration (even outside `i64`) -/
theorem ts_add_sub_cancel (a d : Int) (ha : isTs a) :
    tsSubDur (tsAddDur a d) d = a ∧ tsAddDur (tsSubDur a d) d = a := by
  unfold isTs U64_MAX at ha
  unfold tsAddDur tsSubDur wrapU64; omega

/-- `(a + d) − a = d` -/
theorem ts_sub_of_add (a d : Int) (hd : inI64 d) : tsSub (tsAddDur a d) a = d := by
  unfold inI64 I64_MIN I64_MAX at hd
  unfold tsSub tsAddDur wrapS64 wrapU64; simp only; split <;> omega

theorem ts_add_in_range (a d : Int) : isTs (tsAddDur a d) ∧ isTs (tsSubDur a d) := by
  unfold isTs U64_MAX tsAddDur tsSubDur wrapU64; omega

/-- `is_before` is the sign of the shortest difference -/
theorem ts_is_before (a b : Int) : isBefore a b = true ↔ tsSub a b < 0 := by
  unfold isBefore; simp

example : isBefore 18446744073709551615 1 = true ∧ isBefore 1 18446744073709551615 = false := by decide

/-! ### durations -/

theorem dur_add_saturates (a b : Int) : Saturates (a + b) (durAdd a b) := satI64_spec _
theorem dur_sub_saturates (a b : Int) : Saturates (a - b) (durSub a b) := satI64_spec _
/-- `k` ranges over every admitted scalar type (i8 … i64, isize, u8 … u32), all embedded in `Int` -/
theorem dur_mul_saturates (d k : Int) : Saturates (d * k) (durMul d k) := satI64_spec _
theorem dur_neg_saturates (d : Int) : Saturates (-d) (durNeg d) := satI64_spec _

theorem dur_abs_saturates (d : Int) : Saturates (d.natAbs : Int) (durAbs d) := by
  have h : (if d < 0 then -d else d) = (d.natAbs : Int) := by split <;> omega
  unfold durAbs; rw [h]; exact satI64_spec _

theorem dur_absdiff_saturates (a b : Int) : Saturates ((a - b).natAbs : Int) (durAbsDiff a b) := by
  have h : durAbsDiff a b = satI64 ((a - b).natAbs : Int) := by
    unfold durAbsDiff durAbs durSub satI64 clampInt I64_MIN I64_MAX
    repeat' split
    all_goals omega
  rw [h]; exact satI64_spec _

example : durAdd I64_MAX 1 = I64_MAX ∧ durSub I64_MIN 1 = I64_MIN ∧ durMul I64_MIN (-1) = I64_MAX ∧
    durNeg I64_MIN = I64_MAX ∧ durAbs I64_MIN = I64_MAX ∧ durAbsDiff (-16914165230) 9223372033698798425 = I64_MAX ∧
    durAdd 5 (-7) = -2 := by decide

/-- division by a non-zero scalar: the truncated quotient, saturated -/
theorem dur_div_saturates (d k : Int) (hk : k ≠ 0) :
    ∃ r, durDiv d k = some r ∧ Saturates (Int.tdiv d k) r := by
  unfold durDiv; rw [if_neg hk]; exact ⟨_, rfl, satI64_spec _⟩

/-- … which is the exact truncated quotient except for `i64::MIN / −1` (= 2⁶³, saturated to `i64::MAX`) -/
theorem dur_div_exact (d k : Int) (hd : inI64 d) (hk : k ≠ 0) :
    durDiv d k = some (if d = I64_MIN ∧ k = -1 then I64_MAX else Int.tdiv d k) := by
  unfold durDiv; rw [if_neg hk]
  split
  · rename_i h; rw [h.1, h.2]; decide
  · rename_i h; rw [satI64_id _ (tdiv_inI64 d k hd hk h)]

example : durDiv 7 (-2) = some (-3) ∧ durDiv (-7) 2 = some (-3) ∧ durDiv I64_MIN (-1) = some I64_MAX := by
  decide

/-- the only panic of the duration arithmetic is Rust's own division by zero -/
theorem dur_div_none_iff (d k : Int) : durDiv d k = none ↔ k = 0 := by
  unfold durDiv; split <;> simp_all

theorem dur_never_panics (d k ppm : Int) :
    (k ≠ 0 → (durDiv d k).isSome = true) ∧ (durMulPpm d ppm).isSome = true := by
  unfold durMulPpm durDiv
  constructor
  · intro hk; rw [if_neg hk]; rfl
  · rfl

/-! ### finding F-C32: the unfixed code -/

/-- the property's "never panics" for the operations as they are in the unfixed source -/
def UnfixedTotal : Prop :=
  ∀ d k p l : Int, inI64 d → inI64 k → k ≠ 0 → inI8 p → inI8 l →
    durNegOrig d ≠ none ∧ durAbsOrig d ≠ none ∧ durDivOrig d k ≠ none ∧
      pollIncOrig p l ≠ none ∧ pollDecOrig p l ≠ none

theorem unfixed_counterexample : ¬ UnfixedTotal := by
  intro h
  have := (h I64_MIN (-1) 127 127 (by decide) (by decide) (by decide) (by decide) (by decide)).1
  exact this (by decide)

/-- each witness individually -/
example : durNegOrig I64_MIN = none ∧ durAbsOrig I64_MIN = none ∧ durDivOrig I64_MIN (-1) = none ∧
    pollIncOrig 127 127 = none ∧ pollDecOrig (-128) (-128) = none := by decide

/-- the fix changes nothing but those inputs: everywhere else the unfixed operation returned exactly
    what the saturating one returns -/
theorem fix_is_conservative (d k p l : Int) (hd : inI64 d) (hp : inI8 p) :
    (d ≠ I64_MIN → durNegOrig d = some (durNeg d) ∧ durAbsOrig d = some (durAbs d)) ∧
    (¬ (d = I64_MIN ∧ k = -1) → durDivOrig d k = durDiv d k) ∧
    (p ≠ 127 → pollIncOrig p l = some (pollInc p l)) ∧
    (p ≠ -128 → pollDecOrig p l = some (pollDec p l)) := by
  unfold inI8 at hp
  refine ⟨?_, ?_, ?_, ?_⟩
  · intro h
    unfold inI64 I64_MIN I64_MAX at hd; unfold I64_MIN at h
    unfold durNegOrig durAbsOrig durNeg durAbs checkedI64 satI64 clampInt I64_MIN I64_MAX
    constructor
    · rw [if_pos (by omega), if_neg (by omega), if_neg (by omega)]
    · by_cases hneg : d < 0
      · rw [if_pos hneg, if_pos (by omega), if_neg (by omega), if_neg (by omega)]
      · rw [if_neg hneg, if_pos (by omega), if_neg (by omega), if_neg (by omega)]
  · intro h
    unfold durDivOrig durDiv
    by_cases hk : k = 0
    · rw [if_pos hk, if_pos hk]
    · rw [if_neg hk, if_neg hk]
      have hq := tdiv_inI64 d k hd hk h
      rw [satI64_id _ hq]
      unfold checkedI64; unfold inI64 at hq; rw [if_pos hq]
  · intro h
    unfold pollIncOrig pollInc checkedRange I8_MIN I8_MAX satI8 clampInt
    rw [if_pos (by omega), if_neg (by omega), if_neg (by omega)]; rfl
  · intro h
    unfold pollDecOrig pollDec checkedRange I8_MIN I8_MAX satI8 clampInt
    rw [if_pos (by omega), if_neg (by omega), if_neg (by omega)]; rfl

/-! ### seconds → duration -/

/-- `from_seconds` never panics on a finite input (the `unreachable!()` arm is unreachable; NaN and
    infinities are excluded by the function's `debug_assert!`), whatever bits the floating-point
    operations return; the result is an `i64`. -/
theorem from_seconds_never_panics (x : F64) (hn : x.isNaN = false) (hi : x.isInf = false) :
    ∃ d, fromSeconds x = some d ∧ inI64 d := by
  unfold fromSeconds fromSecondsInt
  simp only [hn, hi, Bool.or_self, Bool.false_eq_true, if_false]
  split
  · exact ⟨_, rfl, wrapS64_in _⟩
  · split
    · exact ⟨_, rfl, by decide⟩
    · split
      · exact ⟨_, rfl, by decide⟩
      · rename_i h1 h2 h3; unfold I32_MIN I32_MAX at *; omega

theorem from_seconds_none_iff (x : F64) : fromSeconds x = none ↔ (x.isNaN = true ∨ x.isInf = true) := by
  constructor
  · intro h
    cases hn : x.isNaN
    · cases hi : x.isInf
      · obtain ⟨d, hd, _⟩ := from_seconds_never_panics x hn hi
        rw [h] at hd; cases hd
      · exact Or.inr rfl
    · exact Or.inl rfl
  · intro h; unfold fromSeconds
    rcases h with h | h <;> simp [h]

/-- saturation outside ±2³¹ s: decided by the integer part alone -/
theorem from_seconds_saturates (x : F64) (hn : x.isNaN = false) (hi : x.isInf = false) :
    (secInt x > I32_MAX → fromSeconds x = some I64_MAX) ∧
    (secInt x < I32_MIN → fromSeconds x = some I64_MIN) := by
  unfold fromSeconds fromSecondsInt
  simp only [hn, hi, Bool.or_self, Bool.false_eq_true, if_false]
  unfold I32_MIN I32_MAX
  constructor
  · intro h; rw [if_neg (by omega), if_neg (by omega), if_pos (by omega)]
  · intro h; rw [if_neg (by omega), if_pos (by omega)]

/-- integer core: with the fraction word in `[0, 2³²)`, the result is `ii·2³² + frac` inside ±2³¹ s and
    has the sign of the integer part everywhere -/
theorem from_seconds_sign (ii frac : Int) (hf : 0 ≤ frac ∧ frac ≤ U32_MAX) :
    ∃ d, fromSecondsInt ii frac = some d ∧ inI64 d ∧ (ii < 0 → d < 0) ∧ (0 ≤ ii → 0 ≤ d) ∧
      (I32_MIN ≤ ii ∧ ii ≤ I32_MAX → d = ii * 4294967296 + frac) := by
  rw [fromSecondsInt_eq ii frac hf]
  refine ⟨_, rfl, ?_⟩
  unfold inI64 I32_MIN I32_MAX I64_MIN I64_MAX U32_MAX at *
  repeat' split
  all_goals omega

/-- The fraction word never carries into the seconds field: for an integer part that fits `i32` the
    result lies in the second `[ii, ii+1)`.  (A scale factor that lets the fraction word reach 2³² — e.g.
    `f * 2³²` with `f` rounded to 1.0 — violates the hypothesis `frac ≤ u32::MAX`, and then the result is a
    whole second off: see the example below.) -/
theorem from_seconds_within_second (ii frac : Int) (hf : 0 ≤ frac ∧ frac ≤ U32_MAX)
    (hi : I32_MIN ≤ ii ∧ ii ≤ I32_MAX) :
    ∃ d, fromSecondsInt ii frac = some d ∧ ii * 4294967296 ≤ d ∧ d < (ii + 1) * 4294967296 := by
  obtain ⟨d, hd, _, _, _, he⟩ := from_seconds_sign ii frac hf
  refine ⟨d, hd, ?_⟩
  have := he hi
  unfold U32_MAX at hf
  omega

/-- what goes wrong without that hypothesis: a fraction word of 2³² next to the integer part −1
    (`−1e-17 s` under a `2³²` scale) gives −1 s instead of ≈ 0 -/
example : fromSecondsInt (-1) 4294967296 = some (-4294967296) := by decide

/-- Error bound of the integer core against the exact value.  Let the seconds value be the rational
    `x = ii + n/D` (`0 ≤ n < D`) and let the fraction word be the truncation of `(n/D)·(2³²−1)`
    (`frac·D ≤ n·(2³²−1) < (frac+1)·D`).  Then the result `d` satisfies `−2 < d − x·2³² ≤ 0`
    (stated multiplied by `D`): it is never above and less than two units (2⁻³¹ s) below the exact value. -/
theorem from_seconds_error_bound (ii frac n D : Int) (hi : I32_MIN ≤ ii ∧ ii ≤ I32_MAX)
    (hn : 0 ≤ n ∧ n < D) (hlo : frac * D ≤ n * 4294967295) (hhi : n * 4294967295 < (frac + 1) * D) :
    ∃ d, fromSecondsInt ii frac = some d ∧
      -2 * D < (d - ii * 4294967296) * D - n * 4294967296 ∧
      (d - ii * 4294967296) * D - n * 4294967296 ≤ 0 := by
  have hD : 0 < D := by omega
  have hf0 : 0 ≤ frac := by
    apply Classical.byContradiction; intro hneg
    have h1 : frac + 1 ≤ 0 := by omega
    have h2 : (frac + 1) * D ≤ 0 := Int.mul_nonpos_of_nonpos_of_nonneg h1 (by omega)
    omega
  have hf1 : frac ≤ U32_MAX := by
    unfold U32_MAX
    apply Classical.byContradiction; intro hbig
    have h1 : 4294967296 ≤ frac := by omega
    have h2 : 4294967296 * D ≤ frac * D := Int.mul_le_mul_of_nonneg_right h1 (by omega)
    omega
  obtain ⟨d, hd, _, _, _, he⟩ := from_seconds_sign ii frac ⟨hf0, hf1⟩
  refine ⟨d, hd, ?_⟩
  have hde : d - ii * 4294967296 = frac := by have := he hi; omega
  rw [hde, Int.add_mul] at *
  omega

example : fromSecondsInt (-1) 4294967295 = some (-1) ∧ fromSecondsInt 1 2147483647 = some 6442450943 ∧
    fromSecondsInt 2147483648 0 = some I64_MAX ∧ fromSecondsInt (-2147483649) 5 = some I64_MIN := by decide

/-- The facts about the hardware operations `floor`, `as i64`, `−`, `*` that sign preservation rests on
    (they are uninterpreted in the model).  The harness checks exactly these on every `from_seconds`
    input it generates (oracle clause `hw_floor_spec`). -/
structure HwFloor (x : F64) : Prop where
  neg : F64.lt x F64.zero = true → secInt x < 0
  nonneg : F64.lt x F64.zero = false → 0 ≤ secInt x
  frac : 0 ≤ secFrac x ∧ secFrac x ≤ U32_MAX

/-- `from_seconds` preserves sign: negative seconds give a negative duration, non-negative seconds a
    non-negative one (so `sign(seconds) · sign(duration) ≥ 0`). -/
theorem from_seconds_preserves_sign (x : F64) (hn : x.isNaN = false) (hi : x.isInf = false)
    (hw : HwFloor x) :
    ∃ d, fromSeconds x = some d ∧ (F64.lt x F64.zero = true → d < 0) ∧
      (F64.lt x F64.zero = false → 0 ≤ d) := by
  obtain ⟨d, hd, _, hneg, hpos, _⟩ := from_seconds_sign (secInt x) (secFrac x) hw.frac
  refine ⟨d, ?_, fun h => hneg (hw.neg h), fun h => hpos (hw.nonneg h)⟩
  unfold fromSeconds; simp only [hn, hi, Bool.or_self, Bool.false_eq_true, if_false]; exact hd

/-- IDEALISED round trip (exact rational arithmetic, no rounding: `to_seconds d = d / (2³²−1)` exactly,
    `floor` and the product exact): the result differs from `d` by at most `10⁻⁹·|d| + 1` units — in fact
    by `|d div (2³²−1)|`, the `/ (2³²−1)` versus `<< 32` asymmetry (2.3·10⁻¹⁰ relative).  The binary64
    round trip of the real code adds rounding errors and is monitored by the oracle instead. -/
theorem roundtrip_ideal_bound (d : Int) (h : inI64 d) :
    ∃ r, roundTripIdeal d = some r ∧ inI64 r ∧
      (r - d).natAbs * 1000000000 ≤ d.natAbs + 1000000000 ∧ (d < 0 → r < 0) ∧ (0 ≤ d → 0 ≤ r) := by
  unfold roundTripIdeal
  rw [fromSecondsInt_eq _ _ (by unfold U32_MAX; omega)]
  refine ⟨_, rfl, ?_⟩
  unfold inI64 I64_MIN I64_MAX I32_MIN I32_MAX at *
  repeat' split
  all_goals omega

example : roundTripIdeal 4294967295 = some 4294967296 ∧ roundTripIdeal I64_MAX = some I64_MAX ∧
    roundTripIdeal I64_MIN = some I64_MIN ∧ roundTripIdeal (-5) = some (-6) := by decide

/-- the F-C32b witness: the idealised round trip is off by one (the real one by two, −615848752) -/
example : roundTripIdeal (-615848750) = some (-615848751) := by decide

/-! ### wire formats -/

/-- short format (16.16): a non-negative duration that fits encodes, and decodes to itself with the low
    16 bits cleared — within one unit (2¹⁶) of the format -/
theorem short_roundtrip (d : Int) (h0 : 0 ≤ d) (h1 : d ≤ 0x0000FFFFFFFFFFFF) :
    ∃ u, toBitsShort d = some u ∧ 0 ≤ u ∧ u ≤ U32_MAX ∧ fromBitsShort u = d - d % 65536 ∧
      fromBitsShort u ≤ d ∧ d - fromBitsShort u < 65536 := by
  unfold toBitsShort fromBitsShort U32_MAX
  rw [if_neg (by omega), if_neg (by omega)]
  exact ⟨_, rfl, by omega⟩

theorem short_decode_encode (u : Int) (h : 0 ≤ u ∧ u ≤ U32_MAX) :
    toBitsShort (fromBitsShort u) = some u := by
  unfold toBitsShort fromBitsShort; unfold U32_MAX at h
  rw [if_neg (by omega), if_neg (by omega)]; congr 1; omega

/-- the encoder's `assert!` / `debug_assert!`: exactly the negative and the oversized durations -/
theorem short_none_iff (d : Int) : toBitsShort d = none ↔ (d < 0 ∨ d > 0x0000FFFFFFFFFFFF) := by
  unfold toBitsShort; repeat' split
  all_goals simp_all
  all_goals omega

example : toBitsShort 0x0000FFFFFFFFFFFF = some 4294967295 ∧ toBitsShort 65537 = some 1 ∧
    toBitsShort (-1) = none ∧ toBitsShort 0x1000000000000 = none := by decide

/-- time32 format (4.28): within one unit (2⁴) when it fits … -/
theorem time32_roundtrip (d : Int) (h0 : 0 ≤ d) (h1 : d < 68719476736) :
    ∃ u, toBitsTime32 d = some u ∧ 0 ≤ u ∧ u ≤ U32_MAX ∧ fromBitsTime32 u = d - d % 16 ∧
      fromBitsTime32 u ≤ d ∧ d - fromBitsTime32 u < 16 := by
  unfold toBitsTime32 fromBitsTime32 U32_MAX
  rw [if_neg (by omega), if_neg (by omega)]
  exact ⟨_, rfl, by omega⟩

/-- … and saturation above -/
theorem time32_saturates (d : Int) (h : 68719476736 ≤ d) : toBitsTime32 d = some U32_MAX := by
  unfold toBitsTime32 U32_MAX
  rw [if_neg (by omega), if_pos (by omega)]

theorem time32_decode_encode (u : Int) (h : 0 ≤ u ∧ u ≤ U32_MAX) :
    toBitsTime32 (fromBitsTime32 u) = some u := by
  unfold toBitsTime32 fromBitsTime32; unfold U32_MAX at h ⊢
  rw [if_neg (by omega), if_neg (by omega)]; congr 1; omega

theorem time32_none_iff (d : Int) : toBitsTime32 d = none ↔ d < 0 := by
  unfold toBitsTime32; split <;> simp_all

example : toBitsTime32 68719476735 = some 4294967295 ∧ toBitsTime32 68719476736 = some 4294967295 ∧
    toBitsTime32 33 = some 2 ∧ toBitsTime32 (-1) = none := by decide

/-! ### PollInterval -/

theorem poll_inc_dec (p l : Int) (hp : inI8 p) (hl : inI8 l) :
    (inI8 (pollInc p l) ∧ pollInc p l ≤ l ∧ (p < l → pollInc p l = p + 1) ∧ (l ≤ p → pollInc p l = l)) ∧
    (inI8 (pollDec p l) ∧ l ≤ pollDec p l ∧ (l < p → pollDec p l = p - 1) ∧ (p ≤ l → pollDec p l = l)) ∧
    (inI8 (pollForceInc p) ∧ (p < 127 → pollForceInc p = p + 1) ∧ (p = 127 → pollForceInc p = 127)) := by
  unfold inI8 at *
  unfold pollInc pollDec pollForceInc satI8 clampInt
  repeat' split
  all_goals omega

example : pollInc 127 127 = 127 ∧ pollDec (-128) (-128) = -128 ∧ pollInc 4 10 = 5 ∧ pollInc 10 10 = 10 ∧
    pollDec 4 4 = 4 := by decide

/-- `as_duration` is 2^(p+32) units (= 2^p s) for −32 ≤ p ≤ 30 and clamps to [1, 2⁶²] outside -/
theorem poll_as_duration (p : Int) (hp : inI8 p) :
    1 ≤ pollAsDuration p ∧ pollAsDuration p ≤ 2 ^ 62 ∧
      (-32 ≤ p ∧ p ≤ 30 → pollAsDuration p = 2 ^ (p + 32).toNat) := by
  unfold inI8 at hp
  have hle : (clampInt 0 62 (satI8 (p + 32))).toNat ≤ 62 := by
    unfold clampInt satI8 clampInt; repeat' split
    all_goals omega
  refine ⟨(pow2_bounds _ _ hle).1, (pow2_bounds _ _ hle).2, ?_⟩
  intro h
  have : clampInt 0 62 (satI8 (p + 32)) = p + 32 := by
    unfold clampInt satI8 clampInt; repeat' split
    all_goals omega
  unfold pollAsDuration; rw [this]

example : pollAsDuration 4 = 68719476736 ∧ pollAsDuration (-128) = 1 ∧ pollAsDuration 127 = 2 ^ 62 := by decide

/-- a longer poll interval is never a shorter duration (also across the clamps) -/
theorem poll_as_duration_mono (p q : Int) (h : p ≤ q) : pollAsDuration p ≤ pollAsDuration q := by
  unfold pollAsDuration
  apply (pow2_bounds _ _ ?_).2
  unfold clampInt satI8 clampInt; (repeat' split) <;> omega

/-- the wire byte of a poll interval decodes to the same interval, and every byte is some interval's byte -/
theorem poll_byte_roundtrip (p b : Int) :
    (inI8 p → pollFromByte (pollAsByte p) = p) ∧
      (0 ≤ b ∧ b ≤ 255 → inI8 (pollFromByte b) ∧ pollAsByte (pollFromByte b) = b) := by
  unfold inI8 pollFromByte pollAsByte
  refine ⟨?_, ?_⟩ <;> intro h <;> (repeat' split) <;> omega

/-- inc and dec are monotone in the interval and inverse to each other strictly inside the limits -/
theorem poll_inc_dec_inverse (p lmin lmax : Int) (hp : inI8 p) (h1 : lmin < p) (h2 : p < lmax) (hl : inI8 lmax)
    (hm : inI8 lmin) : pollDec (pollInc p lmax) lmin = p ∧ pollInc (pollDec p lmin) lmax = p := by
  unfold inI8 at *
  unfold pollInc pollDec satI8 clampInt
  refine ⟨?_, ?_⟩ <;> (repeat' split) <;> omega

example : pollFromByte (pollAsByte (-3)) = -3 ∧ pollAsByte (-3) = 253 ∧ pollAsDuration 3 ≤ pollAsDuration 4 := by decide

/-! ### misc NtpDuration: as_seconds_nanos, from_exponent, log2 -/

/-- `as_seconds_nanos` is the floor decomposition of the duration into whole seconds and nanoseconds:
    `s·10⁹ + n ≤ d·10⁹/2³² < s·10⁹ + n + 1` with `0 ≤ n < 10⁹`, whenever the seconds fit `i32`
    (they always do for an `i64` duration) -/
theorem as_seconds_nanos_floor (d : Int) (h : inI64 d) :
    let (s, n) := asSecondsNanos d
    0 ≤ n ∧ n < 1000000000 ∧ I32_MIN ≤ s ∧ s ≤ I32_MAX ∧
      (s * 1000000000 + n) * 4294967296 ≤ d * 1000000000 ∧
      d * 1000000000 < (s * 1000000000 + n + 1) * 4294967296 := by
  unfold inI64 I64_MIN I64_MAX at h
  unfold asSecondsNanos wrapS32 wrapU32 I32_MIN I32_MAX
  have hm : 0 ≤ d % 4294967296 ∧ d % 4294967296 < 4294967296 := by omega
  have hf : d % 4294967296 * 1000000000 / 4294967296 < 1000000000 :=
    Int.ediv_lt_of_lt_mul (by decide) (by omega)
  have hf0 : 0 ≤ d % 4294967296 * 1000000000 / 4294967296 := Int.ediv_nonneg (by omega) (by decide)
  rw [Int.emod_eq_of_lt hf0 (by omega : d % 4294967296 * 1000000000 / 4294967296 < 4294967296)]
  have hq := Int.mul_ediv_add_emod (d % 4294967296 * 1000000000) 4294967296
  have hr : 0 ≤ d % 4294967296 * 1000000000 % 4294967296 ∧
      d % 4294967296 * 1000000000 % 4294967296 < 4294967296 := by omega
  generalize d % 4294967296 * 1000000000 / 4294967296 = n at *
  generalize d % 4294967296 * 1000000000 % 4294967296 = r at *
  have hd := Int.mul_ediv_add_emod d 4294967296
  have hb : -2147483648 ≤ d / 4294967296 ∧ d / 4294967296 ≤ 2147483647 := by omega
  generalize d % 4294967296 = m at *
  generalize d / 4294967296 = b at *
  have hs : (if b % 4294967296 ≥ 2147483648 then b % 4294967296 - 4294967296 else b % 4294967296) = b := by
    split <;> omega
  simp only
  rw [hs]
  refine ⟨by omega, by omega, by omega, by omega, ?_, ?_⟩ <;> subst hd <;> omega

example : asSecondsNanos (-1) = (-1, 999999999) ∧ asSecondsNanos 6442450944 = (1, 500000000) := by decide

theorem from_exponent_table : ∀ n : Fin 63,
    log2 (fromExponent ((n.val : Int) - 32)) = (n.val : Int) - 32 ∧
      fromExponent ((n.val : Int) - 32) = 2 ^ n.val := by decide +kernel

/-- `from_exponent e` is 2^e seconds (2^(e+32) units) for −32 ≤ e ≤ 30, `log2` inverts it there, and outside
    that range it clamps to 0 / `i64::MAX` -/
theorem from_exponent_log2 (e : Int) :
    (-32 ≤ e ∧ e ≤ 30 → fromExponent e = 2 ^ (e + 32).toNat ∧ log2 (fromExponent e) = e) ∧
      (e < -32 → fromExponent e = 0) ∧ (30 < e → fromExponent e = I64_MAX) := by
  refine ⟨?_, ?_, ?_⟩
  · intro h
    have hn : (e + 32).toNat < 63 := by omega
    have := from_exponent_table ⟨(e + 32).toNat, hn⟩
    have he : (((e + 32).toNat : Nat) : Int) - 32 = e := by omega
    simp only [he] at this
    exact ⟨this.2, this.1⟩
  · intro h; unfold fromExponent; (repeat' split) <;> omega
  · intro h; unfold fromExponent; (repeat' split) <;> omega

/-! ### statime-base: the same laws on 128 bits -/

def Saturates128 (exact result : Int) : Prop :=
  inI128 result ∧ (inI128 exact → result = exact) ∧ (exact > I128_MAX → result = I128_MAX) ∧
    (exact < I128_MIN → result = I128_MIN)

theorem pt_sub_shortest (a b : Int) :
    inI128 (ptSub a b) ∧ (∃ k : Int, ptSub a b = a - b + k * TWO128) ∧
      ∀ k : Int, (ptSub a b).natAbs ≤ (a - b + k * TWO128).natAbs := by
  unfold inI128 I128_MIN I128_MAX TWO128
  refine ⟨?_, ?_, ?_⟩
  · unfold ptSub wrapS128; simp only; split <;> omega
  · unfold ptSub wrapS128; simp only; split
    · exact ⟨-((a - b) / 340282366920938463463374607431768211456) - 1, by omega⟩
    · exact ⟨-((a - b) / 340282366920938463463374607431768211456), by omega⟩
  · intro k; unfold ptSub wrapS128; simp only; split <;> omega

theorem pt_sub_add_back (a b : Int) (ha : 0 ≤ a ∧ a < TWO128) : ptAddDur b (ptSub a b) = a := by
  unfold TWO128 at ha
  unfold ptAddDur ptSub wrapS128 wrapU128; simp only; split <;> omega

theorem pt_add_sub_cancel (a d : Int) (ha : 0 ≤ a ∧ a < TWO128) :
    ptSubDur (ptAddDur a d) d = a ∧ ptAddDur (ptSubDur a d) d = a ∧
      (inI128 d → ptSub (ptAddDur a d) a = d) := by
  unfold TWO128 at ha
  unfold inI128 I128_MIN I128_MAX ptAddDur ptSubDur ptSub wrapS128 wrapU128
  refine ⟨by omega, by omega, ?_⟩
  intro hd; simp only; split <;> omega

example : ptSub 1 340282366920938463463374607431768211455 = 2 ∧
    ptAddDur 340282366920938463463374607431768211455 2 = 1 := by decide

theorem pd_saturates (a b k : Int) :
    Saturates128 (a + b) (pdAdd a b) ∧ Saturates128 (a - b) (pdSub a b) ∧ Saturates128 (a * k) (pdMul a k) ∧
      (k ≠ 0 → ∃ r, pdDiv a k = some r ∧ Saturates128 (Int.tdiv a k) r) ∧ (pdDiv a k = none ↔ k = 0) := by
  refine ⟨satI128_spec _, satI128_spec _, satI128_spec _, ?_, ?_⟩
  · intro hk; unfold pdDiv; rw [if_neg hk]; exact ⟨_, rfl, satI128_spec _⟩
  · unfold pdDiv; split <;> simp_all

theorem pd_div_exact (d k : Int) (hd : inI128 d) (hk : k ≠ 0) :
    pdDiv d k = some (if d = I128_MIN ∧ k = -1 then I128_MAX else Int.tdiv d k) := by
  unfold pdDiv; rw [if_neg hk]
  split
  · rename_i h; rw [h.1, h.2]; decide
  · rename_i h; rw [(satI128_spec _).2.1 (tdiv_inI128 d k hd hk h)]

example : pdAdd I128_MAX 1 = I128_MAX ∧ pdSub I128_MIN 1 = I128_MIN ∧ pdMul I128_MIN (-1) = I128_MAX ∧
    pdDiv I128_MIN (-1) = some I128_MAX ∧ pdDiv (-7) 2 = some (-3) ∧ pdDiv 1 0 = none := by decide

/-! ### order and algebra laws (consequences the daemon relies on when it compares and accumulates times) -/

/-- a timestamp is at distance 0 from itself, across any number of eras -/
theorem ts_sub_self (a k : Int) : tsSub (a + k * 18446744073709551616) a = 0 := by
  unfold tsSub wrapS64; simp only; split <;> omega

/-- swapping the operands negates the difference, except at the era midpoint (distance exactly 2⁶³),
    where both orders give `i64::MIN` — the one place where "before" is ambiguous -/
theorem ts_sub_antisymm (a b : Int) :
    (tsSub a b ≠ I64_MIN → tsSub b a = - tsSub a b) ∧ (tsSub a b = I64_MIN → tsSub b a = I64_MIN) := by
  unfold tsSub wrapS64 I64_MIN; simp only
  refine ⟨?_, ?_⟩ <;> intro h <;> (repeat' split) <;> omega

/-- `is_before` is asymmetric: two timestamps are never each before the other, unless they are exactly
    half an era apart -/
theorem ts_before_asymm (a b : Int) (h : tsSub a b ≠ I64_MIN) :
    ¬ (isBefore a b = true ∧ isBefore b a = true) := by
  have := (ts_sub_antisymm a b).1 h
  unfold isBefore; simp only [decide_eq_true_eq]; omega

/-- … and at the midpoint both directions claim "before" (documented ambiguity of wrapping time) -/
example : isBefore 0 9223372036854775808 = true ∧ isBefore 9223372036854775808 0 = true := by decide

/-- adding durations one after the other is adding their exact sum (wrapping addition is a group action),
    so no order of corrections can lose an era -/
theorem ts_add_add (a d e : Int) :
    tsAddDur (tsAddDur a d) e = tsAddDur a (d + e) ∧ tsSubDur a d = tsAddDur a (-d) := by
  unfold tsAddDur tsSubDur wrapU64; omega

/-- the wire value of `x + d` is the wire value of `x` advanced by `d` -/
theorem ts_add_wire (x d : Int) : tsAddDur (wrapU64 x) d = wrapU64 (x + d) := by
  unfold tsAddDur wrapU64; omega

/-- saturating addition is commutative and monotone in each argument; `abs` and `abs_diff` are never
    negative and `abs_diff` is symmetric except that i64::MIN is not mirrored -/
theorem dur_add_comm_mono (a a' b : Int) :
    durAdd a b = durAdd b a ∧ (a ≤ a' → durAdd a b ≤ durAdd a' b) ∧ (a ≤ a' → durSub a b ≤ durSub a' b) ∧
      (a ≤ a' → durSub b a' ≤ durSub b a) := by
  unfold durAdd durSub satI64 clampInt I64_MIN I64_MAX
  refine ⟨?_, ?_, ?_, ?_⟩
  · rw [Int.add_comm]
  all_goals (intro h; (repeat' split) <;> omega)

theorem dur_abs_nonneg (d a b : Int) :
    0 ≤ durAbs d ∧ 0 ≤ durAbsDiff a b ∧ (durAbs d = 0 ↔ d = 0) ∧ durAbsDiff a b = durAbsDiff b a := by
  unfold durAbsDiff durAbs durSub satI64 clampInt I64_MIN I64_MAX
  refine ⟨?_, ?_, ?_, ?_⟩
  · (repeat' split) <;> omega
  · (repeat' split) <;> omega
  · constructor <;> intro h
    · revert h; (repeat' split) <;> omega
    · subst h; decide
  · (repeat' split) <;> omega

example : durAbsDiff I64_MIN I64_MAX = I64_MAX ∧ durAbsDiff I64_MAX I64_MIN = I64_MAX ∧
    durAbs I64_MIN = I64_MAX ∧ durAdd 3 (-5) = -2 := by decide

/-- monotone scaling: a non-negative scalar keeps the order of durations, also under saturation -/
theorem dur_mul_mono (d d' k : Int) (hk : 0 ≤ k) (h : d ≤ d') : durMul d k ≤ durMul d' k := by
  have hm : d * k ≤ d' * k := Int.mul_le_mul_of_nonneg_right h hk
  unfold durMul satI64 clampInt I64_MIN I64_MAX
  (repeat' split) <;> omega

/-- the order/algebra laws hold on the 128-bit PTP types too -/
theorem pt_sub_antisymm (a b : Int) :
    (ptSub a b ≠ I128_MIN → ptSub b a = - ptSub a b) ∧ (ptSub a b = I128_MIN → ptSub b a = I128_MIN) := by
  unfold ptSub wrapS128 I128_MIN; simp only
  refine ⟨?_, ?_⟩ <;> intro h <;> (repeat' split) <;> omega

theorem pt_add_add (a d e : Int) :
    ptAddDur (ptAddDur a d) e = ptAddDur a (d + e) ∧ ptSubDur a d = ptAddDur a (-d) ∧
      ptSub (a + d * TWO128) a = 0 := by
  unfold ptAddDur ptSubDur ptSub wrapS128 wrapU128 TWO128
  refine ⟨by omega, by omega, ?_⟩
  simp only; split <;> omega

theorem pd_add_comm_mono (a a' b : Int) :
    pdAdd a b = pdAdd b a ∧ (a ≤ a' → pdAdd a b ≤ pdAdd a' b) ∧ (a ≤ a' → pdSub a b ≤ pdSub a' b) := by
  unfold pdAdd pdSub satI128 clampInt I128_MIN I128_MAX
  refine ⟨?_, ?_, ?_⟩
  · rw [Int.add_comm]
  all_goals (intro h; (repeat' split) <;> omega)

end NtpVerif.C32

#print axioms NtpVerif.C32.ts_sub_shortest
#print axioms NtpVerif.C32.ts_era_safe
#print axioms NtpVerif.C32.ts_sub_add_back
#print axioms NtpVerif.C32.ts_add_sub_cancel
#print axioms NtpVerif.C32.ts_sub_of_add
#print axioms NtpVerif.C32.ts_is_before
#print axioms NtpVerif.C32.dur_add_saturates
#print axioms NtpVerif.C32.dur_sub_saturates
#print axioms NtpVerif.C32.dur_mul_saturates
#print axioms NtpVerif.C32.dur_neg_saturates
#print axioms NtpVerif.C32.dur_abs_saturates
#print axioms NtpVerif.C32.dur_absdiff_saturates
#print axioms NtpVerif.C32.dur_div_saturates
#print axioms NtpVerif.C32.dur_div_exact
#print axioms NtpVerif.C32.dur_div_none_iff
#print axioms NtpVerif.C32.dur_never_panics
#print axioms NtpVerif.C32.unfixed_counterexample
#print axioms NtpVerif.C32.fix_is_conservative
#print axioms NtpVerif.C32.from_seconds_never_panics
#print axioms NtpVerif.C32.from_seconds_none_iff
#print axioms NtpVerif.C32.from_seconds_saturates
#print axioms NtpVerif.C32.from_seconds_sign
#print axioms NtpVerif.C32.from_seconds_within_second
#print axioms NtpVerif.C32.from_seconds_error_bound
#print axioms NtpVerif.C32.from_seconds_preserves_sign
#print axioms NtpVerif.C32.roundtrip_ideal_bound
#print axioms NtpVerif.C32.short_roundtrip
#print axioms NtpVerif.C32.short_decode_encode
#print axioms NtpVerif.C32.short_none_iff
#print axioms NtpVerif.C32.time32_roundtrip
#print axioms NtpVerif.C32.time32_saturates
#print axioms NtpVerif.C32.time32_decode_encode
#print axioms NtpVerif.C32.time32_none_iff
#print axioms NtpVerif.C32.poll_inc_dec
#print axioms NtpVerif.C32.poll_as_duration
#print axioms NtpVerif.C32.pt_sub_shortest
#print axioms NtpVerif.C32.pt_sub_add_back
#print axioms NtpVerif.C32.pt_add_sub_cancel
#print axioms NtpVerif.C32.pd_saturates
#print axioms NtpVerif.C32.pd_div_exact
#print axioms NtpVerif.C32.ts_sub_self
#print axioms NtpVerif.C32.ts_sub_antisymm
#print axioms NtpVerif.C32.ts_before_asymm
#print axioms NtpVerif.C32.ts_add_add
#print axioms NtpVerif.C32.ts_add_wire
#print axioms NtpVerif.C32.dur_add_comm_mono
#print axioms NtpVerif.C32.dur_abs_nonneg
#print axioms NtpVerif.C32.dur_mul_mono
#print axioms NtpVerif.C32.pt_sub_antisymm
#print axioms NtpVerif.C32.pt_add_add
#print axioms NtpVerif.C32.pd_add_comm_mono
#print axioms NtpVerif.C32.poll_as_duration_mono
#print axioms NtpVerif.C32.poll_byte_roundtrip
#print axioms NtpVerif.C32.poll_inc_dec_inverse
#print axioms NtpVerif.C32.as_seconds_nanos_floor
#print axioms NtpVerif.C32.from_exponent_log2
