/-
C20 — rate limiting answers to the client's own request rate.

Model: `NtpVerif.Model.RateCache` (`TimestampedCache::is_allowed`, and the arm order of
`Server::intended_action`).  The hash `RandomState::hash_one` is an ARBITRARY function
`hash : α → Nat` (every theorem is for all of them), instants are nanosecond counts, the history is an
arbitrary list of requests `(address, arrival time, in deny list?, in allow list?)` — arrival times
need not even be monotone (`Instant::duration_since` saturates, so does `Nat` subtraction).

Property sentence                                               theorem
 "a client that passed the access lists less than the cutoff     limited_if_recent_undisturbed
  ago from the same address, with no other address using the
  same cache slot in between, gets no answer"
 "a client is never rate-limited unless its own previous         limited_only_if_own_recent
  request that passed the access lists was within the cutoff"      (+ limited_iff_last_writer: the exact iff)
 "With the cache size set to zero no client is ever limited"     size_zero_never
 (DESIGN) one call: limited ⇔ slot holds (a, t₀), t − t₀ < cutoff  limited_iff
 (DESIGN) slot content = last list-passing request of that slot  slot_is_last_writer
 requests stopped by a list never touch the cache                 blocked_leaves_cache
 the index expression never goes out of bounds                    never_panics
-/
import NtpVerif.Proofs.RateCache

namespace NtpVerif.C20
open NtpVerif.RateCache

variable {α : Type} [DecidableEq α]

/-- one datagram as `intended_action` sees it -/
structure Req (α : Type) where
  addr : α
  time : Nat
  inDeny : Bool
  inAllow : Bool
deriving Repr

/-- the request passed the deny list and the allow list -/
def Req.passes (r : Req α) : Bool := !r.inDeny && r.inAllow

def step (hash : α → Nat) (cutoff : Nat) (c : Cache α) (r : Req α) : Cache α × Verdict :=
  intended c r.inDeny r.inAllow (hash r.addr) r.addr r.time cutoff

def run (hash : α → Nat) (cutoff : Nat) (c : Cache α) : List (Req α) → Cache α × List Verdict
  | [] => (c, [])
  | r :: rs =>
    let (c', v) := step hash cutoff c r
    let (c'', vs) := run hash cutoff c' rs
    (c'', v :: vs)

/-- the cache of size `n` after the history `ops` -/
def after (hash : α → Nat) (cutoff n : Nat) (ops : List (Req α)) : Cache α :=
  (run hash cutoff (Cache.new n) ops).1

/-- the verdict for `r` arriving after the history `ops` -/
def verdict (hash : α → Nat) (cutoff n : Nat) (ops : List (Req α)) (r : Req α) : Verdict :=
  (step hash cutoff (after hash cutoff n ops) r).2

/-- the slot a request's address maps to -/
def slotOf (hash : α → Nat) (n : Nat) (r : Req α) : Nat := hash r.addr % n

/-- the last request of the history that passed both lists and maps to slot `i` -/
def lastWriter (hash : α → Nat) (n : Nat) (ops : List (Req α)) (i : Nat) : Option (α × Nat) :=
  ((ops.filter fun r => r.passes && slotOf hash n r == i).getLast?).map fun r => (r.addr, r.time)

/-! #### single call -/

/-- **C20.limited_iff** — one call of `is_allowed` on a non-empty cache refuses exactly when the slot
    holds the same address with a timestamp less than `cutoff` before `t`. -/
theorem limited_iff (c : Cache α) (h : Nat) (a : α) (t cutoff : Nat) (hne : c.slots ≠ []) :
    (isAllowed c h a t cutoff).2 = .limited ↔
      ∃ t0, c.slots[h % c.slots.length]? = some (some (a, t0)) ∧ t - t0 < cutoff := by
  rw [isAllowed_out c h a t cutoff hne]
  constructor
  · intro hl
    split at hl
    · rename_i v t0 heq
      split at hl
      · rename_i hc
        exact ⟨t0, by rw [heq, hc.1], hc.2⟩
      · cases hl
    · cases hl
  · rintro ⟨t0, hs, hk⟩
    rw [hs]
    simp [hk]

/-- **C20.never_panics** — the slot index is always in range. -/
theorem never_panics (c : Cache α) (h : Nat) (a : α) (t cutoff : Nat) :
    (isAllowed c h a t cutoff).2 ≠ .panic := by
  by_cases hne : c.slots = []
  · rw [isAllowed_empty c h a t cutoff hne]; simp
  · rw [isAllowed_out c h a t cutoff hne]
    split
    · split <;> simp
    · simp

/-! #### histories -/

theorem step_not_passes (hash : α → Nat) (k : Nat) (c : Cache α) (r : Req α) (h : r.passes = false) :
    (step hash k c r).1 = c ∧ (step hash k c r).2 ≠ .rateLimit := by
  unfold step intended
  unfold Req.passes at h
  cases hd : r.inDeny <;> cases ha : r.inAllow <;> simp_all

theorem step_passes (hash : α → Nat) (k : Nat) (c : Cache α) (r : Req α) (h : r.passes = true) :
    (step hash k c r).1 = (isAllowed c (hash r.addr) r.addr r.time k).1 ∧
    ((step hash k c r).2 = .rateLimit ↔ (isAllowed c (hash r.addr) r.addr r.time k).2 = .limited) := by
  unfold step intended
  unfold Req.passes at h
  cases hd : r.inDeny <;> cases ha : r.inAllow <;> simp_all
  rcases hx : isAllowed c (hash r.addr) r.addr r.time k with ⟨c', o⟩
  cases o <;> simp

/-- **C20.blocked_leaves_cache** — a request stopped by the deny list or not on the allow list neither
    reads nor writes the cache, and is never answered with `RateLimit`. -/
theorem blocked_leaves_cache (hash : α → Nat) (k : Nat) (c : Cache α) (r : Req α)
    (h : r.passes = false) :
    (step hash k c r).1 = c ∧ (step hash k c r).2 ≠ .rateLimit := step_not_passes hash k c r h

theorem step_length (hash : α → Nat) (k : Nat) (c : Cache α) (r : Req α) :
    (step hash k c r).1.slots.length = c.slots.length := by
  cases h : r.passes
  · rw [(step_not_passes hash k c r h).1]
  · rw [(step_passes hash k c r h).1, isAllowed_length]

omit [DecidableEq α] in
theorem lastWriter_cons (hash : α → Nat) (n : Nat) (r : Req α) (ops : List (Req α)) (i : Nat) :
    lastWriter hash n (r :: ops) i =
      if (r.passes && slotOf hash n r == i) = true then
        some ((lastWriter hash n ops i).getD (r.addr, r.time))
      else lastWriter hash n ops i := by
  unfold lastWriter
  rw [List.filter_cons]
  split
  · rw [List.getLast?_cons]
    cases (List.filter (fun r => r.passes && slotOf hash n r == i) ops).getLast? <;> rfl
  · rfl

/-- slot content after a history, from an arbitrary starting cache -/
theorem run_slots (hash : α → Nat) (k n : Nat) (ops : List (Req α)) (c : Cache α)
    (hlen : c.slots.length = n) (i : Nat) (hi : i < n) :
    (run hash k c ops).1.slots[i]? =
      some ((lastWriter hash n ops i).or (c.slots[i]?).join) := by
  induction ops generalizing c with
  | nil =>
    simp only [run, lastWriter, List.filter_nil, List.getLast?_nil, Option.map_none, Option.none_or]
    rw [List.getElem?_eq_getElem (by omega)]
    rfl
  | cons r ops ih =>
    simp only [run]
    rw [ih (step hash k c r).1 (by rw [step_length, hlen]), lastWriter_cons]
    congr 1
    have hne : c.slots ≠ [] := by
      intro he; rw [he] at hlen; simp at hlen; omega
    cases hp : r.passes
    · rw [(step_not_passes hash k c r hp).1]
      simp
    · rw [(step_passes hash k c r hp).1, isAllowed_slots c _ _ _ _ hne, hlen]
      simp only [Bool.true_and, beq_iff_eq, slotOf]
      by_cases hs : hash r.addr % n = i
      · subst hs
        rw [List.getElem?_set_self (by rw [hlen]; exact hi)]
        simp only [if_true, Option.join_some]
        cases lastWriter hash n ops (hash r.addr % n) <;> rfl
      · rw [List.getElem?_set_ne hs]
        simp [hs]

/-- **C20.slot_is_last_writer** — after every history, every slot holds exactly the address and
    arrival time of the last request that passed both lists and hashes to that slot (`none` if there
    was no such request). -/
theorem slot_is_last_writer (hash : α → Nat) (k n : Nat) (ops : List (Req α)) (i : Nat) (hi : i < n) :
    (after hash k n ops).slots[i]? = some (lastWriter hash n ops i) := by
  unfold after
  rw [run_slots hash k n ops (Cache.new n) (by simp [Cache.new]) i hi]
  simp [Cache.new, hi]

theorem after_length (hash : α → Nat) (k n : Nat) (ops : List (Req α)) :
    (after hash k n ops).slots.length = n := by
  unfold after
  generalize hc : Cache.new n = c
  have hl : c.slots.length = n := by rw [← hc]; simp [Cache.new]
  clear hc
  induction ops generalizing c with
  | nil => exact hl
  | cons r ops ih =>
    simp only [run]
    exact ih _ (by rw [step_length, hl])

/-- **C20.limited_iff_last_writer** — the exact condition, for every history, hash, size and cutoff:
    `r` is answered with `RateLimit` iff it passed both lists, the cache is enabled, and the last
    list-passing request that used `r`'s slot came from the same address less than `cutoff` earlier. -/
theorem limited_iff_last_writer (hash : α → Nat) (k n : Nat) (ops : List (Req α)) (r : Req α) :
    verdict hash k n ops r = .rateLimit ↔
      r.passes = true ∧ 0 < n ∧
        ∃ t0, lastWriter hash n ops (slotOf hash n r) = some (r.addr, t0) ∧ r.time - t0 < k := by
  unfold verdict
  cases hp : r.passes
  · have := (step_not_passes hash k (after hash k n ops) r hp).2
    simp [this]
  · rw [(step_passes hash k _ r hp).2]
    have hl := after_length hash k n ops
    by_cases hn : n = 0
    · subst hn
      have he : (after hash k 0 ops).slots = [] := List.length_eq_zero_iff.mp hl
      rw [isAllowed_empty _ _ _ _ _ he]
      simp
    · have hne : (after hash k n ops).slots ≠ [] := by
        intro he; rw [he] at hl; simp at hl; omega
      rw [limited_iff _ _ _ _ _ hne, hl,
        slot_is_last_writer hash k n ops _ (Nat.mod_lt _ (by omega))]
      simp only [slotOf, Option.some.injEq, true_and]
      constructor
      · rintro ⟨t0, h1, h2⟩; exact ⟨by omega, t0, h1, h2⟩
      · rintro ⟨_, t0, h1, h2⟩; exact ⟨t0, h1, h2⟩

omit [DecidableEq α] in
/-- the last writer of a slot, as a split of the history -/
theorem lastWriter_eq_some_iff (hash : α → Nat) (n : Nat) (ops : List (Req α)) (i : Nat) (w : α × Nat) :
    lastWriter hash n ops i = some w ↔
      ∃ pre q post, ops = pre ++ q :: post ∧ q.passes = true ∧ slotOf hash n q = i ∧
        (q.addr, q.time) = w ∧ ∀ p ∈ post, p.passes = true → slotOf hash n p ≠ i := by
  unfold lastWriter
  constructor
  · intro h
    rw [Option.map_eq_some_iff] at h
    obtain ⟨q, hq, hw⟩ := h
    rw [List.getLast?_eq_some_iff] at hq
    obtain ⟨ys, hys⟩ := hq
    rw [List.filter_eq_append_iff] at hys
    obtain ⟨l₁, l₂, hops, _, h2⟩ := hys
    rw [List.filter_eq_cons_iff] at h2
    obtain ⟨m₁, m₂, hl₂, _, hpq, hm₂⟩ := h2
    simp only [Bool.and_eq_true, beq_iff_eq] at hpq
    refine ⟨l₁ ++ m₁, q, m₂, by rw [hops, hl₂, List.append_assoc], hpq.1, hpq.2, hw, ?_⟩
    intro p hp hpp hs
    rw [List.filter_eq_nil_iff] at hm₂
    exact hm₂ p hp (by simp [hpp, hs])
  · rintro ⟨pre, q, post, rfl, hq, hs, hw, hpost⟩
    have hnil : List.filter (fun r => r.passes && slotOf hash n r == i) post = [] := by
      rw [List.filter_eq_nil_iff]
      intro p hp hc
      simp only [Bool.and_eq_true, beq_iff_eq] at hc
      exact hpost p hp hc.1 hc.2
    rw [List.filter_append, List.filter_cons]
    simp only [hq, hs, beq_self_eq_true, Bool.and_self, if_true, hnil]
    rw [List.getLast?_append]
    simp [hw]

/-- **C20.limited_only_if_own_recent** — a client is rate-limited ONLY IF its own previous request that
    passed the access lists (no list-passing request after it used the client's slot, in particular none
    from the client itself) arrived less than the cutoff earlier.  All histories, hashes, sizes, cutoffs. -/
theorem limited_only_if_own_recent (hash : α → Nat) (k n : Nat) (ops : List (Req α)) (r : Req α)
    (h : verdict hash k n ops r = .rateLimit) :
    r.passes = true ∧ 0 < n ∧
    ∃ pre q post, ops = pre ++ q :: post ∧ q.passes = true ∧ q.addr = r.addr ∧
      r.time - q.time < k ∧
      ∀ p ∈ post, p.passes = true → slotOf hash n p ≠ slotOf hash n r := by
  rw [limited_iff_last_writer] at h
  obtain ⟨hp, hn, t0, hw, hk⟩ := h
  rw [lastWriter_eq_some_iff] at hw
  obtain ⟨pre, q, post, hops, hq, _, hqw, hpost⟩ := hw
  simp only [Prod.mk.injEq] at hqw
  exact ⟨hp, hn, pre, q, post, hops, hq, hqw.1, by rw [hqw.2]; exact hk, hpost⟩

/-- **C20.limited_if_recent_undisturbed** — IF the client's previous list-passing request `q` came from
    the same address less than the cutoff ago, and no list-passing request in between used the same
    cache slot, and the cache is enabled, then the client gets `RateLimit` (no answer). -/
theorem limited_if_recent_undisturbed (hash : α → Nat) (k n : Nat) (pre post : List (Req α))
    (q r : Req α) (hn : 0 < n) (hq : q.passes = true) (hr : r.passes = true) (ha : q.addr = r.addr)
    (hk : r.time - q.time < k)
    (hpost : ∀ p ∈ post, p.passes = true → slotOf hash n p ≠ slotOf hash n r) :
    verdict hash k n (pre ++ q :: post) r = .rateLimit := by
  rw [limited_iff_last_writer]
  refine ⟨hr, hn, q.time, ?_, hk⟩
  rw [lastWriter_eq_some_iff]
  exact ⟨pre, q, post, rfl, hq, by simp [slotOf, ha], by rw [ha], hpost⟩

/-- **C20.size_zero_never** — with cache size zero no request of any history is rate-limited. -/
theorem size_zero_never (hash : α → Nat) (k : Nat) (ops : List (Req α)) (r : Req α) :
    verdict hash k 0 ops r ≠ .rateLimit := by
  intro h
  rw [limited_iff_last_writer] at h
  omega

/-- a zero cutoff never limits either (`duration >= 0` always holds) -/
theorem cutoff_zero_never (hash : α → Nat) (n : Nat) (ops : List (Req α)) (r : Req α) :
    verdict hash 0 n ops r ≠ .rateLimit := by
  intro h
  rw [limited_iff_last_writer] at h
  obtain ⟨_, _, _, _, h⟩ := h
  omega

/-- `verdict` is what `run` reports for the last request of a history -/
theorem run_append (hash : α → Nat) (k : Nat) (c : Cache α) (ops : List (Req α)) (r : Req α) :
    (run hash k c (ops ++ [r])).2 = (run hash k c ops).2 ++ [(step hash k (run hash k c ops).1 r).2] := by
  induction ops generalizing c with
  | nil => simp [run]
  | cons o ops ih => simp only [List.cons_append, run, ih]

/-! #### non-vacuity -/

/-- two addresses sharing the single slot of a size-1 cache: A, A (limited), B, A (not limited: B used the
    slot in between), A again 5 ns later (limited), then exactly at the cutoff (not limited) -/
example :
    (run (fun (a : Nat) => a) 10 (Cache.new 1)
      [⟨7, 0, false, true⟩, ⟨7, 3, false, true⟩, ⟨8, 4, false, true⟩, ⟨7, 5, false, true⟩,
       ⟨7, 10, false, true⟩, ⟨7, 20, false, true⟩]).2
    = [.provideTime, .rateLimit, .provideTime, .provideTime, .rateLimit, .provideTime] := by decide

/-- hypotheses of `limited_if_recent_undisturbed` met with a disturbing request in ANOTHER slot and a
    denied request from the same address in between -/
example : verdict (fun (a : Nat) => a) 10 2
    ([] ++ (⟨4, 0, false, true⟩ : Req Nat) :: [⟨5, 1, false, true⟩, ⟨4, 2, true, true⟩]) ⟨4, 9, false, true⟩
    = .rateLimit := by decide

/-- a request stopped by the allow list does not refresh the timestamp: 0, (12 blocked), 15 → allowed -/
example : verdict (fun (a : Nat) => a) 10 2
    [⟨4, 0, false, true⟩, ⟨4, 12, false, false⟩] ⟨4, 15, false, true⟩ = .provideTime := by decide

end NtpVerif.C20

#print axioms NtpVerif.C20.limited_iff
#print axioms NtpVerif.C20.never_panics
#print axioms NtpVerif.C20.blocked_leaves_cache
#print axioms NtpVerif.C20.slot_is_last_writer
#print axioms NtpVerif.C20.limited_iff_last_writer
#print axioms NtpVerif.C20.limited_only_if_own_recent
#print axioms NtpVerif.C20.limited_if_recent_undisturbed
#print axioms NtpVerif.C20.size_zero_never
#print axioms NtpVerif.C20.cutoff_zero_never
