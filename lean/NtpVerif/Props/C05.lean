/-
C05 — offset and delay follow the NTP on-wire formulas.

Model: `NtpVerif.Model.Time` (`twoWayStep` = `TwoWaySourceControllerWrapper::handle_measurement`,
`oneWayStep` = `OneWaySourceControllerWrapper::handle_measurement`, `measurementsFromPacket` =
`measurements_from_packet` of source.rs, on top of the wrapping `NtpTimestamp` subtraction and the
saturating `NtpDuration` arithmetic).

True times live on the `Int` timeline (units of 2⁻³² s since some era-0 origin); what is on the wire is
`wire t = t mod 2⁶⁴` (the era number is lost).  "The true differences are representable" = they lie in
the `i64` range.

  property sentence                                       theorem
  offset = ((T2-T1)+(T3-T4))/2, delay = (T4-T1)-(T3-T2),
    across era boundaries, when representable             twoway_formulas
  (rounding of the halving: truncation toward zero — the
   property text leaves it open; `Int.tdiv`)              twoway_formulas
  when the two combinations do not fit: saturated values  twoway_saturated
  (consequence: with true offset θ and path delays δ₁,δ₂,
   delay = δ₁+δ₂ exactly and |offset − θ| ≤ (δ₁+δ₂+1)/2,
   = θ on a symmetric path)                               twoway_error_bound
  T1..T4 = client send, server receive, server transmit,
    client receive timestamps                             extraction, exchange_from_packet
  for every exchange (any history of measurements before) exchange_delivers
  computing it never panics                               never_panics
  one-way sources: offset = remote − local                oneway_offset
  (the GPSd/SOCK composition remote = local − from_seconds(sample offset) is exercised end to end by the
   harness op `sock` with the implementation-only oracle clauses oneway_sock_offset / oneway_sock_sign; the
   accuracy of from_seconds itself is C32: from_seconds_within_second, from_seconds_error_bound)
-/
import NtpVerif.Proofs.Time

namespace NtpVerif.C05
open NtpVerif.Wrap NtpVerif.Time

/-- what is on the wire of a true time `t` -/
def wire (t : Int) : Int := wrapU64 t

/-- Two-way formulas, across era boundaries.  `t₁..t₄` are the true client-send, server-receive,
    server-transmit and client-receive times; each pairwise difference the code forms is representable
    and so are the two combinations.  The halving truncates toward zero. -/
theorem twoway_formulas (t1 t2 t3 t4 : Int)
    (h21 : inI64 (t2 - t1)) (h34 : inI64 (t3 - t4)) (h41 : inI64 (t4 - t1)) (h32 : inI64 (t3 - t2))
    (hs : inI64 ((t2 - t1) + (t3 - t4))) (hd : inI64 ((t4 - t1) - (t3 - t2))) :
    twoWayOffset (wire t1) (wire t2) (wire t3) (wire t4) = some (Int.tdiv ((t2 - t1) + (t3 - t4)) 2) ∧
    twoWayDelay (wire t1) (wire t2) (wire t3) (wire t4) = (t4 - t1) - (t3 - t2) := by
  unfold twoWayOffset twoWayDelay wire durAdd durSub
  rw [tsSub_wire _ _ h21, tsSub_wire _ _ h34, tsSub_wire _ _ h41, tsSub_wire _ _ h32]
  rw [satI64_id _ hs, satI64_id _ hd]
  exact ⟨durDiv2 _ hs, rfl⟩

example : twoWayOffset (wire (2^64 - 5)) (wire (2^64 + 3)) (wire (2^64 + 4)) (wire (2^64 + 1))
    = some 5 ∧ twoWayDelay (wire (2^64 - 5)) (wire (2^64 + 3)) (wire (2^64 + 4)) (wire (2^64 + 1)) = 5 := by
  decide
/-- the halving truncates toward zero: −3/2 = −1 -/
example : twoWayOffset 10 8 9 10 = some (-1) := by decide

/-- Without the hypothesis that the combinations fit, the results are the saturated values. -/
theorem twoway_saturated (t1 t2 t3 t4 : Int)
    (h21 : inI64 (t2 - t1)) (h34 : inI64 (t3 - t4)) (h41 : inI64 (t4 - t1)) (h32 : inI64 (t3 - t2)) :
    twoWayOffset (wire t1) (wire t2) (wire t3) (wire t4)
      = some (Int.tdiv (satI64 ((t2 - t1) + (t3 - t4))) 2) ∧
    twoWayDelay (wire t1) (wire t2) (wire t3) (wire t4) = satI64 ((t4 - t1) - (t3 - t2)) := by
  unfold twoWayOffset twoWayDelay wire durAdd durSub
  rw [tsSub_wire _ _ h21, tsSub_wire _ _ h34, tsSub_wire _ _ h41, tsSub_wire _ _ h32]
  exact ⟨durDiv2 _ (satI64_in _), rfl⟩

/-- saturation is reached: t₂−t₁ = t₃−t₄ = 2⁶³−1;  (t₄−t₁)−(t₃−t₂) = 2⁶³−1+2⁶² -/
example : twoWayOffset (wire 0) (wire (2^63 - 1)) (wire (2^63 - 1)) (wire 0) = some 4611686018427387903
    ∧ twoWayDelay (wire 0) (wire (2^62)) (wire 0) (wire (2^63 - 1)) = I64_MAX := by decide

theorem tdiv2_near (x : Int) : x - 1 ≤ 2 * Int.tdiv x 2 ∧ 2 * Int.tdiv x 2 ≤ x + 1 ∧ (x % 2 = 0 → 2 * Int.tdiv x 2 = x) := by
  by_cases h : x < 0
  · have h1 : Int.tdiv x 2 = -((-x) / 2) := by
      have : x = -(-x) := by omega
      rw [this, Int.neg_tdiv, Int.tdiv_eq_ediv_of_nonneg (by omega)]; simp
    rw [h1]; omega
  · rw [Int.tdiv_eq_ediv_of_nonneg (by omega)]; omega

/-- The classical NTP guarantee, on the code's own arithmetic and across era boundaries: if the server clock
    is ahead of the client clock by `θ`, the request takes `δ₁ ≥ 0`, the server holds it for `p`, and the
    answer takes `δ₂ ≥ 0`, then the reported delay is exactly `δ₁ + δ₂` and the reported offset is within
    half the delay (plus the half unit lost by the truncating halving) of `θ`, and exactly `θ` on a symmetric path. -/
theorem twoway_error_bound (t1 θ δ1 δ2 p : Int) (h1 : 0 ≤ δ1) (h2 : 0 ≤ δ2)
    (h21 : inI64 (δ1 + θ)) (h34 : inI64 (θ - δ2)) (h41 : inI64 (δ1 + p + δ2)) (h32 : inI64 p)
    (hs : inI64 (2 * θ + δ1 - δ2)) (hd : inI64 (δ1 + δ2)) :
    ∃ o, twoWayOffset (wire t1) (wire (t1 + δ1 + θ)) (wire (t1 + δ1 + θ + p)) (wire (t1 + δ1 + p + δ2)) = some o ∧
      twoWayDelay (wire t1) (wire (t1 + δ1 + θ)) (wire (t1 + δ1 + θ + p)) (wire (t1 + δ1 + p + δ2)) = δ1 + δ2 ∧
      2 * (o - θ).natAbs ≤ δ1 + δ2 + 1 ∧ (δ1 = δ2 → o = θ) := by
  have e1 : t1 + δ1 + θ - t1 = δ1 + θ := by omega
  have e2 : t1 + δ1 + θ + p - (t1 + δ1 + p + δ2) = θ - δ2 := by omega
  have e3 : t1 + δ1 + p + δ2 - t1 = δ1 + p + δ2 := by omega
  have e4 : t1 + δ1 + θ + p - (t1 + δ1 + θ) = p := by omega
  have hf := twoway_formulas t1 (t1 + δ1 + θ) (t1 + δ1 + θ + p) (t1 + δ1 + p + δ2)
    (by rw [e1]; exact h21) (by rw [e2]; exact h34) (by rw [e3]; exact h41) (by rw [e4]; exact h32)
    (by rw [e1, e2]; have : δ1 + θ + (θ - δ2) = 2 * θ + δ1 - δ2 := by omega
        rw [this]; exact hs)
    (by rw [e3, e4]; have : δ1 + p + δ2 - p = δ1 + δ2 := by omega
        rw [this]; exact hd)
  rw [e1, e2, e3, e4] at hf
  refine ⟨_, hf.1, by rw [hf.2]; omega, ?_, ?_⟩
  · have := tdiv2_near (δ1 + θ + (θ - δ2)); omega
  · intro he; subst he
    have := tdiv2_near (δ1 + θ + (θ - δ1)); omega

/-- era-crossing instance: θ = 1000, δ₁ = 30, δ₂ = 10, p = 7 around 2⁶⁴ -/
example : twoWayOffset (wire (2^64 - 20)) (wire (2^64 - 20 + 30 + 1000)) (wire (2^64 - 20 + 30 + 1000 + 7))
    (wire (2^64 - 20 + 30 + 7 + 10)) = some 1010 ∧ (1010 - 1000 : Int).natAbs * 2 ≤ 30 + 10 + 1 := by decide

/-- Extraction: the outgoing measurement carries (T1 = send time, T2 = the packet's receive timestamp),
    the incoming one (T3 = the packet's transmit timestamp, T4 = receive time). -/
theorem extraction (send rts tts recv : Int) :
    measurementsFromPacket send rts tts recv =
      ({ fromSystem := true, senderTs := send, receiverTs := rts },
       { fromSystem := false, senderTs := tts, receiverTs := recv }) := rfl

/-- For every exchange — an outgoing measurement directly followed by the incoming one, after ANY
    history of earlier measurements and from any wrapper state — the inner controller is handed exactly
    the formulas' values, with `localtime` = client receive time. -/
theorem exchange_delivers (s : Option Meas) (pre post : List Meas) (out inc : Meas)
    (ho : out.fromSystem = true) (hi : inc.fromSystem = false) :
    ∃ off, twoWayOffset out.senderTs out.receiverTs inc.senderTs inc.receiverTs = some off ∧
      (runTwoWay s (pre ++ out :: inc :: post))[pre.length + 1]? =
        some (.delivered { offset := off,
                           delay := some (twoWayDelay out.senderTs out.receiverTs inc.senderTs inc.receiverTs),
                           localtime := inc.receiverTs }) := by
  have hsome := twoWayOffset_isSome out.senderTs out.receiverTs inc.senderTs inc.receiverTs
  cases hoff : twoWayOffset out.senderTs out.receiverTs inc.senderTs inc.receiverTs with
  | none => rw [hoff] at hsome; cases hsome
  | some off =>
    refine ⟨off, rfl, ?_⟩
    rw [runTwoWay_append]
    rw [List.getElem?_append_right (by rw [runTwoWay_length]; omega)]
    rw [runTwoWay_length]
    have : pre.length + 1 - pre.length = 1 := by omega
    rw [this]
    simp [runTwoWay, twoWayStep, ho, hi, hoff]

/-- the same, starting from what `measurements_from_packet` produces and the true times -/
theorem exchange_from_packet (s : Option Meas) (pre : List Meas) (t1 t2 t3 t4 : Int)
    (h21 : inI64 (t2 - t1)) (h34 : inI64 (t3 - t4)) (h41 : inI64 (t4 - t1)) (h32 : inI64 (t3 - t2))
    (hs : inI64 ((t2 - t1) + (t3 - t4))) (hd : inI64 ((t4 - t1) - (t3 - t2))) :
    let p := measurementsFromPacket (wire t1) (wire t2) (wire t3) (wire t4)
    (runTwoWay s (pre ++ [p.1, p.2]))[pre.length + 1]? =
      some (.delivered { offset := Int.tdiv ((t2 - t1) + (t3 - t4)) 2,
                         delay := some ((t4 - t1) - (t3 - t2)),
                         localtime := wire t4 }) := by
  intro p
  obtain ⟨off, hoff, h⟩ := exchange_delivers s pre [] p.1 p.2 rfl rfl
  have hf := twoway_formulas t1 t2 t3 t4 h21 h34 h41 h32 hs hd
  simp only [p, measurementsFromPacket] at hoff h ⊢
  rw [hf.1] at hoff
  rw [h, ← Option.some.inj hoff, hf.2]

example : (runTwoWay none [⟨false, 7, 9⟩, ⟨true, 0, 2⟩, ⟨false, 3, 3⟩, ⟨false, 3, 3⟩]) =
    [.dropped, .stored, .delivered ⟨1, some 2, 3⟩, .dropped] := by decide

/-- no history of measurements makes the wrapper panic (the only arithmetic site that could, `/ 2`, cannot) -/
theorem never_panics (s : Option Meas) (ms : List Meas) : Out.panic ∉ runTwoWay s ms := by
  induction ms generalizing s with
  | nil => simp [runTwoWay]
  | cons m ms ih =>
    simp only [runTwoWay, List.mem_cons, not_or]
    exact ⟨fun h => twoWayStep_ne_panic s m h.symm, ih _⟩

/-- One-way sources (GPSd, PPS): offset = remote (sender) time − local (receiver) time whenever that
    difference is representable; no delay is reported. -/
theorem oneway_offset (remote loc : Int) (b : Bool) (h : inI64 (remote - loc)) :
    oneWayStep { fromSystem := b, senderTs := wire remote, receiverTs := wire loc } =
      { offset := remote - loc, delay := none, localtime := wire loc } := by
  unfold oneWayStep wire; simp only [tsSub_wire _ _ h]

/-- across an era boundary: remote just after the wrap, local just before -/
example : (oneWayStep ⟨false, wire (2^64 + 2), wire (2^64 - 3)⟩).offset = 5 := by decide

end NtpVerif.C05

#print axioms NtpVerif.C05.twoway_formulas
#print axioms NtpVerif.C05.twoway_saturated
#print axioms NtpVerif.C05.extraction
#print axioms NtpVerif.C05.exchange_delivers
#print axioms NtpVerif.C05.exchange_from_packet
#print axioms NtpVerif.C05.never_panics
#print axioms NtpVerif.C05.oneway_offset
#print axioms NtpVerif.C05.twoway_error_bound
