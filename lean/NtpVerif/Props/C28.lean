/-
C28 — NTS key exchange negotiates only mutually supported parameters.

Model: `Model/NtsKe` (server: `handleConnection`; client: `clientRequest`, `clientFinish`); the TLS
exporter is an uninterpreted function `Export` shared by the two ends of one session.  The model
describes the code WITH the fix `fixes/C28-client-checks-offer.patch`; `clientFinishUnfixed` is the
client as found in the repository.

Property text ↔ theorems
  "The key-exchange server selects the first protocol in the client's list that it accepts and the first
   algorithm in the client's list that it supports"
        `server_first_acceptable`   (protocol = first accepted, algorithm = first known) ⇒ that pair is answered
        `server_no_protocol`, `server_no_algorithm`   nothing acceptable ⇒ the empty-list answers, no cookies
  "and issues eight cookies that decode to exactly the keys exported from the TLS session for that
   protocol and algorithm"
        `eight_cookies_right_keys`
  "The client adopts a protocol and algorithm only if it offered them"
        `client_adopts_only_offered`     (fixed code)
        `unfixed_counterexample`         F-C28: the code as found adopts NTPv5 although only NTPv4 was offered
  "and obtains the same keys as the server"
        `same_keys`    end to end on one session: when the server serves the client's request, the client,
                       given that answer (any non-empty cookie bytes), accepts it and holds exactly the keys
                       inside the server's cookies
-/
import NtpVerif.Model.NtsKe
import NtpVerif.Proofs.NtsKe

namespace NtpVerif.C28

open NtpVerif.NtsRecord NtpVerif.NtsMsg NtpVerif.NtsKe

theorem server_first_acceptable (cfg : ServerCfg) (exp : Export) (permit : Bool) (as : List Aead)
    (ps : List NextProtocol) (d : List Bytes) (p : NextProtocol) (a : Aead) (k : Keys)
    (hp : FirstSuch (fun x => x ∈ cfg.protocols) ps p)
    (ha : FirstSuch (fun x => ∀ id, x ≠ .unknown id) as a) (hk : exp p a = some k) :
    handleConnection cfg exp permit (.ok (.keyExchange as ps d)) =
      { items := keResponse cfg p a k false, result := .closed, «end» := .clean, askedPermit := false } := by
  have h1 : ps.find? (fun p => cfg.protocols.contains p) = some p := by
    apply find?_of_firstSuch
    obtain ⟨pre, post, e, hx, hpre⟩ := hp
    exact ⟨pre, post, e, by simpa using hx, fun y hy => by simpa using hpre y hy⟩
  have h2 : as.find? Aead.isKnown = some a := by
    apply find?_of_firstSuch
    obtain ⟨pre, post, e, hx, hpre⟩ := ha
    refine ⟨pre, post, e, ?_, fun y hy => ?_⟩
    · cases a <;> simp_all [Aead.isKnown]
    · have := hpre y hy
      cases y <;> simp_all [Aead.isKnown]
  simp only [handleConnection, h1, h2, hk]

theorem server_no_protocol (cfg : ServerCfg) (exp : Export) (permit : Bool) (as : List Aead)
    (ps : List NextProtocol) (d : List Bytes) (h : ∀ x ∈ ps, x ∉ cfg.protocols) :
    handleConnection cfg exp permit (.ok (.keyExchange as ps d)) =
      { items := [.record (.nextProtocol []), .record .endOfMessage], result := .err .noOverlappingProtocol,
        «end» := .clean, askedPermit := false } := by
  have h1 : ps.find? (fun p => cfg.protocols.contains p) = none := by
    rw [List.find?_eq_none]
    intro x hx
    simpa using h x hx
  simp only [handleConnection, h1]
  simp [recItems, NoOverlap.records]

theorem server_no_algorithm (cfg : ServerCfg) (exp : Export) (permit : Bool) (as : List Aead)
    (ps : List NextProtocol) (d : List Bytes) (p : NextProtocol)
    (hp : FirstSuch (fun x => x ∈ cfg.protocols) ps p) (h : ∀ x ∈ as, ∃ id, x = .unknown id) :
    handleConnection cfg exp permit (.ok (.keyExchange as ps d)) =
      { items := [.record (.nextProtocol [p]), .record (.aeadAlgorithm []), .record .endOfMessage],
        result := .err .noOverlappingAlgorithm, «end» := .clean, askedPermit := false } := by
  have h1 : ps.find? (fun p => cfg.protocols.contains p) = some p := by
    apply find?_of_firstSuch
    obtain ⟨pre, post, e, hx, hpre⟩ := hp
    exact ⟨pre, post, e, by simpa using hx, fun y hy => by simpa using hpre y hy⟩
  have h2 : as.find? Aead.isKnown = none := by
    rw [List.find?_eq_none]
    intro x hx
    obtain ⟨id, rfl⟩ := h x hx
    simp [Aead.isKnown]
  simp only [handleConnection, h1, h2]
  simp [recItems, NoOverlap.records]

/-- the cookies of a key-exchange answer: exactly eight, each carrying the algorithm and the two keys -/
theorem eight_cookies_right_keys (cfg : ServerCfg) (p : NextProtocol) (a : Aead) (k : Keys) (ka : Bool) :
    (keResponse cfg p a k ka).filter Item.isCookie = List.replicate 8 (.cookie a k.c2s k.s2c) := by
  unfold keResponse
  simp only [List.filter_append, filter_cookie_recItems, filter_cookie_cookies, List.nil_append,
    List.append_nil]
  rfl

theorem client_adopts_only_offered (cfg : ClientCfg) (exp : Export) (name : Bytes)
    (resp : Except MsgErr Response) (r : KeResult) (h : clientFinish cfg exp name resp = .ok r) :
    r.protocol ∈ cfg.protocols ∧ r.algorithm ∈ cfg.algorithms := by
  unfold clientFinish at h
  split at h
  · simp at h
  · rename_i resp'
    split at h
    · rename_i hc
      simp only [Bool.and_eq_true, List.contains_iff_mem] at hc
      unfold clientFinishUnfixed at h
      simp only at h
      split at h
      · simp at h
      · split at h
        · simp at h
        · split at h
          · simp at h
          · simp only [Except.ok.injEq] at h
            subst h
            exact hc
    · simp at h

/-- the property's client clause for the code as found -/
def UnfixedAdoptsOnlyOffered : Prop :=
  ∀ (ver : ClientVersion) (exp : Export) (name : Bytes) (resp : Except MsgErr Response) (r : KeResult),
    clientFinishUnfixed exp name resp = .ok r → r.protocol ∈ (ClientCfg.ofVersion ver).protocols

/-- F-C28: an NTPv4-only client told "NTPv5 draft" adopts it -/
theorem unfixed_counterexample : ¬ UnfixedAdoptsOnlyOffered := by
  intro h
  have := h .v4 (fun _ _ => some { c2s := [], s2c := [] }) []
    (.ok { protocol := .draftNtpv5, algorithm := .siv512, cookies := [[1]], server := none, port := none,
           keepAlive := false })
    _ rfl
  revert this
  decide

/-- the parsed form of the server's answer as the client sees it (`cs` = the cookie bytes) -/
def answer (scfg : ServerCfg) (p : NextProtocol) (a : Aead) (cs : List Bytes) : Response :=
  { protocol := p, algorithm := a, cookies := cs, server := scfg.server, port := scfg.port,
    keepAlive := false }

theorem same_keys (scfg : ServerCfg) (ccfg : ClientCfg) (exp : Export) (permit : Bool)
    (denied : List Bytes) (name : Bytes) (cs : List Bytes) (hcs : cs ≠ [])
    (hsp : ∀ p ∈ scfg.protocols, p = .ntpv4 ∨ p = .draftNtpv5)
    (h : (handleConnection scfg exp permit (.ok (clientRequest ccfg denied))).result = .closed) :
    ∃ p a k, (handleConnection scfg exp permit (.ok (clientRequest ccfg denied))).items
        = keResponse scfg p a k false ∧
      p ∈ ccfg.protocols ∧ p ∈ scfg.protocols ∧ a ∈ ccfg.algorithms ∧ exp p a = some k ∧
      ∃ r, clientFinish ccfg exp name (.ok (answer scfg p a cs)) = .ok r ∧
        r.keys = k ∧ r.protocol = p ∧ r.algorithm = a ∧ r.cookies = cs := by
  simp only [clientRequest, handleConnection] at h ⊢
  split at h
  · simp at h
  · simp at h
  · rename_i p a hp ha
    split at h
    · simp at h
    · rename_i k hk
      have hp' := firstSuch_of_find? _ _ _ hp
      have ha' := firstSuch_of_find? _ _ _ ha
      obtain ⟨pre, post, e, hx, _⟩ := hp'
      obtain ⟨pre', post', e', _, _⟩ := ha'
      have hpc : p ∈ ccfg.protocols := by rw [e]; simp
      have hps : p ∈ scfg.protocols := by simpa using hx
      have hac : a ∈ ccfg.algorithms := by rw [e']; simp
      refine ⟨p, a, k, rfl, hpc, hps, hac, hk, ?_⟩
      have hne : cs.isEmpty = false := by cases cs <;> simp_all
      rcases hsp p hps with rfl | rfl <;>
        simp [clientFinish, clientFinishUnfixed, answer, hpc, hac, hk, hne]

/-! ### non-vacuity -/

/-- hypotheses of `server_first_acceptable`: client prefers v5 then v4, server accepts v4 only -/
example : FirstSuch (fun x => x ∈ [NextProtocol.ntpv4]) [.draftNtpv5, .ntpv4] .ntpv4 :=
  ⟨[.draftNtpv5], [], rfl, by decide, by decide⟩

example : FirstSuch (fun x => ∀ id, x ≠ Aead.unknown id) [.unknown 16, .siv512, .siv256] .siv512 :=
  ⟨[.unknown 16], [.siv256], rfl, by simp, by simp⟩

/-- evaluated: the client lists [unknown 16, 512, 256] and [unknown, v4, v5]; a server that accepts v5 and v4 (in that
    order of its own) answers the CLIENT's first acceptable pair (v4, 512), with cookies for exactly that pair -/
example : (handleConnection { protocols := [.draftNtpv5, .ntpv4], tokens := [], server := none, port := none }
    (fun p a => if p = .ntpv4 ∧ a = .siv512 then some { c2s := [1], s2c := [2] } else some { c2s := [9], s2c := [9] })
    false (.ok (.keyExchange [.unknown 16, .siv512, .siv256] [.unknown 32770, .ntpv4, .draftNtpv5] []))).items
    = keResponse { protocols := [.draftNtpv5, .ntpv4], tokens := [], server := none, port := none }
        .ntpv4 .siv512 { c2s := [1], s2c := [2] } false := by decide

/-- repeated entries and an unknown id between the supported ones do not change the choice -/
example : FirstSuch (fun x => ∀ id, x ≠ Aead.unknown id) [.unknown 0, .unknown 0, .siv256, .unknown 18, .siv256, .siv512]
    .siv256 := ⟨[.unknown 0, .unknown 0], [.unknown 18, .siv256, .siv512], rfl, by simp, by simp⟩

/-- hypothesis of `client_adopts_only_offered` / `same_keys`: an upgrading client served by a v4+v5 server -/
example : (handleConnection { protocols := [.ntpv4, .draftNtpv5], tokens := [], server := none, port := none }
    (fun _ _ => some { c2s := [1], s2c := [2] }) false
    (.ok (clientRequest (ClientCfg.ofVersion .upgrading) []))).result = .closed := by decide

example : ∃ r, clientFinish (ClientCfg.ofVersion .upgrading) (fun _ _ => some { c2s := [1], s2c := [2] }) [120]
    (.ok { protocol := .draftNtpv5, algorithm := .siv512, cookies := [[9]], server := none, port := none,
           keepAlive := false }) = .ok r := ⟨_, rfl⟩

end NtpVerif.C28

#print axioms NtpVerif.C28.server_first_acceptable
#print axioms NtpVerif.C28.server_no_protocol
#print axioms NtpVerif.C28.server_no_algorithm
#print axioms NtpVerif.C28.eight_cookies_right_keys
#print axioms NtpVerif.C28.client_adopts_only_offered
#print axioms NtpVerif.C28.unfixed_counterexample
#print axioms NtpVerif.C28.same_keys
