/-
C15 — Server access policy is enforced in order.

Model: `NtpVerif.Model.Server` (`Server::handle`, `handle_inner`, `intended_action`).  List membership of the
address (`IpFilter::is_in`, C31) and the rate-limit outcome (C20) are inputs (`Env.inDeny`, `inAllow`, `rateOk`);
the harness computes them with the real filters.  "What the client receives" is the outcome of `handle`:
`.ignore` (nothing is sent) or `.respond r n stats` whose statistics entry names the kind of answer that was
built (`.time`, `.deny`, `.nak`); that this kind is what the datagram really is, is C18 / C21.

  sentence of the property                                            theorem
  listed client + action ignore receives nothing                      listed_ignore_silent
  listed client never receives time, at most DENY                     listed_at_most_deny
  deny list is checked before the allow list                          deny_list_first
  malformed / non-client / non-accepted version never answered        unanswerable_ignored
  plain requests never receive time when NTS is required              plain_no_time_when_nts_required
  accepted request passing both lists, not rate limited, gets time    accepted_gets_time
  … (NTS: when it authenticates; otherwise never time)                unauthenticated_never_time
-/
import NtpVerif.Proofs.Server

namespace NtpVerif.C15
open NtpVerif.Server

/-- kinds of answer recorded for an outcome -/
def kinds (o : Outcome) : List Resp := o.stats.map (·.response)

/-- the outcome sends a datagram -/
def Sends (o : Outcome) : Prop := ∃ r n s, o = .respond r n s

/-- A client on the deny list, or not on the allow list, whose list action is `ignore`, receives nothing
    (and the handler does not even look at the datagram: no panic either). -/
theorem listed_ignore_silent (cfg : Config) (info : Info) (env : Env) (req : Req)
    (hl : Listed env) (ha : listAction cfg env = .ignore) :
    handle cfg info env req = .ignore [⟨req.fv, false, .policy, .ignore⟩] := by
  unfold handle handleInner
  rw [intendedAction_listed cfg env hl, ha]
  simp [Act.toResp]

/-- A listed client never receives time: whatever is sent to it is a DENY answer. -/
theorem listed_at_most_deny (cfg : Config) (info : Info) (env : Env) (req : Req) (hl : Listed env)
    {r n s} (h : handle cfg info env req = .respond r n s) :
    ∃ v nts, s = [⟨v, nts, .policy, .deny⟩] ∧ listAction cfg env = .deny := by
  obtain ⟨a, reason, v, nts, hi, _, hs⟩ := handle_respond h
  obtain ⟨_, hni, a0, r0, c0, hr, hsrc⟩ := handleInner_answer hi
  rw [intendedAction_listed cfg env hl] at hsrc hni
  have hact : listAction cfg env = .deny := by
    cases hla : listAction cfg env
    · simp [hla, Act.toResp] at hni
    · rfl
  simp only [hact, Act.toResp] at hsrc
  have ha0 : a0 = .deny ∧ r0 = .policy := by
    rcases hsrc with ⟨_, h2, _⟩ | ⟨_, _, h2 | h2⟩
    · simpa using h2
    · exact absurd rfl h2.2.2
    · simpa using h2.2
  obtain ⟨_, _, _, hk⟩ := respond_answer hr
  rcases hk with ⟨h1, h2, _⟩ | ⟨h1, h2, _⟩
  · exact ⟨v, nts, by rw [hs, h1, h2, ha0.1, ha0.2], hact⟩
  · exact ⟨v, nts, by rw [hs, h1, h2], hact⟩

/-- The deny list is consulted first: for an address on it, membership of the allow list is irrelevant. -/
theorem deny_list_first (cfg : Config) (info : Info) (env : Env) (req : Req) (hd : env.inDeny = true) (b : Bool) :
    handle cfg info { env with inAllow := b } req = handle cfg info env req := by
  have hia : intendedAction cfg { env with inAllow := b } = intendedAction cfg env := by
    simp [intendedAction, hd]
  unfold handle handleInner
  rw [hia]
  rfl

/-- Malformed datagrams, non-client packets and requests in non-accepted versions are never answered. -/
theorem unanswerable_ignored (cfg : Config) (info : Info) (env : Env) (req : Req)
    (h : req.parse = .err ∨ (Parsed req ∧ req.client = false) ∨
         (Parsed req ∧ cfg.versions.contains req.version = false)) :
    ∃ s, handle cfg info env req = .ignore s := by
  obtain ⟨s, hs⟩ := handleInner_dropped cfg info env req h
  exact ⟨s, handle_of_done hs⟩

/-- With `require-nts` set, a request without a valid cookie (plain, or failing authentication) never
    receives time. -/
theorem plain_no_time_when_nts_required (cfg : Config) (info : Info) (env : Env) (req : Req)
    (hn : cfg.requireNts ≠ none) (hc : req.cookie = none ∨ req.parse = .dec)
    {r n s} (h : handle cfg info env req = .respond r n s) : .time ∉ kinds (.respond r n s) := by
  obtain ⟨a, reason, v, nts, hi, _, hs⟩ := handle_respond h
  obtain ⟨_, _, a0, r0, c0, hr, hsrc⟩ := handleInner_answer hi
  obtain ⟨_, _, hnts, hk⟩ := respond_answer hr
  have hc0 : c0 = none := by
    rcases hsrc with ⟨hp, _, h3⟩ | ⟨_, h3, _⟩
    · rcases hc with hc | hc
      · rw [h3, hc]
      · simp [hp] at hc
    · exact h3
  simp only [kinds, Outcome.stats, hs, List.map_cons, List.map_nil, List.mem_singleton]
  intro ht
  rcases hk with ⟨h1, _, h3⟩ | ⟨h1, _⟩
  · rcases h3 with h3 | h3
    · rw [hnts, hc0] at h3
      have : a0 = .nak := by simpa using h3
      rw [h1, this] at ht
      cases ht
    · exact hn h3
  · rw [h1] at ht; cases ht

/-- A request whose NTS authentication fails never receives time (only NTS-NAK or DENY). -/
theorem unauthenticated_never_time (cfg : Config) (info : Info) (env : Env) (req : Req)
    (hd : req.parse = .dec) {r n s} (h : handle cfg info env req = .respond r n s) :
    ∃ v nts reason, s = [⟨v, nts, reason, .nak⟩] ∨ s = [⟨v, nts, reason, .deny⟩] := by
  obtain ⟨a, reason, v, nts, hi, _, hs⟩ := handle_respond h
  obtain ⟨_, _, a0, r0, c0, hr, hsrc⟩ := handleInner_answer hi
  obtain ⟨_, _, _, hk⟩ := respond_answer hr
  have ha0 : a0 = .nak ∨ a0 = .deny := by
    rcases hsrc with ⟨hp, _⟩ | ⟨_, _, h3 | h3⟩
    · simp [hd] at hp
    · exact .inl h3.1
    · exact .inr h3.1
  refine ⟨v, nts, reason, ?_⟩
  rcases hk with ⟨h1, _⟩ | ⟨h1, _⟩
  · rcases ha0 with h0 | h0
    · left; rw [hs, h1, h0]
    · right; rw [hs, h1, h0]
  · right; rw [hs, h1]

/-- A well-formed, accepted-version client request from an address that passes both lists and is not rate
    limited is answered with time (NTS: when the cookie decodes), provided NTS is not required of a plain
    request, the synchronisation state is representable (`InfoOk`) and the answer can be serialised into the
    buffer (that a request-sized buffer suffices is C17). -/
theorem accepted_gets_time (cfg : Config) (info : Info) (env : Env) (req : Req)
    (hd : env.inDeny = false) (ha : env.inAllow = true) (hr : env.rateOk = true)
    (hp : req.parse = .ok) (hc : req.client = true) (hv : cfg.versions.contains req.version = true)
    (hn : cfg.requireNts = none ∨ req.cookie.isSome = true)
    (hwf : ParserWf req) (hinfo : InfoOk info env req.version) :
    ∃ r, handleInner cfg info env req = .answer .time .policy req.version req.cookie.isSome r ∧
      ∀ n, serialize r env.bufLen = .ok n →
        handle cfg info env req = .respond r n [⟨req.version, req.cookie.isSome, .policy, .time⟩] := by
  obtain ⟨hk, _, d, hdisp, _⟩ := hinfo
  have hia : intendedAction cfg env = (.time, .policy) := by
    rw [intendedAction_pass cfg env hd ha, hr]; rfl
  have hgate : ∃ r, respond cfg info env req .time .policy req.cookie
      = .answer .time .policy req.version req.cookie.isSome r := by
    unfold respond
    simp only [hv, Bool.not_true, Bool.false_eq_true, ↓reduceIte]
    cases hck : req.cookie with
    | none =>
      have hn' : cfg.requireNts = none := by
        rcases hn with hn | hn
        · exact hn
        · simp [hck] at hn
      simp [hn', timestampResponse, hdisp]
    | some alg =>
      have h3 : req.version ≠ 3 := by
        intro h3
        have := (hwf h3).1
        simp [hck] at this
      cases hrn : cfg.requireNts with
      | none => simp [ntsTimestampResponse, h3, hdisp, hk]
      | some a => cases a <;> simp [ntsTimestampResponse, h3, hdisp, hk]
  obtain ⟨r, hr'⟩ := hgate
  have hi : handleInner cfg info env req = .answer .time .policy req.version req.cookie.isSome r := by
    unfold handleInner
    simp [hia, hp, hc, hr']
  refine ⟨r, hi, ?_⟩
  intro n hs
  unfold handle
  simp [hi, hs]

/-! #### non-vacuity: concrete configurations and requests -/

def cfg0 : Config := { denyAct := .deny, allowAct := .ignore, requireNts := none, versions := [4, 5] }
def info0 : Info :=
  { stratum := 2, refid := [1, 2, 3, 4], leap := 0, precision := 4096, rootDelay := 65536, bloom := [], keysOk := true }
def env0 : Env :=
  { inDeny := false, inAllow := true, rateOk := true, recv := 0xE800000000000000, now := 0xE800000000001000,
    rvar := F64.zero, bufLen := 48 }
def req0 : Req :=
  { len := 48, fv := 4, parse := .ok, version := 4, client := true, poll := 6, xmit := [1, 2, 3, 4, 5, 6, 7, 8],
    reft := [0, 0, 0, 0, 0, 0, 0, 0], untrusted := [], auth := [], enc := [], cookie := none, encw := 0, mac := 0 }

/-- the hypotheses of `accepted_gets_time` other than `InfoOk` (floating point, exercised by the harness) hold
    for a plain NTPv4 poll -/
example : env0.inDeny = false ∧ env0.inAllow = true ∧ env0.rateOk = true ∧ req0.parse = .ok ∧ req0.client = true ∧
    cfg0.versions.contains req0.version = true ∧ cfg0.requireNts = none ∧ ParserWf req0 := by
  refine ⟨rfl, rfl, rfl, rfl, rfl, by decide, rfl, ?_⟩
  intro h; exact absurd h (by decide)

/-- a client on the deny list with action `deny` is sent a DENY answer (48 octets), and nothing with `ignore` -/
example : handle cfg0 info0 { env0 with inDeny := true } req0
    = .respond (denyResponse req0) 48 [⟨4, false, .policy, .deny⟩] := by decide
example : handle { cfg0 with denyAct := .ignore } info0 { env0 with inDeny := true } req0
    = .ignore [⟨4, false, .policy, .ignore⟩] := by decide
/-- a non-accepted version and a server-mode packet are dropped -/
example : handle { cfg0 with versions := [5] } info0 env0 req0 = .ignore [⟨4, false, .policy, .ignore⟩] := by decide
example : handle cfg0 info0 env0 { req0 with client := false } = .ignore [⟨4, false, .parse, .ignore⟩] := by decide
/-- require-nts = deny turns the time answer for a plain request into DENY; an undecryptable request is NAKed -/
example : handle { cfg0 with requireNts := some .deny } info0 env0 req0
    = .respond (denyResponse req0) 48 [⟨4, false, .policy, .deny⟩] := by decide
example : (handle cfg0 info0 env0 { req0 with parse := .dec }).stats = [⟨4, true, .crypto, .nak⟩] := by decide

end NtpVerif.C15

#print axioms NtpVerif.C15.listed_ignore_silent
#print axioms NtpVerif.C15.listed_at_most_deny
#print axioms NtpVerif.C15.deny_list_first
#print axioms NtpVerif.C15.unanswerable_ignored
#print axioms NtpVerif.C15.plain_no_time_when_nts_required
#print axioms NtpVerif.C15.unauthenticated_never_time
#print axioms NtpVerif.C15.accepted_gets_time
