/-
C22 — No datagram can crash the NTP server.

Model: `NtpVerif.Model.Server`: every panic site on the path of `Server::handle` is an explicit `.panic` outcome
of the model (`unreachable!` for NTPv3 + NTS in the NTS builders, `unreachable!()` for an `Ignore` action in
`handle_inner`, the `debug_assert!` of `NtpDuration::from_seconds`, the `assert!`/`debug_assert!` of
`to_bits_short` / `to_bits_time32`, the `keys[primary]` index of `KeySet::encode_cookie`, the
`length - HEADER_LENGTH` subtraction of the v5 padding field); the inventory `anchors/panic_sites/server.json`
maps every syntactic panic site of the files in scope to one of these or to the reason it is not on the path.
The differential stream `c22_hostile` drives model and implementation with synchronisation states OUTSIDE the
theorem's assumptions and requires them to panic for exactly the same requests.

  `never_panics`   handling any datagram the parser survives returns normally, for every configuration and
                   address, under the standing assumptions on the synchronisation state (`InfoOk`)
Crash-freedom of the parser itself (`NtpPacket::deserialize`, input class `Parse.panic`) is C23; with fix
F-C22a the parser's only assertion reachable from the server port is gone, and the streams feed the REAL parser
every datagram (oracle clause `c22_panic`).
-/
import NtpVerif.Proofs.ServerSize
import NtpVerif.Props.C18
import NtpVerif.Model.ServerReq
import NtpVerif.Proofs.ServerParse

namespace NtpVerif.C22
open NtpVerif.Server NtpVerif.RespSize

/-- facts about the parser's output that the handler relies on (each checked by the harness on every parsed
    request): NTPv3 packets carry no NTS content, NTPv5 packets are a whole number of words -/
def ParserFacts (req : Req) : Prop :=
  ParserWf req ∧ (req.version = 5 → req.len % 4 = 0)

private theorem durBad_zero (v : Nat) : durBad v 0 = false := by simp [durBad]

private theorem build_ne_panic {info : Info} {env : Env} {req : Req} {c : Option Nat} {a : Resp}
    (ha : a ≠ .ignore) (hnak : a = .nak → req.version ≠ 3) (hc : c.isSome = true → req.version ≠ 3)
    (hinfo : InfoOk info env req.version) : build info env req c a ≠ .panic := by
  obtain ⟨hk, _, d, hd, _⟩ := hinfo
  cases a with
  | ignore => exact absurd rfl ha
  | nak => simp [build, nakResponse, hnak rfl]
  | deny =>
    cases c with
    | none => simp [build]
    | some alg => simp [build, ntsDenyResponse, hc rfl]
  | time =>
    cases c with
    | none => simp [build, timestampResponse, hd]
    | some alg => simp [build, ntsTimestampResponse, hc rfl, hd, hk]

private theorem built_desired {info env req c a r} (h : build info env req c a = .ok r) :
    r.desired = none ∨ r.desired = some req.len := by
  cases a with
  | ignore => simp [build] at h
  | nak =>
    simp only [build, nakResponse] at h
    split at h
    · simp at h
    · simp only [Built.ok.injEq] at h; subst h; exact .inl rfl
  | deny =>
    cases c with
    | none => simp only [build, Built.ok.injEq] at h; subst h; exact .inl rfl
    | some alg =>
      simp only [build, ntsDenyResponse] at h
      split at h
      · simp at h
      · simp only [Built.ok.injEq] at h; subst h; exact .inl rfl
  | time =>
    cases c with
    | none =>
      simp only [build, timestampResponse] at h
      split at h
      · simp at h
      · simp only [Built.ok.injEq] at h; subst h; exact .inr rfl
    | some alg =>
      simp only [build, ntsTimestampResponse] at h
      repeat' split at h
      all_goals first
        | (simp at h; done)
        | (simp only [Built.ok.injEq] at h; subst h; exact .inr rfl)

/-- serialising a built answer never panics -/
private theorem serialize_ne_panic {info env req c a r} (h : build info env req c a = .ok r)
    (hinfo : InfoOk info env req.version) (h5 : req.version = 5 → req.len % 4 = 0) (buf : Nat) :
    serialize r buf ≠ .panic := by
  obtain ⟨_, hdelay, d, hd, hdisp⟩ := hinfo
  have hhdr : r.hdr.version = req.version ∧ durBad r.hdr.version r.hdr.rootDelay = false ∧
      durBad r.hdr.version r.hdr.rootDisp = false := by
    cases a with
    | ignore => simp [build] at h
    | time =>
      obtain ⟨_, hv, _, _, _, _, _, _, hrd, _, hrdisp, _⟩ := C18.time_answer_header h
      rw [hd] at hrdisp
      have : r.hdr.rootDisp = d := by simpa using hrdisp.symm
      rw [hv, hrd, this]
      exact ⟨rfl, hdelay, hdisp⟩
    | deny =>
      obtain ⟨_, hv, _, _, _, _, hrd, hrdisp, _⟩ := C18.kiss_answer_header (.inl rfl) h
      rw [hrd, hrdisp]; exact ⟨hv, durBad_zero _, durBad_zero _⟩
    | nak =>
      obtain ⟨_, hv, _, _, _, _, hrd, hrdisp, _⟩ := C18.kiss_answer_header (.inr rfl) h
      rw [hrd, hrdisp]; exact ⟨hv, durBad_zero _, durBad_zero _⟩
  obtain ⟨hv, h1, h2⟩ := hhdr
  have hm := efSize_mod r
  unfold serialize
  simp only [h1, h2, Bool.false_eq_true, and_false, ↓reduceIte]
  split
  · simp
  · split
    · simp
    · unfold padded
      split
      · simp
      · rcases built_desired h with hdn | hds
        · simp [hdn]
        · simp only [hds]
          split
          · rename_i hcond
            have h4 := h5 (hv ▸ hcond.1)
            have : ¬ (req.len - (48 + efSize r) < 4) := by omega
            simp only [this, ↓reduceIte]
            split
            · simp
            · split <;> simp
          · simp

/-- Handling any datagram that the parser survives (any bytes, any address, any configuration and policy, any
    buffer) returns normally — answer or ignore — provided the synchronisation state is representable. -/
theorem never_panics (cfg : Config) (info : Info) (env : Env) (req : Req)
    (hparse : req.parse ≠ .panic) (hpf : ParserFacts req) (hinfo : InfoOk info env req.version) :
    handle cfg info env req ≠ .panic := by
  obtain ⟨hwf, h5⟩ := hpf
  have hresp : ∀ a rsn c, a ≠ .ignore → (a = .nak → req.version ≠ 3) → (c.isSome = true → req.version ≠ 3) →
      respond cfg info env req a rsn c ≠ .panic := by
    intro a rsn c ha hnak hc hp
    unfold respond at hp
    split at hp
    · simp at hp
    · simp only [] at hp
      split at hp
      · simp at hp
      · rename_i gate a1 r1 hg
        have ha1 : a1 = a ∨ a1 = .deny := by
          split at hg
          · simp at hg
          · simp only [Option.some.injEq, Prod.mk.injEq] at hg; exact .inr hg.1.symm
          · simp only [Option.some.injEq, Prod.mk.injEq] at hg; exact .inl hg.1.symm
        have hb : build info env req c a1 ≠ .panic := by
          rcases ha1 with h | h <;> subst h
          · exact build_ne_panic ha hnak hc hinfo
          · exact build_ne_panic (by simp) (by simp) hc hinfo
        split at hp
        · rename_i hbp
          exact hb (by unfold build; exact hbp)
        · simp at hp
  have hck : req.cookie.isSome = true → req.version ≠ 3 := by
    intro hs h3
    have := (hwf h3).1
    simp [this] at hs
  intro hpanic
  unfold handle at hpanic
  split at hpanic
  · simp at hpanic
  · rename_i hi
    unfold handleInner at hi
    have hia := intendedAction_ne_nak cfg env
    generalize intendedAction cfg env = ia at hi hia
    obtain ⟨act, rsn⟩ := ia
    have hnn : act ≠ .nak := hia
    simp only [] at hi
    split at hi
    · simp at hi
    · rename_i hact
      split at hi
      · rename_i hp; exact hparse hp
      · simp at hi
      · split at hi
        · simp at hi
        · exact hresp act rsn req.cookie hact (fun hn => absurd hn hnn) hck hi
      · rename_i hdec
        have h3 : req.version ≠ 3 := fun h3 => (hwf h3).2 hdec
        split at hi
        · simp at hi
        · split at hi
          · exact hresp .nak .crypto none (by simp) (fun _ => h3) (by simp) hi
          · exact hresp act rsn none hact (fun _ => h3) (by simp) hi
  · rename_i a reason v nts r hi
    obtain ⟨_, _, a0, r0, c0, hr, _⟩ := handleInner_answer hi
    have hb := respond_built hr
    have := serialize_ne_panic hb hinfo h5 env.bufLen
    split at hpanic
    · rename_i hs; exact this hs
    · simp at hpanic
    · simp at hpanic

/-! #### the parser facts are theorems about the parser model -/

/-- `ParserFacts` holds for every request record obtained from the packet parser (wire cluster's model of
    `NtpPacket::deserialize`, with any decryption oracle and key set): an NTPv3 packet carries no NTS content
    and an accepted NTPv5 packet is a whole number of words long. -/
theorem parserFacts_reqOf (dec : Wire.Dec) (ks : Wire.KeySet) (data : Bytes) (fv encw : Nat) :
    ParserFacts (reqOf dec ks data fv encw) := by
  unfold reqOf
  cases hp : Wire.parse dec (.keyset ks) data with
  | ok p cookie =>
    have hr : Wire.parseR dec (.keyset ks) data = .ok (p, cookie, true) := by
      unfold Wire.parse at hp
      split at hp <;> first | (cases hp; done) | (cases hp; assumption)
    have hf := ServerParse.parseR_facts hr
    refine ⟨?_, ?_⟩
    · intro h3
      cases hh : p.header with
      | v3 h => rw [hh] at hf; refine ⟨by simp [reqOfPacket, hf.1], by simp [reqOfPacket]⟩
      | v4 h => simp [reqOfPacket, versionOf, hh] at h3
      | v5 h => simp [reqOfPacket, versionOf, hh] at h3
    · intro h5
      cases hh : p.header with
      | v3 h => simp [reqOfPacket, versionOf, hh] at h5
      | v4 h => simp [reqOfPacket, versionOf, hh] at h5
      | v5 h => rw [hh] at hf; simpa [reqOfPacket] using hf.1
  | decryptErr p =>
    have hr : ∃ c, Wire.parseR dec (.keyset ks) data = .ok (p, c, false) := by
      unfold Wire.parse at hp
      split at hp <;> first | (cases hp; done) | (cases hp; exact ⟨_, by assumption⟩)
    obtain ⟨c, hr⟩ := hr
    have hf := ServerParse.parseR_facts hr
    refine ⟨?_, ?_⟩
    · intro h3
      cases hh : p.header with
      | v3 h => rw [hh] at hf; exact absurd hf.2 (by simp)
      | v4 h => simp [reqOfPacket, versionOf, hh] at h3
      | v5 h => simp [reqOfPacket, versionOf, hh] at h3
    · intro h5
      cases hh : p.header with
      | v3 h => simp [reqOfPacket, versionOf, hh] at h5
      | v4 h => simp [reqOfPacket, versionOf, hh] at h5
      | v5 h => rw [hh] at hf; simpa [reqOfPacket] using hf.1
  | err e => exact ⟨fun h3 => by simp [reqNone] at h3, fun h5 => by simp [reqNone] at h5⟩
  | panic => exact ⟨fun h3 => by simp [reqNone] at h3, fun h5 => by simp [reqNone] at h5⟩
  | fuel => exact ⟨fun h3 => by simp [reqNone] at h3, fun h5 => by simp [reqNone] at h5⟩

/-- **No datagram can crash the server**, end to end over the parser model: for every byte string, decryption
    oracle, key set, configuration, address classification, buffer and synchronisation state satisfying `InfoOk`,
    parsing the datagram and handling the result returns normally.  (Parser crash-freedom: `C23.never_panics`.) -/
theorem never_panics_wire (cfg : Config) (info : Info) (env : Env) (dec : Wire.Dec) (ks : Wire.KeySet)
    (data : Bytes) (fv encw : Nat)
    (hinfo : InfoOk info env (reqOf dec ks data fv encw).version) :
    handle cfg info env (reqOf dec ks data fv encw) ≠ .panic := by
  apply never_panics cfg info env _ ?_ (parserFacts_reqOf dec ks data fv encw) hinfo
  have hnp := C23.never_panics dec (.keyset ks) data
  unfold reqOf
  cases hp : Wire.parse dec (.keyset ks) data with
  | ok p cookie => simp [reqOfPacket]
  | decryptErr p => simp [reqOfPacket]
  | err e => simp [reqNone]
  | panic => exact absurd hp hnp.1
  | fuel => exact absurd hp hnp.2

/-! #### non-vacuity: the assumptions hold for ordinary states, and each is needed -/

def info0 : Info :=
  { stratum := 2, refid := [1, 2, 3, 4], leap := 0, precision := 4096, rootDelay := 65536, bloom := [], keysOk := true }
def env0 : Env :=
  { inDeny := false, inAllow := true, rateOk := true, recv := 0xE800000000000000, now := 0xE800000000001000,
    rvar := F64.zero, bufLen := 48 }
def cfg0 : Config := { denyAct := .deny, allowAct := .ignore, requireNts := none, versions := [3, 4, 5] }
def req0 : Req :=
  { len := 48, fv := 4, parse := .ok, version := 4, client := true, poll := 6, xmit := [1, 2, 3, 4, 5, 6, 7, 8],
    reft := [0, 0, 0, 0, 0, 0, 0, 0], untrusted := [], auth := [], enc := [], cookie := none, encw := 0, mac := 0 }

example : req0.parse ≠ .panic ∧ ParserFacts req0 := by
  refine ⟨by decide, ?_, ?_⟩
  · intro h; exact absurd h (by decide)
  · intro h; exact absurd h (by decide)
/-- a negative root delay (outside `InfoOk`) makes the header encoder's `assert!` fire — the model says so -/
example : serialize { hdr := timeHeader { info0 with rootDelay := -1 } env0 req0 0, untrusted := [], auth := [],
                      enc := [], cipher := false, desired := some 48 } 48 = .panic := by decide
/-- an empty key set (C27) would make cookie generation index out of bounds -/
example : ∀ d, rootDispersion env0.rvar = some d →
    ntsTimestampResponse { info0 with keysOk := false } env0
      { req0 with cookie := some 15, auth := [.cookie 104] } 15 = .panic := by
  intro d hd
  simp [ntsTimestampResponse, hd, req0, isCookieLike, Gen.MAX_COOKIES]

end NtpVerif.C22

#print axioms NtpVerif.C22.never_panics
#print axioms NtpVerif.C22.parserFacts_reqOf
#print axioms NtpVerif.C22.never_panics_wire
