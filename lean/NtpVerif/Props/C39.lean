/-
C39 — Configuration loading rejects unsafe thresholds and never crashes.

  "Accepted step thresholds are never negative or NaN, in either the single-number or the per-direction
   form; and no configuration file, however malformed, makes the daemon panic rather than report an error."

Model: `NtpVerif.Model.Config` — both `StepThreshold` visitors and the private `ThresholdPart` visitor as
functions of the value serde presents (float | i64 | u64 | string | table | other), `from_seconds` with its
`debug_assert!` as the outcome `panic`, `Config::count_sources` and the source-count test of `check()`.
The TOML parser (crate `toml`) and serde's derive code are external.  The model describes the code WITH the
fixes of F-C39 (per-direction values validated like the single-number form; saturating source count).

  accepted_from_valid_number    an accepted threshold, in either form, has in each direction "unlimited" or
                                the duration of a number that is not NaN, not infinite and not negative
  accepted_nonneg               … and that duration is ≥ 0 (under `HwNonneg`, the standard-model fact that
                                `floor` and `as i64` of a non-negative finite number are non-negative)
  threshold_never_panics        no value makes either visitor reach `from_seconds`' `debug_assert!`
  nan_inf_negative_rejected     NaN, ±∞ and negative numbers are rejected in both forms (error, not panic)
  count_sources_no_overflow     the source count never exceeds `usize::MAX` (no overflow panic in `check()`)
  unfixed_nan_panics,           the code before the fix violated the property (F-C39b: `{ forward = nan }`
  unfixed_count_overflows       aborts; F-C39c: three pools of i64::MAX sources overflow `count_sources`;
                                F-C39a, `{ forward = -1.0 }` accepted as a negative limit, is a corpus case)

"No configuration file makes the daemon panic" is a statement about the whole loader incl. external crates;
it is proved here for the modelled visitors only and otherwise explored by the c39_cfg / c39_docs streams
(`partial_note` in props/C39.json).
-/
import NtpVerif.Proofs.Config

namespace NtpVerif.C39
open NtpVerif NtpVerif.Config NtpVerif.GlueTime NtpVerif.Wrap

/-- **C39.accepted_from_valid_number** -/
theorem accepted_from_valid_number (v : Val) (t : Threshold) (h : thresholdOf v = .ok t) :
    SaneDir t.forward ∧ SaneDir t.backward := by
  unfold thresholdOf at h
  cases v with
  | table kvs => exact visitMap_sane kvs none none t (fun _ h => by cases h) (fun _ h => by cases h) h
  | scalar sc =>
    cases sc with
    | float f => exact singleNum_sane (x := f) h
    | int i => exact singleNum_sane (x := F64.ofI64 i) h
    | uint u => exact singleNum_sane (x := F64.ofU64 u) h
    | str s =>
      simp only [thresholdWith] at h
      split at h
      · cases h; exact ⟨Or.inl rfl, Or.inl rfl⟩
      · cases h
    | other => simp [thresholdWith] at h

/-- **C39.accepted_nonneg** — under the standard-model hypothesis every accepted limit is ≥ 0 -/
theorem accepted_nonneg (hw : HwNonneg) (v : Val) (t : Threshold) (h : thresholdOf v = .ok t) :
    (∀ d, t.forward = some d → 0 ≤ d) ∧ (∀ d, t.backward = some d → 0 ≤ d) := by
  obtain ⟨hf, hb⟩ := accepted_from_valid_number v t h
  constructor
  · intro d hd
    rcases hf with h0 | ⟨x, d', hd', hv, hx⟩
    · rw [h0] at hd; cases hd
    · rw [hd'] at hd; cases hd; exact fromSeconds_nonneg hw hv hx
  · intro d hd
    rcases hb with h0 | ⟨x, d', hd', hv, hx⟩
    · rw [h0] at hd; cases hd
    · rw [hd'] at hd; cases hd; exact fromSeconds_nonneg hw hv hx

/-- **C39.threshold_never_panics** -/
theorem threshold_never_panics (v : Val) : thresholdOf v ≠ .panic := by
  unfold thresholdOf
  cases v with
  | table kvs => exact visitMap_ne_panic kvs none none
  | scalar sc =>
    cases sc with
    | float f => exact singleNum_ne_panic f
    | int i => exact singleNum_ne_panic (F64.ofI64 i)
    | uint u => exact singleNum_ne_panic (F64.ofU64 u)
    | str s => simp only [thresholdWith]; split <;> simp
    | other => simp [thresholdWith]

/-- **C39.nan_inf_negative_rejected** — a float that is NaN, infinite or negative is an `invalid value`
    error as the single number and as either direction of the table form -/
theorem nan_inf_negative_rejected (f : F64) (hbad : f.isNaN = true ∨ f.isInf = true ∨ F64.lt f F64.zero = true) :
    thresholdOf (.scalar (.float f)) = .err .invalidValue ∧
    thresholdOf (.table [("forward", .float f)]) = .err .invalidValue ∧
    thresholdOf (.table [("backward", .float f)]) = .err .invalidValue := by
  have hb : badNumber f = true := by
    unfold badNumber
    rcases hbad with h | h | h <;> simp [h]
  refine ⟨?_, ?_, ?_⟩ <;>
    simp [thresholdOf, thresholdWith, visitMap, partOf, numberOf, checkedDuration, hb, Res.bind]

theorem countSources_le (srcs : List Src) : ∀ acc, acc ≤ USIZE_MAX → countSources srcs acc ≤ USIZE_MAX := by
  induction srcs with
  | nil => intro acc h; exact h
  | cons s rest ih =>
    intro acc h
    cases s with
    | one => exact ih _ (Nat.min_le_right _ _)
    | pool c => exact ih _ (Nat.min_le_right _ _)

/-- **C39.count_sources_no_overflow** -/
theorem count_sources_no_overflow (srcs : List Src) : countSources srcs 0 ≤ USIZE_MAX :=
  countSources_le srcs 0 (by unfold USIZE_MAX; omega)

/-! #### the unfixed code violated the property -/

/- F-C39a (`{ forward = -1.0 }` accepted with the limit −2³² units before the fix) depends on the hardware's
   float arithmetic and is therefore kept as the first corpus case of streams c39_thr / c39_cfg, not as a theorem. -/

/-- F-C39b: before the fix `{ forward = nan }` reached `from_seconds`' `debug_assert!` -/
theorem unfixed_nan_panics :
    thresholdOfUnfixed (.table [("forward", .float F64.nan)]) = .panic := by
  simp [thresholdOfUnfixed, thresholdWith, visitMap, partOfUnfixed, numberOf, fromSec, Res.bind,
    fromSeconds_nonfinite (s := F64.nan) (by decide)]

/-- F-C39c: before the fix three pools asking for i64::MAX sources overflowed `count += …` -/
theorem unfixed_count_overflows :
    countSourcesUnfixed [.pool 9223372036854775807, .pool 9223372036854775807, .pool 9223372036854775807] 0 = none := by
  decide

end NtpVerif.C39

#print axioms NtpVerif.C39.accepted_from_valid_number
#print axioms NtpVerif.C39.accepted_nonneg
#print axioms NtpVerif.C39.threshold_never_panics
#print axioms NtpVerif.C39.nan_inf_negative_rejected
#print axioms NtpVerif.C39.count_sources_no_overflow
#print axioms NtpVerif.C39.unfixed_nan_panics
#print axioms NtpVerif.C39.unfixed_count_overflows
