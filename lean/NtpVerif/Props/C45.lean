/-
C45 — CSPTP servers answer only requests, with correct echoes.

Property theorems only (helper lemmas: `NtpVerif.Proofs.PtpWire`, `NtpVerif.Proofs.CsptpServer`).
Model: `NtpVerif.CsptpServer.handlePacket` (`statime-csptp/src/server.rs::handle_packet`) over the models of
`CsptpMessage::{deserialize, is_request, new_response, new_follow_up, serialize}` (`NtpVerif.Csptp`) and of the
statime-wire codec (`NtpVerif.PtpWire`).  Inputs: any server state, any datagram, any receive timestamp, any
outcome of `send_event`.  Outputs: the datagrams handed to `send_event` / `send_general`.

Sentence ↔ theorem
* "answers only well-formed CSPTP requests"                                  → `answers_only_requests`
* "each answer carries the request's domain and sequence id, the request's
   reception time and correction field"                                      → `answer_echoes`
* "for two-step answers, a follow-up carrying the actual send time"          → `follow_up_carries_send_time`
  (every answer is two-step: `answer_echoes` gives `twoStep = true`; nothing goes out on the general socket
  unless the event send returned a timestamp)
The echo theorems are stated on the WIRE: the sent bytes, parsed back by the (fixed) statime-wire parser, even
when followed by arbitrary trailing bytes.
-/
import NtpVerif.Proofs.CsptpServer

namespace NtpVerif.C45
open NtpVerif.PtpWire NtpVerif.Csptp NtpVerif.CsptpServer

/-- Anything sent on either socket answers a datagram that parses as a CSPTP message (sdoId 0x300, PTP
    major version 2, a Sync with exactly one valid REQUEST TLV and no RESPONSE TLV) — a well-formed request. -/
theorem answers_only_requests {st : ServerState} {pkt : Bytes} {rx : Timestamp} {ev : Option Timestamp}
    {out : Out} (h : handlePacket st pkt rx ev = .ok out) (hs : out.event ≠ none ∨ out.general ≠ none) :
    ∃ req tlvs, Csptp.deserialize pkt = .ok (req, tlvs) ∧ isRequest req tlvs = true ∧
      Message.deserialize pkt = .ok req ∧ req.header.sdoId = 0x300 ∧ req.header.major = 2 := by
  have key : ∀ b, out.event = some b →
      ∃ req tlvs, Csptp.deserialize pkt = .ok (req, tlvs) ∧ isRequest req tlvs = true ∧
        Message.deserialize pkt = .ok req ∧ req.header.sdoId = 0x300 ∧ req.header.major = 2 := by
    intro b he
    obtain ⟨req, tlvs, _, hd, hr, _, _⟩ := handlePacket_event h he
    obtain ⟨hm, h1, h2⟩ := Csptp.deserialize_msg hd
    exact ⟨req, tlvs, hd, hr, hm, h1, h2⟩
  rcases hs with hs | hs
  · cases he : out.event with
    | none => exact absurd he hs
    | some b => exact key b he
  · cases hg : out.general with
    | none => exact absurd hg hs
    | some g =>
      obtain ⟨_, _, _, rb, _, _, _, _, _, he, _⟩ := handlePacket_general h hg
      exact key rb he

/-- The answer on the event socket, parsed back from the wire, is a two-step CSPTP Sync with the request's
    domain and sequence id whose first TLV is a RESPONSE TLV holding exactly the reception timestamp `rx` and
    the request's correction field; any further TLV is the STATUS TLV. -/
theorem answer_echoes {st : ServerState} {pkt : Bytes} {rx : Timestamp} {ev : Option Timestamp}
    {out : Out} {b : Bytes} (h : handlePacket st pkt rx ev = .ok out) (he : out.event = some b)
    (hrx : rx.WF) (extra : Bytes) :
    ∃ req tlvs resp rest, Csptp.deserialize pkt = .ok (req, tlvs) ∧
      Message.deserialize (b ++ extra) = .ok resp ∧
      resp.header.domain = req.header.domain ∧ resp.header.seqId = req.header.seqId ∧
      resp.header.twoStep = true ∧ resp.header.sdoId = 0x300 ∧
      TlvSet.iter resp.suffix = .ok (ResponseTlv.toTlv ⟨rx, req.header.correction⟩ :: rest) ∧
      ResponseTlv.tryFrom (ResponseTlv.toTlv ⟨rx, req.header.correction⟩) = some ⟨rx, req.header.correction⟩ ∧
      (∀ t ∈ rest, t.type = TLV_STATUS) := by
  obtain ⟨req, tlvs, resp, rest, hd, _, hm, hh, _, hi, ht, hr⟩ := response_parses_back h he hrx extra
  exact ⟨req, tlvs, resp, rest, hd, hm, by rw [hh]; rfl, by rw [hh]; rfl, by rw [hh]; rfl, by rw [hh]; rfl,
    hi, ht, hr⟩

/-- A datagram goes out on the general socket only after the event send succeeded with send timestamp `t`
    (and an answer went out on the event socket); parsed back it is a CSPTP Follow_Up with the request's domain
    and sequence id whose precise origin timestamp is exactly `t`. -/
theorem follow_up_carries_send_time {st : ServerState} {pkt : Bytes} {rx : Timestamp} {ev : Option Timestamp}
    {out : Out} {g : Bytes} (h : handlePacket st pkt rx ev = .ok out) (hg : out.general = some g)
    (hev : ∀ t, ev = some t → t.WF) (extra : Bytes) :
    ∃ req tlvs t rb fu, Csptp.deserialize pkt = .ok (req, tlvs) ∧ ev = some t ∧ out.event = some rb ∧
      Message.deserialize (g ++ extra) = .ok fu ∧ fu.body = .followUp t ∧
      fu.header.domain = req.header.domain ∧ fu.header.seqId = req.header.seqId ∧ fu.suffix = [] := by
  obtain ⟨req, tlvs, t, rb, hd, he, hb, hm⟩ := follow_up_parses_back h hg hev extra
  exact ⟨req, tlvs, t, rb, _, hd, he, hb, hm, rfl, rfl, rfl, rfl⟩

/-- non-vacuity: a request built by the client constructor is answered on both sockets (so the hypotheses of
    all three theorems are met by a concrete non-trivial input) -/
example : ∃ out b g, handlePacket exState exRequest ⟨10, 20⟩ (some ⟨10, 30⟩) = .ok out ∧
    out.event = some b ∧ out.general = some g := by
  have h := c45_nonvacuous
  cases hh : handlePacket exState exRequest ⟨10, 20⟩ (some ⟨10, 30⟩) with
  | error e => rw [hh] at h; cases h
  | ok out =>
    rw [hh] at h
    simp only [Except.toOption, Option.map, Option.some.injEq, Prod.mk.injEq] at h
    obtain ⟨h1, h2⟩ := h
    cases he : out.event with
    | none => rw [he] at h1; cases h1
    | some b =>
      cases hg : out.general with
      | none => rw [hg] at h2; cases h2
      | some g => exact ⟨out, b, g, rfl, he, hg⟩

/-- the unfixed timestamp parser accepts nanoseconds = 10^9 (so the unfixed server answered such a malformed
    request: finding F-C44b); the unfixed TLV loop rejects a request with a trailing empty TLV (F-C41) -/
example : (Timestamp.deserializeOrig ([0,0,0,0,0,1] ++ beBytes 4 1000000000)).toOption.isSome = true ∧
          (Timestamp.deserialize ([0,0,0,0,0,1] ++ beBytes 4 1000000000)).toOption.isSome = false :=
  c44_counterexample

end NtpVerif.C45

#print axioms NtpVerif.C45.answers_only_requests
#print axioms NtpVerif.C45.answer_echoes
#print axioms NtpVerif.C45.follow_up_carries_send_time
