/-
C41 — PTP messages survive a serialise/parse round trip.

Property theorems only (helper lemmas: `NtpVerif.Proofs.PtpWire`).  Model: `NtpVerif.PtpWire`
(`statime-wire`: `Message::{serialize,deserialize}`, the 34-byte header, the ten bodies, `TlvSet::deserialize`,
the TLV iterator and builder), with the fixes F-C41 (`>= 4`) and F-C44b (`nanos >= 10^9`) applied.

Sentence ↔ theorem
* "Every message the PTP wire library can serialise parses back to an equal message"   → `ser_then_parse`
  (all ten bodies incl. Announce and Management, any header, any valid TLV set incl. empty-valued TLVs,
   any trailing bytes; `WF` = the value ranges of the Rust field types + enum payloads in the range their
   variant parses from — outside it the library does NOT round-trip: known finding F-C41c)
  `serialisable_lt_65536` / `oversize_refused`: "can serialise" means shorter than 2^16 octets — the encoder's checked
  u16 conversion of messageLength refuses anything longer (`Error::Invalid`) instead of writing a truncated length
  that would not parse back (boundary example: a 65 536-octet Sync is refused; the 65 534 / 65 532-octet side is exercised by the `sz` cases of stream c41_typed).
* "every message it parses re-serialises to the parsed prefix of the input"            → `parse_then_ser`
  Proved up to the registered known finding F-C41b: re-serialising a parsed message into a zeroed buffer of at
  least `messageLength` octets yields EXACTLY `canon (b.take messageLength)`, where `canon` (see `canonHeader`,
  `canonBody` in `Proofs/PtpWire`) zeroes precisely the reserved fields (flag bits 3,4,7 of octet 6, bit 7 of
  octet 7, octets 16..19, octet 32, the 10 reserved octets of Pdelay_Req, Announce octet 34+12, Management octet
  34+10) and canonicalises the two lossy enum octets (reserved clockAccuracy codes → 0, actionField > 5 → 5);
  `parse_then_ser_reserved_zero` (= the former `ParseThenSerCanonFull`, now a theorem): when those fields are
  already zero the result IS the parsed prefix, for all ten bodies and any TLV suffix.  The strict reading
  `ParseThenSerStrict` is false for the code (`counterexample`).  `parse_then_ser_partial` (canonical
  representative, parses back to the same message) is kept.
  Buffer hygiene: `serialize_reads_only_unwritten_octet` — the output depends on the caller's buffer only through
  its length and the ONE octet the encoder never writes (Announce 34+12, Management 34+10);
  `unwritten_octet_is_stale` — that octet goes out as found in the buffer; with a zeroed buffer it is 0
  (`parse_then_ser`), so no stale octet reaches the wire.
* "parsing any byte string terminates without panicking"                               → `parse_total`
  (the model is a total function; its fuelled TLV loop never runs out of fuel; every explicit panic branch —
   slice indices after length tests, `unwrap`s, the iterator's `debug_assert` — is unreachable), and
  `iterate_total`: iterating the TLV set of any parsed message does not panic either.
-/
import NtpVerif.Proofs.PtpWire

namespace NtpVerif.C41
open NtpVerif.PtpWire

/-- **Serialise, then parse.**  Whatever `Message::serialize` writes for a well-formed message with a valid
    TLV set (into any buffer, whatever its old content) parses back to that message, also when followed by
    arbitrary bytes. -/
theorem ser_then_parse (m : Message) (buf out extra : Bytes) (hw : m.WF)
    (hs : TlvSet.deserialize m.suffix = .ok m.suffix) (h : m.serialize buf = .ok out) :
    Message.deserialize (out ++ extra) = .ok m :=
  Message.deser_ser_all m buf out extra hw hs h

/-- TLV sets made by the builder from TLVs of even length (< 2^16, incl. EMPTY values, also in last
    position) are valid sets, so `ser_then_parse` applies to them, and they iterate back to the same TLVs. -/
theorem builder_sets_valid (ts : List Tlv) (hw : ∀ t ∈ ts, t.WF ∧ t.value.length % 2 = 0) :
    TlvSet.deserialize (encTlvs ts) = .ok (encTlvs ts) ∧ TlvSet.iter (encTlvs ts) = .ok ts := by
  have hlen : ts.length ≤ (encTlvs ts).length := by
    induction ts with
    | nil => simp [encTlvs]
    | cons t ts ih =>
      have := ih (fun t' h' => hw t' (by simp [h']))
      simp [encTlvs, Tlv.enc, beBytes_length]; omega
  constructor
  · unfold TlvSet.deserialize
    rw [tlvLoop_enc ts _ (fun t h => ⟨(hw t h).2, (hw t h).1.2⟩) (by omega)]
  · unfold TlvSet.iter
    exact iterLoop_enc ts _ (fun t h => (hw t h).1) (by omega)

/-- **Parsing is total and never panics**, for every byte string. -/
theorem parse_total (b : Bytes) : Message.deserialize b ≠ .error .panic :=
  Message.deserialize_ne_panic b

/-- the TLV iterator (`unwrap`, `debug_assert`) cannot panic on the suffix of a parsed message -/
theorem iterate_total (b : Bytes) (m : Message) (h : Message.deserialize b = .ok m) :
    ∃ ts, TlvSet.iter m.suffix = .ok ts :=
  TlvSet.iter_of_deserialize _ _ (Message.deserialize_suffix b m h)

/-- the strict reading of the second sentence: re-serialisation (into a zeroed buffer) reproduces the parsed
    prefix byte for byte -/
def ParseThenSerStrict : Prop :=
  ∀ (b : Bytes) (m : Message) (dh : DeserializedHeader), Header.deserialize b = .ok dh →
    Message.deserialize b = .ok m → ∀ cap, dh.messageLength ≤ cap →
      m.serialize (List.replicate cap 0) = .ok (b.take dh.messageLength)

/-- the reserved fields of the parsed prefix `p` are zero and its two lossy enum octets are canonical:
    header flag bits 3,4,7 of octet 6, bit 7 of octet 7, octets 16..19 and 32; for Pdelay_Req the 10 reserved body
    octets; for Announce body octet 12 and a non-reserved (or zero) clockAccuracy octet; for Management body
    octet 10 and an actionField ≤ 5 -/
def ReservedZero (p : Bytes) : Prop :=
  ReservedZeroHeader p ∧ ReservedZeroBody ((p.getD 0 0).toNat % 16) (p.drop 34)

/-- **Parse, then re-serialise.**  For every byte string that parses, re-serialising the parsed message into a
    zeroed buffer that can hold `messageLength` octets gives exactly the canonical form of the parsed prefix. -/
theorem parse_then_ser (b : Bytes) (m : Message) (dh : DeserializedHeader) (hh : Header.deserialize b = .ok dh)
    (h : Message.deserialize b = .ok m) (cap : Nat) (hc : dh.messageLength ≤ cap) :
    m.serialize (List.replicate cap 0) = .ok (canon (b.take dh.messageLength)) :=
  Message.parse_then_ser_bytes b m dh hh h cap hc

/-- … and that is the parsed prefix itself whenever its reserved fields are zero (the full statement of
    sentence 2 up to known finding F-C41b; formerly the unproved `ParseThenSerCanonFull`). -/
theorem parse_then_ser_reserved_zero (b : Bytes) (m : Message) (dh : DeserializedHeader)
    (hh : Header.deserialize b = .ok dh) (h : Message.deserialize b = .ok m)
    (hr : ReservedZero (b.take dh.messageLength)) (cap : Nat) (hc : dh.messageLength ≤ cap) :
    m.serialize (List.replicate cap 0) = .ok (b.take dh.messageLength) := by
  rw [parse_then_ser b m dh hh h cap hc]
  obtain ⟨dh', hh', h34, hlen, _, hbody, hws, _⟩ := Message.deserialize_inv b m h
  rw [hh] at hh'; cases hh'
  obtain ⟨_, hty⟩ := Body.deserialize_WF _ _ _ hbody
  obtain ⟨htyb, _, hb34⟩ := Header.deserialize_type b dh hh
  obtain ⟨_, hg0, _, _⟩ := canonHeader_take b dh.messageLength h34 hb34
  have hclen : ((b.take dh.messageLength).drop 34).length = dh.messageLength - 34 := by
    simp [List.length_take]; omega
  rw [hclen, Body.wireSize_eq, hty, htyb] at hws
  congr 1
  apply canon_eq_self _ _ hr.1 hr.2
  rw [hg0, List.length_take]
  omega

/-- `Message::serialize` reads the caller's buffer only for its length and the one octet it never writes -/
theorem serialize_reads_only_unwritten_octet (m : Message) (buf buf' : Bytes) (hl : buf.length = buf'.length)
    (h : ∀ i, m.body.unwritten = some i → buf[34 + i]? = buf'[34 + i]?) : m.serialize buf = m.serialize buf' :=
  Message.serialize_congr m buf buf' hl h

/-- that octet (Announce: 34+12, Management: 34+10) goes out on the wire as found in the caller's buffer -/
theorem unwritten_octet_is_stale (m : Message) (buf out : Bytes) (i : Nat) (hi : m.body.unwritten = some i)
    (h : m.serialize buf = .ok out) : out[34 + i]? = buf[34 + i]? :=
  Message.serialize_unwritten m buf out i hi h

/-- **Parse, then re-serialise (proved part).** -/
theorem parse_then_ser_partial (b buf : Bytes) (m : Message) (h : Message.deserialize b = .ok m) :
    ∃ dh, Header.deserialize b = .ok dh ∧ (dh.messageLength ≤ buf.length →
      ∃ out, m.serialize buf = .ok out ∧ out.length = dh.messageLength ∧
        out.drop (34 + m.body.wireSize) = (b.take dh.messageLength).drop (34 + m.body.wireSize) ∧
        ∀ extra, Message.deserialize (out ++ extra) = .ok m) :=
  Message.parse_then_ser_canon b buf m h

/-- a 44-byte Sync whose only non-zero bytes are version 2, length 44 and the RESERVED flag bit 3 of octet 6 -/
def wReserved : Bytes :=
  [0x00, 0x02, 0x00, 0x2c, 0, 0, 0x08, 0, 0,0,0,0,0,0,0,0, 0,0,0,0, 0,0,0,0,0,0,0,0,0,0, 0,0, 0,0,
   0,0,0,0,0,0,0,0,0,0]

def wHeader : Header :=
  { sdoId := 0, major := 2, minor := 0, domain := 0, alternateMaster := false, twoStep := false, unicast := false,
    profile1 := false, profile2 := false, leap61 := false, leap59 := false, utcOffsetValid := false,
    ptpTimescale := false, timeTraceable := false, freqTraceable := false, syncUncertain := false,
    correction := 0, source := ⟨0, 0⟩, seqId := 0, logInterval := 0 }
def wMsg : Message := { header := wHeader, body := .sync ⟨0, 0⟩, suffix := [] }
/-- what the encoder writes for the parsed `wReserved`: octet 6 is 0 -/
def wCanon : Bytes :=
  [0x00, 0x02, 0x00, 0x2c, 0, 0, 0x00, 0, 0,0,0,0,0,0,0,0, 0,0,0,0, 0,0,0,0,0,0,0,0,0,0, 0,0, 0,0,
   0,0,0,0,0,0,0,0,0,0]

theorem toOption_some {α : Type} {r : Except Fail α} {a : α} (h : r.toOption = some a) : r = .ok a := by
  cases r with
  | error e => cases h
  | ok x => simp [Except.toOption] at h; rw [h]

/-- the strict reading fails on the code: reserved bits are not reproduced (finding F-C41b) -/
theorem counterexample : ¬ ParseThenSerStrict := by
  intro hF
  have hH : (Header.deserialize wReserved).toOption = some ⟨wHeader, 0, 44⟩ := by decide +kernel
  have hM : (Message.deserialize wReserved).toOption = some wMsg := by decide +kernel
  have hS : (wMsg.serialize (List.replicate 44 0)).toOption = some wCanon := by decide +kernel
  have h1 := hF wReserved wMsg _ (toOption_some hH) (toOption_some hM) 44 (Nat.le_refl _)
  rw [h1] at hS
  revert hS
  decide +kernel

/-- Whatever the library serialises is shorter than 2^16 octets and has exactly `wire_size` octets. -/
theorem serialisable_lt_65536 (m : Message) (buf out : Bytes) (h : m.serialize buf = .ok out) :
    out.length = 34 + m.body.wireSize + m.suffix.length ∧ out.length < 2 ^ 16 :=
  Message.serialize_size m buf out h

/-- A message of 2^16 octets or more is refused with `Error::Invalid` (never serialised with a truncated
    messageLength), for any buffer that passes the header / body split. -/
theorem oversize_refused (m : Message) (buf : Bytes) (hbuf : 34 + m.body.wireSize ≤ buf.length)
    (heven : m.suffix.length % 2 = 0) (hbig : 2 ^ 16 ≤ 34 + m.body.wireSize + m.suffix.length) :
    m.serialize buf = .error .invalid :=
  Message.serialize_oversize m buf hbuf heven hbig

/-- boundary, upper side: a Sync with a 65 492-octet suffix is 65 536 octets long and is refused -/
example (buf sfx : Bytes) (hb : 44 ≤ buf.length) (hs : sfx.length = 65492) :
    ({ header := wHeader, body := .sync ⟨0, 0⟩, suffix := sfx } : Message).serialize buf = .error .invalid :=
  oversize_refused _ buf (by simpa [Body.wireSize] using hb) (by simp [hs]) (by simp [Body.wireSize, hs])

/-- (suffixes of these lengths exist) -/
example : (List.replicate 65492 (0 : UInt8)).length = 65492 := List.length_replicate ..

/-- **Constructor-validated header fields round trip.**  A header whose version went through `PtpVersion::new`,
    whose sdoId went through `SdoId::try_from` (both accepting) and whose plain integer fields are any `u8` / `u16` /
    `i8` values serialises (with any well-formed body and valid TLV set) to bytes that parse back to an equal message.
    The acceptance rules (`PtpVersion.new?`: major, minor < 16; `SdoId.new?`: <= 0xfff) are exactly what the 4-bit /
    12-bit packing of octets 0, 1 and 5 can carry. -/
theorem constructed_versions_roundtrip (major minor sdo domain seq li : Nat) (h : Header) (body : Body) (sfx : Bytes)
    (buf out extra : Bytes) (hc : Header.construct? major minor sdo domain seq li = some h)
    (hd : domain < 256) (hs : seq < 2 ^ 16) (hl : li < 256) (hb : body.WF)
    (hsfx : TlvSet.deserialize sfx = .ok sfx)
    (hser : ({ header := h, body, suffix := sfx } : Message).serialize buf = .ok out) :
    Message.deserialize (out ++ extra) = .ok { header := h, body, suffix := sfx } :=
  ser_then_parse _ buf out extra ⟨(Header.construct_wf _ _ _ _ _ _ h hc hd hs hl).1, hb⟩ hsfx hser

/-- the constructors accept the extremes 15 / 0xfff and reject 16 / 0x1000 -/
example : (Header.construct? 15 15 0xfff 255 65535 255).isSome = true ∧
    Header.construct? 2 16 0 0 0 0 = none ∧ Header.construct? 16 0 0 0 0 0 = none ∧
    Header.construct? 2 1 0x1000 0 0 0 = none ∧ PtpVersion.new? 0 0 = some (0, 0) ∧
    PtpVersion.new? 255 1 = none ∧ PtpVersion.new? 1 17 = none := by decide

/-- the acceptance rule cannot be widened: a version 2.16 header (reachable only by by-passing `PtpVersion::new`,
    e.g. `Header::new(16)`, which does not validate its argument) serialises but parses back as 2.0 -/
example :
    (({ header := Header.new 16, body := .sync ⟨0, 0⟩, suffix := [] } : Message).serialize (List.replicate 44 0)).toOption
      = some wCanon ∧
    (Message.deserialize wCanon).toOption = some { header := Header.new 0, body := .sync ⟨0, 0⟩, suffix := [] } := by
  decide +kernel

/-- **Setters and constructor agree.**  On a well-formed timestamp `try_set_seconds` / `try_set_nanos` accept exactly
    the values `Timestamp::new` accepts in that position, and whatever either route accepts is well-formed (so
    `ser_then_parse` applies: no route builds a timestamp the 48-bit / 10^9 wire format cannot carry). -/
theorem setter_constructor_agree (t : Timestamp) (ht : t.WF) (s n : Nat) :
    ((t.trySetSeconds s).toOption.isSome ↔ (Timestamp.new s t.nanos).toOption.isSome) ∧
    ((t.trySetNanos n).toOption.isSome ↔ (Timestamp.new t.seconds n).toOption.isSome) ∧
    (∀ t', t.trySetSeconds s = .ok t' → t'.WF ∧ Timestamp.new s t.nanos = .ok t') ∧
    (∀ t', t.trySetNanos n = .ok t' → t'.WF ∧ Timestamp.new t.seconds n = .ok t') := by
  obtain ⟨h1, h2⟩ := ht
  unfold Timestamp.trySetSeconds Timestamp.trySetNanos Timestamp.new Timestamp.WF
  refine ⟨?_, ?_, ?_, ?_⟩
  · by_cases h : s ≥ 2 ^ 48
    · rw [if_pos h, if_pos (Or.inl h)]
    · have : ¬ (s ≥ 2 ^ 48 ∨ t.nanos ≥ 1000000000) := by omega
      rw [if_neg h, if_neg this]
  · by_cases h : n ≥ 1000000000
    · rw [if_pos h, if_pos (Or.inr h)]
    · have : ¬ (t.seconds ≥ 2 ^ 48 ∨ n ≥ 1000000000) := by omega
      rw [if_neg h, if_neg this]
  · intro t' h
    by_cases hs : s ≥ 2 ^ 48
    · rw [if_pos hs] at h; cases h
    · have : ¬ (s ≥ 2 ^ 48 ∨ t.nanos ≥ 1000000000) := by omega
      rw [if_neg hs] at h
      cases h
      exact ⟨⟨by show s < 2 ^ 48; omega, h2⟩, by rw [if_neg this]⟩
  · intro t' h
    by_cases hn : n ≥ 1000000000
    · rw [if_pos hn] at h; cases h
    · have : ¬ (t.seconds ≥ 2 ^ 48 ∨ n ≥ 1000000000) := by omega
      rw [if_neg hn] at h
      cases h
      exact ⟨⟨h1, by show n < 1000000000; omega⟩, by rw [if_neg this]⟩

/-- boundaries: 2^48 - 1 / 999 999 999 accepted, 2^48 / 10^9 rejected, by both routes -/
example : (Timestamp.new (2 ^ 48 - 1) 999999999).toOption.isSome = true ∧
    ((⟨0, 0⟩ : Timestamp).trySetSeconds (2 ^ 48 - 1)).toOption.isSome = true ∧
    ((⟨0, 0⟩ : Timestamp).trySetSeconds (2 ^ 48)).toOption.isSome = false ∧
    (Timestamp.new (2 ^ 48) 0).toOption.isSome = false ∧
    ((⟨0, 0⟩ : Timestamp).trySetNanos 999999999).toOption.isSome = true ∧
    ((⟨0, 0⟩ : Timestamp).trySetNanos 1000000000).toOption.isSome = false := by decide

/-! ### non-vacuity -/

/-- an Announce with every flag set, a profile-specific accuracy and two TLVs, the last one EMPTY: meets the
    hypotheses of `ser_then_parse`; its serialisation meets those of `parse_then_ser_partial` -/
def exAnnounce : Message :=
  { header := { sdoId := 0xabc, major := 2, minor := 1, domain := 127, alternateMaster := true, twoStep := true,
                unicast := true, profile1 := true, profile2 := true, leap61 := true, leap59 := true,
                utcOffsetValid := true, ptpTimescale := true, timeTraceable := true, freqTraceable := true,
                syncUncertain := true, correction := -1, source := ⟨2 ^ 64 - 1, 65535⟩, seqId := 65535,
                logInterval := 255 },
    body := .announce { origin := ⟨2 ^ 48 - 1, 999999999⟩, utcOffset := 37, priority1 := 128,
                        quality := ⟨248, .profileSpecific 0x7d, 0x4e5d⟩, priority2 := 255, identity := 2 ^ 64 - 1,
                        stepsRemoved := 65535, timeSource := .profileSpecific 0xf0 },
    suffix := encTlvs [⟨0x0003, [1, 2]⟩, ⟨0x8008, []⟩] }

example : exAnnounce.WF := by decide
example : TlvSet.deserialize exAnnounce.suffix = .ok exAnnounce.suffix :=
  (builder_sets_valid [⟨0x0003, [1, 2]⟩, ⟨0x8008, []⟩]
    (by intro t ht; simp at ht; rcases ht with rfl | rfl <;> simp [Tlv.WF])).1
example : ((exAnnounce.serialize (List.replicate 100 0xaa)).toOption.map List.length) = some 74 := by decide +kernel
example : (Message.deserialize wReserved).toOption.isSome = true := by decide +kernel

/-- `wCanon` (a 44-byte Sync with all reserved fields zero) meets the hypotheses of `parse_then_ser_reserved_zero` -/
example : ReservedZero wCanon := by
  unfold ReservedZero ReservedZeroHeader ReservedZeroBody
  decide
example : (Message.deserialize wCanon).toOption.isSome = true := by decide +kernel
/-- and `canon` really changes `wReserved` (reserved flag bit 3 set) into `wCanon` -/
example : canon wReserved = wCanon := by decide +kernel

end NtpVerif.C41

#print axioms NtpVerif.C41.ser_then_parse
#print axioms NtpVerif.C41.builder_sets_valid
#print axioms NtpVerif.C41.serialisable_lt_65536
#print axioms NtpVerif.C41.oversize_refused
#print axioms NtpVerif.C41.constructed_versions_roundtrip
#print axioms NtpVerif.C41.setter_constructor_agree
#print axioms NtpVerif.C41.parse_total
#print axioms NtpVerif.C41.iterate_total
#print axioms NtpVerif.C41.parse_then_ser_partial
#print axioms NtpVerif.C41.parse_then_ser
#print axioms NtpVerif.C41.parse_then_ser_reserved_zero
#print axioms NtpVerif.C41.serialize_reads_only_unwritten_octet
#print axioms NtpVerif.C41.unwritten_octet_is_stale
#print axioms NtpVerif.C41.counterexample
