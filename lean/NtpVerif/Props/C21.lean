/-
C21 — Server statistics account for every datagram exactly once.

Model: `NtpVerif.Model.Server`; `Outcome.stats` are the `ServerStatHandler::register` calls of one
`Server::handle` invocation (the harness's stat handler records every call; the differential stream compares
the whole list, so a second registration or a missing one is a model disagreement).  The mapping of an entry to
the daemon's counters (`ntpd/src/daemon/server.rs`) is one `match` per field and is not modelled.

  sentence of the property                                               theorem
  exactly one entry per datagram                                         exactly_one_entry
  response kind matches what was done: a datagram is sent iff the kind
    is time / deny / nak, and it is the datagram of that builder        kind_matches_action
  NTS flag never set for plain requests                                  nts_flag_never_for_plain
  NTS flag set for every NTS request that is answered                    nts_flag_for_answered_nts
-/
import NtpVerif.Proofs.Server

namespace NtpVerif.C21
open NtpVerif.Server

/-- Whenever handling returns (no panic: C22), exactly one statistics entry was recorded. -/
theorem exactly_one_entry (cfg : Config) (info : Info) (env : Env) (req : Req)
    (h : handle cfg info env req ≠ .panic) : (handle cfg info env req).stats.length = 1 := by
  have hdone : ∀ s, handleInner cfg info env req = .done s → s.length = 1 := by
    intro s hs
    unfold handleInner at hs
    generalize intendedAction cfg env = ia at hs
    obtain ⟨act, rsn⟩ := ia
    have hresp : ∀ a r c, respond cfg info env req a r c = .done s → s.length = 1 := by
      intro a r c hr
      unfold respond at hr
      split at hr
      · simp only [Inner.done.injEq] at hr; subst hr; rfl
      · simp only [] at hr
        split at hr
        · simp only [Inner.done.injEq] at hr; subst hr; rfl
        · split at hr <;> simp at hr
    simp only [] at hs
    split at hs
    · simp only [Inner.done.injEq] at hs; subst hs; rfl
    · split at hs
      · simp at hs
      · simp only [Inner.done.injEq] at hs; subst hs; rfl
      · split at hs
        · simp only [Inner.done.injEq] at hs; subst hs; rfl
        · exact hresp _ _ _ hs
      · split at hs
        · simp only [Inner.done.injEq] at hs; subst hs; rfl
        · split at hs <;> exact hresp _ _ _ hs
  unfold handle at h ⊢
  split
  · rename_i s hs; exact hdone s hs
  · rename_i hp; simp [hp] at h
  · split <;> simp_all [Outcome.stats]

/-- The recorded kind is what was done.  If a datagram is sent, the single entry's kind is time, deny or nak
    and the datagram is exactly what the builder for that kind produced; if nothing is sent, the kind is
    `ignore`. -/
theorem kind_matches_action (cfg : Config) (info : Info) (env : Env) (req : Req) :
    (∀ r n s, handle cfg info env req = .respond r n s →
      ∃ st c, s = [st] ∧ st.response ≠ .ignore ∧ build info env req c st.response = .ok r) ∧
    (∀ s, handle cfg info env req = .ignore s → ∀ st ∈ s, st.response = .ignore) := by
  constructor
  · intro r n s h
    obtain ⟨a, reason, nts, c, hs, hb, _⟩ := handle_respond_full h
    refine ⟨_, c, hs, ?_, hb⟩
    intro ha
    simp only at ha
    subst ha
    simp [build] at hb
  · intro s h st hst
    have hdone : ∀ s', handleInner cfg info env req = .done s' → ∀ st ∈ s', st.response = .ignore := by
      intro s' hs'
      unfold handleInner at hs'
      generalize intendedAction cfg env = ia at hs'
      obtain ⟨act, rsn⟩ := ia
      have hresp : ∀ a r c, respond cfg info env req a r c = .done s' → ∀ st ∈ s', st.response = .ignore := by
        intro a r c hr
        unfold respond at hr
        split at hr
        · simp only [Inner.done.injEq] at hr; subst hr; simp
        · simp only [] at hr
          split at hr
          · simp only [Inner.done.injEq] at hr; subst hr; simp
          · split at hr <;> simp at hr
      simp only [] at hs'
      split at hs'
      · simp only [Inner.done.injEq] at hs'; subst hs'; simp
      · split at hs'
        · simp at hs'
        · simp only [Inner.done.injEq] at hs'; subst hs'; simp
        · split at hs'
          · simp only [Inner.done.injEq] at hs'; subst hs'; simp
          · exact hresp _ _ _ hs'
        · split at hs'
          · simp only [Inner.done.injEq] at hs'; subst hs'; simp
          · split at hs' <;> exact hresp _ _ _ hs'
    unfold handle at h
    split at h
    · rename_i s' hs'
      simp only [Outcome.ignore.injEq] at h
      subst h
      exact hdone _ hs' st hst
    · simp at h
    · split at h
      · simp at h
      · simp at h
      · simp only [Outcome.ignore.injEq] at h
        subst h
        simp at hst
        subst hst
        rfl

/-- The NTS flag is never set for a plain request (one that parsed without a valid cookie and without a
    failed authentication), whatever happens to it. -/
theorem nts_flag_never_for_plain (cfg : Config) (info : Info) (env : Env) (req : Req)
    (hplain : req.parse ≠ .dec ∧ req.cookie = none) :
    ∀ st ∈ (handle cfg info env req).stats, st.nts = false := by
  have hresp : ∀ a r s, a ≠ .nak → respond cfg info env req a r none = .done s → ∀ st ∈ s, st.nts = false := by
    intro a r s ha hr
    unfold respond at hr
    split at hr
    · simp only [Inner.done.injEq] at hr; subst hr; simp
    · simp only [] at hr
      split at hr
      · simp only [Inner.done.injEq] at hr; subst hr
        cases a <;> simp at ha ⊢
      · split at hr <;> simp at hr
  have hia := intendedAction_ne_nak cfg env
  cases hh : handle cfg info env req with
  | panic => simp [Outcome.stats]
  | respond r n s =>
    obtain ⟨a, reason, nts, c, hs, hb, _, _, _, hc, hnts⟩ := handle_respond_full hh
    obtain ⟨a', reason', v', nts', hi, _, hs'⟩ := handle_respond hh
    obtain ⟨_, _, a0, r0, c0, hr, hsrc⟩ := handleInner_answer hi
    have hc0 : c0 = none ∧ a0 ≠ .nak := by
      rcases hsrc with ⟨_, h2, h3⟩ | ⟨h1, _⟩
      · refine ⟨by rw [h3, hplain.2], ?_⟩
        have : a0 = (intendedAction cfg env).1 := by rw [← h2]
        rw [this]; exact hia
      · exact absurd h1 hplain.1
    obtain ⟨_, _, hn, _⟩ := respond_answer hr
    simp only [Outcome.stats, hs', List.mem_singleton]
    intro st hst
    subst hst
    simp only
    rw [hn, hc0.1]
    cases a0 <;> simp at hc0 ⊢
  | ignore s =>
    simp only [Outcome.stats]
    unfold handle at hh
    split at hh
    · rename_i s' hs'
      simp only [Outcome.ignore.injEq] at hh
      subst hh
      unfold handleInner at hs'
      generalize hg : intendedAction cfg env = ia at hs'
      obtain ⟨act, rsn⟩ := ia
      have hact : act ≠ .nak := by have := hia; rw [hg] at this; exact this
      simp only [] at hs'
      split at hs'
      · simp only [Inner.done.injEq] at hs'; subst hs'; simp
      · split at hs'
        · simp at hs'
        · simp only [Inner.done.injEq] at hs'; subst hs'; simp
        · split at hs'
          · simp only [Inner.done.injEq] at hs'; subst hs'; simp
          · rw [hplain.2] at hs'; exact hresp _ _ _ hact hs'
        · rename_i hdec; exact absurd hdec hplain.1
    · simp at hh
    · rename_i a' reason' v' nts' r' hi
      obtain ⟨_, _, a0, r0, c0, hr, hsrc⟩ := handleInner_answer hi
      have hc0 : c0 = none ∧ a0 ≠ .nak := by
        rcases hsrc with ⟨_, h2, h3⟩ | ⟨h1, _⟩
        · refine ⟨by rw [h3, hplain.2], ?_⟩
          have : a0 = (intendedAction cfg env).1 := by rw [← h2]
          rw [this]; exact hia
        · exact absurd h1 hplain.1
      obtain ⟨_, _, hn, _⟩ := respond_answer hr
      split at hh
      · simp at hh
      · simp at hh
      · simp only [Outcome.ignore.injEq] at hh
        subst hh
        intro st hst
        simp at hst
        subst hst
        simp only
        rw [hn, hc0.1]
        cases a0 <;> simp at hc0 ⊢

/-- The NTS flag is set for every NTS request that is answered: an answered request with a valid cookie, and
    every NTS-NAK answer (the answer to a request whose authentication failed). -/
theorem nts_flag_for_answered_nts (cfg : Config) (info : Info) (env : Env) (req : Req) {r n s}
    (h : handle cfg info env req = .respond r n s) :
    ∃ st, s = [st] ∧ ((req.parse = .ok ∧ req.cookie.isSome = true) ∨ st.response = .nak → st.nts = true) := by
  obtain ⟨a, reason, nts, c, hs, _, _, _, _, hc, hnts⟩ := handle_respond_full h
  refine ⟨_, hs, ?_⟩
  intro hx
  simp only
  rw [hnts]
  rcases hx with ⟨hp, hck⟩ | hx
  · rcases hc with ⟨_, hc⟩ | ⟨hd, _⟩
    · left; rw [hc]; exact hck
    · rw [hp] at hd; cases hd
  · right; exact hx

/-! #### the daemon's counters (`impl ServerStatHandler for ServerStats`, model `countersOf`) -/

/-- **Every statistics entry is counted once.**  It increments `received` by one and exactly one of the kind
    counters (accepted / denied / ignored / rate-limited / NAK) by one; `response_send_errors` is not touched (it
    belongs to the send path); the NTS counters move only with the NTS flag, `nts_received` exactly then, and an
    NTS sub-counter only together with its kind. -/
theorem counters_account_once (st : Stat) :
    (countersOf st).received = 1 ∧ (countersOf st).kinds = 1 ∧ (countersOf st).sendErrors = 0 ∧
    (st.nts = false → (countersOf st).ntsReceived = 0 ∧ (countersOf st).ntsAccepted = 0 ∧
      (countersOf st).ntsDenied = 0 ∧ (countersOf st).ntsRateLimited = 0) ∧
    (st.nts = true → (countersOf st).ntsReceived = 1) ∧
    (countersOf st).ntsAccepted ≤ (countersOf st).accepted ∧ (countersOf st).ntsDenied ≤ (countersOf st).denied ∧
    (countersOf st).ntsRateLimited ≤ (countersOf st).rateLimited := by
  obtain ⟨v, nts, reason, resp⟩ := st
  cases nts <;> cases reason <;> cases resp <;> simp [countersOf, Counters.add, Counters.kinds]

private theorem foldl_counters (sts : List Stat) (c : Counters) :
    (sts.foldl (fun c st => c.add (countersOf st)) c).received = c.received + sts.length ∧
    (sts.foldl (fun c st => c.add (countersOf st)) c).kinds = c.kinds + sts.length ∧
    (sts.foldl (fun c st => c.add (countersOf st)) c).sendErrors = c.sendErrors := by
  induction sts generalizing c with
  | nil => simp
  | cons st rest ih =>
    obtain ⟨h1, h2, h3, _⟩ := counters_account_once st
    obtain ⟨i1, i2, i3⟩ := ih (c.add (countersOf st))
    simp only [List.foldl_cons, List.length_cons]
    refine ⟨by rw [i1]; simp only [Counters.add]; omega, ?_, by rw [i3]; simp only [Counters.add]; omega⟩
    rw [i2]
    simp only [Counters.kinds, Counters.add] at h2 ⊢
    omega

/-- **The metrics are faithful**: after any sequence of entries, `received` is the number of entries and equals
    the sum of the kind counters; `register` never reports a send error. -/
theorem counters_sum (sts : List Stat) :
    (countersOfList sts).received = sts.length ∧ (countersOfList sts).received = (countersOfList sts).kinds ∧
    (countersOfList sts).sendErrors = 0 := by
  obtain ⟨h1, h2, h3⟩ := foldl_counters sts {}
  unfold countersOfList
  refine ⟨by rw [h1]; simp, ?_, by rw [h3]⟩
  rw [h1, h2]; simp [Counters.kinds]

/-- Every handled datagram moves `received` — and one kind counter — by exactly one. -/
theorem handled_datagram_counted_once (cfg : Config) (info : Info) (env : Env) (req : Req)
    (h : handle cfg info env req ≠ .panic) :
    (countersOfList (handle cfg info env req).stats).received = 1 ∧
    (countersOfList (handle cfg info env req).stats).kinds = 1 := by
  have hl := exactly_one_entry cfg info env req h
  obtain ⟨h1, h2, _⟩ := counters_sum (handle cfg info env req).stats
  rw [hl] at h1
  exact ⟨h1, by rw [← h2, h1]⟩

/-- an internal error (answer that could not be serialised) is an ignored datagram, not a send error -/
example : countersOf ⟨4, false, .internal, .ignore⟩ = { received := 1, ignored := 1 } := by decide
example : countersOf ⟨4, true, .policy, .time⟩ = { received := 1, accepted := 1, ntsReceived := 1, ntsAccepted := 1 } := by
  decide

/-! #### non-vacuity -/

def cfg0 : Config := { denyAct := .deny, allowAct := .ignore, requireNts := none, versions := [4] }
def info0 : Info :=
  { stratum := 2, refid := [1, 2, 3, 4], leap := 0, precision := 4096, rootDelay := 65536, bloom := [], keysOk := true }
def env0 : Env :=
  { inDeny := true, inAllow := true, rateOk := true, recv := 0xE800000000000000, now := 0xE800000000001000,
    rvar := F64.zero, bufLen := 48 }
def req0 : Req :=
  { len := 48, fv := 4, parse := .ok, version := 4, client := true, poll := 6, xmit := [1, 2, 3, 4, 5, 6, 7, 8],
    reft := [0, 0, 0, 0, 0, 0, 0, 0], untrusted := [], auth := [], enc := [], cookie := none, encw := 0, mac := 0 }

/-- failure paths each record one entry: answer too large for the buffer, malformed, wrong version -/
example : (handle cfg0 info0 { env0 with bufLen := 47 } req0).stats = [⟨4, false, .internal, .ignore⟩] := by decide
example : (handle cfg0 info0 env0 { req0 with parse := .err }).stats = [⟨4, false, .parse, .ignore⟩] := by decide
example : (handle cfg0 info0 env0 { req0 with version := 5 }).stats = [⟨5, false, .policy, .ignore⟩] := by decide
example : (handle cfg0 info0 env0 req0).stats = [⟨4, false, .policy, .deny⟩] := by decide

end NtpVerif.C21

#print axioms NtpVerif.C21.exactly_one_entry
#print axioms NtpVerif.C21.kind_matches_action
#print axioms NtpVerif.C21.nts_flag_never_for_plain
#print axioms NtpVerif.C21.nts_flag_for_answered_nts
#print axioms NtpVerif.C21.counters_account_once
#print axioms NtpVerif.C21.counters_sum
#print axioms NtpVerif.C21.handled_datagram_counted_once
