/-
C03 — the clock is only steered on a majority consensus of usable sources.

Model: `NtpVerif.Model.Select.select` (= `select` of select.rs, bit-level IEEE comparisons, arithmetic
uninterpreted: every theorem holds for whatever bits the radius / bound computations return) and
`NtpVerif.Model.CtrlLoop` (the controller's source map and the decision structure of `update_clock`).

Property text ↔ theorems:
  "only when at least the configured minimum number of usable, synchronised, non-periodic sources whose
   uncertainty is acceptable have confidence intervals sharing a common point, and those agreeing sources are a
   strict majority of all such sources"
        → `select_sound` (a non-empty selection implies a point `x` contained in the computed intervals of at
          least `minimum_agreeing_sources` eligible candidates, which are more than half of all eligible
          candidates), with `mem_elig`, `mem_agreeing`, `agreeing_ieee` spelling out what "eligible" and
          "contains" mean; `agreeing_selected` (the agreeing candidates are ALL in the output when nothing is NaN)
  "Sources marked unusable, unsynchronised or too uncertain never contribute to the estimate used for steering"
        → `select_members` (every selected source is one of the candidates, is synchronised and has
          radius ≤ maximum) + `C37.candidates_registered_usable` (candidates = registered ∧ usable ∧ reported)
  "The daemon changes the clock … only when …"
        → `steer_needs_selection` (ctrl loop: any clock call issued while processing a source message implies
          a non-empty `select` result on the usable candidates)
  the `assert_eq!` / `cur -= 1` panic sites
        → `select_no_panic` (no panic when every eligible interval has lo ≤ hi in the `total_cmp` order),
          `select_no_panic_ieee` (… or IEEE lo ≤ hi, excluding lo = +0.0 ∧ hi = −0.0), `panic_corner` (that
          excluded pair does panic)
-/
import NtpVerif.Proofs.Select
import NtpVerif.Proofs.CtrlLoop
import NtpVerif.Model.SourceSM

namespace NtpVerif.C03
open NtpVerif.Select NtpVerif.Leap NtpVerif.CtrlLoop

/-- eligible = takes part in the vote: a candidate that is not periodic, whose radius is not greater than the
    maximum, and that is synchronised -/
theorem mem_elig (cfg : Cfg) (cs : List Cand) (c : Cand) :
    c ∈ elig cfg cs ↔ (c ∈ cs ∧ c.periodic = false ∧ F64.gt (radius cfg c) cfg.maxUnc = false ∧
      c.leap ≠ .unsync) := by
  unfold elig eligible
  simp only [List.mem_filter, Bool.and_eq_true, Bool.not_eq_true', Bool.or_eq_false_iff]
  constructor
  · rintro ⟨h1, h2, h3, h4⟩
    refine ⟨h1, h2, h3, ?_⟩
    intro e; rw [e] at h4; simp [LI.isSynchronized] at h4
  · rintro ⟨h1, h2, h3, h4⟩
    refine ⟨h1, h2, h3, ?_⟩
    cases hl : c.leap <;> simp_all [LI.isSynchronized]

/-- agreeing at `x` = eligible and `lo ≤ x ≤ hi` for the candidate's computed interval (order of `total_cmp`) -/
theorem mem_agreeing (cfg : Cfg) (cs : List Cand) (x : F64) (c : Cand) :
    c ∈ agreeing cfg cs x ↔ (c ∈ elig cfg cs ∧ F64.totalLe (lo cfg c) x = true ∧ F64.totalLe x (hi cfg c) = true) := by
  unfold agreeing; simp [List.mem_filter]

/-- … which is the IEEE `lo ≤ x ≤ hi` whenever the three numbers are not NaN -/
theorem agreeing_ieee (cfg : Cfg) (cs : List Cand) (x : F64) (c : Cand) (h : c ∈ agreeing cfg cs x)
    (hx : x.isNaN = false) (hl : (lo cfg c).isNaN = false) (hh : (hi cfg c).isNaN = false) :
    F64.le (lo cfg c) x = true ∧ F64.le x (hi cfg c) = true := by
  obtain ⟨_, h1, h2⟩ := (mem_agreeing cfg cs x c).mp h
  exact ⟨le_of_totalLe h1 hl hx, le_of_totalLe h2 hx hh⟩

theorem agreeing_sublist (cfg : Cfg) (cs : List Cand) (x : F64) :
    (agreeing cfg cs x).Sublist (elig cfg cs) ∧ (elig cfg cs).Sublist cs :=
  ⟨List.filter_sublist, List.filter_sublist⟩

/-- **C03.select_members** — every selected source is one of the candidates (in candidate order), is
    synchronised, and its radius is at most `maximum_source_uncertainty` (IEEE `<=`, so not NaN either). -/
theorem select_members (cfg : Cfg) (cs out : List Cand) (h : select cfg cs = .sel out) :
    out.Sublist cs ∧ ∀ c ∈ out, c ∈ cs ∧ F64.le (radius cfg c) cfg.maxUnc = true ∧ c.leap ≠ .unsync := by
  obtain ⟨s, _, _, hc | hc⟩ := select_sel_cases h
  · obtain ⟨_, _, rfl⟩ := hc
    refine ⟨List.filter_sublist, ?_⟩
    intro c hcm
    simp only [List.mem_filter, inFinal, Bool.and_eq_true] at hcm
    obtain ⟨h1, ⟨⟨h2, _⟩, _⟩, h4⟩ := hcm
    refine ⟨h1, h2, ?_⟩
    intro e; rw [e] at h4; simp [LI.isSynchronized] at h4
  · subst hc; exact ⟨List.nil_sublist _, by simp⟩

/-- **C03.select_sound** — a non-empty selection implies a common point: there is an `x` (it is the Start bound
    `maxtlow` found by the sweep) such that the eligible candidates whose computed interval contains `x`
    number at least `minimum_agreeing_sources` and are a strict majority of ALL eligible candidates. -/
theorem select_sound (cfg : Cfg) (cs out : List Cand) (h : select cfg cs = .sel out) (hne : out ≠ []) :
    ∃ x, cfg.minAgree ≤ (agreeing cfg cs x).length ∧
      (elig cfg cs).length < 2 * (agreeing cfg cs x).length := by
  obtain ⟨s, hs, _, hc | hc⟩ := select_sel_cases h
  · obtain ⟨hmin, hmaj, _⟩ := hc
    have hinv := sweep_inv inv_init hs
    simp only [List.nil_append] at hinv
    have hlen : (sortedBounds cfg cs).length = 2 * (elig cfg cs).length := by
      rw [(sortedBounds_perm cfg cs).length_eq, length_bounds]
    rcases hinv.wit with h0 | ⟨pre, suf, t, e, _, e3⟩
    · omega
    · have := agreeing_ge cfg cs pre suf t e
      exact ⟨t, by omega, by omega⟩
  · exact absurd hc hne

/-- **C03.select_no_panic** — if every eligible candidate's computed interval has `lo ≤ hi` in the `total_cmp`
    order, `select` does not panic: the stable sort keeps every Start before its End, so `cur -= 1` never
    underflows, and then `maxlow = maxhigh` (the `assert_eq!`) holds.  NOTE the order: `-0.0 < +0.0` in
    `total_cmp`; a candidate with `lo = +0.0`, `hi = -0.0` (radius `-0.0`) satisfies IEEE `lo <= hi` but not this
    hypothesis, and does make the code panic (`panic_corner`, replayed on the implementation in c03_select_edge). -/
theorem select_no_panic (cfg : Cfg) (cs : List Cand)
    (H : ∀ c ∈ elig cfg cs, F64.totalLe (lo cfg c) (hi cfg c) = true) : select cfg cs ≠ .panic := by
  have hb := balanced_sorted cfg cs H 0
  have hc := sweep_cur (sortedBounds cfg cs) Sweep.init
  rw [show Sweep.init.cur = 0 from rfl, hb] at hc
  cases hs : sweep (sortedBounds cfg cs) Sweep.init with
  | none => rw [hs] at hc; cases hc
  | some s =>
    rw [hs] at hc
    simp only [Option.map_some, Option.some.injEq] at hc
    have hinv := sweep_inv2 inv2_init (by simpa using sortedBounds_pairwise cfg cs) hs
    have heq : s.maxlow = s.maxhigh := by
      have := hinv.peak; have := hinv.hl; omega
    unfold select
    simp only [hs, heq, ne_eq, not_true_eq_false, if_false]
    split <;> simp

/-- the same under the IEEE order, with the one exception spelled out: `lo <= hi` (IEEE, so neither is NaN) and
    not (`lo` is `+0.0` and `hi` is `-0.0`) for every eligible candidate -/
theorem select_no_panic_ieee (cfg : Cfg) (cs : List Cand)
    (H : ∀ c ∈ elig cfg cs, F64.le (lo cfg c) (hi cfg c) = true ∧
      ¬ ((lo cfg c).signBit = false ∧ (lo cfg c).mag = 0 ∧ (hi cfg c).signBit = true ∧ (hi cfg c).mag = 0)) :
    select cfg cs ≠ .panic :=
  select_no_panic cfg cs (fun c hc => totalLe_of_le (H c hc).1 (H c hc).2)

/-- the corner: one interval with `lo = +0.0`, `hi = -0.0` — IEEE `lo <= hi` holds, but Start ≤ End fails in the sort's order, so the End bound sorts first and
    the sweep underflows -/
theorem panic_corner :
    F64.le ⟨0⟩ ⟨0x8000000000000000⟩ = true ∧
    boundLe ((⟨0⟩ : F64), BT.start) (⟨0x8000000000000000⟩, BT.stop) = false ∧
    sweep [(⟨0x8000000000000000⟩, BT.stop), (⟨0⟩, BT.start)] Sweep.init = none := by
  refine ⟨by decide, by decide, by decide⟩

/-- **C03.agreeing_selected** — when no radius / bound of an eligible candidate and not the maximum is NaN, a
    non-empty selection comes with a point `x` (the sweep's `maxtlow`) such that the eligible candidates whose
    interval contains `x` are ≥ minimum, a strict majority of the eligible ones, AND all members of the output. -/
theorem agreeing_selected (cfg : Cfg) (cs out : List Cand) (h : select cfg cs = .sel out) (hne : out ≠ [])
    (hmu : cfg.maxUnc.isNaN = false)
    (hnn : ∀ c ∈ elig cfg cs, (radius cfg c).isNaN = false ∧ (lo cfg c).isNaN = false ∧ (hi cfg c).isNaN = false) :
    ∃ x, cfg.minAgree ≤ (agreeing cfg cs x).length ∧ (elig cfg cs).length < 2 * (agreeing cfg cs x).length ∧
      ∀ c ∈ agreeing cfg cs x, c ∈ out := by
  obtain ⟨s, hs, heq, hc | hc⟩ := select_sel_cases h
  · obtain ⟨hmin, hmaj, hout⟩ := hc
    have hinv := sweep_inv inv_init hs
    simp only [List.nil_append] at hinv
    have hinv2 := sweep_inv2 inv2_init (by simpa using sortedBounds_pairwise cfg cs) hs
    simp only [List.nil_append] at hinv2
    have hlen : (sortedBounds cfg cs).length = 2 * (elig cfg cs).length := by
      rw [(sortedBounds_perm cfg cs).length_eq, length_bounds]
    have hpos : 0 < s.maxlow := by omega
    rcases hinv.wit with h0 | ⟨pre, suf, t, e, et, e3⟩
    · omega
    · have hcount := agreeing_ge cfg cs pre suf t e
      refine ⟨t, by omega, by omega, ?_⟩
      intro c hc
      obtain ⟨hce, h1, h2⟩ : c ∈ elig cfg cs ∧ F64.totalLe (lo cfg c) t = true ∧ F64.totalLe t (hi cfg c) = true := by
        unfold agreeing at hc; simpa [List.mem_filter] using hc
      obtain ⟨hr, hl, hh⟩ := hnn c hce
      -- t = maxtlow is the lo of an eligible candidate, maxthigh the hi of one: neither is NaN
      have htl : (s.maxtlow, BT.start) ∈ bounds cfg cs :=
        (sortedBounds_perm cfg cs).mem_iff.mp (hinv2.tlow hpos)
      have hth : (s.maxthigh, BT.stop) ∈ bounds cfg cs :=
        (sortedBounds_perm cfg cs).mem_iff.mp (hinv2.thigh (by omega))
      obtain ⟨c1, hc1, e1⟩ := mem_bounds_start htl
      obtain ⟨c2, hc2, e2⟩ := mem_bounds_stop hth
      have hn1 : s.maxtlow.isNaN = false := by rw [e1]; exact (hnn c1 hc1).2.1
      have hn2 : s.maxthigh.isNaN = false := by rw [e2]; exact (hnn c2 hc2).2.2
      have hord := hinv2.ord heq.symm hpos
      subst et
      have hcs : c ∈ cs ∧ eligible cfg c = true := by unfold elig at hce; exact List.mem_filter.mp hce
      have hel := hcs.2
      unfold eligible at hel
      simp only [Bool.and_eq_true, Bool.not_eq_true', Bool.or_eq_false_iff] at hel
      obtain ⟨_, hgt, hsync⟩ := hel
      have hsync' : c.leap.isSynchronized = true := by
        cases hq : c.leap.isSynchronized <;> simp_all
      rw [hout]
      refine List.mem_filter.mpr ⟨hcs.1, ?_⟩
      simp only [inFinal, Bool.and_eq_true]
      refine ⟨⟨⟨?_, ?_⟩, ?_⟩, hsync'⟩
      · exact (F64.not_lt_iff_le hmu hr).mp hgt
      · exact le_of_totalLe (F64.totalLe_trans h1 hord) hl hn2
      · exact le_of_totalLe h2 hn1 hh
  · exact absurd hc hne

/-- **C03.steer_needs_selection** — in `update_clock`, ANY call on the clock (disable_ntp_algorithm, step_clock /
    set_frequency from the new estimate, error_estimate_update, status_update) and any `used_sources` report
    implies that `select` returned a non-empty selection on the usable candidates; with `select_sound` that is a
    majority consensus, with `C37.candidates_registered_usable` the candidates are the registered usable sources. -/
theorem steer_needs_selection (cfg : Cfg) (steer : List String) (c c' : Ctrl) (calls : List Call)
    (used : Option (List CtrlLoop.Id)) (h : updateClock cfg steer c = (c', .ok calls used))
    (hc : calls ≠ [] ∨ used ≠ none) :
    ∃ out, select cfg (candidates c) = .sel out ∧ out ≠ [] ∧ used = some (out.map (·.idx)) := by
  unfold updateClock at h
  split at h
  · cases h
  · simp only [Prod.mk.injEq, Result.ok.injEq] at h
    obtain ⟨_, h1, h2⟩ := h
    subst h1 h2
    simp at hc
  · rename_i s sel hsel
    split at h
    · cases h
    · simp only [Prod.mk.injEq, Result.ok.injEq] at h
      exact ⟨s :: sel, hsel, by simp, h.2.2.symm⟩

/-- handling a usability report or a removal never touches the clock -/
theorem only_measurements_steer (cfg : Cfg) (c : Ctrl) (id : CtrlLoop.Id) (b : Bool) :
    (dispatch cfg c id (.usability b)).2 = .ok [] none ∧ (dispatch cfg c id .dropped).2 = .ok [] none :=
  ⟨rfl, rfl⟩

/-! #### non-vacuity -/

/- `select` itself computes radii with hardware arithmetic, which the kernel cannot evaluate; its hypotheses are
   shown to be satisfiable on the sweep (pure bit-level order) and, for `select` as a whole, by the 5 000+
   distinct non-empty selections of every correspondence run. -/

/-- two overlapping intervals [1.0, 3.0] and [2.0, 4.0]: the sweep finds 2 at the point 2.0 (End 3.0) -/
example : sweep [(⟨0x3ff0000000000000⟩, .start), (⟨0x4000000000000000⟩, .start),
                 (⟨0x4008000000000000⟩, .stop), (⟨0x4010000000000000⟩, .stop)] Sweep.init
    = some ⟨0, 2, 2, ⟨0x4000000000000000⟩, ⟨0x4008000000000000⟩⟩ := by decide
/-- an End sorted before its Start (radius −0.0: lo = +0.0, hi = −0.0) underflows `cur`: the modelled panic -/
example : sweep [(⟨0x8000000000000000⟩, .stop), (⟨0⟩, .start)] Sweep.init = none := by decide
/-- −0.0 sorts before +0.0 in `total_cmp`, although they are IEEE-equal -/
example : boundLe (⟨0x8000000000000000⟩, .stop) (⟨0⟩, .start) = true ∧
    boundLe (⟨0⟩, .start) (⟨0x8000000000000000⟩, .stop) = false := by decide

/-! #### an answer that makes its source unusable never contributes

Source side (`NtpVerif.Model.SourceSM`, tied by stream `sm_c03`, which compares the ORDER of the controller calls
with the implementation's): every measurement a source hands to its controller is preceded, within the same step, by
the `set_usable` computed for the very answer that produced it. Controller side (`NtpVerif.Model.CtrlLoop`): once the
usability report `false` has been handled, the source's entry is not among the candidates handed to `select` while its
measurements are processed — so the measurements of an answer that makes the source unusable (stratum not below ours,
loop, unreachable) never contribute to the estimate used for steering. -/

/-- **C03.usable_reported_before_measurements** — in every history of the source state machine, a measurement is only
    ever delivered by an accepted answer, whose calls are exactly `[set_usable u, measurement, measurement]`: the
    usability of that answer reaches the controller first. -/
theorem usable_reported_before_measurements (s : SourceSM.State) (ops : List SourceSM.Op) :
    ∀ o ∈ SourceSM.observations s ops, ∀ m out, SourceSM.Call.measurement m out ∈ o.calls →
      ∃ u k, o = .incoming (.accepted u m k) ∧
        o.calls = [.setUsable u, .measurement m true, .measurement m false] := by
  intro o _ m out h
  cases o with
  | timer t =>
    cases t <;> simp [SourceSM.Obs.calls, SourceSM.TimerOut.calls] at h
  | incoming i =>
    cases i with
    | accepted u m' k =>
      simp only [SourceSM.Obs.calls, SourceSM.InOut.calls, List.mem_cons, reduceCtorEq, false_or,
        SourceSM.Call.measurement.injEq, List.not_mem_nil, or_false] at h
      have hm : m = m' := by rcases h with h | h <;> exact h.1
      subst hm
      exact ⟨u, k, rfl, rfl⟩
    | ignore => simp [SourceSM.Obs.calls, SourceSM.InOut.calls] at h
    | demobilize => simp [SourceSM.Obs.calls, SourceSM.InOut.calls] at h
    | panic => simp [SourceSM.Obs.calls, SourceSM.InOut.calls] at h

/-- the controller's last handled usability report for `id` is not `true` -/
def NotUsable (c : Ctrl) (id : CtrlLoop.Id) : Prop := ∀ e, lookup c.srcs id = some e → e.usable = false

/-- the controller state `update_clock` works on while handling a source message -/
def selectState (c : Ctrl) (id : CtrlLoop.Id) (snap : Cand) (t : Nat) (vals : List (CtrlLoop.Id × Cand)) : Ctrl :=
  { c with srcs := refresh (progress (storeMsg c.srcs id snap t) t) vals }

theorem notUsable_not_candidate (c : Ctrl) (hnd : (Keys c.srcs).Nodup) (id : CtrlLoop.Id) (h : NotUsable c id) :
    ∀ s, (id, s) ∉ candidateEntries c := by
  intro s hs
  have := (mem_candidateEntries c hnd id).mp ⟨s, hs⟩
  cases hl : lookup c.srcs id with
  | none => rw [hl] at this; simp [absEntry] at this
  | some e =>
    rw [hl] at this
    simp only [absEntry, Option.map_some, Option.some.injEq, Prod.mk.injEq] at this
    rw [h e hl] at this
    exact absurd this.2 (by simp)

theorem notUsable_of_abs (c c' : Ctrl) (id : CtrlLoop.Id)
    (h : absEntry (lookup c'.srcs id) = absEntry (lookup c.srcs id) ∨
         ∃ f : Entry → Entry, (∀ e, (f e).usable = e.usable) ∧ lookup c'.srcs id = (lookup c.srcs id).map f)
    (hn : NotUsable c id) : NotUsable c' id := by
  intro e' he'
  rcases h with h | ⟨f, hf, h⟩
  · rw [he'] at h
    cases hl : lookup c.srcs id with
    | none => rw [hl] at h; simp [absEntry] at h
    | some e =>
      rw [hl] at h
      simp only [absEntry, Option.map_some, Option.some.injEq, Prod.mk.injEq] at h
      rw [h.2]; exact hn e hl
  · rw [he'] at h
    cases hl : lookup c.srcs id with
    | none => rw [hl] at h; simp at h
    | some e =>
      rw [hl] at h
      simp only [Option.map_some, Option.some.injEq] at h
      rw [h, hf]; exact hn e hl

theorem storeMsg_usable (m : List (CtrlLoop.Id × Entry)) (id k : CtrlLoop.Id) (snap : Cand) (t : Nat) :
    ∃ f : Entry → Entry, (∀ e, (f e).usable = e.usable) ∧ lookup (storeMsg m id snap t) k = (lookup m k).map f := by
  unfold storeMsg
  rw [lookup_modify]
  by_cases hk : k = id
  · exact ⟨fun e => { e with snap := some snap, stamp := t, time := t }, fun _ => rfl, by simp [hk]⟩
  · exact ⟨fun e => e, fun _ => rfl, by simp [hk]⟩

/-- the state `select` sees while a message of ANY source is handled keeps `id` out, if `id` is not usable -/
theorem selectState_notUsable (c : Ctrl) (id id' : CtrlLoop.Id) (snap : Cand) (t : Nat)
    (vals : List (CtrlLoop.Id × Cand)) (hn : NotUsable c id) : NotUsable (selectState c id' snap t vals) id := by
  obtain ⟨f, hf, hl⟩ := storeMsg_usable c.srcs id' id snap t
  have h1 : NotUsable { c with srcs := storeMsg c.srcs id' snap t } id :=
    notUsable_of_abs c _ id (Or.inr ⟨f, hf, hl⟩) hn
  have h2 : NotUsable { c with srcs := progress (storeMsg c.srcs id' snap t) t } id :=
    notUsable_of_abs _ _ id (Or.inl (lookup_progress _ t id)) h1
  exact notUsable_of_abs { c with srcs := progress (storeMsg c.srcs id' snap t) t } (selectState c id' snap t vals) id
    (Or.inl (by simp only [selectState]; exact lookup_refresh _ vals id)) h2

/-- handling a source message of any source keeps `id` not usable -/
theorem sourceMessage_notUsable (cfg : Cfg) (c : Ctrl) (id id' : CtrlLoop.Id) (snap : Cand) (t : Nat)
    (vals : List (CtrlLoop.Id × Cand)) (steer : List String) (hn : NotUsable c id) :
    NotUsable (sourceMessage cfg c id' snap t vals steer).1 id := by
  unfold sourceMessage
  split
  · exact hn
  · simp only
    split
    · obtain ⟨f, hf, hl⟩ := storeMsg_usable c.srcs id' id snap t
      exact notUsable_of_abs c _ id (Or.inr ⟨f, hf, hl⟩) hn
    · have := selectState_notUsable c id id' snap t vals hn
      intro e he
      rw [updateClock_srcs] at he
      exact this e he

/-- **C03.unusable_answer_never_contributes** — the controller calls of an answer that makes its source unusable,
    `[set_usable false, measurement, measurement]` (order: `usable_reported_before_measurements`), handled in that
    order: after the usability report the source is not usable, it is absent from the candidates `select` sees while
    its first measurement is processed, still not usable afterwards, and absent again while the second is processed.
    With `select_members` (every selected source is one of the candidates) none of its measurements contributes. -/
theorem unusable_answer_never_contributes (cfg : Cfg) (c : Ctrl) (hnd : (Keys c.srcs).Nodup) (id : CtrlLoop.Id)
    (snap1 snap2 : Cand) (t1 t2 : Nat) (vals1 vals2 : List (CtrlLoop.Id × Cand)) (steer1 : List String) :
    let c1 := (dispatch cfg c id (.usability false)).1
    let c2 := (dispatch cfg c1 id (.source snap1 t1 vals1 steer1)).1
    NotUsable c1 id ∧ (∀ s, (id, s) ∉ candidateEntries (selectState c1 id snap1 t1 vals1)) ∧
    NotUsable c2 id ∧ (∀ s, (id, s) ∉ candidateEntries (selectState c2 id snap2 t2 vals2)) := by
  intro c1 c2
  have hk1 : (Keys c1.srcs).Nodup := by
    simp only [c1, dispatch, sourceUpdate, keys_modify]; exact hnd
  have h1 : NotUsable c1 id := by
    intro e he
    simp only [c1, dispatch, sourceUpdate, lookup_modify, if_true] at he
    cases hl : lookup c.srcs id with
    | none => rw [hl] at he; simp at he
    | some e0 => rw [hl] at he; simp only [Option.map_some, Option.some.injEq] at he; rw [← he]
  have hkeys : ∀ (c0 : Ctrl) (sn : Cand) (t : Nat) (vals : List (CtrlLoop.Id × Cand)), (Keys c0.srcs).Nodup →
      (Keys (selectState c0 id sn t vals).srcs).Nodup := by
    intro c0 sn t vals h
    simp only [selectState, keys_refresh, keys_progress, storeMsg, keys_modify]; exact h
  have h2 : NotUsable c2 id := sourceMessage_notUsable cfg c1 id id snap1 t1 vals1 steer1 h1
  have hk2 : (Keys c2.srcs).Nodup := by
    show (Keys (sourceMessage cfg c1 id snap1 t1 vals1 steer1).1.srcs).Nodup
    unfold sourceMessage
    split
    · exact hk1
    · simp only
      split
      · simp only [storeMsg, keys_modify]; exact hk1
      · rw [updateClock_srcs]; exact hkeys c1 snap1 t1 vals1 hk1
  exact ⟨h1, notUsable_not_candidate _ (hkeys c1 snap1 t1 vals1 hk1) id (selectState_notUsable c1 id id snap1 t1 vals1 h1),
    h2, notUsable_not_candidate _ (hkeys c2 snap2 t2 vals2 hk2) id (selectState_notUsable c2 id id snap2 t2 vals2 h2)⟩

end NtpVerif.C03

#print axioms NtpVerif.C03.mem_elig
#print axioms NtpVerif.C03.mem_agreeing
#print axioms NtpVerif.C03.agreeing_ieee
#print axioms NtpVerif.C03.select_members
#print axioms NtpVerif.C03.select_sound
#print axioms NtpVerif.C03.select_no_panic
#print axioms NtpVerif.C03.select_no_panic_ieee
#print axioms NtpVerif.C03.panic_corner
#print axioms NtpVerif.C03.agreeing_selected
#print axioms NtpVerif.C03.steer_needs_selection
#print axioms NtpVerif.C03.only_measurements_steer
#print axioms NtpVerif.C03.usable_reported_before_measurements
#print axioms NtpVerif.C03.unusable_answer_never_contributes
