/-
C03 — the clock is only steered on a majority consensus of usable sources.

Model: `NtpVerif.Model.Select.select` (= `select` of select.rs, bit-level IEEE comparisons, arithmetic
uninterpreted: every theorem holds for whatever bits the radius / bound computations return) and
`NtpVerif.Model.CtrlLoop` (the controller's source map and the decision structure of `update_clock`).

Property text ↔ theorems:
  "only when at least the configured minimum number of usable, synchronised, non-periodic sources whose
   uncertainty is acceptable have confidence intervals sharing a common point, and those agreeing sources are a
   strict majority of all such sources"
        → `select_sound` (a non-empty selection implies a point `x` contained in the computed intervals of at
          least `minimum_agreeing_sources` eligible candidates, which are more than half of all eligible
          candidates), with `mem_elig`, `mem_agreeing`, `agreeing_ieee` spelling out what "eligible" and
          "contains" mean; `agreeing_selected` (the agreeing candidates are in the output when nothing is NaN)
  "Sources marked unusable, unsynchronised or too uncertain never contribute to the estimate used for steering"
        → `select_members` (every selected source is one of the candidates, is synchronised and has
          radius ≤ maximum) + `C37.candidates_registered_usable` (candidates = registered ∧ usable ∧ reported)
  "The daemon changes the clock … only when …"
        → `steer_needs_selection` (ctrl loop: any clock call issued while processing a source message implies
          a non-empty `select` result on the usable candidates)
  the `assert_eq!` / `cur -= 1` panic sites
        → `select_no_panic` (no panic when every eligible interval has lo ≤ hi in the total order)
-/
import NtpVerif.Proofs.Select
import NtpVerif.Proofs.CtrlLoop

namespace NtpVerif.C03
open NtpVerif.Select NtpVerif.Leap NtpVerif.CtrlLoop

/-- eligible = takes part in the vote: a candidate that is not periodic, whose radius is not greater than the
    maximum, and that is synchronised -/
theorem mem_elig (cfg : Cfg) (cs : List Cand) (c : Cand) :
    c ∈ elig cfg cs ↔ (c ∈ cs ∧ c.periodic = false ∧ F64.gt (radius cfg c) cfg.maxUnc = false ∧
      c.leap ≠ .unsync) := by
  unfold elig eligible
  simp only [List.mem_filter, Bool.and_eq_true, Bool.not_eq_true', Bool.or_eq_false_iff]
  constructor
  · rintro ⟨h1, h2, h3, h4⟩
    refine ⟨h1, h2, h3, ?_⟩
    intro e; rw [e] at h4; simp [LI.isSynchronized] at h4
  · rintro ⟨h1, h2, h3, h4⟩
    refine ⟨h1, h2, h3, ?_⟩
    cases hl : c.leap <;> simp_all [LI.isSynchronized]

/-- agreeing at `x` = eligible and `lo ≤ x ≤ hi` for the candidate's computed interval (order of `total_cmp`) -/
theorem mem_agreeing (cfg : Cfg) (cs : List Cand) (x : F64) (c : Cand) :
    c ∈ agreeing cfg cs x ↔ (c ∈ elig cfg cs ∧ F64.totalLe (lo cfg c) x = true ∧ F64.totalLe x (hi cfg c) = true) := by
  unfold agreeing; simp [List.mem_filter]

/-- … which is the IEEE `lo ≤ x ≤ hi` whenever the three numbers are not NaN -/
theorem agreeing_ieee (cfg : Cfg) (cs : List Cand) (x : F64) (c : Cand) (h : c ∈ agreeing cfg cs x)
    (hx : x.isNaN = false) (hl : (lo cfg c).isNaN = false) (hh : (hi cfg c).isNaN = false) :
    F64.le (lo cfg c) x = true ∧ F64.le x (hi cfg c) = true := by
  obtain ⟨_, h1, h2⟩ := (mem_agreeing cfg cs x c).mp h
  exact ⟨le_of_totalLe h1 hl hx, le_of_totalLe h2 hx hh⟩

theorem agreeing_sublist (cfg : Cfg) (cs : List Cand) (x : F64) :
    (agreeing cfg cs x).Sublist (elig cfg cs) ∧ (elig cfg cs).Sublist cs :=
  ⟨List.filter_sublist, List.filter_sublist⟩

/-- **C03.select_members** — every selected source is one of the candidates (in candidate order), is
    synchronised, and its radius is at most `maximum_source_uncertainty` (IEEE `<=`, so not NaN either). -/
theorem select_members (cfg : Cfg) (cs out : List Cand) (h : select cfg cs = .sel out) :
    out.Sublist cs ∧ ∀ c ∈ out, c ∈ cs ∧ F64.le (radius cfg c) cfg.maxUnc = true ∧ c.leap ≠ .unsync := by
  obtain ⟨s, _, _, hc | hc⟩ := select_sel_cases h
  · obtain ⟨_, _, rfl⟩ := hc
    refine ⟨List.filter_sublist, ?_⟩
    intro c hcm
    simp only [List.mem_filter, inFinal, Bool.and_eq_true] at hcm
    obtain ⟨h1, ⟨⟨h2, _⟩, _⟩, h4⟩ := hcm
    refine ⟨h1, h2, ?_⟩
    intro e; rw [e] at h4; simp [LI.isSynchronized] at h4
  · subst hc; exact ⟨List.nil_sublist _, by simp⟩

/-- **C03.select_sound** — a non-empty selection implies a common point: there is an `x` (it is the Start bound
    `maxtlow` found by the sweep) such that the eligible candidates whose computed interval contains `x`
    number at least `minimum_agreeing_sources` and are a strict majority of ALL eligible candidates. -/
theorem select_sound (cfg : Cfg) (cs out : List Cand) (h : select cfg cs = .sel out) (hne : out ≠ []) :
    ∃ x, cfg.minAgree ≤ (agreeing cfg cs x).length ∧
      (elig cfg cs).length < 2 * (agreeing cfg cs x).length := by
  obtain ⟨s, hs, _, hc | hc⟩ := select_sel_cases h
  · obtain ⟨hmin, hmaj, _⟩ := hc
    have hinv := sweep_inv inv_init hs
    simp only [List.nil_append] at hinv
    have hlen : (sortedBounds cfg cs).length = 2 * (elig cfg cs).length := by
      rw [(sortedBounds_perm cfg cs).length_eq, length_bounds]
    rcases hinv.wit with h0 | ⟨pre, suf, t, e, _, e3⟩
    · omega
    · have := agreeing_ge cfg cs pre suf t e
      exact ⟨t, by omega, by omega⟩
  · exact absurd hc hne

/-- NOT PROVED (stated only; monitored by the oracle clause `panic` on every run): `select` does not panic when
    every eligible candidate's interval has `lo ≤ hi` in the total order.  Proof idea: `List.mergeSort_cons`
    (stable insertion) keeps each Start before its End, so `cur` never underflows; the invariant
    `cur = maxlow ∨ maxhigh = maxlow` together with final `cur = 0` gives `maxlow = maxhigh`. -/
def NoPanicFull : Prop :=
  ∀ (cfg : Cfg) (cs : List Cand),
    (∀ c ∈ elig cfg cs, F64.totalLe (lo cfg c) (hi cfg c) = true) → select cfg cs ≠ .panic

/-- NOT PROVED (stated only): when no radius / bound / maximum is NaN, every agreeing candidate at the sweep's
    point is a member of the output (`S ⊆ out`).  -/
def AgreeingSelectedFull : Prop :=
  ∀ (cfg : Cfg) (cs out : List Cand), select cfg cs = .sel out → out ≠ [] →
    cfg.maxUnc.isNaN = false →
    (∀ c ∈ elig cfg cs, (radius cfg c).isNaN = false ∧ (lo cfg c).isNaN = false ∧ (hi cfg c).isNaN = false) →
    ∃ x, cfg.minAgree ≤ (agreeing cfg cs x).length ∧ (elig cfg cs).length < 2 * (agreeing cfg cs x).length ∧
      ∀ c ∈ agreeing cfg cs x, c ∈ out

/-- **C03.steer_needs_selection** — in `update_clock`, ANY call on the clock (disable_ntp_algorithm, step_clock /
    set_frequency from the new estimate, error_estimate_update, status_update) and any `used_sources` report
    implies that `select` returned a non-empty selection on the usable candidates; with `select_sound` that is a
    majority consensus, with `C37.candidates_registered_usable` the candidates are the registered usable sources. -/
theorem steer_needs_selection (cfg : Cfg) (steer : List String) (c c' : Ctrl) (calls : List Call)
    (used : Option (List CtrlLoop.Id)) (h : updateClock cfg steer c = (c', .ok calls used))
    (hc : calls ≠ [] ∨ used ≠ none) :
    ∃ out, select cfg (candidates c) = .sel out ∧ out ≠ [] ∧ used = some (out.map (·.idx)) := by
  unfold updateClock at h
  split at h
  · cases h
  · simp only [Prod.mk.injEq, Result.ok.injEq] at h
    obtain ⟨_, h1, h2⟩ := h
    subst h1 h2
    simp at hc
  · rename_i s sel hsel
    split at h
    · cases h
    · simp only [Prod.mk.injEq, Result.ok.injEq] at h
      exact ⟨s :: sel, hsel, by simp, h.2.2.symm⟩

/-- handling a usability report or a removal never touches the clock -/
theorem only_measurements_steer (cfg : Cfg) (c : Ctrl) (id : CtrlLoop.Id) (b : Bool) :
    (dispatch cfg c id (.usability b)).2 = .ok [] none ∧ (dispatch cfg c id .dropped).2 = .ok [] none :=
  ⟨rfl, rfl⟩

/-! #### non-vacuity -/

/- `select` itself computes radii with hardware arithmetic, which the kernel cannot evaluate; its hypotheses are
   shown to be satisfiable on the sweep (pure bit-level order) and, for `select` as a whole, by the 5 000+
   distinct non-empty selections of every correspondence run. -/

/-- two overlapping intervals [1.0, 3.0] and [2.0, 4.0]: the sweep finds 2 at the point 2.0 (End 3.0) -/
example : sweep [(⟨0x3ff0000000000000⟩, .start), (⟨0x4000000000000000⟩, .start),
                 (⟨0x4008000000000000⟩, .stop), (⟨0x4010000000000000⟩, .stop)] Sweep.init
    = some ⟨0, 2, 2, ⟨0x4000000000000000⟩, ⟨0x4008000000000000⟩⟩ := by decide
/-- an End sorted before its Start (radius −0.0: lo = +0.0, hi = −0.0) underflows `cur`: the modelled panic -/
example : sweep [(⟨0x8000000000000000⟩, .stop), (⟨0⟩, .start)] Sweep.init = none := by decide
/-- −0.0 sorts before +0.0 in `total_cmp`, although they are IEEE-equal -/
example : boundLe (⟨0x8000000000000000⟩, .stop) (⟨0⟩, .start) = true ∧
    boundLe (⟨0⟩, .start) (⟨0x8000000000000000⟩, .stop) = false := by decide

end NtpVerif.C03

#print axioms NtpVerif.C03.mem_elig
#print axioms NtpVerif.C03.mem_agreeing
#print axioms NtpVerif.C03.agreeing_ieee
#print axioms NtpVerif.C03.select_members
#print axioms NtpVerif.C03.select_sound
#print axioms NtpVerif.C03.steer_needs_selection
#print axioms NtpVerif.C03.only_measurements_steer
