/-
C03 — the clock is only steered on a majority consensus of usable sources.

Model: `NtpVerif.Model.Select.select` (= `select` of select.rs, bit-level IEEE comparisons, arithmetic
uninterpreted: every theorem holds for whatever bits the radius / bound computations return) and
`NtpVerif.Model.CtrlLoop` (the controller's source map and the decision structure of `update_clock`).

Property text ↔ theorems:
  "only when at least the configured minimum number of usable, synchronised, non-periodic sources whose
   uncertainty is acceptable have confidence intervals sharing a common point, and those agreeing sources are a
   strict majority of all such sources"
        → `select_sound` (a non-empty selection implies a point `x` contained in the computed intervals of at
          least `minimum_agreeing_sources` eligible candidates, which are more than half of all eligible
          candidates), with `mem_elig`, `mem_agreeing`, `agreeing_ieee` spelling out what "eligible" and
          "contains" mean; `agreeing_selected` (the agreeing candidates are ALL in the output when nothing is NaN)
  "Sources marked unusable, unsynchronised or too uncertain never contribute to the estimate used for steering"
        → `select_members` (every selected source is one of the candidates, is synchronised and has
          radius ≤ maximum) + `C37.candidates_registered_usable` (candidates = registered ∧ usable ∧ reported)
  "The daemon changes the clock … only when …"
        → `steer_needs_selection` (ctrl loop: any clock call issued while processing a source message implies
          a non-empty `select` result on the usable candidates)
  the `assert_eq!` / `cur -= 1` panic sites
        → `select_no_panic` (no panic when every eligible interval has lo ≤ hi in the `total_cmp` order),
          `select_no_panic_ieee` (… or IEEE lo ≤ hi, excluding lo = +0.0 ∧ hi = −0.0), `panic_corner` (that
          excluded pair does panic)
-/
import NtpVerif.Proofs.Select
import NtpVerif.Proofs.CtrlLoop

namespace NtpVerif.C03
open NtpVerif.Select NtpVerif.Leap NtpVerif.CtrlLoop

/-- eligible = takes part in the vote: a candidate that is not periodic, whose radius is not greater than the
    maximum, and that is synchronised -/
theorem mem_elig (cfg : Cfg) (cs : List Cand) (c : Cand) :
    c ∈ elig cfg cs ↔ (c ∈ cs ∧ c.periodic = false ∧ F64.gt (radius cfg c) cfg.maxUnc = false ∧
      c.leap ≠ .unsync) := by
  unfold elig eligible
  simp only [List.mem_filter, Bool.and_eq_true, Bool.not_eq_true', Bool.or_eq_false_iff]
  constructor
  · rintro ⟨h1, h2, h3, h4⟩
    refine ⟨h1, h2, h3, ?_⟩
    intro e; rw [e] at h4; simp [LI.isSynchronized] at h4
  · rintro ⟨h1, h2, h3, h4⟩
    refine ⟨h1, h2, h3, ?_⟩
    cases hl : c.leap <;> simp_all [LI.isSynchronized]

/-- agreeing at `x` = eligible and `lo ≤ x ≤ hi` for the candidate's computed interval (order of `total_cmp`) -/
theorem mem_agreeing (cfg : Cfg) (cs : List Cand) (x : F64) (c : Cand) :
    c ∈ agreeing cfg cs x ↔ (c ∈ elig cfg cs ∧ F64.totalLe (lo cfg c) x = true ∧ F64.totalLe x (hi cfg c) = true) := by
  unfold agreeing; simp [List.mem_filter]

/-- … which is the IEEE `lo ≤ x ≤ hi` whenever the three numbers are not NaN -/
theorem agreeing_ieee (cfg : Cfg) (cs : List Cand) (x : F64) (c : Cand) (h : c ∈ agreeing cfg cs x)
    (hx : x.isNaN = false) (hl : (lo cfg c).isNaN = false) (hh : (hi cfg c).isNaN = false) :
    F64.le (lo cfg c) x = true ∧ F64.le x (hi cfg c) = true := by
  obtain ⟨_, h1, h2⟩ := (mem_agreeing cfg cs x c).mp h
  exact ⟨le_of_totalLe h1 hl hx, le_of_totalLe h2 hx hh⟩

theorem agreeing_sublist (cfg : Cfg) (cs : List Cand) (x : F64) :
    (agreeing cfg cs x).Sublist (elig cfg cs) ∧ (elig cfg cs).Sublist cs :=
  ⟨List.filter_sublist, List.filter_sublist⟩

/-- **C03.select_members** — every selected source is one of the candidates (in candidate order), is
    synchronised, and its radius is at most `maximum_source_uncertainty` (IEEE `<=`, so not NaN either). -/
theorem select_members (cfg : Cfg) (cs out : List Cand) (h : select cfg cs = .sel out) :
    out.Sublist cs ∧ ∀ c ∈ out, c ∈ cs ∧ F64.le (radius cfg c) cfg.maxUnc = true ∧ c.leap ≠ .unsync := by
  obtain ⟨s, _, _, hc | hc⟩ := select_sel_cases h
  · obtain ⟨_, _, rfl⟩ := hc
    refine ⟨List.filter_sublist, ?_⟩
    intro c hcm
    simp only [List.mem_filter, inFinal, Bool.and_eq_true] at hcm
    obtain ⟨h1, ⟨⟨h2, _⟩, _⟩, h4⟩ := hcm
    refine ⟨h1, h2, ?_⟩
    intro e; rw [e] at h4; simp [LI.isSynchronized] at h4
  · subst hc; exact ⟨List.nil_sublist _, by simp⟩

/-- **C03.select_sound** — a non-empty selection implies a common point: there is an `x` (it is the Start bound
    `maxtlow` found by the sweep) such that the eligible candidates whose computed interval contains `x`
    number at least `minimum_agreeing_sources` and are a strict majority of ALL eligible candidates. -/
theorem select_sound (cfg : Cfg) (cs out : List Cand) (h : select cfg cs = .sel out) (hne : out ≠ []) :
    ∃ x, cfg.minAgree ≤ (agreeing cfg cs x).length ∧
      (elig cfg cs).length < 2 * (agreeing cfg cs x).length := by
  obtain ⟨s, hs, _, hc | hc⟩ := select_sel_cases h
  · obtain ⟨hmin, hmaj, _⟩ := hc
    have hinv := sweep_inv inv_init hs
    simp only [List.nil_append] at hinv
    have hlen : (sortedBounds cfg cs).length = 2 * (elig cfg cs).length := by
      rw [(sortedBounds_perm cfg cs).length_eq, length_bounds]
    rcases hinv.wit with h0 | ⟨pre, suf, t, e, _, e3⟩
    · omega
    · have := agreeing_ge cfg cs pre suf t e
      exact ⟨t, by omega, by omega⟩
  · exact absurd hc hne

/-- **C03.select_no_panic** — if every eligible candidate's computed interval has `lo ≤ hi` in the `total_cmp`
    order, `select` does not panic: the stable sort keeps every Start before its End, so `cur -= 1` never
    underflows, and then `maxlow = maxhigh` (the `assert_eq!`) holds.  NOTE the order: `-0.0 < +0.0` in
    `total_cmp`; a candidate with `lo = +0.0`, `hi = -0.0` (radius `-0.0`) satisfies IEEE `lo <= hi` but not this
    hypothesis, and does make the code panic (`panic_corner`, replayed on the implementation in c03_select_edge). -/
theorem select_no_panic (cfg : Cfg) (cs : List Cand)
    (H : ∀ c ∈ elig cfg cs, F64.totalLe (lo cfg c) (hi cfg c) = true) : select cfg cs ≠ .panic := by
  have hb := balanced_sorted cfg cs H 0
  have hc := sweep_cur (sortedBounds cfg cs) Sweep.init
  rw [show Sweep.init.cur = 0 from rfl, hb] at hc
  cases hs : sweep (sortedBounds cfg cs) Sweep.init with
  | none => rw [hs] at hc; cases hc
  | some s =>
    rw [hs] at hc
    simp only [Option.map_some, Option.some.injEq] at hc
    have hinv := sweep_inv2 inv2_init (by simpa using sortedBounds_pairwise cfg cs) hs
    have heq : s.maxlow = s.maxhigh := by
      have := hinv.peak; have := hinv.hl; omega
    unfold select
    simp only [hs, heq, ne_eq, not_true_eq_false, if_false]
    split <;> simp

/-- the same under the IEEE order, with the one exception spelled out: `lo <= hi` (IEEE, so neither is NaN) and
    not (`lo` is `+0.0` and `hi` is `-0.0`) for every eligible candidate -/
theorem select_no_panic_ieee (cfg : Cfg) (cs : List Cand)
    (H : ∀ c ∈ elig cfg cs, F64.le (lo cfg c) (hi cfg c) = true ∧
      ¬ ((lo cfg c).signBit = false ∧ (lo cfg c).mag = 0 ∧ (hi cfg c).signBit = true ∧ (hi cfg c).mag = 0)) :
    select cfg cs ≠ .panic :=
  select_no_panic cfg cs (fun c hc => totalLe_of_le (H c hc).1 (H c hc).2)

/-- the corner: one interval with `lo = +0.0`, `hi = -0.0` — IEEE `lo <= hi` holds, but Start ≤ End fails in the sort's order, so the End bound sorts first and
    the sweep underflows -/
theorem panic_corner :
    F64.le ⟨0⟩ ⟨0x8000000000000000⟩ = true ∧
    boundLe ((⟨0⟩ : F64), BT.start) (⟨0x8000000000000000⟩, BT.stop) = false ∧
    sweep [(⟨0x8000000000000000⟩, BT.stop), (⟨0⟩, BT.start)] Sweep.init = none := by
  refine ⟨by decide, by decide, by decide⟩

/-- **C03.agreeing_selected** — when no radius / bound of an eligible candidate and not the maximum is NaN, a
    non-empty selection comes with a point `x` (the sweep's `maxtlow`) such that the eligible candidates whose
    interval contains `x` are ≥ minimum, a strict majority of the eligible ones, AND all members of the output. -/
theorem agreeing_selected (cfg : Cfg) (cs out : List Cand) (h : select cfg cs = .sel out) (hne : out ≠ [])
    (hmu : cfg.maxUnc.isNaN = false)
    (hnn : ∀ c ∈ elig cfg cs, (radius cfg c).isNaN = false ∧ (lo cfg c).isNaN = false ∧ (hi cfg c).isNaN = false) :
    ∃ x, cfg.minAgree ≤ (agreeing cfg cs x).length ∧ (elig cfg cs).length < 2 * (agreeing cfg cs x).length ∧
      ∀ c ∈ agreeing cfg cs x, c ∈ out := by
  obtain ⟨s, hs, heq, hc | hc⟩ := select_sel_cases h
  · obtain ⟨hmin, hmaj, hout⟩ := hc
    have hinv := sweep_inv inv_init hs
    simp only [List.nil_append] at hinv
    have hinv2 := sweep_inv2 inv2_init (by simpa using sortedBounds_pairwise cfg cs) hs
    simp only [List.nil_append] at hinv2
    have hlen : (sortedBounds cfg cs).length = 2 * (elig cfg cs).length := by
      rw [(sortedBounds_perm cfg cs).length_eq, length_bounds]
    have hpos : 0 < s.maxlow := by omega
    rcases hinv.wit with h0 | ⟨pre, suf, t, e, et, e3⟩
    · omega
    · have hcount := agreeing_ge cfg cs pre suf t e
      refine ⟨t, by omega, by omega, ?_⟩
      intro c hc
      obtain ⟨hce, h1, h2⟩ : c ∈ elig cfg cs ∧ F64.totalLe (lo cfg c) t = true ∧ F64.totalLe t (hi cfg c) = true := by
        unfold agreeing at hc; simpa [List.mem_filter] using hc
      obtain ⟨hr, hl, hh⟩ := hnn c hce
      -- t = maxtlow is the lo of an eligible candidate, maxthigh the hi of one: neither is NaN
      have htl : (s.maxtlow, BT.start) ∈ bounds cfg cs :=
        (sortedBounds_perm cfg cs).mem_iff.mp (hinv2.tlow hpos)
      have hth : (s.maxthigh, BT.stop) ∈ bounds cfg cs :=
        (sortedBounds_perm cfg cs).mem_iff.mp (hinv2.thigh (by omega))
      obtain ⟨c1, hc1, e1⟩ := mem_bounds_start htl
      obtain ⟨c2, hc2, e2⟩ := mem_bounds_stop hth
      have hn1 : s.maxtlow.isNaN = false := by rw [e1]; exact (hnn c1 hc1).2.1
      have hn2 : s.maxthigh.isNaN = false := by rw [e2]; exact (hnn c2 hc2).2.2
      have hord := hinv2.ord heq.symm hpos
      subst et
      have hcs : c ∈ cs ∧ eligible cfg c = true := by unfold elig at hce; exact List.mem_filter.mp hce
      have hel := hcs.2
      unfold eligible at hel
      simp only [Bool.and_eq_true, Bool.not_eq_true', Bool.or_eq_false_iff] at hel
      obtain ⟨_, hgt, hsync⟩ := hel
      have hsync' : c.leap.isSynchronized = true := by
        cases hq : c.leap.isSynchronized <;> simp_all
      rw [hout]
      refine List.mem_filter.mpr ⟨hcs.1, ?_⟩
      simp only [inFinal, Bool.and_eq_true]
      refine ⟨⟨⟨?_, ?_⟩, ?_⟩, hsync'⟩
      · exact (F64.not_lt_iff_le hmu hr).mp hgt
      · exact le_of_totalLe (F64.totalLe_trans h1 hord) hl hn2
      · exact le_of_totalLe h2 hn1 hh
  · exact absurd hc hne

/-- **C03.steer_needs_selection** — in `update_clock`, ANY call on the clock (disable_ntp_algorithm, step_clock /
    set_frequency from the new estimate, error_estimate_update, status_update) and any `used_sources` report
    implies that `select` returned a non-empty selection on the usable candidates; with `select_sound` that is a
    majority consensus, with `C37.candidates_registered_usable` the candidates are the registered usable sources. -/
theorem steer_needs_selection (cfg : Cfg) (steer : List String) (c c' : Ctrl) (calls : List Call)
    (used : Option (List CtrlLoop.Id)) (h : updateClock cfg steer c = (c', .ok calls used))
    (hc : calls ≠ [] ∨ used ≠ none) :
    ∃ out, select cfg (candidates c) = .sel out ∧ out ≠ [] ∧ used = some (out.map (·.idx)) := by
  unfold updateClock at h
  split at h
  · cases h
  · simp only [Prod.mk.injEq, Result.ok.injEq] at h
    obtain ⟨_, h1, h2⟩ := h
    subst h1 h2
    simp at hc
  · rename_i s sel hsel
    split at h
    · cases h
    · simp only [Prod.mk.injEq, Result.ok.injEq] at h
      exact ⟨s :: sel, hsel, by simp, h.2.2.symm⟩

/-- handling a usability report or a removal never touches the clock -/
theorem only_measurements_steer (cfg : Cfg) (c : Ctrl) (id : CtrlLoop.Id) (b : Bool) :
    (dispatch cfg c id (.usability b)).2 = .ok [] none ∧ (dispatch cfg c id .dropped).2 = .ok [] none :=
  ⟨rfl, rfl⟩

/-! #### non-vacuity -/

/- `select` itself computes radii with hardware arithmetic, which the kernel cannot evaluate; its hypotheses are
   shown to be satisfiable on the sweep (pure bit-level order) and, for `select` as a whole, by the 5 000+
   distinct non-empty selections of every correspondence run. -/

/-- two overlapping intervals [1.0, 3.0] and [2.0, 4.0]: the sweep finds 2 at the point 2.0 (End 3.0) -/
example : sweep [(⟨0x3ff0000000000000⟩, .start), (⟨0x4000000000000000⟩, .start),
                 (⟨0x4008000000000000⟩, .stop), (⟨0x4010000000000000⟩, .stop)] Sweep.init
    = some ⟨0, 2, 2, ⟨0x4000000000000000⟩, ⟨0x4008000000000000⟩⟩ := by decide
/-- an End sorted before its Start (radius −0.0: lo = +0.0, hi = −0.0) underflows `cur`: the modelled panic -/
example : sweep [(⟨0x8000000000000000⟩, .stop), (⟨0⟩, .start)] Sweep.init = none := by decide
/-- −0.0 sorts before +0.0 in `total_cmp`, although they are IEEE-equal -/
example : boundLe (⟨0x8000000000000000⟩, .stop) (⟨0⟩, .start) = true ∧
    boundLe (⟨0⟩, .start) (⟨0x8000000000000000⟩, .stop) = false := by decide

end NtpVerif.C03

#print axioms NtpVerif.C03.mem_elig
#print axioms NtpVerif.C03.mem_agreeing
#print axioms NtpVerif.C03.agreeing_ieee
#print axioms NtpVerif.C03.select_members
#print axioms NtpVerif.C03.select_sound
#print axioms NtpVerif.C03.select_no_panic
#print axioms NtpVerif.C03.select_no_panic_ieee
#print axioms NtpVerif.C03.panic_corner
#print axioms NtpVerif.C03.agreeing_selected
#print axioms NtpVerif.C03.steer_needs_selection
#print axioms NtpVerif.C03.only_measurements_steer
