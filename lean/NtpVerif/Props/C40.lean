/-
C40 — GPSd samples are validated before use.

  "A datagram on the GPSd socket becomes a measurement only if it has the exact sample size, the correct
   magic number, a zero pulse flag and a finite offset; any other datagram is rejected without crashing
   the daemon."

Model: `NtpVerif.Model.Sock` (`deserialize_sample`, the `Ok(sample)` arm of `SockSourceTask::run`, datagram
reception into the 41-byte buffer) + `NtpVerif.Model.GlueTime.fromSeconds` (with its `debug_assert!` and
`unreachable!()` as explicit outcomes).  The model describes the code WITH the two fixes of F-C40.

  accept_iff                  `deserialize_sample` accepts  ⇔  size = 40 ∧ magic ∧ pulse = 0 ∧ finite offset
  measurement_iff             a datagram becomes a measurement ⇔ it is exactly 40 bytes ∧ magic ∧ pulse = 0 ∧
                              finite offset  ("becomes a measurement only if …", and conversely)
  measurement_value           … and the measurement is (now − from_seconds(offset), now, leap map)
  invalid_rejected            "any other datagram is rejected" (an error value, loop continues)
  never_panics                "without crashing the daemon": no datagram, no clock value reaches a panic
                              site (slice index, `debug_assert!` in `from_seconds`, `unreachable!()`)
  deserialize_never_panics    the same for `deserialize_sample` alone, for every `recv` result
  unfixed_nonfinite_panics,   the code before the fix violated the property (F-C40a: NaN offset aborts;
  unfixed_oversize_accepted   F-C40b: a 41-byte datagram is truncated by the kernel and accepted)
-/
import NtpVerif.Proofs.Sock

namespace NtpVerif.C40
open NtpVerif NtpVerif.Sock NtpVerif.GlueTime NtpVerif.Wrap

/-- the four conditions of the property, on the content of a buffer / datagram -/
def ValidContent (b : List UInt8) : Prop :=
  magicOf b = 0x534f434b ∧ pulseOf b = 0 ∧ (offsetOf b).isFinite = true

/-- the property's condition on a datagram -/
def ValidDatagram (d : List UInt8) : Prop := d.length = 40 ∧ ValidContent d

theorem decide40_ok_iff (res : Option Nat) (buf : List UInt8) (s : Sample) :
    decide40 true res buf = .ok s ↔
      res = some 40 ∧ ValidContent buf ∧ s = ⟨offsetOf buf, pulseOf buf, leapOf buf, magicOf buf⟩ := by
  unfold decide40 ValidContent
  cases res with
  | none => simp
  | some n =>
    simp only [Option.some.injEq, Bool.true_and]
    by_cases h1 : n = 40
    · by_cases h2 : magicOf buf = 0x534f434b
      · by_cases h3 : pulseOf buf = 0
        · cases h4 : (offsetOf buf).isFinite
          · simp [h1, h2, h3]
          · simp only [h1, h2, h3, ne_eq, not_true_eq_false, if_false, Bool.not_true,
              Bool.false_eq_true, Except.ok.injEq, true_and]
            exact ⟨fun h => h.symm, fun h => h.symm⟩
        · simp [h1, h2, h3]
      · simp [h1, h2]
    · simp [h1]

/-- **C40.accept_iff** — for every `recv` result and every 40-byte buffer, `deserialize_sample` returns
    a sample exactly when the size is 40, the magic is 0x534f434b, the pulse flag is 0 and the offset is
    finite; the sample then carries the buffer's fields. -/
theorem accept_iff (res : Option Nat) (buf : List UInt8) (hlen : buf.length = 40) (s : Sample) :
    deserializeSample res buf = .ok s ↔
      res = some 40 ∧ magicOf buf = 0x534f434b ∧ pulseOf buf = 0 ∧ (offsetOf buf).isFinite = true ∧
        s = ⟨offsetOf buf, pulseOf buf, leapOf buf, magicOf buf⟩ := by
  rw [deser_eq res buf hlen, decide40_ok_iff]
  simp only [ValidContent, and_assoc]

/-- every other outcome of `deserialize_sample` on a 40-byte buffer is an error VALUE (never the
    out-of-range panic, never a `TryFromSliceError`) -/
theorem deserialize_never_panics (res : Option Nat) (buf : List UInt8) (hlen : buf.length = 40) :
    deserializeSample res buf ≠ .error .indexPanic ∧ deserializeSample res buf ≠ .error .slice := by
  rw [deser_eq res buf hlen]
  unfold decide40
  cases res with
  | none => simp
  | some n => simp only; repeat' split
              all_goals simp

/-- what the run loop does with the result of `recv` on a 40-byte sample buffer -/
theorem processRecv_cases (time : Nat) (res : Option Nat) (buf : List UInt8) (hlen : buf.length = 40) :
    (res = some 40 ∧ ValidContent buf ∧ ∃ dur, fromSeconds (offsetOf buf) = .ok dur ∧ inI64 dur ∧
        processRecv deserializeSample time res buf =
          .measurement ⟨(wrapU64 ((time : Int) - dur)).toNat, time, leapIndicator (leapOf buf)⟩) ∨
    (¬ (res = some 40 ∧ ValidContent buf) ∧
        ∃ e, processRecv deserializeSample time res buf = .rejected e ∧ e ≠ .indexPanic) := by
  by_cases hv : res = some 40 ∧ ValidContent buf
  · left
    obtain ⟨hr, hc⟩ := hv
    obtain ⟨dur, hd, hin⟩ := fromSeconds_finite hc.2.2
    have hok : deserializeSample res buf = .ok ⟨offsetOf buf, pulseOf buf, leapOf buf, magicOf buf⟩ :=
      (accept_iff res buf hlen _).mpr ⟨hr, hc.1, hc.2.1, hc.2.2, rfl⟩
    refine ⟨hr, hc, dur, hd, hin, ?_⟩
    simp only [processRecv, hok, Sock.measure, hd]
  · right
    refine ⟨hv, ?_⟩
    have hnp := deserialize_never_panics res buf hlen
    rcases hds : deserializeSample res buf with e | s
    · refine ⟨e, ?_, ?_⟩
      · simp only [processRecv, hds]
        cases e <;> first | rfl | (exfalso; exact hnp.1 hds)
      · intro he; subst he; exact hnp.1 hds
    · exfalso
      have := (accept_iff res buf hlen s).mp hds
      exact hv ⟨this.1, this.2.1, this.2.2.1, this.2.2.2.1⟩

/-- the three possible fates of a datagram, with the exact condition for each -/
theorem datagram_cases (time : Nat) (d : List UInt8) :
    (ValidDatagram d ∧ ∃ dur, fromSeconds (offsetOf d) = .ok dur ∧ inI64 dur ∧
        processDatagram time d =
          .measurement ⟨(wrapU64 ((time : Int) - dur)).toNat, time, leapIndicator (leapOf d)⟩) ∨
    (¬ ValidDatagram d ∧ ∃ e, processDatagram time d = .rejected e ∧ e ≠ .indexPanic) := by
  obtain ⟨buf, hsb, hlen, hexact⟩ := sampleBuf_recv d
  have hpd : processDatagram time d =
      processRecv deserializeSample time (some (min d.length 41)) buf := by
    simp only [processDatagram, hsb]; rfl
  rcases processRecv_cases time (some (min d.length 41)) buf hlen with h | h
  · left
    obtain ⟨hr, hc, dur, hd, hin, hp⟩ := h
    have hl : d.length = 40 := by
      simp only [Option.some.injEq] at hr; omega
    have hb := hexact hl
    subst hb
    exact ⟨⟨hl, hc⟩, dur, hd, hin, by rw [hpd, hp]⟩
  · right
    obtain ⟨hn, e, he, hne⟩ := h
    refine ⟨?_, e, by rw [hpd, he], hne⟩
    intro ⟨hl, hc⟩
    have hb := hexact hl
    subst hb
    exact hn ⟨by simp only [Option.some.injEq]; omega, hc⟩

/-- **C40.measurement_iff** — for every clock value and every datagram (any length, any content): the run
    loop hands a measurement to the controller if and only if the datagram is exactly 40 bytes long, has
    magic 0x534f434b, pulse flag 0 and a finite offset. -/
theorem measurement_iff (time : Nat) (d : List UInt8) :
    (∃ m, processDatagram time d = .measurement m) ↔
      d.length = 40 ∧ magicOf d = 0x534f434b ∧ pulseOf d = 0 ∧ (offsetOf d).isFinite = true := by
  rcases datagram_cases time d with ⟨hv, _, _, _, hp⟩ | ⟨hn, e, he, _⟩
  · exact ⟨fun _ => hv, fun _ => ⟨_, hp⟩⟩
  · constructor
    · intro ⟨m, hm⟩; rw [he] at hm; cases hm
    · intro h; exact absurd h hn

/-- **C40.measurement_value** — the measurement of a valid datagram: received at `now`, sent at
    `now − from_seconds(offset)` (wrapping u64), leap indicator mapped 0/1/2/other. -/
theorem measurement_value (time : Nat) (d : List UInt8) (hv : ValidDatagram d) :
    ∃ dur, fromSeconds (offsetOf d) = .ok dur ∧ inI64 dur ∧
      processDatagram time d =
        .measurement ⟨(wrapU64 ((time : Int) - dur)).toNat, time, leapIndicator (leapOf d)⟩ := by
  rcases datagram_cases time d with ⟨_, h⟩ | ⟨hn, _⟩
  · exact h
  · exact absurd hv hn

/-- **C40.invalid_rejected** — any other datagram is rejected with an error value (the loop logs it and
    continues). -/
theorem invalid_rejected (time : Nat) (d : List UInt8) (h : ¬ ValidDatagram d) :
    ∃ e, processDatagram time d = .rejected e := by
  rcases datagram_cases time d with ⟨hv, _⟩ | ⟨_, e, he, _⟩
  · exact absurd hv h
  · exact ⟨e, he⟩

/-- **C40.never_panics** — no datagram and no clock value make the run loop reach a panic site. -/
theorem never_panics (time : Nat) (d : List UInt8) : processDatagram time d ≠ .panic := by
  rcases datagram_cases time d with ⟨_, _, _, _, hp⟩ | ⟨_, e, he, _⟩
  · rw [hp]; simp
  · rw [he]; simp

/-! #### the code before the fix (F-C40), on concrete witnesses -/

/-- an otherwise valid 40-byte sample with the given offset bytes -/
def sampleWith (off : List UInt8) : List UInt8 :=
  List.replicate 16 0 ++ off ++ List.replicate 12 0 ++ [0x4b, 0x43, 0x4f, 0x53]

/-- quiet NaN, little endian -/
def nanBytes : List UInt8 := [0, 0, 0, 0, 0, 0, 0xf8, 0x7f]
/-- 1.0, little endian -/
def oneBytes : List UInt8 := [0, 0, 0, 0, 0, 0, 0xf0, 0x3f]

/-- F-C40a: without the finiteness test a NaN offset reaches `from_seconds` and aborts the daemon -/
theorem unfixed_nonfinite_panics : processDatagramUnfixed 0 (sampleWith nanBytes) = .panic := by
  have hlen : (recv Gen.SOCK_SAMPLE_SIZE (sampleWith nanBytes)).2.length = 40 := recv_length _ _
  have hbuf : (recv Gen.SOCK_SAMPLE_SIZE (sampleWith nanBytes)).2 = sampleWith nanBytes := by decide
  have hnf : (offsetOf (sampleWith nanBytes)).isFinite = false := by decide
  unfold processDatagramUnfixed
  simp only [processRecv, hbuf]
  rw [deser_unfixed_eq _ _ (by decide)]
  have : decide40 false (some (recv Gen.SOCK_SAMPLE_SIZE (sampleWith nanBytes)).1) (sampleWith nanBytes)
      = .ok ⟨offsetOf (sampleWith nanBytes), 0, 0, 0x534f434b⟩ := by rfl
  rw [this]
  simp only [Sock.measure, fromSeconds_nonfinite hnf]

/-- F-C40b: with a receive buffer of exactly 40 bytes a 41-byte datagram is truncated and accepted -/
theorem unfixed_oversize_accepted :
    ∃ m, processDatagramUnfixed 0 (sampleWith oneBytes ++ [0]) = .measurement m := by
  have hbuf : (recv Gen.SOCK_SAMPLE_SIZE (sampleWith oneBytes ++ [0])).2 = sampleWith oneBytes := by decide
  have hf : (offsetOf (sampleWith oneBytes)).isFinite = true := by decide
  obtain ⟨dur, hd, _⟩ := fromSeconds_finite hf
  unfold processDatagramUnfixed
  simp only [processRecv, hbuf]
  rw [deser_unfixed_eq _ _ (by decide)]
  have : decide40 false (some (recv Gen.SOCK_SAMPLE_SIZE (sampleWith oneBytes ++ [0])).1) (sampleWith oneBytes)
      = .ok ⟨offsetOf (sampleWith oneBytes), 0, 0, 0x534f434b⟩ := by rfl
  rw [this]
  simp only [Sock.measure, hd]
  exact ⟨_, rfl⟩

/-! #### non-vacuity -/

/-- the project's own test sample (offset 318975.704798661) satisfies the hypotheses of
    `measurement_value` … -/
example : ValidDatagram
    [127, 136, 245, 102, 0, 0, 0, 0, 33, 129, 4, 0, 0, 0, 0, 0, 125, 189, 182, 209, 254, 119, 19, 65,
     0, 0, 0, 0, 0, 0, 0, 0, 0, 0, 0, 0, 75, 67, 79, 83] := by
  unfold ValidDatagram ValidContent; decide

/-- … and the same sample with the pulse flag set, one magic bit flipped, an infinite offset, or one byte
    more / less does not (so `invalid_rejected` applies to each) -/
example : ¬ ValidDatagram (sampleWith nanBytes) ∧ ¬ ValidDatagram (sampleWith oneBytes ++ [0]) ∧
    ¬ ValidDatagram ((sampleWith oneBytes).take 39) ∧ ValidDatagram (sampleWith oneBytes) ∧
    ¬ ValidDatagram (List.replicate 16 0 ++ oneBytes ++ [0, 0, 1, 0] ++ List.replicate 8 0 ++ [0x4b, 0x43, 0x4f, 0x53]) ∧
    ¬ ValidDatagram (List.replicate 16 0 ++ oneBytes ++ List.replicate 12 0 ++ [0x4b, 0x43, 0x4f, 0x52]) := by
  unfold ValidDatagram ValidContent; decide

/-- the leap map is 0/1/2/other -/
example : [leapIndicator 0, leapIndicator 1, leapIndicator 2, leapIndicator 3, leapIndicator (-1)] = [0, 1, 2, 3, 3] := by
  decide

end NtpVerif.C40

#print axioms NtpVerif.C40.accept_iff
#print axioms NtpVerif.C40.deserialize_never_panics
#print axioms NtpVerif.C40.measurement_iff
#print axioms NtpVerif.C40.measurement_value
#print axioms NtpVerif.C40.invalid_rejected
#print axioms NtpVerif.C40.never_panics
#print axioms NtpVerif.C40.unfixed_nonfinite_panics
#print axioms NtpVerif.C40.unfixed_oversize_accepted
