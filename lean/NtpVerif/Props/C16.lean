/-
C16 — Server responses are never larger than the request.

Model: `NtpVerif.Model.Server` (`Server::handle` serialises the answer through a cursor over the caller's buffer;
`NtpPacket::serialize` incl. the NTPv5 padding field).  The daemon passes a send buffer exactly as long as the
received datagram (`ntpd/src/daemon/server.rs`, source anchor `anchors/src/server_buffer.json`).

  sentence of the property                                              theorem
  a reply is at most as long as the buffer `handle` was given           response_fits_buffer
  with the daemon's request-sized buffer: at most as long as request    no_amplification
  NTPv5 padding stops at the request's size whatever the buffer         padding_stops_at_request
  a reply is never shorter than an NTP header                           response_at_least_header
-/
import NtpVerif.Proofs.ServerSize

namespace NtpVerif.C16
open NtpVerif.Server NtpVerif.RespSize

/-- Whatever the request contains, the datagram handed back lies within the buffer `handle` was given. -/
theorem response_fits_buffer (cfg : Config) (info : Info) (env : Env) (req : Req) {r n s}
    (h : handle cfg info env req = .respond r n s) : n ≤ env.bufLen := by
  obtain ⟨_, _, _, _, _, hs, _⟩ := handle_respond h
  exact serialize_ok_le hs

/-- With the daemon's buffer (as long as the datagram it answers) every reply is at most as long as the
    request: no amplification, for every configuration, key set and request. -/
theorem no_amplification (cfg : Config) (info : Info) (env : Env) (req : Req) (hb : env.bufLen = req.len) {r n s}
    (h : handle cfg info env req = .respond r n s) : n ≤ req.len :=
  hb ▸ response_fits_buffer cfg info env req h

/-- Independently of the buffer: the NTPv5 padding field never pushes an answer beyond the size asked for
    (`desired_size` = the request's length, a multiple of four for every packet the v5 parser accepts),
    as long as the unpadded answer was within it. -/
theorem padding_stops_at_request {r : Response} {buf n d : Nat} (h : serialize r buf = .ok n)
    (hd : r.desired = some d) (h4 : d % 4 = 0) (hb : 48 + efSize r ≤ d) : n ≤ d :=
  serialize_padded h hd h4 hb

theorem response_at_least_header (cfg : Config) (info : Info) (env : Env) (req : Req) {r n s}
    (h : handle cfg info env req = .respond r n s) : 48 ≤ n := by
  obtain ⟨_, _, _, _, _, hs, _⟩ := handle_respond h
  exact serialize_ok_ge hs

/-! #### non-vacuity -/

def cfg0 : Config := { denyAct := .deny, allowAct := .ignore, requireNts := none, versions := [4, 5] }
def info0 : Info :=
  { stratum := 2, refid := [1, 2, 3, 4], leap := 0, precision := 4096, rootDelay := 65536, bloom := [], keysOk := true }
def env0 : Env :=
  { inDeny := true, inAllow := true, rateOk := true, recv := 0xE800000000000000, now := 0xE800000000001000,
    rvar := F64.zero, bufLen := 88 }
/-- a v4 request with a 32-octet unique identifier (36-octet field) and a 4-octet unknown field -/
def req0 : Req :=
  { len := 92, fv := 4, parse := .ok, version := 4, client := true, poll := 6, xmit := [1, 2, 3, 4, 5, 6, 7, 8],
    reft := [0, 0, 0, 0, 0, 0, 0, 0], untrusted := [.uid (List.replicate 32 7), .unknown 0x4242 4],
    auth := [], enc := [], cookie := none, encw := 0, mac := 0 }

/-- the DENY answer echoes the identifier: 48 + 36 = 84 octets, within the 88-octet buffer -/
example : handle cfg0 info0 env0 req0 = .respond (denyResponse req0) 84 [⟨4, false, .policy, .deny⟩] := by decide
/-- … and with a buffer one word shorter than the answer nothing is sent (never a truncated datagram) -/
example : handle cfg0 info0 { env0 with bufLen := 80 } req0 = .ignore [⟨4, false, .internal, .ignore⟩] := by decide
/-- v5 padding: a 48-octet answer body with desired size 100 and a large buffer is padded to exactly 100 -/
example : padded 5 48 4096 (some 100) = .ok 100 := by decide

end NtpVerif.C16

#print axioms NtpVerif.C16.response_fits_buffer
#print axioms NtpVerif.C16.no_amplification
#print axioms NtpVerif.C16.padding_stops_at_request
#print axioms NtpVerif.C16.response_at_least_header
