/-
C29 — pool key-exchange requests require a configured token.

Model: `Model/NtsKe` (`handleConnection`, `handleLongterm`: the decision logic of
`KeyExchangeServer::{handle_connection, handle_longterm}` over the outcome of `Request::parse`, the
configured tokens and the availability of a keep-alive permit).  All theorems quantify over every
configuration, every export function, permit availability and every request / parse outcome — hence,
composed with `parseRequest` (C30), over every request byte sequence.

Property text ↔ theorems
  "fixed-key and supported-parameter requests are served only when they carry one of the configured pool
   authentication tokens; otherwise the server answers with a bad-request error and issues no cookies"
        `token_required`        no configured token ⇒ the answer is exactly [Error BadRequest, EndOfMessage],
                                result NotPermitted, connection closed, no permit requested
        `served_with_token`     configured token ⇒ the request is answered (fixed key: the 8 cookies carry
                                exactly the keys of the request) and the result is not an error
        `cookies_need_token_or_key_exchange`   whatever arrived: a cookie in the answer ⇒ plain key exchange,
                                or fixed-key request with a configured token
  "Such a connection is kept open for further requests only if the client asked for it and a long-lived
   connection slot was available"
        `kept_open_iff`         result `kept` ⇔ pool request with configured token ∧ keep_alive ∧ permit
        `keepalive_record_iff_kept`   the answer carries a KeepAlive record ⇔ the connection is kept
  "and a plain key-exchange request is never accepted on a kept-open connection"
        `no_plain_ke_on_longterm`  answer [Error BadRequest, EndOfMessage], closed, error Invalid
-/
import NtpVerif.Model.NtsKe
import NtpVerif.Proofs.NtsKe

namespace NtpVerif.C29

open NtpVerif.NtsRecord NtpVerif.NtsMsg NtpVerif.NtsKe

/-- the token and keep-alive wish of a pool request (`FixedKey` / `Support`) -/
def poolRequest : Request → Option (Bytes × Bool)
  | .fixedKey auth _ _ _ _ ka => some (auth, ka)
  | .support auth _ _ ka => some (auth, ka)
  | .keyExchange _ _ _ => none

theorem token_required (cfg : ServerCfg) (exp : Export) (permit : Bool) (q : Request) (auth : Bytes)
    (ka : Bool) (hq : poolRequest q = some (auth, ka)) (h : auth ∉ cfg.tokens) :
    handleConnection cfg exp permit (.ok q) =
      { items := [.record (.error .badRequest), .record .endOfMessage], result := .err .notPermitted,
        «end» := .clean, askedPermit := false } := by
  cases q <;> simp only [poolRequest, Option.some.injEq, Prod.mk.injEq, reduceCtorEq] at hq
  all_goals
    obtain ⟨rfl, rfl⟩ := hq
    simp [handleConnection, h, notPermitted, recItems, errorResponseRecords]

theorem served_with_token (cfg : ServerCfg) (exp : Export) (permit : Bool) (q : Request) (auth : Bytes)
    (ka : Bool) (hq : poolRequest q = some (auth, ka)) (h : auth ∈ cfg.tokens) :
    (handleConnection cfg exp permit (.ok q)).result = (if ka && permit then .kept else .closed) ∧
    (handleConnection cfg exp permit (.ok q)).askedPermit = ka ∧
    (∀ c2s s2c a p, q = .fixedKey auth c2s s2c a p ka →
      (handleConnection cfg exp permit (.ok q)).items
        = keResponse cfg p a { c2s := c2s, s2c := s2c } (ka && permit)) ∧
    (∀ wp wa, q = .support auth wp wa ka →
      (handleConnection cfg exp permit (.ok q)).items = supportsResponse cfg wp wa (ka && permit)) := by
  cases q <;> simp only [poolRequest, Option.some.injEq, Prod.mk.injEq, reduceCtorEq] at hq
  all_goals
    obtain ⟨rfl, rfl⟩ := hq
    simp [handleConnection, h]
  intro c2s s2c a p h1 h2 h3 h4
  subst h1 h2 h3 h4
  rfl

theorem kept_open_iff (cfg : ServerCfg) (exp : Export) (permit : Bool) (req : Except MsgErr Request) :
    (handleConnection cfg exp permit req).result = .kept ↔
      ∃ q auth, req = .ok q ∧ poolRequest q = some (auth, true) ∧ auth ∈ cfg.tokens ∧ permit = true := by
  constructor
  · intro h
    cases req with
    | error e =>
      simp only [handleConnection, parseFailure] at h
      split at h <;> simp at h
    | ok q =>
      cases q with
      | keyExchange as ps d =>
        simp only [handleConnection] at h
        split at h <;> (try split at h) <;> simp at h
      | fixedKey auth c2s s2c a p ka =>
        refine ⟨_, auth, rfl, ?_⟩
        by_cases ht : auth ∈ cfg.tokens
        · cases ka <;> cases permit <;> simp [handleConnection, ht, poolRequest] at h ⊢
        · simp [handleConnection, ht, notPermitted] at h
      | support auth wp wa ka =>
        refine ⟨_, auth, rfl, ?_⟩
        by_cases ht : auth ∈ cfg.tokens
        · cases ka <;> cases permit <;> simp [handleConnection, ht, poolRequest] at h ⊢
        · simp [handleConnection, ht, notPermitted] at h
  · rintro ⟨q, auth, rfl, hq, ht, rfl⟩
    have := (served_with_token cfg exp true q auth true hq ht).1
    simpa using this

theorem keepalive_record_iff_kept (cfg : ServerCfg) (exp : Export) (permit : Bool)
    (req : Except MsgErr Request) :
    Item.record .keepAlive ∈ (handleConnection cfg exp permit req).items ↔
      (handleConnection cfg exp permit req).result = .kept := by
  cases req with
  | error e =>
    simp only [handleConnection, parseFailure]
    split <;> simp [recItems, errorResponseRecords]
  | ok q =>
    cases q with
    | keyExchange as ps d =>
      simp only [handleConnection]
      split <;> (try split) <;>
        simp [recItems, errorResponseRecords, NoOverlap.records, keResponse, boolRec, optRec,
          keepAlive_not_mem_cookies]
      all_goals (cases cfg.server <;> cases cfg.port <;> simp)
    | fixedKey auth c2s s2c a p ka =>
      by_cases ht : auth ∈ cfg.tokens
      · cases ka <;> cases permit <;>
          simp [handleConnection, ht, keResponse, recItems, boolRec, keepAlive_not_mem_cookies] <;>
          (cases cfg.server <;> cases cfg.port <;> simp [optRec])
      · simp [handleConnection, ht, notPermitted, recItems, errorResponseRecords]
    | support auth wp wa ka =>
      by_cases ht : auth ∈ cfg.tokens
      · cases ka <;> cases permit <;> cases wp <;> cases wa <;>
          simp [handleConnection, ht, supportsResponse, Supports.records, recItems, boolRec, optRec]
      · simp [handleConnection, ht, notPermitted, recItems, errorResponseRecords]

theorem cookies_need_token_or_key_exchange (cfg : ServerCfg) (exp : Export) (permit : Bool)
    (req : Except MsgErr Request)
    (h : (handleConnection cfg exp permit req).items.filter Item.isCookie ≠ []) :
    (∃ as ps d, req = .ok (.keyExchange as ps d)) ∨
    (∃ auth c2s s2c a p ka, req = .ok (.fixedKey auth c2s s2c a p ka) ∧ auth ∈ cfg.tokens) := by
  cases req with
  | error e =>
    exfalso; apply h
    simp only [handleConnection, parseFailure]
    split <;> simp [filter_cookie_recItems]
  | ok q =>
    cases q with
    | keyExchange as ps d => exact .inl ⟨_, _, _, rfl⟩
    | fixedKey auth c2s s2c a p ka =>
      by_cases ht : auth ∈ cfg.tokens
      · exact .inr ⟨_, _, _, _, _, _, rfl, ht⟩
      · exfalso; apply h
        simp [handleConnection, ht, notPermitted, filter_cookie_recItems]
    | support auth wp wa ka =>
      exfalso; apply h
      by_cases ht : auth ∈ cfg.tokens
      · simp [handleConnection, ht, supportsResponse, filter_cookie_recItems]
      · simp [handleConnection, ht, notPermitted, filter_cookie_recItems]

theorem no_plain_ke_on_longterm (cfg : ServerCfg) (as : List Aead) (ps : List NextProtocol)
    (d : List Bytes) :
    handleLongterm cfg (.ok (.keyExchange as ps d)) =
      { items := [.record (.error .badRequest), .record .endOfMessage],
        result := .err (.parse .invalid), «end» := .clean, askedPermit := false } := by
  simp [handleLongterm, recItems, errorResponseRecords]

/-! ### non-vacuity -/

def exCfg : ServerCfg := { protocols := [.ntpv4], tokens := [[104, 105]], server := none, port := none }

/-- a fixed-key request with the token "hi", keep-alive and a free slot is kept open … -/
example : (handleConnection exCfg (fun _ _ => none) true
    (.ok (.fixedKey [104, 105] [1] [2] .siv256 .ntpv4 true))).result = .kept := by decide

/-- … the same request with another token is refused (hypotheses of `token_required`) -/
example : poolRequest (.fixedKey [110, 111] [1] [2] .siv256 .ntpv4 true) = some ([110, 111], true)
    ∧ ([110, 111] : Bytes) ∉ exCfg.tokens := by decide

/-- hypotheses of `served_with_token` / `kept_open_iff` (right-hand side) -/
example : ∃ q auth, (Except.ok q : Except MsgErr Request) = .ok q ∧
    poolRequest q = some (auth, true) ∧ auth ∈ exCfg.tokens ∧ true = true :=
  ⟨.support [104, 105] true false true, [104, 105], rfl, rfl, by decide, rfl⟩

/-- hypothesis of `cookies_need_token_or_key_exchange`: a served fixed-key answer carries cookies -/
example : (handleConnection exCfg (fun _ _ => none) false
    (.ok (.fixedKey [104, 105] [1] [2] .siv256 .ntpv4 false))).items.filter Item.isCookie ≠ [] := by decide

end NtpVerif.C29

#print axioms NtpVerif.C29.token_required
#print axioms NtpVerif.C29.served_with_token
#print axioms NtpVerif.C29.kept_open_iff
#print axioms NtpVerif.C29.keepalive_record_iff_kept
#print axioms NtpVerif.C29.cookies_need_token_or_key_exchange
#print axioms NtpVerif.C29.no_plain_ke_on_longterm
