/-
C11 — unreachable sources are reset, responsive sources are kept.

Model: `NtpVerif.Model.SourceSM` (`Reach`, the reset decision at the head of `handle_timer`, `process_message`).

Property sentence ↔ theorem
  "A source that has received no usable answer within its first three polls, or none within its last eight
   polls, is reset at its next timer, or demobilised if an unauthenticated deny was seen since its last usable
   answer, and sends nothing further"
        ↔ `reset_when_unreachable` (the decision), `first_three`, `last_eight` (when the condition is reached),
          `stays_reset` (nothing further is sent while no answer is accepted),
          `deny_mark_cleared_by_answer` (the deny mark is "since its last usable answer")
  "A plain NTP source that keeps answering usably is never reset"
        ↔ `responsive_never_reset`
  "the reported number of missed polls equals the polls since its last usable answer (at most 8)"
        ↔ `missed_polls_is_history` (+ the register facts `tz8_poll`, `tz8_recv` proved over all 256 values)
-/
import NtpVerif.Proofs.SourceSM
import NtpVerif.Proofs.Reach

namespace NtpVerif.C11
open NtpVerif.SourceSM NtpVerif.CookieStash

def isAccepted : Obs → Bool
  | .incoming (.accepted _ _ _) => true
  | _ => false
def isSend : Obs → Bool
  | .timer (.send _) => true
  | _ => false
def isPanic : Obs → Bool
  | .timer .panic => true
  | .incoming .panic => true
  | _ => false
def isResetOrDemob : Obs → Bool
  | .timer .reset => true
  | .timer .demobilize => true
  | _ => false

/-- the reset condition of `handle_timer` -/
def Unreachable (s : State) : Prop := s.reach = 0 ∧ s.tries ≥ 3

instance (s : State) : Decidable (Unreachable s) := by unfold Unreachable; infer_instance

/-- **C11.reset_when_unreachable** — a timer on a source with an empty reach register and at least three polls
    sent returns exactly `[Demobilize]` if a deny/rstr was marked, else exactly `[Reset]`; nothing is sent and
    the state is unchanged. -/
theorem reset_when_unreachable (s : State) (now : Nat) (d : Int) (o : Nat) (u : List UInt8) (t : Nat)
    (h : Unreachable s) :
    handleTimer s now d o u t = (s, if s.haveDeny then .demobilize else .reset) := by
  rcases timer_cases s now d o u t with ⟨_, e⟩ | ⟨hn, _⟩
  · exact e
  · exact absurd h hn

/-- effect of one op on the reach register and the poll counter -/
theorem step_reach (s : State) (op : Op) :
    let r := step s op
    isPanic r.2 = true ∨
    (Unreachable s ∧ r.1 = s ∧ r.2 = .timer (if s.haveDeny then .demobilize else .reset)) ∨
    (¬ Unreachable s ∧ (∃ o, r.2 = .timer o) ∧ r.1.reach = reachPoll s.reach ∧ r.1.tries = s.tries + 1 ∧
       r.1.haveDeny = s.haveDeny ∧ r.1.nts.isSome = s.nts.isSome ∧ (s.nts = none → isSend r.2 = true)) ∨
    ((r.2 = .incoming .ignore ∨ r.2 = .incoming .demobilize) ∧ r.1.reach = s.reach ∧ r.1.tries = s.tries ∧
       r.1.nts = s.nts) ∨
    (isAccepted r.2 = true ∧ r.1.reach = reachRecv s.reach ∧ r.1.tries = s.tries ∧ r.1.haveDeny = false ∧
       r.1.nts.isSome = s.nts.isSome) := by
  cases op with
  | timer now d o u t =>
    simp only [step]
    rcases timer_cases s now d o u t with ⟨h0, e⟩ | ⟨h0, ⟨hn, e⟩ | ⟨st, st', hn, _, e⟩ | ⟨st, st', hn, _, e⟩ |
        ⟨st, st', c, n, hn, _, ⟨_, e⟩ | ⟨_, e⟩⟩⟩
    · right; left; rw [e]; exact ⟨h0, rfl, rfl⟩
    · right; right; left; rw [e]
      exact ⟨h0, ⟨_, rfl⟩, rfl, rfl, rfl, by simp [timerSent, hn], fun _ => rfl⟩
    · right; right; left; rw [e]
      exact ⟨h0, ⟨_, rfl⟩, rfl, rfl, rfl, by simp [hn], fun h => by rw [hn] at h; cases h⟩
    · left; rw [e]; rfl
    · left; rw [e]; rfl
    · right; right; left; rw [e]
      exact ⟨h0, ⟨_, rfl⟩, rfl, rfl, rfl, by simp [timerSent, hn], fun h => by rw [hn] at h; cases h⟩
  | incoming now parsed a b bl =>
    simp only [step, handleIncoming]
    rcases incoming_cases true s now parsed a b bl with e | ⟨p, id, dl, _, _, _, _, _, hc⟩
    · right; right; right; left
      rw [e]; simp
    · rcases hc with ⟨_, _, e⟩ | ⟨_, _, ⟨_, e⟩ | ⟨rr, _, e⟩⟩ | ⟨_, _, _, ⟨_, e⟩ | ⟨_, e⟩⟩ | ⟨_, _, _, e⟩
      · right; right; right; left; rw [e]; simp
      · left; rw [e]; rfl
      · right; right; right; left; rw [e]; simp
      · right; right; right; left; rw [e]; simp
      · right; right; right; left; rw [e]; simp
      · rw [e]
        have hf := processMessage_fields { s with proto := protoOnValid s.proto p.isUpgrade } p a b bl
        rcases processMessage_out { s with proto := protoOnValid s.proto p.isUpgrade } p a b bl with ⟨u, m, k, e'⟩ | e'
        · right; right; right; right
          simp only at hf
          refine ⟨by rw [e']; rfl, hf.1, hf.2.1, hf.2.2.1, hf.2.2.2.2.1⟩
        · left; rw [e']; rfl

def WF (s : State) : Prop := s.reach < 256

theorem step_wf (s : State) (op : Op) (h : WF s) (hp : isPanic (step s op).2 = false) : WF (step s op).1 := by
  rcases step_reach s op with h1 | ⟨_, e, _⟩ | ⟨_, _, e, _⟩ | ⟨_, e, _⟩ | ⟨_, e, _⟩
  · rw [hp] at h1; cases h1
  · rw [e]; exact h
  · unfold WF; rw [e]; exact poll_lt _
  · unfold WF; rw [e]; exact h
  · unfold WF; rw [e]; exact (recv_lt _ h).1

/-- **C11.stays_reset** — once the reset condition holds it keeps holding, every timer yields the reset /
    demobilise action and nothing is sent, for as long as no answer is accepted. -/
theorem stays_reset (s : State) (ops : List Op) (h : Unreachable s)
    (hna : ∀ o ∈ observations s ops, isAccepted o = false) (hnp : ∀ o ∈ observations s ops, isPanic o = false) :
    Unreachable (run s ops).1 ∧ ∀ o ∈ observations s ops, isSend o = false := by
  induction ops generalizing s with
  | nil => exact ⟨h, by simp [observations, run]⟩
  | cons op ops ih =>
    simp only [observations, run, List.map_cons, List.mem_cons, forall_eq_or_imp] at hna hnp ⊢
    have hs : Unreachable (step s op).1 ∧ isSend (step s op).2 = false := by
      rcases step_reach s op with h1 | ⟨_, e, e2⟩ | ⟨hn, _⟩ | ⟨e2, e, et, _⟩ | ⟨h1, _⟩
      · rw [hnp.1] at h1; cases h1
      · rw [e, e2]; exact ⟨h, by cases s.haveDeny <;> rfl⟩
      · exact absurd h hn
      · refine ⟨⟨by rw [e]; exact h.1, by rw [et]; exact h.2⟩, ?_⟩
        rcases e2 with e2 | e2 <;> rw [e2] <;> rfl
      · rw [hna.1] at h1; cases h1
    have := ih (step s op).1 hs.1 hna.2 hnp.2
    exact ⟨this.1, hs.2, this.2⟩

/-- the register and the counter after a stretch without accepted answer: `k` polls were made, `k` at least the
    number of requests sent -/
theorem unanswered_stretch (s : State) (ops : List Op)
    (hna : ∀ o ∈ observations s ops, isAccepted o = false) (hnp : ∀ o ∈ observations s ops, isPanic o = false) :
    ∃ k, (observations s ops).countP isSend ≤ k ∧ (run s ops).1.tries = s.tries + k ∧
      (run s ops).1.reach % 256 = (s.reach * 2 ^ k) % 256 := by
  induction ops generalizing s with
  | nil => exact ⟨0, by simp [observations, run]⟩
  | cons op ops ih =>
    simp only [observations, run, List.map_cons, List.mem_cons, forall_eq_or_imp] at hna hnp ⊢
    obtain ⟨k, hk1, hk2, hk3⟩ := ih (step s op).1 hna.2 hnp.2
    simp only [observations] at hk1
    rw [List.countP_cons]
    simp only [List.countP_map] at hk1 ⊢
    rcases step_reach s op with h1 | ⟨_, e, e2⟩ | ⟨_, _, er, et, _⟩ | ⟨e2, er, et, _⟩ | ⟨h1, _⟩
    · rw [hnp.1] at h1; cases h1
    · refine ⟨k, ?_, by rw [hk2, e], by rw [hk3, e]⟩
      rw [e2]; cases s.haveDeny <;> simp [isSend] <;> omega
    · refine ⟨k + 1, ?_, by rw [hk2, et]; omega, ?_⟩
      · split <;> omega
      · rw [hk3, er]
        unfold reachPoll
        rw [Nat.pow_succ, Nat.mul_comm (2 ^ k) 2, ← Nat.mul_assoc, Nat.mod_mul_mod]
    · refine ⟨k, ?_, by rw [hk2, et], by rw [hk3, er]⟩
      rcases e2 with e2 | e2 <;> rw [e2] <;> simp [isSend] <;> omega
    · rw [hna.1] at h1; cases h1

/-- **C11.first_three** — a new source (empty register, no polls yet) that has sent three requests without a
    usable answer is in the reset condition: its next timer resets / demobilises. -/
theorem first_three (s : State) (ops : List Op) (h0 : s.reach = 0) (hwf : WF (run s ops).1)
    (hna : ∀ o ∈ observations s ops, isAccepted o = false) (hnp : ∀ o ∈ observations s ops, isPanic o = false)
    (h3 : 3 ≤ (observations s ops).countP isSend) : Unreachable (run s ops).1 := by
  obtain ⟨k, hk1, hk2, hk3⟩ := unanswered_stretch s ops hna hnp
  refine ⟨?_, by omega⟩
  rw [h0, Nat.zero_mul, Nat.zero_mod] at hk3
  unfold WF at hwf
  omega

/-- **C11.last_eight** — whatever the state, after eight requests in a row without a usable answer the source
    is in the reset condition. -/
theorem last_eight (s : State) (ops : List Op) (hwf : WF (run s ops).1)
    (hna : ∀ o ∈ observations s ops, isAccepted o = false) (hnp : ∀ o ∈ observations s ops, isPanic o = false)
    (h8 : 8 ≤ (observations s ops).countP isSend) : Unreachable (run s ops).1 := by
  obtain ⟨k, hk1, hk2, hk3⟩ := unanswered_stretch s ops hna hnp
  refine ⟨?_, by omega⟩
  rw [shifted_out _ _ (by omega)] at hk3
  unfold WF at hwf
  omega

/-- the run keeps the register below 256 -/
theorem run_wf (s : State) (ops : List Op) (h : WF s) (hnp : ∀ o ∈ observations s ops, isPanic o = false) :
    WF (run s ops).1 := by
  induction ops generalizing s with
  | nil => exact h
  | cons op ops ih =>
    simp only [observations, run, List.map_cons, List.mem_cons, forall_eq_or_imp] at hnp ⊢
    exact ih _ (step_wf s op h hnp.1) hnp.2

/-- **C11.deny_mark_cleared_by_answer** — an accepted (usable) answer clears the deny mark, so a later
    demobilisation needs a deny seen *since* the last usable answer. -/
theorem deny_mark_cleared_by_answer (s : State) (op : Op) (h : isAccepted (step s op).2 = true) :
    (step s op).1.haveDeny = false := by
  rcases step_reach s op with h1 | ⟨_, _, e2⟩ | ⟨_, ⟨o, e2⟩, _⟩ | ⟨e2, _⟩ | ⟨_, _, _, hd, _⟩
  · cases e : (step s op).2 with
    | timer o => rw [e] at h; cases h
    | incoming o => rw [e] at h h1; cases o <;> simp [isAccepted, isPanic] at h h1
  · rw [e2] at h; cases h
  · rw [e2] at h; cases h
  · rcases e2 with e2 | e2 <;> rw [e2] at h <;> cases h
  · exact hd

/-- **C11.deny_mark_survives_kiss** — ONLY an accepted answer clears the deny mark: every other op — timers, RATE,
    NTS-NAK and unknown KISS answers, further DENY/RSTR answers, stale / invalid / forged datagrams — leaves a set mark
    set (aborting ops excluded). -/
theorem deny_mark_survives_kiss (s : State) (op : Op) (hd : s.haveDeny = true)
    (hna : isAccepted (step s op).2 = false) (hnp : isPanic (step s op).2 = false) :
    (step s op).1.haveDeny = true := by
  cases op with
  | timer now d o u t =>
    simp only [step]
    rcases timer_cases s now d o u t with ⟨_, e⟩ | ⟨_, ⟨hn, e⟩ | ⟨st, st', hn, _, e⟩ | ⟨st, st', hn, _, e⟩ |
        ⟨st, st', c, n, hn, _, ⟨_, e⟩ | ⟨_, e⟩⟩⟩
    all_goals (rw [e]; exact hd)
  | incoming now parsed a b bl =>
    simp only [step, handleIncoming] at hna hnp ⊢
    rcases incoming_cases true s now parsed a b bl with e | ⟨p, id, dl, _, _, _, _, _, hc⟩
    · rw [e]; exact hd
    · rcases hc with ⟨_, _, e⟩ | ⟨_, _, ⟨_, e⟩ | ⟨rr, _, e⟩⟩ | ⟨_, _, _, ⟨_, e⟩ | ⟨_, e⟩⟩ | ⟨_, _, _, e⟩
      · rw [e]; exact hd
      · rw [e]; exact hd
      · rw [e]; exact hd
      · rw [e]; exact hd
      · rw [e]
      · exfalso
        rw [e] at hna hnp
        rcases processMessage_out { s with proto := protoOnValid s.proto p.isUpgrade } p a b bl with ⟨u, m, k, e'⟩ | e'
        · rw [e'] at hna; cases hna
        · rw [e'] at hnp; cases hnp

/-- **C11.deny_mark_survives_history** — along any history without an accepted answer (and without abort) a set deny
    mark stays set; so once the source has become unreachable its timer demobilises (`reset_when_unreachable`):
    "DENY → RATE / NAK / junk → silence" ends in `Demobilize`, not `Reset`. -/
theorem deny_mark_survives_history (ops : List Op) (s : State) (hd : s.haveDeny = true)
    (hna : ∀ o ∈ observations s ops, isAccepted o = false) (hnp : ∀ o ∈ observations s ops, isPanic o = false) :
    (run s ops).1.haveDeny = true ∧
    (Unreachable (run s ops).1 → ∀ now d o u t,
      handleTimer (run s ops).1 now d o u t = ((run s ops).1, .demobilize)) := by
  have key : (run s ops).1.haveDeny = true := by
    induction ops generalizing s with
    | nil => exact hd
    | cons op ops ih =>
      simp only [observations, run, List.map_cons, List.mem_cons, forall_eq_or_imp] at hna hnp ⊢
      exact ih _ (deny_mark_survives_kiss s op hd hna.1 hnp.1) hna.2 hnp.2
  refine ⟨key, ?_⟩
  intro hu now d o u t
  rw [reset_when_unreachable _ now d o u t hu, key]
  rfl

/-! #### responsive sources -/

/-- a poll round: one timer op followed by incoming ops -/
structure Round where
  now : Nat
  desired : Int
  origin : Nat
  uid : List UInt8
  tns : Nat
  answers : List (Nat × Option Pkt × Nat × Nat × Option Bool)

def Round.ops (r : Round) : List Op :=
  .timer r.now r.desired r.origin r.uid r.tns ::
    r.answers.map fun a => .incoming a.1 a.2.1 a.2.2.1 a.2.2.2.1 a.2.2.2.2

/-- every round gets at least one accepted (usable) answer before the next timer -/
def Responsive (s : State) : List Round → Prop
  | [] => True
  | r :: rest =>
    (∃ o ∈ observations s r.ops, isAccepted o = true) ∧ Responsive (run s r.ops).1 rest

theorem incoming_keeps_odd (s : State) (ins : List Op) (hin : ∀ op ∈ ins, ∃ a b c d e, op = .incoming a b c d e)
    (hwf : WF s) (hnp : ∀ o ∈ observations s ins, isPanic o = false) :
    ((s.reach % 2 = 1 ∨ ∃ o ∈ observations s ins, isAccepted o = true) → (run s ins).1.reach % 2 = 1) ∧
    (run s ins).1.nts.isSome = s.nts.isSome ∧ (∀ o ∈ observations s ins, isResetOrDemob o = false) := by
  induction ins generalizing s with
  | nil => simp [observations, run]
  | cons op ins ih =>
    simp only [observations, run, List.map_cons, List.mem_cons, forall_eq_or_imp, exists_eq_or_imp] at hnp hin ⊢
    obtain ⟨a, b, c, d, e, rfl⟩ := hin.1
    have hwf' := step_wf s _ hwf hnp.1
    obtain ⟨i1, i2, i3⟩ := ih (step s (.incoming a b c d e)).1 hin.2 hwf' hnp.2
    simp only [observations] at i1 i3
    rcases step_reach s (.incoming a b c d e) with h1 | ⟨_, _, e2⟩ | ⟨_, ⟨o, e2⟩, _⟩ | ⟨e2, er, _, en⟩ | ⟨h1, er, _, _, en⟩
    · rw [hnp.1] at h1; cases h1
    · simp [step] at e2
    · simp [step] at e2
    · refine ⟨?_, by rw [i2, en], ?_, i3⟩
      · intro h
        apply i1
        rcases h with h | h | h
        · left; rw [er]; exact h
        · rcases e2 with e2 | e2 <;> rw [e2] at h <;> cases h
        · right; exact h
      · rcases e2 with e2 | e2 <;> rw [e2] <;> rfl
    · refine ⟨fun _ => i1 (Or.inl (by rw [er]; exact (recv_lt _ hwf).2)), by rw [i2, en], ?_, i3⟩
      cases e2 : (step s (.incoming a b c d e)).2 with
      | timer o => simp [step] at e2
      | incoming o => rfl

/-- **C11.responsive_never_reset** — a plain (non-NTS) source whose every poll is answered usably before the next
    timer never gets `Reset` or `Demobilize` from a timer: every timer sends the next request. Start: a new source
    (`tries < 3`) or one whose last poll was answered (register odd). -/
theorem responsive_never_reset (rounds : List Round) (s : State) (hplain : s.nts = none) (hwf : WF s)
    (hstart : s.reach % 2 = 1 ∨ s.tries = 0)
    (hresp : Responsive s rounds)
    (hnp : ∀ o ∈ observations s (rounds.flatMap Round.ops), isPanic o = false) :
    ∀ o ∈ observations s (rounds.flatMap Round.ops), isResetOrDemob o = false := by
  induction rounds generalizing s with
  | nil => simp [observations, run]
  | cons r rest ih =>
    -- split the run of this round from the rest
    have hsplit : ∀ (s : State) (xs ys : List Op),
        observations s (xs ++ ys) = observations s xs ++ observations (run s xs).1 ys := by
      intro s xs
      induction xs generalizing s with
      | nil => intro ys; simp [observations, run]
      | cons x xs ihx => intro ys; simp only [List.cons_append, observations, run, List.map_cons] ; rw [← observations, ← observations, ihx]; simp [observations]
    simp only [List.flatMap_cons] at hnp ⊢
    rw [hsplit] at hnp ⊢
    simp only [List.mem_append] at hnp ⊢
    obtain ⟨⟨oacc, hacc1, hacc2⟩, hrest⟩ := hresp
    -- the timer of this round
    let top : Op := .timer r.now r.desired r.origin r.uid r.tns
    have hops : r.ops = top :: r.answers.map fun a => .incoming a.1 a.2.1 a.2.2.1 a.2.2.2.1 a.2.2.2.2 := rfl
    have hnp1 : ∀ o ∈ observations s r.ops, isPanic o = false := fun o h => hnp o (Or.inl h)
    rw [hops] at hnp1 hacc1
    simp only [observations, run, List.map_cons, List.mem_cons, forall_eq_or_imp] at hnp1 hacc1
    have hnotun : ¬ Unreachable s := by
      rintro ⟨h0, h3⟩
      rcases hstart with h | h <;> omega
    have htimer : isSend (step s top).2 = true ∧ (step s top).1.nts = none ∧ WF (step s top).1 := by
      rcases step_reach s top with h1 | ⟨hu, _⟩ | ⟨_, _, _, _, _, hn, hs⟩ | ⟨e2, _⟩ | ⟨h1, _⟩
      · rw [hnp1.1] at h1; cases h1
      · exact absurd hu hnotun
      · refine ⟨hs hplain, ?_, step_wf s top hwf hnp1.1⟩
        rw [hplain] at hn
        cases hx : (step s top).1.nts with
        | none => rfl
        | some _ => rw [hx] at hn; cases hn
      · rcases e2 with e2 | e2 <;> simp [step, top] at e2
      · cases e2 : (step s top).2 with
        | timer o => rw [e2] at h1; cases h1
        | incoming o => simp [step, top] at e2
    have hin : ∀ op ∈ (r.answers.map fun a => Op.incoming a.1 a.2.1 a.2.2.1 a.2.2.2.1 a.2.2.2.2),
        ∃ a b c d e, op = .incoming a b c d e := by
      intro op h
      simp only [List.mem_map] at h
      obtain ⟨a, _, rfl⟩ := h
      exact ⟨_, _, _, _, _, rfl⟩
    have hacc' : ∃ o ∈ observations (step s top).1 (r.answers.map fun a => Op.incoming a.1 a.2.1 a.2.2.1 a.2.2.2.1 a.2.2.2.2),
        isAccepted o = true := by
      rcases hacc1 with h | h
      · rw [h] at hacc2
        cases e2 : (step s top).2 with
        | timer o => rw [e2] at hacc2; cases hacc2
        | incoming o => simp [step, top] at e2
      · exact ⟨oacc, h, hacc2⟩
    obtain ⟨k1, k2, k3⟩ := incoming_keeps_odd (step s top).1 _ hin htimer.2.2 hnp1.2
    have hodd := k1 (Or.inr hacc')
    have hrun : (run s r.ops).1 = (run (step s top).1 (r.answers.map fun a => Op.incoming a.1 a.2.1 a.2.2.1 a.2.2.2.1 a.2.2.2.2)).1 := by
      rw [hops]; simp [run]
    intro o ho
    rcases ho with ho | ho
    · rw [hops] at ho
      simp only [observations, run, List.map_cons, List.mem_cons] at ho
      rcases ho with rfl | ho
      · cases e2 : (step s top).2 with
        | timer o => rw [e2] at htimer; cases o <;> simp [isSend] at htimer <;> rfl
        | incoming o => rfl
      · exact k3 o ho
    · refine ih (run s r.ops).1 ?_ ?_ (Or.inl ?_) hrest (fun o h => hnp o (Or.inr h)) o ho
      · rw [hrun]
        have := k2
        rw [htimer.2.1] at this
        cases hx : (run (step s top).1 _).1.nts with
        | none => rfl
        | some _ => rw [hx] at this; cases this
      · rw [hrun]; exact run_wf _ _ htimer.2.2 hnp1.2
      · rw [hrun]; exact hodd

/-! #### the reported number of missed polls -/

/-- polls since the last usable answer, from the observation history (`none` = never answered) -/
def sinceLast : Option Nat → List Obs → Option Nat
  | acc, [] => acc
  | acc, o :: os =>
    if isAccepted o then sinceLast (some 0) os
    else if isSend o then sinceLast (acc.map (· + 1)) os
    else sinceLast acc os

def reported : Option Nat → Nat
  | none => 8
  | some k => min 8 k

/-- **C11.missed_polls_is_history** — for a plain source, `ObservableSourceState.unanswered_polls`
    (= `trailing_zeros` of the register) equals the number of polls since the last usable answer, capped at 8,
    and is 8 for a source that never had one. -/
theorem missed_polls_is_history (ops : List Op) (s : State) (acc : Option Nat) (hplain : s.nts = none) (hwf : WF s)
    (hinv : tz8 s.reach = reported acc ∧ (acc = none → s.reach = 0))
    (hnp : ∀ o ∈ observations s ops, isPanic o = false) :
    tz8 (run s ops).1.reach = reported (sinceLast acc (observations s ops)) := by
  induction ops generalizing s acc with
  | nil => simpa [observations, run, sinceLast] using hinv.1
  | cons op ops ih =>
    simp only [observations, run, List.map_cons, List.mem_cons, forall_eq_or_imp] at hnp ⊢
    have hwf' := step_wf s op hwf hnp.1
    unfold sinceLast
    rcases step_reach s op with h1 | ⟨_, e, e2⟩ | ⟨_, ⟨o, e2⟩, er, _, _, hn, hs⟩ | ⟨e2, er, _, en⟩ | ⟨h1, er, _, _, hn⟩
    · rw [hnp.1] at h1; cases h1
    · have hA : isAccepted (step s op).2 = false := by rw [e2]; cases s.haveDeny <;> rfl
      have hS : isSend (step s op).2 = false := by rw [e2]; cases s.haveDeny <;> rfl
      simp only [hA, hS, Bool.false_eq_true, if_false]
      exact ih _ acc (by rw [e]; exact hplain) hwf' (by rw [e]; exact hinv) hnp.2
    · have hS := hs hplain
      have hA : isAccepted (step s op).2 = false := by rw [e2]; rfl
      simp only [hA, hS, Bool.false_eq_true, if_false, if_true]
      refine ih _ _ ?_ hwf' ⟨?_, ?_⟩ hnp.2
      · rw [hplain] at hn
        cases hx : (step s op).1.nts with
        | none => rfl
        | some _ => rw [hx] at hn; cases hn
      · rw [er, tz8_poll _ hwf, hinv.1]
        cases acc with
        | none => simp [reported]
        | some k => simp only [reported, Option.map_some]; omega
      · intro h
        cases acc with
        | none => rw [er, hinv.2 rfl]; rfl
        | some k => simp at h
    · have hA : isAccepted (step s op).2 = false := by rcases e2 with e2 | e2 <;> rw [e2] <;> rfl
      have hS : isSend (step s op).2 = false := by rcases e2 with e2 | e2 <;> rw [e2] <;> rfl
      simp only [hA, hS, Bool.false_eq_true, if_false]
      exact ih _ acc (by rw [en]; exact hplain) hwf' (by rw [er]; exact hinv) hnp.2
    · simp only [h1, if_true]
      refine ih _ _ ?_ hwf' ⟨by rw [er, tz8_recv _ hwf]; rfl, by simp⟩ hnp.2
      rw [hplain] at hn
      cases hx : (step s op).1.nts with
      | none => rfl
      | some _ => rw [hx] at hn; cases hn

/-! #### non-vacuity -/

def cfg0 : Cfg := ⟨⟨4, 10⟩, 16, [], 5⟩

/-- three unanswered polls of a new plain source, then the timer resets and changes nothing -/
example :
    let ops : List Op := [.timer 0 4 1 [] 0, .timer 1 4 2 [] 0, .timer 2 4 3 [] 0]
    Unreachable (run (init cfg0 .v4 none) ops).1 ∧
    handleTimer (run (init cfg0 .v4 none) ops).1 3 4 4 [] 0 = ((run (init cfg0 .v4 none) ops).1, .reset) := by
  decide

/-- register 0b1000_0000 (last answer eight polls ago... seven shifts left): one more unanswered poll empties it -/
example : reachPoll 128 = 0 ∧ tz8 128 = 7 ∧ tz8 (reachPoll 128) = 8 := by decide

end NtpVerif.C11

#print axioms NtpVerif.C11.reset_when_unreachable
#print axioms NtpVerif.C11.stays_reset
#print axioms NtpVerif.C11.first_three
#print axioms NtpVerif.C11.last_eight
#print axioms NtpVerif.C11.deny_mark_cleared_by_answer
#print axioms NtpVerif.C11.responsive_never_reset
#print axioms NtpVerif.C11.missed_polls_is_history
#print axioms NtpVerif.C11.deny_mark_survives_kiss
#print axioms NtpVerif.C11.deny_mark_survives_history
