/-
C24 — NTP packets survive a decode/encode round trip.

  "Every packet the decoder accepts (without keys) can be encoded again without error, and after one
   normalising round the encoding is stable: decoding the re-encoded packet yields the same packet and
   encoding it again yields the same bytes."

Property theorems only (helper lemmas live in `NtpVerif.Proofs.WireRT`).
Model: `NtpVerif.Wire.parse` / `Packet.serialize` (`NtpPacket::{deserialize, serialize}` with `NoCipher`).

  reencodes             first sentence, first half — PROVED for every byte string: an accepted packet is
                        encoded without an I/O error and without a panic (this is what finding F-C24 broke).
  reencodes_no_keys     the same with the key-less context spelled out (no cipher, no oracle).
  Full                  the complete statement (re-encoding exists, is accepted, and is a fixed point of
                        decode∘encode).  NOT proved in Lean: `Stable` is checked by the differential stream
                        `c24_roundtrip` (model = implementation byte for byte on b₁, q, b₂, q₂) and by the
                        harness oracle on every accepted packet.
  unfixed_encoder_panics  F-C24 on the model of the unfixed `ReferenceIdRequest::serialize`.

  stable_v3             `Stable` PROVED for NTPv3: an accepted v3 packet (header + optional MAC) encodes to exactly the
                        received bytes (`v3_reencodes_exactly`), so the round trip is the identity from the start.
  header_v34_reencode   header lemma (v3/v4): decoding 48 header bytes and encoding the result gives the bytes back.
  mac_reencode          MAC lemma: a decoded MAC encodes to the bytes it was decoded from.
  field_framing_readback  per-field lemma, framing: what every field encoder writes (`type, length, body`) is read
                        back by `RawExtensionField::deserialize` as that type with the first `length-4` body bytes.
  generic_field_roundtrip  per-field lemma for the six kinds encoded through `encode_framing`/`encode_padding`
                        (unique identifier, cookie, placeholder, draft id, padding, unknown), with the v4 / v5 rules
                        and any minimum size: encode → frame back → message = data ++ zero padding → encoding
                        that message again (same position) yields the same bytes.

Still missing for `Full` (v4 and v5 packets with extension fields), exactly:
  (a) the sequence lemma `stream_of_encoded`: over `enc f₁ ++ … ++ enc fₙ ++ mac` the streamer yields one item per
      field (by `field_framing_readback`) and stops at the MAC — needs the parse-origin invariant that without a MAC
      the last field's wire length exceeds the 28-byte cut-off (otherwise `Full` is false: a 28-byte last field is
      re-read as a MAC), v4 data lengths being multiples of 4, and unknown type ids avoiding the dispatched ids;
  (b) the v5 header lemma (decode∘encode incl. idempotence of the leap rewrite) and the per-field lemmas of the two
      v5 reference-id kinds.

The model describes the tree with `fixes/C24-refid-request-encode.patch` applied.
-/
import NtpVerif.Proofs.WireRT5

namespace NtpVerif.C24
open NtpVerif.Wire

/-- the key-less decryption oracle (`NoCipher` never decrypts) -/
def noDec : Dec := fun _ _ _ _ => none

/-- "Every packet the decoder accepts (without keys) can be encoded again without error." -/
theorem reencodes (dec : Dec) (b : Bytes) (p : Packet) (c : Option Cookie)
    (h : parse dec .noCipher b = .ok p c) : ∃ b₁ pt, p.serialize none none = .ok (b₁, pt) := by
  unfold parse at h
  split at h
  · rename_i p' c' hp
    cases h
    obtain ⟨r, hr⟩ := Packet.serialize_ok (parseR_encodable hp)
    exact ⟨r.1, r.2, hr⟩
  all_goals cases h

theorem reencodes_no_keys (b : Bytes) (p : Packet) (c : Option Cookie)
    (h : parse noDec .noCipher b = .ok p c) : ∃ b₁ pt, p.serialize none none = .ok (b₁, pt) :=
  reencodes noDec b p c h

/-- one accepted input survives the round trip: re-encoding `b₁` exists, is accepted as `q`, and `q` encodes to
    `b₁` again (so decode∘encode is the identity on `q`/`b₁`) -/
def Stable (b : Bytes) : Prop :=
  ∀ p c, parse noDec .noCipher b = .ok p c →
    ∃ b₁ pt, p.serialize none none = .ok (b₁, pt) ∧
      ∃ q c', parse noDec .noCipher b₁ = .ok q c' ∧ q.serialize none none = .ok (b₁, pt)

/-- the complete property -/
def Full : Prop := ∀ b, Stable b

/-! #### NTPv3: the round trip is the identity -/

/-- an accepted NTPv3 packet encodes to exactly the received bytes -/
theorem v3_reencodes_exactly (dec : Dec) (ctx : Ctx) (b : Bytes) (p : Packet) (c : Option Cookie)
    (h : parse dec ctx b = .ok p c) (hv : ∃ h3, p.header = .v3 h3) : p.serialize none none = .ok (b, none) := by
  unfold parse at h
  split at h
  · rename_i p' c' hp
    cases h
    exact parseR_v3_exact hp hv
  all_goals cases h

/-- `Stable` for every input that is decoded as NTPv3 -/
theorem stable_v3 (b : Bytes) (hv : ∀ p c, parse noDec .noCipher b = .ok p c → ∃ h3, p.header = .v3 h3) :
    Stable b := by
  intro p c hp
  have hs := v3_reencodes_exactly noDec .noCipher b p c hp (hv p c hp)
  exact ⟨b, none, hs, p, c, hp, hs⟩

/-! #### building blocks of the general case -/

theorem header_v34_reencode (data : Bytes) (h : HeaderV34) (hs : Nat)
    (e : HeaderV34.deserialize data = .ok (h, hs)) :
    ∃ b0 t, data = b0 :: t ∧ h.serialize (b0.toNat / 8 % 8) = .ok (data.take 48) :=
  headerV34_reencode e

theorem mac_reencode (data : Bytes) (m : Mac) (h : Mac.deserialize data = .ok m) : m.serialize = data :=
  Wire.mac_reencode h

theorem field_framing_readback (minSize ty a : Nat) (body rest : Bytes) (ver : Ver) (hty : ty < 65536)
    (ha : a < 65536) (h4 : 4 ≤ a) (hmin : minSize ≤ a) (hv4 : ver = .v4 → a % 4 = 0)
    (hbody : body.length = nm4 a - 4) :
    rawDeserialize (toBE 2 ty ++ toBE 2 a ++ body ++ rest) minSize ver = .ok (ty, body.take (a - 4)) :=
  raw_of_framed minSize ty a body rest ver hty ha h4 hmin hv4 hbody

theorem generic_field_roundtrip (ty : Nat) (data rest : Bytes) (m : Nat) (ver : Ver) (hty : ty < 65536)
    (hlen : nm4 (max (data.length + 4) m) < 65536) :
    ∃ enc msg', encodeGeneric ty data m ver = .ok enc ∧
      rawDeserialize (enc ++ rest) Gen.EF_V4_UNENCRYPTED_MINIMUM_SIZE ver = .ok (ty, msg') ∧
      msg' = data ++ zeros (msg'.length - data.length) ∧
      encodeGeneric ty msg' m ver = .ok enc :=
  Wire.generic_field_roundtrip _ (by decide) ty data rest m ver hty hlen

/-- non-vacuity: a v3 packet with a 20-byte MAC is accepted, and it is a v3 packet -/
example : (match parse noDec .noCipher ((0x1b :: List.replicate 47 0) ++ List.replicate 20 7) with
    | .ok p _ => (match p.header with | .v3 _ => p.mac.isSome | _ => false) | _ => false) = true := by
  decide +kernel

/-! #### F-C24 -/

/-- the unfixed `ReferenceIdRequest::serialize`: `assert_eq!(payload_len % 4, 0)` -/
def refIdReqSerializeUnfixed (pl off : Nat) : S Bytes :=
  if pl + 4 > 65535 then .error .panic
  else if pl % 4 ≠ 0 then .error .panic
  else .ok (toBE 2 tyRefIdReq ++ toBE 2 (pl + 4) ++ toBE 2 off ++ zeros 2 ++ zeros ((pl / 4 - 1) * 4))

/-- a v5 packet: header, draft identification, reference-id request of field length 10 -/
def witness : Bytes :=
  (0x2b :: List.replicate 47 0) ++ ([0xF5, 0xFF, 0x00, 0x1B] ++ draftVersion ++ [0]) ++
    [0xF5, 0x03, 0x00, 0x0A, 1, 2, 3, 4, 5, 6, 0, 0]

/-- the decoder accepts the witness with a request of payload length 6 … -/
example : (match parse noDec .noCipher witness with
    | .ok p none => p.ef.untrusted == [.draftId draftVersion, .refIdReq 6 258]
    | _ => false) = true := by decide +kernel

/-- … which the unfixed encoder cannot encode -/
theorem unfixed_encoder_panics : refIdReqSerializeUnfixed 6 258 = .error .panic := by
  simp [refIdReqSerializeUnfixed]

/-- the fixed encoder agrees with the unfixed one wherever that one worked -/
theorem fixed_encoder_conservative (pl off : Nat) (h : pl % 4 = 0) (h4 : 4 ≤ pl) (hl : pl + 4 ≤ 65535) :
    (EF.refIdReq pl off).serialize 4 .v5 = refIdReqSerializeUnfixed pl off := by
  unfold EF.serialize refIdReqSerializeUnfixed
  have h1 : ¬ pl + 4 > 65535 := by omega
  have h2 : ¬ pl % 4 ≠ 0 := by omega
  have h3 : max (nm4 pl) 4 - 2 = 2 + (pl / 4 - 1) * 4 := by
    rw [nm4_of_mod h]; omega
  have h5 : 2 + (pl / 4 - 1) * 4 = ((pl / 4 - 1) * 4 + 1) + 1 := by omega
  simp [h1, h2, h3, zeros, h5, List.replicate_succ]

/-- non-vacuity of `Stable`, and the witness is stable with the fix -/
example : (match parse noDec .noCipher witness with
    | .ok p _ =>
      (match p.serialize none none with
       | .ok (b₁, _) =>
         (match parse noDec .noCipher b₁ with
          | .ok q _ => (match q.serialize none none with | .ok (b₂, _) => b₂ == b₁ | _ => false)
          | _ => false)
       | _ => false)
    | _ => false) = true := by decide +kernel

end NtpVerif.C24

#print axioms NtpVerif.C24.reencodes
#print axioms NtpVerif.C24.reencodes_no_keys
#print axioms NtpVerif.C24.unfixed_encoder_panics
#print axioms NtpVerif.C24.fixed_encoder_conservative
#print axioms NtpVerif.C24.v3_reencodes_exactly
#print axioms NtpVerif.C24.stable_v3
#print axioms NtpVerif.C24.header_v34_reencode
#print axioms NtpVerif.C24.mac_reencode
#print axioms NtpVerif.C24.field_framing_readback
#print axioms NtpVerif.C24.generic_field_roundtrip
