/-
C24 — NTP packets survive a decode/encode round trip.

  "Every packet the decoder accepts (without keys) can be encoded again without error, and after one
   normalising round the encoding is stable: decoding the re-encoded packet yields the same packet and
   encoding it again yields the same bytes."

Property theorems only (helper lemmas live in `NtpVerif.Proofs.WireRT`).
Model: `NtpVerif.Wire.parse` / `Packet.serialize` (`NtpPacket::{deserialize, serialize}` with `NoCipher`).

  reencodes             first sentence, first half — PROVED for every byte string: an accepted packet is
                        encoded without an I/O error and without a panic (this is what finding F-C24 broke).
  reencodes_no_keys     the same with the key-less context spelled out (no cipher, no oracle).
  Full                  the complete statement (re-encoding exists, is accepted, and is a fixed point of
                        decode∘encode).  NOT proved in Lean: `Stable` is checked by the differential stream
                        `c24_roundtrip` (model = implementation byte for byte on b₁, q, b₂, q₂) and by the
                        harness oracle on every accepted packet.
  unfixed_encoder_panics  F-C24 on the model of the unfixed `ReferenceIdRequest::serialize`.

The model describes the tree with `fixes/C24-refid-request-encode.patch` applied.
-/
import NtpVerif.Proofs.WireRT

namespace NtpVerif.C24
open NtpVerif.Wire

/-- the key-less decryption oracle (`NoCipher` never decrypts) -/
def noDec : Dec := fun _ _ _ _ => none

/-- "Every packet the decoder accepts (without keys) can be encoded again without error." -/
theorem reencodes (dec : Dec) (b : Bytes) (p : Packet) (c : Option Cookie)
    (h : parse dec .noCipher b = .ok p c) : ∃ b₁ pt, p.serialize none none = .ok (b₁, pt) := by
  unfold parse at h
  split at h
  · rename_i p' c' hp
    cases h
    obtain ⟨r, hr⟩ := Packet.serialize_ok (parseR_encodable hp)
    exact ⟨r.1, r.2, hr⟩
  all_goals cases h

theorem reencodes_no_keys (b : Bytes) (p : Packet) (c : Option Cookie)
    (h : parse noDec .noCipher b = .ok p c) : ∃ b₁ pt, p.serialize none none = .ok (b₁, pt) :=
  reencodes noDec b p c h

/-- one accepted input survives the round trip: re-encoding `b₁` exists, is accepted as `q`, and `q` encodes to
    `b₁` again (so decode∘encode is the identity on `q`/`b₁`) -/
def Stable (b : Bytes) : Prop :=
  ∀ p c, parse noDec .noCipher b = .ok p c →
    ∃ b₁ pt, p.serialize none none = .ok (b₁, pt) ∧
      ∃ q c', parse noDec .noCipher b₁ = .ok q c' ∧ q.serialize none none = .ok (b₁, pt)

/-- the complete property -/
def Full : Prop := ∀ b, Stable b

/-! #### F-C24 -/

/-- the unfixed `ReferenceIdRequest::serialize`: `assert_eq!(payload_len % 4, 0)` -/
def refIdReqSerializeUnfixed (pl off : Nat) : S Bytes :=
  if pl + 4 > 65535 then .error .panic
  else if pl % 4 ≠ 0 then .error .panic
  else .ok (toBE 2 tyRefIdReq ++ toBE 2 (pl + 4) ++ toBE 2 off ++ zeros 2 ++ zeros ((pl / 4 - 1) * 4))

/-- a v5 packet: header, draft identification, reference-id request of field length 10 -/
def witness : Bytes :=
  (0x2b :: List.replicate 47 0) ++ ([0xF5, 0xFF, 0x00, 0x1B] ++ draftVersion ++ [0]) ++
    [0xF5, 0x03, 0x00, 0x0A, 1, 2, 3, 4, 5, 6, 0, 0]

/-- the decoder accepts the witness with a request of payload length 6 … -/
example : (match parse noDec .noCipher witness with
    | .ok p none => p.ef.untrusted == [.draftId draftVersion, .refIdReq 6 258]
    | _ => false) = true := by decide +kernel

/-- … which the unfixed encoder cannot encode -/
theorem unfixed_encoder_panics : refIdReqSerializeUnfixed 6 258 = .error .panic := by
  simp [refIdReqSerializeUnfixed]

/-- the fixed encoder agrees with the unfixed one wherever that one worked -/
theorem fixed_encoder_conservative (pl off : Nat) (h : pl % 4 = 0) (h4 : 4 ≤ pl) (hl : pl + 4 ≤ 65535) :
    (EF.refIdReq pl off).serialize 4 .v5 = refIdReqSerializeUnfixed pl off := by
  unfold EF.serialize refIdReqSerializeUnfixed
  have h1 : ¬ pl + 4 > 65535 := by omega
  have h2 : ¬ pl % 4 ≠ 0 := by omega
  have h3 : max (nm4 pl) 4 - 2 = 2 + (pl / 4 - 1) * 4 := by
    rw [nm4_of_mod h]; omega
  have h5 : 2 + (pl / 4 - 1) * 4 = ((pl / 4 - 1) * 4 + 1) + 1 := by omega
  simp [h1, h2, h3, zeros, h5, List.replicate_succ]

/-- non-vacuity of `Stable`, and the witness is stable with the fix -/
example : (match parse noDec .noCipher witness with
    | .ok p _ =>
      (match p.serialize none none with
       | .ok (b₁, _) =>
         (match parse noDec .noCipher b₁ with
          | .ok q _ => (match q.serialize none none with | .ok (b₂, _) => b₂ == b₁ | _ => false)
          | _ => false)
       | _ => false)
    | _ => false) = true := by decide +kernel

end NtpVerif.C24

#print axioms NtpVerif.C24.reencodes
#print axioms NtpVerif.C24.reencodes_no_keys
#print axioms NtpVerif.C24.unfixed_encoder_panics
#print axioms NtpVerif.C24.fixed_encoder_conservative
