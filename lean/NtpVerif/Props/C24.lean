/-
C24 — NTP packets survive a decode/encode round trip.

  "Every packet the decoder accepts (without keys) can be encoded again without error, and after one
   normalising round the encoding is stable: decoding the re-encoded packet yields the same packet and
   encoding it again yields the same bytes."

Property theorems only (helper lemmas live in `NtpVerif.Proofs.WireRT`).
Model: `NtpVerif.Wire.parse` / `Packet.serialize` (`NtpPacket::{deserialize, serialize}` with `NoCipher`).

  reencodes             first sentence, first half — PROVED for every byte string: an accepted packet is
                        encoded without an I/O error and without a panic (this is what finding F-C24 broke).
  reencodes_no_keys     the same with the key-less context spelled out (no cipher, no oracle).
  Stable / Full         the complete statement (re-encoding exists, is accepted, and is a fixed point of
                        decode∘encode).  PROVED for every byte string: `stable`, `full` (and `stable_any_oracle`: the
                        decryption oracle is irrelevant without keys).
  unfixed_encoder_panics  F-C24 on the model of the unfixed `ReferenceIdRequest::serialize`.

  stable_v3             `Stable` for NTPv3: an accepted v3 packet (header + optional MAC) encodes to exactly the
                        received bytes (`v3_reencodes_exactly`), so the round trip is the identity from the start.
  header_v34_reencode   header lemma (v3/v4): decoding 48 header bytes and encoding the result gives the bytes back.
  header_v34_prefix     the v3/v4 header decoder reads the first 48 bytes only.
  header_v5_wf / header_v5_roundtrip   NTPv5 header: what the decoder guarantees (`HeaderV5.WF`), and decode∘encode = id
                        on such headers (the leap-indicator rewrite is idempotent: `unknown ↔ 3 ↔ unsynchronized`
                        is resolved by the synchronized flag).
  mac_reencode          MAC lemma: a decoded MAC encodes to the bytes it was decoded from.
  field_framing_readback  per-field lemma, framing: what every field encoder writes (`type, length, body`) is read
                        back by `RawExtensionField::deserialize` as that type with the first `length-4` body bytes.
  generic_field_roundtrip  per-field lemma for the six kinds encoded through `encode_framing`/`encode_padding`.
  field_roundtrip       per-field lemma for EVERY kind a key-less decoder can produce (incl. the two v5 reference-id
                        kinds, with the F-C24-fixed request encoder): encode → read back → decode → encode again
                        gives the same bytes; under v5 rules the decoded field is the original one.
  decoded_field_wf      parse-origin invariant of one field (`EF.FWF`): data fits the 16-bit length, is a multiple of
                        4 under v4 framing, v5-only kinds occur under v5 only, an `unknown` type id is below 2^16, is
                        not the NTS encrypted-field id and is not dispatched to another kind.
  stream_of_encoded     SEQUENCE LEMMA: over `enc f₁ ++ … ++ enc fₙ ++ tail` the streamer yields exactly one item per
                        field and stops at the tail (MAC bytes or nothing).
  encoded_sequence      encoder side of the sequence lemma: the untrusted-field encoder writes such a sequence, and
                        every non-empty suffix of it is longer than the MAC cut-off.

On the suspected counterexample ("a 28-byte last field is re-read as a MAC"): it does not exist.  The streamer's
cut-off is `Mac::MAXIMUM_SIZE` = 24 bytes, the encoder pads the LAST v4 field to 28 bytes (RFC 7822 §7.5.1.4), and
28 > 24, so the last field of a re-encoding is always read back as a field, with or without a MAC behind it; no
invariant about the length of the last field is needed (`encoded_sequence` proves the suffix condition from the
encoder's minimum sizes alone).  What normalisation does need is the per-field invariant `EF.FWF`, which every field
of an accepted packet satisfies (`decoded_field_wf`).  Under v5 rules nothing follows the fields (cut-off 0), so an
accepted v5 packet has no MAC and its re-encoding decodes to the very same packet.

The model describes the tree with `fixes/C24-refid-request-encode.patch` applied.
-/
import NtpVerif.Proofs.WireRT10

namespace NtpVerif.C24
open NtpVerif.Wire

/-- the key-less decryption oracle (`NoCipher` never decrypts) -/
def noDec : Dec := fun _ _ _ _ => none

/-- "Every packet the decoder accepts (without keys) can be encoded again without error." -/
theorem reencodes (dec : Dec) (b : Bytes) (p : Packet) (c : Option Cookie)
    (h : parse dec .noCipher b = .ok p c) : ∃ b₁ pt, p.serialize none none = .ok (b₁, pt) := by
  unfold parse at h
  split at h
  · rename_i p' c' hp
    cases h
    obtain ⟨r, hr⟩ := Packet.serialize_ok (parseR_encodable hp)
    exact ⟨r.1, r.2, hr⟩
  all_goals cases h

theorem reencodes_no_keys (b : Bytes) (p : Packet) (c : Option Cookie)
    (h : parse noDec .noCipher b = .ok p c) : ∃ b₁ pt, p.serialize none none = .ok (b₁, pt) :=
  reencodes noDec b p c h

/-- one accepted input survives the round trip: re-encoding `b₁` exists, is accepted as `q`, and `q` encodes to
    `b₁` again (so decode∘encode is the identity on `q`/`b₁`) -/
def Stable (b : Bytes) : Prop :=
  ∀ p c, parse noDec .noCipher b = .ok p c →
    ∃ b₁ pt, p.serialize none none = .ok (b₁, pt) ∧
      ∃ q c', parse noDec .noCipher b₁ = .ok q c' ∧ q.serialize none none = .ok (b₁, pt)

/-- the complete property -/
def Full : Prop := ∀ b, Stable b

/-- the round trip with any decryption oracle on either side (without keys the oracle is never consulted) -/
theorem stable_any_oracle (dec dec' : Dec) (b : Bytes) (p : Packet) (c : Option Cookie)
    (h : parse dec .noCipher b = .ok p c) :
    ∃ b₁, p.serialize none none = .ok (b₁, none) ∧
      ∃ q c', parse dec' .noCipher b₁ = .ok q c' ∧ q.serialize none none = .ok (b₁, none) := by
  unfold parse at h
  split at h
  · rename_i p' c'' hp
    cases h
    obtain ⟨b₁, hs, q, c', hq, hqs⟩ := parseR_stable (dec' := dec') hp
    exact ⟨b₁, hs, q, c', by unfold parse; rw [hq], hqs⟩
  all_goals cases h

/-- "after one normalising round the encoding is stable", for every input -/
theorem stable (b : Bytes) : Stable b := by
  intro p c hp
  obtain ⟨b₁, hs, q, c', hq, hqs⟩ := stable_any_oracle noDec noDec b p c hp
  exact ⟨b₁, none, hs, q, c', hq, hqs⟩

/-- C24, the complete statement -/
theorem full : Full := stable

/-! #### NTPv3: the round trip is the identity -/

/-- an accepted NTPv3 packet encodes to exactly the received bytes -/
theorem v3_reencodes_exactly (dec : Dec) (ctx : Ctx) (b : Bytes) (p : Packet) (c : Option Cookie)
    (h : parse dec ctx b = .ok p c) (hv : ∃ h3, p.header = .v3 h3) : p.serialize none none = .ok (b, none) := by
  unfold parse at h
  split at h
  · rename_i p' c' hp
    cases h
    exact parseR_v3_exact hp hv
  all_goals cases h

/-- `Stable` for every input that is decoded as NTPv3 -/
theorem stable_v3 (b : Bytes) (hv : ∀ p c, parse noDec .noCipher b = .ok p c → ∃ h3, p.header = .v3 h3) :
    Stable b := by
  intro p c hp
  have hs := v3_reencodes_exactly noDec .noCipher b p c hp (hv p c hp)
  exact ⟨b, none, hs, p, c, hp, hs⟩

/-! #### building blocks of the general case -/

theorem header_v34_reencode (data : Bytes) (h : HeaderV34) (hs : Nat)
    (e : HeaderV34.deserialize data = .ok (h, hs)) :
    ∃ b0 t, data = b0 :: t ∧ h.serialize (b0.toNat / 8 % 8) = .ok (data.take 48) :=
  headerV34_reencode e

theorem mac_reencode (data : Bytes) (m : Mac) (h : Mac.deserialize data = .ok m) : m.serialize = data :=
  Wire.mac_reencode h

theorem field_framing_readback (minSize ty a : Nat) (body rest : Bytes) (ver : Ver) (hty : ty < 65536)
    (ha : a < 65536) (h4 : 4 ≤ a) (hmin : minSize ≤ a) (hv4 : ver = .v4 → a % 4 = 0)
    (hbody : body.length = nm4 a - 4) :
    rawDeserialize (toBE 2 ty ++ toBE 2 a ++ body ++ rest) minSize ver = .ok (ty, body.take (a - 4)) :=
  raw_of_framed minSize ty a body rest ver hty ha h4 hmin hv4 hbody

theorem generic_field_roundtrip (ty : Nat) (data rest : Bytes) (m : Nat) (ver : Ver) (hty : ty < 65536)
    (hlen : nm4 (max (data.length + 4) m) < 65536) :
    ∃ enc msg', encodeGeneric ty data m ver = .ok enc ∧
      rawDeserialize (enc ++ rest) Gen.EF_V4_UNENCRYPTED_MINIMUM_SIZE ver = .ok (ty, msg') ∧
      msg' = data ++ zeros (msg'.length - data.length) ∧
      encodeGeneric ty msg' m ver = .ok enc :=
  Wire.generic_field_roundtrip _ (by decide) ty data rest m ver hty hlen

theorem header_v34_prefix (x y : Bytes) (hx : x.length = 48) :
    HeaderV34.deserialize (x ++ y) = HeaderV34.deserialize x :=
  headerV34_prefix x y hx

theorem header_v5_wf (data : Bytes) (h : HeaderV5) (hs : Nat) (e : HeaderV5.deserialize data = .ok (h, hs)) :
    hs = 48 ∧ h.WF :=
  headerV5_wf e

theorem header_v5_roundtrip (h : HeaderV5) (hw : h.WF) :
    ∃ hb, h.serialize = .ok hb ∧ hb.length = 48 ∧ (∃ b0 t, hb = b0 :: t ∧ b0.toNat / 8 % 8 = 5) ∧
      ∀ rest, HeaderV5.deserialize (hb ++ rest) = .ok (h, 48) :=
  headerV5_roundtrip hw

theorem decoded_field_wf (ty : Nat) (msg : Bytes) (ver : Ver) (f : EF) (h : decode ty msg ver = .ok f)
    (hty : ty < 65536) (hne : ty ≠ tyEncrypted) (hl : msg.length ≤ 65531) (h4 : ver = .v4 → msg.length % 4 = 0) :
    f.FWF ver :=
  decode_fwf h hty hne ⟨hl, h4⟩

theorem field_roundtrip (ver : Ver) (m : Nat) (f : EF) (hf : f.FWF ver) (hm4 : ver = .v4 → m % 4 = 0) (hm : m ≤ 28)
    (hm5 : ver = .v5 → m ≤ 4) :
    ∃ fr : Frame, f.serialize m ver = .ok fr.e ∧
      (∀ rest, rawDeserialize (fr.e ++ rest) Gen.EF_V4_UNENCRYPTED_MINIMUM_SIZE ver = .ok (fr.ty, fr.msg)) ∧
      fr.ty ≠ tyEncrypted ∧ decode fr.ty fr.msg ver = .ok fr.f ∧ fr.f.serialize m ver = .ok fr.e ∧
      (ver = .v5 → fr.f = f) := by
  obtain ⟨fr, h1, h2, h3, _, h5⟩ := field_rt ver m f hf hm4 hm hm5
  exact ⟨fr, h1, h2.1, h2.2.2.2.1, h2.2.2.2.2, h3, h5⟩

theorem stream_of_encoded (ver : Ver) (cutoff : Nat) (tail : Bytes) (ht : tail.length ≤ cutoff) (frs : List Frame)
    (hok : ∀ fr ∈ frs, fr.OK ver) (hbig : SufBig cutoff tail frs) (fuel off : Nat) (hf : frs.length < fuel) :
    streamAux ver cutoff Gen.EF_V4_UNENCRYPTED_MINIMUM_SIZE fuel (flat frs ++ tail) off = itemsOf off frs :=
  stream_of_frames ver cutoff tail ht frs hok hbig fuel off hf

theorem encoded_sequence (ver : Ver) (tail : Bytes) (fs : List EF) (h : ∀ f ∈ fs, f.FWF ver) :
    ∃ frs : List Frame, frs.length = fs.length ∧ serializeUntrusted ver fs = .ok (flat frs) ∧
      serializeUntrusted ver (frs.map (·.f)) = .ok (flat frs) ∧ (∀ fr ∈ frs, fr.OK ver) ∧
      SufBig (macCutoff ver) tail frs ∧ (ver = .v5 → frs.map (·.f) = fs) :=
  seq_frames ver tail fs h

/-- non-vacuity: a v3 packet with a 20-byte MAC is accepted, and it is a v3 packet -/
example : (match parse noDec .noCipher ((0x1b :: List.replicate 47 0) ++ List.replicate 20 7) with
    | .ok p _ => (match p.header with | .v3 _ => p.mac.isSome | _ => false) | _ => false) = true := by
  decide +kernel

/-- a v4 packet with a short field (8 bytes), a 32-byte field and no MAC -/
def v4witness : Bytes :=
  (0x23 :: List.replicate 47 0) ++ [0x01, 0x04, 0x00, 0x08, 9, 9, 9, 9] ++
    ([0x02, 0x04, 0x00, 0x20] ++ List.replicate 28 8)

/-- non-vacuity of the general case: the v4 witness is accepted with two fields, the first round normalises (the
    short field is padded to 16 bytes, so `b₁ ≠ b`), and `b₁` is a fixed point -/
example : (match parse noDec .noCipher v4witness with
    | .ok p _ =>
      p.ef.untrusted.length == 2 &&
      (match p.serialize none none with
       | .ok (b₁, _) =>
         b₁ != v4witness &&
         (match parse noDec .noCipher b₁ with
          | .ok q _ => (match q.serialize none none with | .ok (b₂, _) => b₂ == b₁ | _ => false)
          | _ => false)
       | _ => false)
    | _ => false) = true := by decide +kernel

/-- the cut-off corner: a 28-byte last field without a MAC is read back as a field (28 > 24), not as a MAC -/
example : (match parse noDec .noCipher ((0x23 :: List.replicate 47 0) ++ ([0x01, 0x04, 0x00, 0x1c] ++ List.replicate 24 5)) with
    | .ok p _ => p.mac.isNone && p.ef.untrusted.length == 1
    | _ => false) = true := by decide +kernel

/-! #### F-C24 -/

/-- the unfixed `ReferenceIdRequest::serialize`: `assert_eq!(payload_len % 4, 0)` -/
def refIdReqSerializeUnfixed (pl off : Nat) : S Bytes :=
  if pl + 4 > 65535 then .error .panic
  else if pl % 4 ≠ 0 then .error .panic
  else .ok (toBE 2 tyRefIdReq ++ toBE 2 (pl + 4) ++ toBE 2 off ++ zeros 2 ++ zeros ((pl / 4 - 1) * 4))

/-- a v5 packet: header, draft identification, reference-id request of field length 10 -/
def witness : Bytes :=
  (0x2b :: List.replicate 47 0) ++ ([0xF5, 0xFF, 0x00, 0x1B] ++ draftVersion ++ [0]) ++
    [0xF5, 0x03, 0x00, 0x0A, 1, 2, 3, 4, 5, 6, 0, 0]

/-- the decoder accepts the witness with a request of payload length 6 … -/
example : (match parse noDec .noCipher witness with
    | .ok p none => p.ef.untrusted == [.draftId draftVersion, .refIdReq 6 258]
    | _ => false) = true := by decide +kernel

/-- … which the unfixed encoder cannot encode -/
theorem unfixed_encoder_panics : refIdReqSerializeUnfixed 6 258 = .error .panic := by
  simp [refIdReqSerializeUnfixed]

/-- the fixed encoder agrees with the unfixed one wherever that one worked -/
theorem fixed_encoder_conservative (pl off : Nat) (h : pl % 4 = 0) (h4 : 4 ≤ pl) (hl : pl + 4 ≤ 65535) :
    (EF.refIdReq pl off).serialize 4 .v5 = refIdReqSerializeUnfixed pl off := by
  unfold EF.serialize refIdReqSerializeUnfixed
  have h1 : ¬ pl + 4 > 65535 := by omega
  have h2 : ¬ pl % 4 ≠ 0 := by omega
  have h3 : max (nm4 pl) 4 - 2 = 2 + (pl / 4 - 1) * 4 := by
    rw [nm4_of_mod h]; omega
  have h5 : 2 + (pl / 4 - 1) * 4 = ((pl / 4 - 1) * 4 + 1) + 1 := by omega
  simp [h1, h2, h3, zeros, h5, List.replicate_succ]

/-- non-vacuity of `Stable`, and the witness is stable with the fix -/
example : (match parse noDec .noCipher witness with
    | .ok p _ =>
      (match p.serialize none none with
       | .ok (b₁, _) =>
         (match parse noDec .noCipher b₁ with
          | .ok q _ => (match q.serialize none none with | .ok (b₂, _) => b₂ == b₁ | _ => false)
          | _ => false)
       | _ => false)
    | _ => false) = true := by decide +kernel

end NtpVerif.C24

#print axioms NtpVerif.C24.reencodes
#print axioms NtpVerif.C24.reencodes_no_keys
#print axioms NtpVerif.C24.unfixed_encoder_panics
#print axioms NtpVerif.C24.fixed_encoder_conservative
#print axioms NtpVerif.C24.v3_reencodes_exactly
#print axioms NtpVerif.C24.stable_v3
#print axioms NtpVerif.C24.header_v34_reencode
#print axioms NtpVerif.C24.mac_reencode
#print axioms NtpVerif.C24.field_framing_readback
#print axioms NtpVerif.C24.generic_field_roundtrip
#print axioms NtpVerif.C24.stable_any_oracle
#print axioms NtpVerif.C24.stable
#print axioms NtpVerif.C24.full
#print axioms NtpVerif.C24.header_v34_prefix
#print axioms NtpVerif.C24.header_v5_wf
#print axioms NtpVerif.C24.header_v5_roundtrip
#print axioms NtpVerif.C24.decoded_field_wf
#print axioms NtpVerif.C24.field_roundtrip
#print axioms NtpVerif.C24.stream_of_encoded
#print axioms NtpVerif.C24.encoded_sequence
