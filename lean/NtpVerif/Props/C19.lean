/-
C19 — NTS server answers are authenticated and carry valid fresh cookies.

Model: `NtpVerif.Model.Server`.  Cryptography is NOT modelled: a response records whether it is serialised
under the cookie's server-to-client key (`cipher`) and how many fresh cookies of which length it carries in
its encrypted part.  That the AEAD really authenticates the datagram and that every fresh cookie decodes, under
the server's current keys, to the request cookie's session keys is established on the real implementation only
(oracle clauses `c19_not_authenticated`, `c19_cookie_keys`, evaluated with the client's s2c key and the real
`KeySet` on every answered NTS request) — hence `full_statement_proved` is false for this property.

  sentence of the property                                               theorem
  failed authentication: never time, only NTS-NAK, or DENY if policy
    denies the client                                                    auth_failure_nak_or_policy_deny
  time answer to an authenticated request is under the s2c key, with
    nothing outside the authenticated / encrypted part                   time_answer_under_s2c_key
  at most one fresh cookie per cookie or placeholder, never more than
    eight, none larger than the field it replaces                        fresh_cookie_bounds
  fresh cookies travel only inside the encrypted part                    cookies_only_encrypted
-/
import NtpVerif.Proofs.Server

namespace NtpVerif.C19
open NtpVerif.Server NtpVerif.RespSize

/-- A request whose NTS authentication fails is never answered with time: only with an NTS-NAK or — exactly
    when the access lists deny the client with action `deny` — a DENY. -/
theorem auth_failure_nak_or_policy_deny (cfg : Config) (info : Info) (env : Env) (req : Req)
    (hd : req.parse = .dec) {r n s} (h : handle cfg info env req = .respond r n s) :
    (∃ v nts reason, s = [⟨v, nts, reason, .nak⟩]) ∨
    (∃ v nts, s = [⟨v, nts, .policy, .deny⟩] ∧ Listed env ∧ listAction cfg env = .deny) := by
  obtain ⟨a, reason, v, nts, hi, _, hs⟩ := handle_respond h
  obtain ⟨_, hni, a0, r0, c0, hr, hsrc⟩ := handleInner_answer hi
  obtain ⟨_, _, hnts, hk⟩ := respond_answer hr
  rcases hsrc with ⟨hp, _⟩ | ⟨_, hc0, h3 | h3⟩
  · simp [hd] at hp
  · -- NAK: the NTS flag is set, so the require-nts gate leaves it alone
    left
    rcases hk with ⟨h1, _, _⟩ | ⟨_, _, h3', _⟩
    · exact ⟨v, nts, reason, by rw [hs, h1, h3.1]⟩
    · rw [hnts, h3.1] at h3'; simp at h3'
  · right
    have hia := h3.2
    have hl : Listed env := by
      by_cases hdn : env.inDeny = true
      · exact .inl hdn
      · by_cases hal : env.inAllow = true
        · exfalso
          have := intendedAction_pass cfg env (by simpa using hdn) hal
          rw [this] at hia
          rw [h3.1] at hia
          cases hro : env.rateOk <;> simp [hro] at hia
        · exact .inr (by simpa using hal)
    have hla : listAction cfg env = .deny := by
      rw [intendedAction_listed cfg env hl, h3.1] at hia
      cases hx : listAction cfg env
      · rw [hx] at hia; simp [Act.toResp] at hia
      · rfl
    have hr0 : r0 = .policy := by
      rw [intendedAction_listed cfg env hl] at hia
      simpa using (Prod.mk.inj hia).2
    rcases hk with ⟨h1, h2, _⟩ | ⟨h1, h2, _⟩
    · exact ⟨v, nts, by rw [hs, h1, h2, h3.1, hr0], hl, hla⟩
    · exact ⟨v, nts, by rw [hs, h1, h2], hl, hla⟩

/-- A time answer to an authenticated request is serialised under the cookie's server-to-client key and has no
    clear-text extension field of its own: everything it says is inside the authenticated or encrypted part. -/
theorem time_answer_under_s2c_key {info env req alg r}
    (h : build info env req (some alg) .time = .ok r) : r.cipher = true ∧ r.untrusted = [] := by
  simp only [build, ntsTimestampResponse] at h
  repeat' split at h
  all_goals first
    | (simp at h; done)
    | (simp only [Built.ok.injEq] at h; subst h; exact ⟨rfl, rfl⟩)

/-- cookie and placeholder fields of the request that the server looks at: those among the first eight
    authenticated / encrypted fields -/
def slots (req : Req) : List Field := ((req.auth ++ req.enc).take 8).filter isCookieLike

def slotLen : Field → Nat
  | .cookie n => n
  | .placeholder n => n
  | _ => 0

private theorem filterMap_cookieFor_length (alg : Nat) (fs : List Field) :
    (fs.filterMap (cookieFor alg)).length = (fs.filter (fun f => isCookieLike f && decide (freshCookieLen alg ≤ slotLen f))).length := by
  induction fs with
  | nil => rfl
  | cons f rest ih =>
    have hother : cookieFor alg f = none → (isCookieLike f && decide (freshCookieLen alg ≤ slotLen f)) = false →
        ((f :: rest).filterMap (cookieFor alg)).length
          = ((f :: rest).filter (fun f => isCookieLike f && decide (freshCookieLen alg ≤ slotLen f))).length := by
      intro h1 h2
      rw [List.filterMap_cons_none h1,
        List.filter_cons_of_neg (p := fun f => isCookieLike f && decide (freshCookieLen alg ≤ slotLen f)) (by simp [h2]), ih]
    have hslot : ∀ n, (f = .cookie n ∨ f = .placeholder n) →
        ((f :: rest).filterMap (cookieFor alg)).length
          = ((f :: rest).filter (fun f => isCookieLike f && decide (freshCookieLen alg ≤ slotLen f))).length := by
      intro n hf
      by_cases hn : freshCookieLen alg ≤ n
      · have h1 : cookieFor alg f = some (.cookie (freshCookieLen alg)) := by
          rcases hf with hf | hf <;> subst hf <;> simp [cookieFor] <;> omega
        have h2 : (isCookieLike f && decide (freshCookieLen alg ≤ slotLen f)) = true := by
          rcases hf with hf | hf <;> subst hf <;> simp [isCookieLike, slotLen, hn]
        rw [List.filterMap_cons_some h1, List.filter_cons_of_pos (p := fun f => isCookieLike f && decide (freshCookieLen alg ≤ slotLen f)) h2,
          List.length_cons, List.length_cons, ih]
      · apply hother
        · rcases hf with hf | hf <;> subst hf <;> simp [cookieFor] <;> omega
        · rcases hf with hf | hf <;> subst hf <;> simp [isCookieLike, slotLen, hn]
    cases f with
    | cookie n => exact hslot n (.inl rfl)
    | placeholder n => exact hslot n (.inr rfl)
    | _ => exact hother rfl rfl

/-- Fresh cookies: at most eight; at most one per cookie / placeholder of the request — more precisely, no more
    than there are cookie / placeholder fields (among the first eight fields) at least as long as a fresh
    cookie, so each fresh cookie replaces a distinct field that is not smaller; all of one length. -/
theorem fresh_cookie_bounds {info env req alg r} (h : build info env req (some alg) .time = .ok r) :
    r.enc.length ≤ 8 ∧ r.enc.length ≤ (slots req).length ∧
    r.enc.length = ((slots req).filter (fun f => decide (freshCookieLen alg ≤ slotLen f))).length ∧
    ∀ f ∈ r.enc, f = .cookie (freshCookieLen alg) := by
  have henc : r.enc = freshCookies alg req := by
    simp only [build, ntsTimestampResponse] at h
    repeat' split at h
    all_goals first
      | (simp at h; done)
      | (simp only [Built.ok.injEq] at h; subst h; rfl)
  rw [henc]
  have hlen := filterMap_cookieFor_length alg ((req.auth ++ req.enc).take Gen.MAX_COOKIES)
  have hmax : Gen.MAX_COOKIES = 8 := rfl
  have h8 : ((req.auth ++ req.enc).take 8).length ≤ 8 := by simp [List.length_take]; omega
  have hsplit : ((req.auth ++ req.enc).take 8).filter (fun f => isCookieLike f && decide (freshCookieLen alg ≤ slotLen f))
      = (slots req).filter (fun f => decide (freshCookieLen alg ≤ slotLen f)) := by
    simp [slots, List.filter_filter, Bool.and_comm]
  refine ⟨?_, ?_, ?_, ?_⟩
  · unfold freshCookies
    have := List.length_filterMap_le (cookieFor alg) ((req.auth ++ req.enc).take Gen.MAX_COOKIES)
    rw [hmax] at this ⊢; omega
  · unfold freshCookies
    rw [hlen, hmax, hsplit]
    exact List.length_filter_le _ _
  · unfold freshCookies
    rw [hlen, hmax, hsplit]
  · intro f hf
    simp only [freshCookies, List.mem_filterMap] at hf
    obtain ⟨x, _, hx⟩ := hf
    cases x <;> simp [cookieFor] at hx
    all_goals (exact hx.2.symm)

/-- Fresh cookies travel only inside the encrypted part, and only in time answers to authenticated requests:
    no clear-text or authenticated field of any answer is a cookie, and DENY / NAK answers carry none. -/
theorem cookies_only_encrypted {info env req c a r} (h : build info env req c a = .ok r) :
    (∀ f ∈ r.untrusted ++ r.auth, ∀ n, f ≠ .cookie n) ∧ ((a ≠ .time ∨ c = none) → r.enc = []) := by
  constructor
  · intro f hf n hn
    subst hn
    have hu : ∀ fs : List Field, RField.cookie n ∉ fs.filterMap uidOf := by
      intro fs hm
      simp only [List.mem_filterMap] at hm
      obtain ⟨x, _, hx⟩ := hm
      cases x <;> simp [uidOf] at hx
    have he : ∀ fs : List Field, RField.cookie n ∉ fs.filterMap (echoV5 info.bloom) := by
      intro fs hm
      simp only [List.mem_filterMap] at hm
      obtain ⟨x, _, hx⟩ := hm
      cases x <;> simp [echoV5, refResponse] at hx
    have hdt : RField.cookie n ∉ draftTail req := by
      unfold draftTail; split <;> simp
    cases a with
    | ignore => simp [build] at h
    | nak =>
      simp only [build, nakResponse] at h
      split at h
      · simp at h
      · simp only [Built.ok.injEq] at h
        subst h
        simp only [plainKiss, List.append_nil] at hf
        split at hf
        · simp at hf
        · rcases List.mem_append.mp hf with hf | hf
          · exact hu _ hf
          · exact hdt hf
    | deny =>
      cases c with
      | none =>
        simp only [build, Built.ok.injEq] at h
        subst h
        simp only [denyResponse, plainKiss, List.append_nil] at hf
        split at hf
        · simp at hf
        · rcases List.mem_append.mp hf with hf | hf
          · exact hu _ hf
          · exact hdt hf
      | some alg =>
        simp only [build, ntsDenyResponse] at h
        split at h
        · simp at h
        · simp only [Built.ok.injEq] at h
          subst h
          simp only [List.nil_append] at hf
          rcases List.mem_append.mp hf with hf | hf
          · exact hu _ hf
          · exact hdt hf
    | time =>
      cases c with
      | none =>
        simp only [build, timestampResponse] at h
        split at h
        · simp at h
        · simp only [Built.ok.injEq] at h
          subst h
          simp only [List.append_nil] at hf
          split at hf
          · simp at hf
          · split at hf
            · rcases List.mem_append.mp hf with hf | hf
              · exact he _ hf
              · simp at hf
            · exact hu _ hf
      | some alg =>
        simp only [build, ntsTimestampResponse] at h
        split at h
        · simp at h
        · split at h
          · simp at h
          · split at h
            · simp at h
            · simp only [Built.ok.injEq] at h
              subst h
              simp only [List.nil_append] at hf
              split at hf
              · rcases List.mem_append.mp hf with hf | hf
                · exact he _ hf
                · simp at hf
              · exact hu _ hf
  · intro hc
    cases a with
    | ignore => simp [build] at h
    | nak =>
      simp only [build, nakResponse] at h
      split at h
      · simp at h
      · simp only [Built.ok.injEq] at h; subst h; rfl
    | deny =>
      cases c with
      | none => simp only [build, Built.ok.injEq] at h; subst h; rfl
      | some alg =>
        simp only [build, ntsDenyResponse] at h
        split at h
        · simp at h
        · simp only [Built.ok.injEq] at h; subst h; rfl
    | time =>
      rcases hc with hc | hc
      · exact absurd rfl hc
      · subst hc
        simp only [build, timestampResponse] at h
        split at h
        · simp at h
        · simp only [Built.ok.injEq] at h; subst h; rfl

/-! #### non-vacuity: the documented quirk — the first eight fields are taken BEFORE filtering -/

def reqN (fs : List Field) : Req :=
  { len := 1000, fv := 4, parse := .ok, version := 4, client := true, poll := 6, xmit := [1, 2, 3, 4, 5, 6, 7, 8],
    reft := [0, 0, 0, 0, 0, 0, 0, 0], untrusted := [], auth := fs, enc := [], cookie := some 15, encw := 40, mac := 0 }

/-- identifier + cookie + 7 placeholders: 8 cookies asked, 7 given (the identifier occupies one of the 8 slots) -/
example : (freshCookies 15 (reqN ([.uid [1], .cookie 104] ++ List.replicate 7 (.placeholder 104)))).length = 7 := by
  decide
/-- a placeholder shorter than a fresh cookie is not replaced -/
example : freshCookies 15 (reqN [.uid [1], .cookie 104, .placeholder 100, .placeholder 104])
    = [.cookie 104, .cookie 104] := by decide

end NtpVerif.C19

#print axioms NtpVerif.C19.auth_failure_nak_or_policy_deny
#print axioms NtpVerif.C19.time_answer_under_s2c_key
#print axioms NtpVerif.C19.fresh_cookie_bounds
#print axioms NtpVerif.C19.cookies_only_encrypted
