/-
C19 — NTS server answers are authenticated and carry valid fresh cookies.

Models: `NtpVerif.Model.Server` (decision logic, counts and lengths), and — for the cryptographic sentences —
the wire cluster's field codec `NtpVerif.Model.ExtField` with the IDEAL AEAD of `NtpVerif.Model.Cipher`
(an oracle table of the encryptions performed; real AES-SIV is trusted to behave like it and is exercised on every
answered NTS request by the oracle clauses `c19_not_authenticated`, `c19_cookie_keys`) and the key-set model
`NtpVerif.Model.KeySet` of C26.  The server model records of an NTS time answer that it is serialised under the
cookie's s2c key (`cipher`) with `k` fresh cookies of length `freshCookieLen alg` in the encrypted part; the two
theorems below say what that means on the wire.

  sentence of the property                                               theorem
  failed authentication: never time, only NTS-NAK, or DENY if policy
    denies the client                                                    auth_failure_nak_or_policy_deny
  time answer to an authenticated request is under the s2c key, with
    nothing outside the authenticated / encrypted part                   time_answer_under_s2c_key
  … and always carries at least one fresh cookie, hence an encrypted
    field and an authenticator (fix F-C19a)                              time_answer_has_authenticator
  at most one fresh cookie per cookie or placeholder, never more than
    eight, none larger than the field it replaces                        fresh_cookie_bounds
  fresh cookies travel only inside the encrypted part                    cookies_only_encrypted
  the client can authenticate the answer with the cookie's s2c key and
    finds the fresh cookies in the encrypted list                        time_answer_authenticates
  every fresh cookie decodes, under the current keys, to the session
    keys of the request's cookie (and has the modelled length)           fresh_cookies_decode_to_session_keys
-/
import NtpVerif.Proofs.Server
import NtpVerif.Proofs.ServerNts
import NtpVerif.Proofs.ServerWire
import NtpVerif.Proofs.ServerNtsRT

namespace NtpVerif.C19
open NtpVerif.Server NtpVerif.RespSize

/-- A request whose NTS authentication fails is never answered with time: only with an NTS-NAK or — exactly
    when the access lists deny the client with action `deny` — a DENY. -/
theorem auth_failure_nak_or_policy_deny (cfg : Config) (info : Info) (env : Env) (req : Req)
    (hd : req.parse = .dec) {r n s} (h : handle cfg info env req = .respond r n s) :
    (∃ v nts reason, s = [⟨v, nts, reason, .nak⟩]) ∨
    (∃ v nts, s = [⟨v, nts, .policy, .deny⟩] ∧ Listed env ∧ listAction cfg env = .deny) := by
  obtain ⟨a, reason, v, nts, hi, _, hs⟩ := handle_respond h
  obtain ⟨_, hni, a0, r0, c0, hr, hsrc⟩ := handleInner_answer hi
  obtain ⟨_, _, hnts, hk⟩ := respond_answer hr
  rcases hsrc with ⟨hp, _⟩ | ⟨_, hc0, h3 | h3⟩
  · simp [hd] at hp
  · -- NAK: the NTS flag is set, so the require-nts gate leaves it alone
    left
    rcases hk with ⟨h1, _, _⟩ | ⟨_, _, h3', _⟩
    · exact ⟨v, nts, reason, by rw [hs, h1, h3.1]⟩
    · rw [hnts, h3.1] at h3'; simp at h3'
  · right
    have hia := h3.2
    have hl : Listed env := by
      by_cases hdn : env.inDeny = true
      · exact .inl hdn
      · by_cases hal : env.inAllow = true
        · exfalso
          have := intendedAction_pass cfg env (by simpa using hdn) hal
          rw [this] at hia
          rw [h3.1] at hia
          cases hro : env.rateOk <;> simp [hro] at hia
        · exact .inr (by simpa using hal)
    have hla : listAction cfg env = .deny := by
      rw [intendedAction_listed cfg env hl, h3.1] at hia
      cases hx : listAction cfg env
      · rw [hx] at hia; simp [Act.toResp] at hia
      · rfl
    have hr0 : r0 = .policy := by
      rw [intendedAction_listed cfg env hl] at hia
      simpa using (Prod.mk.inj hia).2
    rcases hk with ⟨h1, h2, _⟩ | ⟨h1, h2, _⟩
    · exact ⟨v, nts, by rw [hs, h1, h2, h3.1, hr0], hl, hla⟩
    · exact ⟨v, nts, by rw [hs, h1, h2], hl, hla⟩

/-- A time answer to an authenticated request is serialised under the cookie's server-to-client key and has no
    clear-text extension field of its own: everything it says is inside the authenticated or encrypted part. -/
theorem time_answer_under_s2c_key {info env req alg r}
    (h : build info env req (some alg) .time = .ok r) : r.cipher = true ∧ r.untrusted = [] := by
  simp only [build, ntsTimestampResponse] at h
  repeat' split at h
  all_goals first
    | (simp at h; done)
    | (simp only [Built.ok.injEq] at h; subst h; exact ⟨rfl, rfl⟩)

/-- the serialiser writes the NTS authenticator (the encrypted field) only when the answer has an authenticated
    or an encrypted field (`ExtensionFieldData::serialize`) -/
def HasAuthenticator (r : Response) : Prop := ¬ (r.auth = [] ∧ r.enc = [])

/-- the request holds the cookie it authenticated with among its authenticated fields, and that field is at least
    as long as a fresh cookie for the same algorithm and keys (a fact about the parser's cipher provider and the
    AEAD's length preservation; oracle clause `c19_cookie_present` checks it on every authenticated request) -/
def CookiePresent (req : Req) (alg : Nat) : Prop :=
  ∃ n, freshCookieLen alg ≤ n ∧ Field.cookie n ∈ req.auth

/-- **Every time answer to an authenticated request carries at least one fresh cookie** in its encrypted list —
    hence an encrypted field and an NTS authenticator (fix F-C19a: the eight-cookie limit is applied to the
    cookies produced, so the request's own cookie always yields one, wherever it sits).  Together with
    `time_answer_authenticates` this is the sentence "every time answer to an authenticated request can be
    authenticated by the client with the cookie's server-to-client key". -/
theorem time_answer_has_authenticator {info env req alg r}
    (h : build info env req (some alg) .time = .ok r) (hc : CookiePresent req alg) :
    r.enc ≠ [] ∧ HasAuthenticator r := by
  have henc : r.enc = freshCookies alg req := by
    simp only [build, ntsTimestampResponse] at h
    repeat' split at h
    all_goals first
      | (simp at h; done)
      | (simp only [Built.ok.injEq] at h; subst h; rfl)
  have hne : r.enc ≠ [] := by
    rw [henc]
    obtain ⟨n, hn, hm⟩ := hc
    have hmem : RField.cookie (freshCookieLen alg) ∈ (req.auth ++ req.enc).filterMap (cookieFor alg) := by
      simp only [List.mem_filterMap]
      exact ⟨.cookie n, by simp [hm], by simp [cookieFor]; omega⟩
    unfold freshCookies
    intro hnil
    have hlen : ((req.auth ++ req.enc).filterMap (cookieFor alg)).length ≠ 0 := by
      intro h0
      rw [List.length_eq_zero_iff] at h0
      rw [h0] at hmem; simp at hmem
    have : (List.take Gen.MAX_COOKIES ((req.auth ++ req.enc).filterMap (cookieFor alg))).length = 0 := by
      rw [hnil]; rfl
    rw [List.length_take] at this
    have h8 : Gen.MAX_COOKIES = 8 := rfl
    omega
  exact ⟨hne, fun ⟨_, he⟩ => hne he⟩

/-- `CookiePresent` is a theorem about the parser model: for every datagram, decryption table whose entries carry
    a 16-octet tag (`TagLen`: AES-SIV) and key set, the request record derived from `Packet.parse` holds, among
    its authenticated fields, a cookie field at least as long as a fresh cookie whenever it reports a cookie. -/
theorem cookiePresent_reqOf (T : Wire.Table) (hT : ServerParse.TagLen T) (ks : Wire.KeySet) (data : List UInt8)
    (fv encw alg : Nat) (h : (reqOf T.decrypt ks data fv encw).cookie = some alg) :
    CookiePresent (reqOf T.decrypt ks data fv encw) alg := by
  unfold reqOf at h ⊢
  cases hp : Wire.parse T.decrypt (.keyset ks) data with
  | ok p cookie =>
    simp only [hp] at h ⊢
    have hr : Wire.parseR T.decrypt (.keyset ks) data = .ok (p, cookie, true) := by
      unfold Wire.parse at hp
      split at hp <;> first | (cases hp; done) | (cases hp; assumption)
    cases cookie with
    | none => simp [reqOfPacket] at h
    | some c =>
      have halg : c.alg = alg := by simpa [reqOfPacket] using h
      obtain ⟨b, hb, hd⟩ := ServerParse.parseR_cookie hr
      have hl := ServerParse.decodeCookie_length hT hd
      refine ⟨b.length, by rw [← halg]; exact hl, ?_⟩
      simp only [reqOfPacket, List.mem_map]
      exact ⟨.cookie b, hb, rfl⟩
  | decryptErr p => simp [hp, reqOfPacket] at h
  | err e => simp [hp, reqNone] at h
  | panic => simp [hp, reqNone] at h
  | fuel => simp [hp, reqNone] at h

/-- **Byte-level form.**  For every datagram, key set and tag-length-respecting decryption table: if the server
    answers the request derived from the bytes with a time answer flagged NTS, the answer carries at least one
    fresh cookie — hence an encrypted field and an authenticator.  No hypothesis about the request remains. -/
theorem time_answer_has_authenticator_wire (cfg : Config) (info : Info) (env : Env) (T : Wire.Table)
    (hT : ServerParse.TagLen T) (ks : Wire.KeySet) (data : List UInt8) (fv encw : Nat) {r n v reason}
    (h : handle cfg info env (reqOf T.decrypt ks data fv encw) = .respond r n [⟨v, true, reason, .time⟩]) :
    r.enc ≠ [] ∧ HasAuthenticator r := by
  obtain ⟨a, reason', nts, c, hs, hb, _, _, _, hc, hnts⟩ := handle_respond_full h
  simp only [List.cons.injEq, Stat.mk.injEq, and_true] at hs
  obtain ⟨_, hn, _, ha⟩ := hs
  subst hn ha
  have hsome : c.isSome = true := by
    rcases hnts.mp rfl with h1 | h1
    · exact h1
    · cases h1
  cases c with
  | none => simp at hsome
  | some alg =>
    have hck : (reqOf T.decrypt ks data fv encw).cookie = some alg := by
      rcases hc with ⟨_, h2⟩ | ⟨_, h2⟩
      · exact h2.symm
      · cases h2
    exact time_answer_has_authenticator hb (cookiePresent_reqOf T hT ks data fv encw alg hck)

/-- cookie and placeholder fields of the request (all of them are looked at; the first eight long enough ones
    are replaced) -/
def slots (req : Req) : List Field := (req.auth ++ req.enc).filter isCookieLike

def slotLen : Field → Nat
  | .cookie n => n
  | .placeholder n => n
  | _ => 0

private theorem filterMap_cookieFor_length (alg : Nat) (fs : List Field) :
    (fs.filterMap (cookieFor alg)).length = (fs.filter (fun f => isCookieLike f && decide (freshCookieLen alg ≤ slotLen f))).length := by
  induction fs with
  | nil => rfl
  | cons f rest ih =>
    have hother : cookieFor alg f = none → (isCookieLike f && decide (freshCookieLen alg ≤ slotLen f)) = false →
        ((f :: rest).filterMap (cookieFor alg)).length
          = ((f :: rest).filter (fun f => isCookieLike f && decide (freshCookieLen alg ≤ slotLen f))).length := by
      intro h1 h2
      rw [List.filterMap_cons_none h1,
        List.filter_cons_of_neg (p := fun f => isCookieLike f && decide (freshCookieLen alg ≤ slotLen f)) (by simp [h2]), ih]
    have hslot : ∀ n, (f = .cookie n ∨ f = .placeholder n) →
        ((f :: rest).filterMap (cookieFor alg)).length
          = ((f :: rest).filter (fun f => isCookieLike f && decide (freshCookieLen alg ≤ slotLen f))).length := by
      intro n hf
      by_cases hn : freshCookieLen alg ≤ n
      · have h1 : cookieFor alg f = some (.cookie (freshCookieLen alg)) := by
          rcases hf with hf | hf <;> subst hf <;> simp [cookieFor] <;> omega
        have h2 : (isCookieLike f && decide (freshCookieLen alg ≤ slotLen f)) = true := by
          rcases hf with hf | hf <;> subst hf <;> simp [isCookieLike, slotLen, hn]
        rw [List.filterMap_cons_some h1, List.filter_cons_of_pos (p := fun f => isCookieLike f && decide (freshCookieLen alg ≤ slotLen f)) h2,
          List.length_cons, List.length_cons, ih]
      · apply hother
        · rcases hf with hf | hf <;> subst hf <;> simp [cookieFor] <;> omega
        · rcases hf with hf | hf <;> subst hf <;> simp [isCookieLike, slotLen, hn]
    cases f with
    | cookie n => exact hslot n (.inl rfl)
    | placeholder n => exact hslot n (.inr rfl)
    | _ => exact hother rfl rfl

/-- Fresh cookies: at most eight; at most one per cookie / placeholder of the request — exactly one for each
    of the first eight cookie / placeholder fields that are at least as long as a fresh cookie, so each fresh
    cookie replaces a distinct field that is not smaller; all of one length. -/
theorem fresh_cookie_bounds {info env req alg r} (h : build info env req (some alg) .time = .ok r) :
    r.enc.length ≤ 8 ∧ r.enc.length ≤ (slots req).length ∧
    r.enc.length = min 8 ((slots req).filter (fun f => decide (freshCookieLen alg ≤ slotLen f))).length ∧
    ∀ f ∈ r.enc, f = .cookie (freshCookieLen alg) := by
  have henc : r.enc = freshCookies alg req := by
    simp only [build, ntsTimestampResponse] at h
    repeat' split at h
    all_goals first
      | (simp at h; done)
      | (simp only [Built.ok.injEq] at h; subst h; rfl)
  rw [henc]
  have hlen := filterMap_cookieFor_length alg (req.auth ++ req.enc)
  have hmax : Gen.MAX_COOKIES = 8 := rfl
  have hsplit : (req.auth ++ req.enc).filter (fun f => isCookieLike f && decide (freshCookieLen alg ≤ slotLen f))
      = (slots req).filter (fun f => decide (freshCookieLen alg ≤ slotLen f)) := by
    simp [slots, List.filter_filter, Bool.and_comm]
  have hle := List.length_filter_le (fun f => decide (freshCookieLen alg ≤ slotLen f)) (slots req)
  have hl : (freshCookies alg req).length
      = min 8 ((slots req).filter (fun f => decide (freshCookieLen alg ≤ slotLen f))).length := by
    unfold freshCookies
    rw [List.length_take, hlen, hmax, hsplit]
  refine ⟨by omega, by omega, hl, fun f hf => mem_freshCookies hf⟩

/-- Fresh cookies travel only inside the encrypted part, and only in time answers to authenticated requests:
    no clear-text or authenticated field of any answer is a cookie, and DENY / NAK answers carry none. -/
theorem cookies_only_encrypted {info env req c a r} (h : build info env req c a = .ok r) :
    (∀ f ∈ r.untrusted ++ r.auth, ∀ n, f ≠ .cookie n) ∧ ((a ≠ .time ∨ c = none) → r.enc = []) := by
  constructor
  · intro f hf n hn
    subst hn
    have hu : ∀ fs : List Field, RField.cookie n ∉ fs.filterMap uidOf := by
      intro fs hm
      simp only [List.mem_filterMap] at hm
      obtain ⟨x, _, hx⟩ := hm
      cases x <;> simp [uidOf] at hx
    have he : ∀ fs : List Field, RField.cookie n ∉ fs.filterMap (echoV5 info.bloom) := by
      intro fs hm
      simp only [List.mem_filterMap] at hm
      obtain ⟨x, _, hx⟩ := hm
      cases x <;> simp [echoV5, refResponse] at hx
    have hdt : RField.cookie n ∉ draftTail req := by
      unfold draftTail; split <;> simp
    cases a with
    | ignore => simp [build] at h
    | nak =>
      simp only [build, nakResponse] at h
      split at h
      · simp at h
      · simp only [Built.ok.injEq] at h
        subst h
        simp only [plainKiss, List.append_nil] at hf
        split at hf
        · simp at hf
        · rcases List.mem_append.mp hf with hf | hf
          · exact hu _ hf
          · exact hdt hf
    | deny =>
      cases c with
      | none =>
        simp only [build, Built.ok.injEq] at h
        subst h
        simp only [denyResponse, plainKiss, List.append_nil] at hf
        split at hf
        · simp at hf
        · rcases List.mem_append.mp hf with hf | hf
          · exact hu _ hf
          · exact hdt hf
      | some alg =>
        simp only [build, ntsDenyResponse] at h
        split at h
        · simp at h
        · simp only [Built.ok.injEq] at h
          subst h
          simp only [List.nil_append] at hf
          rcases List.mem_append.mp hf with hf | hf
          · exact hu _ hf
          · exact hdt hf
    | time =>
      cases c with
      | none =>
        simp only [build, timestampResponse] at h
        split at h
        · simp at h
        · simp only [Built.ok.injEq] at h
          subst h
          simp only [List.append_nil] at hf
          split at hf
          · simp at hf
          · split at hf
            · rcases List.mem_append.mp hf with hf | hf
              · exact he _ hf
              · simp at hf
            · exact hu _ hf
      | some alg =>
        simp only [build, ntsTimestampResponse] at h
        split at h
        · simp at h
        · split at h
          · simp at h
          · split at h
            · simp at h
            · simp only [Built.ok.injEq] at h
              subst h
              simp only [List.nil_append] at hf
              split at hf
              · rcases List.mem_append.mp hf with hf | hf
                · exact he _ hf
                · simp at hf
              · exact hu _ hf
  · intro hc
    cases a with
    | ignore => simp [build] at h
    | nak =>
      simp only [build, nakResponse] at h
      split at h
      · simp at h
      · simp only [Built.ok.injEq] at h; subst h; rfl
    | deny =>
      cases c with
      | none => simp only [build, Built.ok.injEq] at h; subst h; rfl
      | some alg =>
        simp only [build, ntsDenyResponse] at h
        split at h
        · simp at h
        · simp only [Built.ok.injEq] at h; subst h; rfl
    | time =>
      rcases hc with hc | hc
      · exact absurd rfl hc
      · subst hc
        simp only [build, timestampResponse] at h
        split at h
        · simp at h
        · simp only [Built.ok.injEq] at h; subst h; rfl

/-! #### the cryptographic sentences, relative to the ideal AEAD -/

section crypto
open NtpVerif.Wire

/-- **time_answer_authenticates.**  The server serialises the extension fields of an NTS time answer — echoed
    fields `auth`, fresh cookies `cs` in the encrypted part, nothing in clear — with `EFData.serialize` under the
    request cookie's server-to-client key; the cipher produced `nonce` (16 octets) and `ct`, i.e. the AEAD table
    gains the entry (`s2c`, `nonce`, associated data = everything of the answer before the encrypted field,
    `ct` ↦ plaintext).  Then:
    * the plaintext that was sealed is exactly the serialisation of the cookie fields, and the encrypted field
      follows the authenticated fields;
    * a client holding `s2c` that has walked the answer `hdr ++ bytes ++ tail` up to the encrypted field
      decrypts it successfully — the answer's own prefix is the associated data — and obtains exactly the
      fresh cookies in its encrypted list, the fields before it becoming authenticated. -/
theorem time_answer_authenticates (t : Table) (ver : Ver) (hdr tail : List UInt8) (auth : List EF) (cs : List (List UInt8))
    (s2c nonce ct : (List UInt8)) (hcs : ∀ b ∈ cs, CookieOk b) (hn : nonce.length = 16) (hc : ct.length ≤ 65535)
    {bytes pt : (List UInt8)}
    (hser : EFData.serialize { authenticated := auth, encrypted := cs.map .cookie, untrusted := [] } ver
              (some (nonce, ct)) = .ok (bytes, some pt)) :
    ∃ authBytes, serializeFields 16 ver auth = .ok authBytes ∧
      pt = (cs.map cookieField).flatten ∧
      bytes = authBytes ++ (toBE 2 tyEncrypted ++ toBE 2 (8 + nm4 nonce.length + nm4 ct.length) ++ encMsg nonce ct) ∧
      ∀ (st : EFState) (wl : Nat),
        efStep (Table.decrypt (sealEntry s2c nonce (hdr ++ authBytes) ct pt :: t)) (.key s2c)
            (hdr ++ bytes ++ tail) hdr.length ver st authBytes.length tyEncrypted (encMsg nonce ct) wl
          = .ok { ef := { authenticated := st.ef.authenticated ++ st.ef.untrusted,
                          encrypted := st.ef.encrypted ++ cs.map .cookie, untrusted := [] },
                  size := authBytes.length + wl, valid := st.valid, cookie := none } := by
  have hpt := serializeFields_cookies ver cs hcs
  unfold EFData.serialize at hser
  simp only [bind, Except.bind, pure, Except.pure] at hser
  cases hA : serializeFields 16 ver auth with
  | error e =>
    exfalso
    split at hser
    · simp only [hA] at hser; cases hser
    · rename_i hne
      simp only [ne_eq, List.map_eq_nil_iff, not_or, Decidable.not_not] at hne
      -- both lists empty: then `auth = []` serialises to `[]`
      rw [hne.1] at hA; simp [serializeFields] at hA
  | ok authBytes =>
    refine ⟨authBytes, rfl, ?_⟩
    by_cases hne : auth ≠ [] ∨ cs.map EF.cookie ≠ []
    · rw [if_pos hne] at hser
      simp only [hA] at hser
      cases hE : encodeEncrypted (List.map EF.cookie cs) ver nonce ct with
      | error e => simp [hE] at hser
      | ok v =>
        simp only [hE, serializeUntrusted, Except.ok.injEq, Prod.mk.injEq, Option.some.injEq,
          List.append_nil] at hser
        obtain ⟨hb, hp⟩ := hser
        unfold encodeEncrypted at hE
        simp only [hpt, bind, Except.bind, pure, Except.pure] at hE
        split at hE
        · cases hE
        · simp only [Except.ok.injEq] at hE
          subst hE
          simp only at hb hp
          subst hp
          refine ⟨rfl, ?_, ?_⟩
          · rw [← hb]; simp [encMsg, List.append_assoc]
          · intro st wl
            apply client_step_recovers_cookies t s2c nonce ct (hdr ++ authBytes) _ ver cs hdr.length
              authBytes.length wl st hcs hn hc
            unfold slice?
            rw [if_pos (by simp [← hb])]
            rw [← hb]
            simp only [List.append_assoc, List.drop_zero, Nat.sub_zero, Option.some.injEq]
            rw [← List.append_assoc hdr authBytes, show hdr.length + authBytes.length = (hdr ++ authBytes).length by simp]
            exact List.take_left
    · rw [if_neg hne] at hser
      simp only [serializeUntrusted, Except.ok.injEq, Prod.mk.injEq] at hser
      cases hser.2

/-- **nts_answer_roundtrips_at_client** (NTPv4; the whole datagram).  The server's NTS time answer — header `h`,
    echoed identifiers `auth`, fresh cookies `cs` in the encrypted list, nothing in clear, no MAC — serialised
    with the wire model's `Packet.serialize` under the request cookie's s2c key (sealing recorded in the ideal-AEAD
    table) is parsed by the client's `NtpPacket::deserialize` with that key SUCCESSFULLY: same header, the
    authenticated list is what the echoed fields read back as (it re-encodes to the same bytes), the encrypted
    list is exactly the fresh cookies, nothing untrusted.  This is the sentence "every time answer to an
    authenticated request can be authenticated by the client with the cookie's server-to-client key"; together
    with `time_answer_has_authenticator` (there is such an authenticator) and
    `fresh_cookies_decode_to_session_keys`.  See `Wire.nts_answer_roundtrips_v4` for the three hypotheses about
    the 48 header octets (forward round trip of the NTPv3/4 header codec, not proved by the wire cluster). -/
theorem nts_answer_roundtrips_at_client (T : Table) (s2c nonce ct : List UInt8) (h : HeaderV34) (auth : List EF)
    (cs : List (List UInt8)) (hfw : ∀ f ∈ auth, f.FWF .v4) (hcs : ∀ b ∈ cs, CookieOk b) (hn : nonce.length = 16)
    (hc4 : ct.length % 4 = 0) (hcl : ct.length ≤ 65000) (hc16 : 16 ≤ ct.length)
    {hb bytes pt : List UInt8} (hhb : h.serialize 4 = .ok hb) (hlen : hb.length = 48)
    (hver : ∃ b0 t, hb = b0 :: t ∧ (b0.toNat / 8) % 8 = 4) (hdec : HeaderV34.deserialize hb = .ok (h, 48))
    (hser : Packet.serialize { header := .v4 h,
                               ef := { authenticated := auth, encrypted := cs.map .cookie, untrusted := [] },
                               mac := none } (some (nonce, ct)) none = .ok (bytes, some pt)) :
    ∃ afrs : List Frame, serializeFields 16 .v4 auth = .ok (flat afrs) ∧
      serializeFields 16 .v4 (afrs.map (·.f)) = .ok (flat afrs) ∧
      pt = (cs.map cookieField).flatten ∧ bytes = hb ++ (flat afrs ++ encFieldBytes nonce ct) ∧
      parse (Table.decrypt (sealEntry s2c nonce (hb ++ flat afrs) ct pt :: T)) (.key s2c) bytes
        = .ok { header := .v4 h,
                ef := { authenticated := afrs.map (·.f), encrypted := cs.map .cookie, untrusted := [] },
                mac := none } none :=
  nts_answer_roundtrips_v4 T s2c nonce ct h auth cs hfw hcs hn hc4 hcl hc16 hhb hlen hver hdec hser

end crypto

section cookies
open NtpVerif.KeySet
variable {κ : Type} [DecidableEq κ]

/-- **fresh_cookies_decode_to_session_keys.**  A fresh cookie is `KeySet::encode_cookie` of the request cookie's
    algorithm and session keys `c` under the primary key (`nonce`, `ct`: what the cipher produced; `e`: the table
    entry of that encryption).  Under the server's current key set, with any table of distinct-nonce encryptions
    containing that entry, it decodes to exactly `c` — the same algorithm, s2c and c2s keys — and its length is
    the one the server model books for it (`freshCookieLen`: 104 octets for AES-SIV-CMAC-256, 168 for -512). -/
theorem fresh_cookies_decode_to_session_keys (t : Table κ) (hf : Fresh t) (ks : KeySet κ)
    (hp : ks.primary < 4294967296) (ho : ks.idOffset < 4294967296) (c : Cookie) (hwf : c.WF)
    (nonce ct b : (List UInt8)) (e : Enc κ) (henc : encode ks c nonce ct = some (b, e)) (he : e ∈ t) :
    decode t ks b = some c ∧ b.length = Server.freshCookieLen c.alg := by
  obtain ⟨k, hk, hn, hct, hb, hee⟩ := encode_some henc
  subst hee
  constructor
  · rw [hb]
    refine decode_issued (ks := ks) ⟨k, nonce, ct, c.plaintext⟩ c hwf _ hn hct rfl ?_ (decrypt_fresh_mem hf he)
    have : ((ks.primary + ks.idOffset) % M32 % M32 + M32 - ks.idOffset % M32) % M32 = ks.primary := by
      simp only [M32] at *; omega
    rw [this]; exact hk
  · rw [hb]
    have hpl := plaintext_length c
    simp only [mkCookie, List.length_append, be32_length, be16_length, hn, hct, hpl, Server.freshCookieLen]
    rcases hwf with ⟨h1, h2, h3⟩ | ⟨h1, h2, h3⟩ <;> simp [h1, h2, h3]

omit [DecidableEq κ] in
/-- cookie generation fails (a panic in `encode_cookie`) exactly when the primary index is out of range — the
    server model's `keysOk` — provided the cipher returns a 16-octet nonce and a 16-octet tag -/
theorem encode_panics_iff (ks : KeySet κ) (c : Cookie) (nonce ct : (List UInt8)) (hn : nonce.length = 16)
    (hct : ct.length = c.plaintext.length + 16) :
    encode ks c nonce ct = none ↔ ¬ ks.primary < ks.keys.length := by
  unfold encode
  cases hk : ks.keys[ks.primary]? with
  | none =>
    simp only [true_iff]
    intro hlt
    rw [List.getElem?_eq_getElem hlt] at hk; cases hk
  | some k =>
    have hlt : ks.primary < ks.keys.length := by
      apply Decidable.byContradiction; intro hnl
      rw [List.getElem?_eq_none (by omega)] at hk; cases hk
    simp [hn, hct, hlt]

end cookies

/-! #### non-vacuity: with fix F-C19a the limit of eight applies to the cookies produced -/

def reqN (fs : List Field) : Req :=
  { len := 1000, fv := 4, parse := .ok, version := 4, client := true, poll := 6, xmit := [1, 2, 3, 4, 5, 6, 7, 8],
    reft := [0, 0, 0, 0, 0, 0, 0, 0], untrusted := [], auth := fs, enc := [], cookie := some 15, encw := 40, mac := 0 }

/-- identifier + cookie + 7 placeholders: 8 cookies asked, 8 given (before the fix: 7) -/
example : (freshCookies 15 (reqN ([.uid [1], .cookie 104] ++ List.replicate 7 (.placeholder 104)))).length = 8 := by
  decide
/-- never more than eight -/
example : (freshCookies 15 (reqN ([.cookie 104] ++ List.replicate 11 (.placeholder 104)))).length = 8 := by decide
/-- a placeholder shorter than a fresh cookie is not replaced -/
example : freshCookies 15 (reqN [.uid [1], .cookie 104, .placeholder 100, .placeholder 104])
    = [.cookie 104, .cookie 104] := by decide
/-- the witness of F-C19a: no identifier, cookie as ninth authenticated field — now one fresh cookie -/
example : freshCookies 15 (reqN (List.replicate 8 (.unknown 0x4242 4) ++ [.cookie 104])) = [.cookie 104] ∧
    CookiePresent (reqN (List.replicate 8 (.unknown 0x4242 4) ++ [.cookie 104])) 15 := by
  refine ⟨by decide, 104, by decide, by decide⟩

end NtpVerif.C19


#print axioms NtpVerif.C19.auth_failure_nak_or_policy_deny
#print axioms NtpVerif.C19.time_answer_under_s2c_key
#print axioms NtpVerif.C19.fresh_cookie_bounds
#print axioms NtpVerif.C19.cookies_only_encrypted
#print axioms NtpVerif.C19.time_answer_has_authenticator
#print axioms NtpVerif.C19.cookiePresent_reqOf
#print axioms NtpVerif.C19.time_answer_has_authenticator_wire
#print axioms NtpVerif.C19.time_answer_authenticates
#print axioms NtpVerif.C19.nts_answer_roundtrips_at_client
#print axioms NtpVerif.C19.fresh_cookies_decode_to_session_keys
