/-
C13 — NTS cookies are used once, oldest first, and never hoarded.

Property theorems only (helper lemmas live in `NtpVerif.Proofs.CookieStash`).
Model: `NtpVerif.Model.CookieStash` (ring buffer of `cookiestash.rs`, cookie-count formula of
`NtpSource::handle_timer`).  All theorems quantify over *every* operation list from the empty stash.
-/
import NtpVerif.Proofs.CookieStash
import NtpVerif.Proofs.SourceSM

namespace NtpVerif.C13
open NtpVerif.CookieStash

/-- operations a source performs on its stash -/
inductive Op where
  | store (c : Cookie)   -- a cookie arrived in an authenticated response
  | get                  -- `CookieStash::get`
  | timer                -- NTS branch of `handle_timer`
deriving Repr

inductive Obs where
  | unit
  | got (o : Out)
  | timer (o : TimerOut)
deriving Repr, DecidableEq

def step (s : Stash) : Op → Stash × Obs
  | .store c => (store s c, .unit)
  | .get => let (s', o) := get s; (s', .got o)
  | .timer => let (s', o) := timerCookies s; (s', .timer o)

def run (s : Stash) : List Op → Stash × List Obs
  | [] => (s, [])
  | op :: ops =>
    let (s', o) := step s op
    let (s'', os) := run s' ops
    (s'', o :: os)

/-! #### abstract specification -/

def specTimer (q : Spec.Queue) : Spec.Queue × TimerOut :=
  match q with
  | [] => ([], .reset)
  | c :: q' =>
    let n := newCookies (8 - q'.length) c.length
    if n = 0 then (q', .reset) else (q', .send c n)

def specStep (q : Spec.Queue) : Op → Spec.Queue × Obs
  | .store c => (Spec.store q c, .unit)
  | .get => (q.tail, .got (match q.head? with | none => .none | some c => .some c))
  | .timer => let (q', o) := specTimer q; (q', .timer o)

def specRun (q : Spec.Queue) : List Op → Spec.Queue × List Obs
  | [] => (q, [])
  | op :: ops =>
    let (q', o) := specStep q op
    let (q'', os) := specRun q' ops
    (q'', o :: os)

/-- cookies handed in, in order -/
def stored : List Op → List Cookie
  | [] => []
  | .store c :: ops => c :: stored ops
  | _ :: ops => stored ops

/-- cookies that left the stash (returned by `get`, or consumed by a timer), in order -/
def released : List Obs → List Cookie
  | [] => []
  | .got (.some c) :: os => c :: released os
  | .timer (.send c _) :: os => c :: released os
  | _ :: os => released os

/-- cookies actually put into requests -/
def sent : List Obs → List Cookie
  | [] => []
  | .timer (.send c _) :: os => c :: sent os
  | _ :: os => sent os

/-! #### one-step refinement -/

theorem step_refines (s : Stash) (op : Op) (h : WF s) :
    WF (step s op).1 ∧ abs (step s op).1 = (specStep (abs s) op).1 ∧
      (step s op).2 = (specStep (abs s) op).2 := by
  cases op with
  | store c => exact ⟨wf_store s c h, abs_store s c h, rfl⟩
  | get =>
    have := abs_get s h
    refine ⟨wf_get s h, this.1, ?_⟩
    simp only [step, specStep]
    rw [this.2]; rfl
  | timer =>
    have hg := abs_get s h
    have hw := wf_get s h
    have hgap := gap_eq (get s).1 hw
    simp only [step, specStep, timerCookies, specTimer]
    rcases hq : abs s with _ | ⟨c, q'⟩
    · rw [hq] at hg
      simp only [Spec.get, List.tail_nil, List.head?_nil] at hg
      rcases hgs : get s with ⟨s', o⟩
      rw [hgs] at hg hw
      simp only at hg
      obtain ⟨h1, rfl⟩ := hg
      exact ⟨hw, h1, rfl⟩
    · rw [hq] at hg
      simp only [Spec.get, List.tail_cons, List.head?_cons] at hg
      rcases hgs : get s with ⟨s', o⟩
      rw [hgs] at hg hw hgap
      simp only at hg hgap
      obtain ⟨h1, rfl⟩ := hg
      simp only [hgap, Spec.gap, Spec.cap, h1]
      split <;> exact ⟨hw, h1, rfl⟩

/-- **C13.stash_refines_queue** — for every operation list, the ring buffer started empty behaves
    exactly like the bounded FIFO queue: same observations, abstraction commutes, invariant kept. -/
theorem stash_refines_queue (ops : List Op) (s : Stash) (h : WF s) :
    WF (run s ops).1 ∧ abs (run s ops).1 = (specRun (abs s) ops).1 ∧
      (run s ops).2 = (specRun (abs s) ops).2 := by
  induction ops generalizing s with
  | nil => exact ⟨h, rfl, rfl⟩
  | cons op ops ih =>
    obtain ⟨h1, h2, h3⟩ := step_refines s op h
    obtain ⟨i1, i2, i3⟩ := ih (step s op).1 h1
    simp only [run, specRun]
    rw [← h2, ← h3]
    exact ⟨i1, i2, by rw [i3]⟩

/-- the ring buffer never hits an out-of-bounds index (`get`/timer never observe `panic`) -/
theorem never_panics (ops : List Op) :
    ∀ o ∈ (run init ops).2, o ≠ .got .panic ∧ o ≠ .timer .panic := by
  have := (stash_refines_queue ops init wf_init).2.2
  rw [this]
  clear this
  generalize abs init = q
  induction ops generalizing q with
  | nil => intro o ho; cases ho
  | cons op ops ih =>
    intro o ho
    simp only [specRun, List.mem_cons] at ho
    rcases ho with rfl | ho
    · cases op with
      | store c => exact ⟨by simp [specStep], by simp [specStep]⟩
      | get =>
        simp only [specStep]
        cases q.head? <;> simp
      | timer =>
        simp only [specStep, specTimer]
        cases q with
        | nil => simp
        | cons c q' => simp only; split <;> simp
    · exact ih _ o ho

/-! #### history properties of the queue, transported to the ring buffer -/

/-- Invariant of the abstract queue over a history: the queue is the tail end of what was stored, it
    never holds more than eight, and everything released so far comes — in order, each position at
    most once — from the part of the history before the queue. -/
theorem spec_history (ops : List Op) (q pre : List Cookie) (rel : List Cookie)
    (hq : q.length ≤ 8) (hrel : rel.Sublist pre) :
    ∃ pre', pre ++ q ++ stored ops = pre' ++ (specRun q ops).1 ∧
      (specRun q ops).1.length ≤ 8 ∧
      (rel ++ released (specRun q ops).2).Sublist pre' := by
  induction ops generalizing q pre rel with
  | nil => exact ⟨pre, by simp [stored, specRun], hq, by simpa [specRun, released] using hrel⟩
  | cons op ops ih =>
    cases op with
    | store c =>
      simp only [specRun, specStep, stored, released, Spec.store]
      by_cases hfull : (q ++ [c]).length > Spec.cap
      · -- queue full: the oldest is dropped
        simp only [hfull, if_true]
        cases q with
        | nil => simp [Spec.cap] at hfull
        | cons d q' =>
          simp only [List.cons_append, List.tail_cons]
          have hlen : (q' ++ [c]).length ≤ 8 := by
            simp only [List.length_append, List.length_cons, List.length_nil] at hq ⊢; omega
          obtain ⟨pre', e, l, sub⟩ := ih (q' ++ [c]) (pre ++ [d]) rel hlen
            (hrel.trans (List.sublist_append_left pre [d]))
          exact ⟨pre', by simpa [List.append_assoc] using e, l, sub⟩
      · simp only [hfull, if_false]
        have hlen : (q ++ [c]).length ≤ 8 := by
          simp only [Spec.cap] at hfull; omega
        obtain ⟨pre', e, l, sub⟩ := ih (q ++ [c]) pre rel hlen hrel
        exact ⟨pre', by simpa [List.append_assoc] using e, l, sub⟩
    | get =>
      simp only [specRun, specStep, stored]
      cases q with
      | nil =>
        simp only [List.tail_nil, List.head?_nil, released]
        exact ih [] pre rel hq hrel
      | cons d q' =>
        simp only [List.tail_cons, List.head?_cons, released]
        have hlen : q'.length ≤ 8 := by simp only [List.length_cons] at hq; omega
        obtain ⟨pre', e, l, sub⟩ := ih q' (pre ++ [d]) (rel ++ [d]) hlen
          (List.Sublist.append hrel (List.Sublist.refl [d]))
        exact ⟨pre', by simpa [List.append_assoc] using e, l, by simpa [List.append_assoc] using sub⟩
    | timer =>
      simp only [specRun, specStep, stored]
      cases q with
      | nil =>
        simp only [specTimer, released]
        exact ih [] pre rel hq hrel
      | cons d q' =>
        have hlen : q'.length ≤ 8 := by simp only [List.length_cons] at hq; omega
        simp only [specTimer]
        split
        · -- the cookie is consumed but the source resets; nothing is sent
          simp only [released]
          obtain ⟨pre', e, l, sub⟩ := ih q' (pre ++ [d]) rel hlen
            (hrel.trans (List.sublist_append_left pre [d]))
          exact ⟨pre', by simpa [List.append_assoc] using e, l, sub⟩
        · simp only [released]
          obtain ⟨pre', e, l, sub⟩ := ih q' (pre ++ [d]) (rel ++ [d]) hlen
            (List.Sublist.append hrel (List.Sublist.refl [d]))
          exact ⟨pre', by simpa [List.append_assoc] using e, l, by simpa [List.append_assoc] using sub⟩

/-- **C13.used_once_in_order** — over every operation list from the empty stash, the cookies that leave
    the stash (in the order they leave) form a sub-list of the cookies stored (in the order stored):
    each stored cookie leaves at most once and never out of arrival order. -/
theorem used_once_in_order (ops : List Op) :
    (released (run init ops).2).Sublist (stored ops) := by
  obtain ⟨_, _, hobs⟩ := stash_refines_queue ops init wf_init
  rw [hobs, abs_init]
  obtain ⟨pre', e, _, sub⟩ := spec_history ops [] [] [] (by simp) (List.Sublist.refl _)
  simp only [List.nil_append] at e sub
  exact sub.trans (by rw [e]; exact List.sublist_append_left _ _)

/-- the cookies put into requests are among the released ones, in order -/
theorem sent_sublist_released (os : List Obs) : (sent os).Sublist (released os) := by
  induction os with
  | nil => exact List.Sublist.refl _
  | cons o os ih =>
    cases o with
    | unit => simpa [sent, released] using ih
    | got g => cases g <;> simp [sent, released, ih]
    | timer t => cases t <;> simp [sent, released, ih]

/-- **C13.each_cookie_sent_once** — the cookies sent in requests form a sub-list of the cookies stored. -/
theorem each_cookie_sent_once (ops : List Op) : (sent (run init ops).2).Sublist (stored ops) :=
  (sent_sublist_released _).trans (used_once_in_order ops)

/-- **C13.keeps_newest_eight** — at every point the stash holds at most eight cookies and they are the
    most recently stored ones that have not left it: the held queue is a suffix of the stored history. -/
theorem keeps_newest_eight (ops : List Op) :
    (abs (run init ops).1).length ≤ 8 ∧ (abs (run init ops).1) <:+ stored ops := by
  obtain ⟨_, habs, _⟩ := stash_refines_queue ops init wf_init
  rw [habs, abs_init]
  obtain ⟨pre', e, l, _⟩ := spec_history ops [] [] [] (by simp) (List.Sublist.refl _)
  simp only [List.nil_append] at e
  exact ⟨l, ⟨pre', e.symm⟩⟩

/-- **C13.oldest_first** — `get` on a well-formed stash returns the oldest held cookie. -/
theorem oldest_first (s : Stash) (h : WF s) :
    (get s).2 = (match (abs s).head? with | none => Out.none | some c => Out.some c) ∧
    abs (get s).1 = (abs s).tail :=
  ⟨(abs_get s h).2, (abs_get s h).1⟩

/-- **C13.request_asks_gap** — an NTS timer on a non-empty well-formed stash uses the oldest cookie and
    asks for `min (missing) (size limit)` cookies, where `missing = 8 − (cookies left after taking one)`.
    The count is exactly the number missing unless the packet-size bound `724 / max |c| 1` (capped at
    255) is smaller; it resets instead when that bound is zero. -/
theorem request_asks_gap (s : Stash) (h : WF s) (c : Cookie) (q' : List Cookie)
    (hq : abs s = c :: q') :
    let missing := 8 - q'.length
    let n := min missing (min (724 / max c.length 1) 255)
    (timerCookies s).2 = (if n = 0 then TimerOut.reset else TimerOut.send c n) ∧
    abs (timerCookies s).1 = q' ∧
    n ≤ missing ∧
    (missing * max c.length 1 ≤ 724 → n = missing) ∧
    (n < missing → 724 < (n + 1) * max c.length 1) := by
  intro missing n
  have hs := step_refines s .timer h
  simp only [step, specStep, hq, specTimer] at hs
  obtain ⟨_, h2, h3⟩ := hs
  have hn : newCookies (8 - q'.length) c.length = n := rfl
  rw [hn] at h2 h3
  have hlen : q'.length ≤ 7 := by
    have := abs_length s; rw [hq] at this
    simp only [List.length_cons] at this
    have := h.2.2; omega
  have hmiss : 1 ≤ missing ∧ missing ≤ 8 := by simp only [missing]; omega
  have hpos : 0 < max c.length 1 := by omega
  obtain ⟨d, hd⟩ : ∃ d, 724 / max c.length 1 = d := ⟨_, rfl⟩
  have hnd : n = min missing (min d 255) := by rw [← hd]
  refine ⟨?_, ?_, by omega, ?_, ?_⟩
  · have : (Obs.timer (timerCookies s).2) = Obs.timer (if n = 0 then .reset else .send c n) := by
      rw [h3]; split <;> rfl
    exact Obs.timer.inj this
  · rw [h2]; split <;> rfl
  · intro hfit
    have h1 : missing ≤ d := by rw [← hd]; exact (Nat.le_div_iff_mul_le hpos).mpr hfit
    omega
  · intro hlt
    have hd' : d < n + 1 := by omega
    rw [← hd] at hd'
    exact (Nat.div_lt_iff_lt_mul hpos).mp hd'


/-! #### the delivery path: cookies arriving in responses -/

/-- the last eight entries of a list: what a bounded FIFO keeps -/
def lastEight (l : List Cookie) : List Cookie := l.drop (l.length - 8)

theorem lastEight_length (l : List Cookie) : (lastEight l).length ≤ 8 := by
  simp only [lastEight, List.length_drop]; omega

theorem lastEight_lastEight_append (a b : List Cookie) : lastEight (lastEight a ++ b) = lastEight (a ++ b) := by
  simp only [lastEight, List.length_append, List.length_drop]
  have hsplit : a ++ b = a.take (a.length - 8) ++ (a.drop (a.length - 8) ++ b) := by
    rw [← List.append_assoc, List.take_append_drop]
  have hlen : (a.take (a.length - 8)).length = a.length - 8 := by
    rw [List.length_take]; omega
  conv => rhs; rw [hsplit, List.drop_append]
  have h1 : List.drop (a.length + b.length - 8) (a.take (a.length - 8)) = [] :=
    List.drop_eq_nil_of_le (by rw [hlen]; omega)
  rw [h1, List.nil_append, hlen]
  congr 1
  omega

theorem spec_store_eq (q : List Cookie) (c : Cookie) (hq : q.length ≤ 8) :
    Spec.store q c = lastEight (q ++ [c]) := by
  simp only [Spec.store, Spec.cap, lastEight, List.length_append, List.length_cons, List.length_nil]
  split
  · have : q.length = 8 := by omega
    rw [this]
    cases q with
    | nil => simp at this
    | cons d q' => rfl
  · have : q.length + (0 + 1) - 8 = 0 := by omega
    rw [this]; rfl

/-- storing a list of cookies one after the other = appending them and keeping the last eight -/
theorem foldl_store_eq (cs q : List Cookie) (hq : q.length ≤ 8) :
    cs.foldl Spec.store q = lastEight (q ++ cs) := by
  induction cs generalizing q with
  | nil =>
    simp only [List.foldl_nil, List.append_nil, lastEight]
    have : q.length - 8 = 0 := by omega
    rw [this]; rfl
  | cons c cs ih =>
    simp only [List.foldl_cons]
    rw [spec_store_eq q c hq, ih _ (lastEight_length _), lastEight_lastEight_append]
    simp

/-- `storeAll` (the loop over `new_cookies()` in `process_message`) on a well-formed stash never fails, keeps it
    well-formed, and is the bounded-FIFO append -/
theorem storeAll_abs (cs : List Cookie) (st : Stash) (h : WF st) :
    ∃ st', SourceSM.storeAll st cs = some st' ∧ WF st' ∧ abs st' = lastEight (abs st ++ cs) := by
  have key : ∀ (cs : List Cookie) (st : Stash), WF st →
      ∃ st', SourceSM.storeAll st cs = some st' ∧ WF st' ∧ abs st' = cs.foldl Spec.store (abs st) := by
    intro cs
    induction cs with
    | nil => intro st h; exact ⟨st, rfl, h, rfl⟩
    | cons c cs ih =>
      intro st h
      simp only [SourceSM.storeAll, storeChecked_eq st c h, List.foldl_cons]
      obtain ⟨st', e, w, a⟩ := ih (store st c) (wf_store st c h)
      exact ⟨st', e, w, by rw [a, abs_store st c h]⟩
  obtain ⟨st', e, w, a⟩ := key cs st h
  refine ⟨st', e, w, ?_⟩
  rw [a, foldl_store_eq]
  have := abs_length st
  unfold WF at h
  omega

/-- **C13.incoming_stores_all_new_cookies** — when `handle_incoming` accepts a response, the stash afterwards holds
    the bounded-FIFO append of ALL cookies of the response's encrypted list: the last eight of (held ++ delivered),
    in that order — whatever their number (also more than are missing, more than eight) and sizes. Every other
    outcome leaves the stash untouched (C07.cookies_only_when_accepted). -/
theorem incoming_stores_all_new_cookies (s s' : SourceSM.State) (st : Stash) (now : Nat) (p : SourceSM.Pkt)
    (a b : Nat) (bl : Option Bool) (u : Bool) (m : SourceSM.Meas) (k : Nat)
    (hn : s.nts = some st) (hwf : WF st)
    (h : SourceSM.handleIncoming s now (some p) a b bl = (s', .accepted u m k)) :
    ∃ st', s'.nts = some st' ∧ WF st' ∧ abs st' = lastEight (abs st ++ p.cookiesEnc) ∧ k = p.cookiesEnc.length := by
  obtain ⟨p', id, dl, hp, _, heq⟩ := SourceSM.accepted_iff_aux true s now (some p) a b bl u m k s' h
  injection hp with hp; subst hp
  obtain ⟨st', e, w, ab⟩ := storeAll_abs p.cookiesEnc st hwf
  unfold SourceSM.processMessage at heq
  simp only [hn, e] at heq
  injection heq with h1 h2
  injection h2 with _ _ hk
  exact ⟨st', by rw [h1], w, ab, hk⟩

/-- three cookies delivered to a stash holding seven: the oldest two are dropped, the three new ones are kept -/
example : lastEight ([[1],[2],[3],[4],[5],[6],[7]] ++ [[100],[101],[102]]) =
    [[3],[4],[5],[6],[7],[100],[101],[102]] := by decide

/-! #### histories of the source state machine

The stash-level history theorems above, transported to histories of `NtpVerif.Model.SourceSM` (timers, accepted and
ignored incoming datagrams, in any interleaving): every source op performs a list of stash ops (`stashOps`), the
source's stash after a history is the stash after the concatenated stash ops (`sm_run_stash`), and
`stash_refines_queue` + `spec_history` give the two history statements. -/

/-- cookies delivered by the history: the encrypted-list cookies of the responses that were ACCEPTED, in order -/
def smDelivered (s : SourceSM.State) : List SourceSM.Op → List Cookie
  | [] => []
  | op :: ops =>
    (match op, (SourceSM.step s op).2 with
     | .incoming _ (some p) _ _ _, .incoming (.accepted _ _ _) => p.cookiesEnc
     | _, _ => []) ++ smDelivered (SourceSM.step s op).1 ops

/-- the cookie a source observation puts on the wire -/
def obsCookie : SourceSM.Obs → List Cookie
  | .timer (.send i) => i.cookie.toList
  | _ => []

/-- cookies put into requests by the history, in order -/
def smSent (s : SourceSM.State) (ops : List SourceSM.Op) : List Cookie :=
  (SourceSM.observations s ops).flatMap obsCookie

/-- the stash operations one source op performs -/
def stashOps (s : SourceSM.State) (op : SourceSM.Op) : List Op :=
  match op, (SourceSM.step s op).2 with
  | .timer _ _ _ _ _, _ => if s.reach = 0 ∧ s.tries ≥ 3 then [] else [.timer]
  | .incoming _ (some p) _ _ _, .incoming (.accepted _ _ _) => p.cookiesEnc.map .store
  | _, _ => []

def stashOpsRun (s : SourceSM.State) : List SourceSM.Op → List Op
  | [] => []
  | op :: ops => stashOps s op ++ stashOpsRun (SourceSM.step s op).1 ops

theorem run_append (st : Stash) (a b : List Op) :
    run st (a ++ b) = ((run (run st a).1 b).1, (run st a).2 ++ (run (run st a).1 b).2) := by
  induction a generalizing st with
  | nil => simp [run]
  | cons x a ih =>
    simp only [List.cons_append, run]
    rw [ih]

theorem sent_append (x y : List Obs) : sent (x ++ y) = sent x ++ sent y := by
  induction x with
  | nil => rfl
  | cons o x ih =>
    cases o with
    | unit => simpa [sent] using ih
    | got g => cases g <;> simp [sent, ih]
    | timer t => cases t <;> simp [sent, ih]

theorem stored_append (a b : List Op) : stored (a ++ b) = stored a ++ stored b := by
  induction a with
  | nil => rfl
  | cons x a ih => cases x <;> simp [stored, ih]

theorem stored_map_store (cs : List Cookie) : stored (cs.map .store) = cs := by
  induction cs with
  | nil => rfl
  | cons c cs ih => simp [stored, ih]

/-- running the `store` ops of a cookie list = `storeAll`; nothing is sent meanwhile -/
theorem run_stores (cs : List Cookie) (st : Stash) (h : WF st) :
    SourceSM.storeAll st cs = some (run st (cs.map .store)).1 ∧ sent (run st (cs.map .store)).2 = [] := by
  induction cs generalizing st with
  | nil => exact ⟨rfl, rfl⟩
  | cons c cs ih =>
    obtain ⟨h1, h2⟩ := ih (store st c) (wf_store st c h)
    simp only [SourceSM.storeAll, storeChecked_eq st c h, List.map_cons, run, step]
    exact ⟨h1, by simpa [sent] using h2⟩

/-- one source op = its stash ops, on the stash; what it sends is among what they send -/
theorem sm_step_stash (s : SourceSM.State) (op : SourceSM.Op) (st : Stash) (hn : s.nts = some st) (hwf : WF st) :
    (SourceSM.step s op).1.nts = some (run st (stashOps s op)).1 ∧
    (obsCookie (SourceSM.step s op).2).Sublist (sent (run st (stashOps s op)).2) ∧
    (match op, (SourceSM.step s op).2 with
     | .incoming _ (some p) _ _ _, .incoming (.accepted _ _ _) => p.cookiesEnc
     | _, _ => []) = stored (stashOps s op) := by
  cases op with
  | timer now d o u t =>
    simp only [SourceSM.step, stashOps]
    rcases SourceSM.timer_cases s now d o u t with ⟨h0, e⟩ | ⟨h0, ⟨hp, _⟩ | ⟨st0, st', hn', htc, e⟩ |
        ⟨st0, st', hn', htc, e⟩ | ⟨st0, st', c, n, hn', htc, ⟨_, e⟩ | ⟨_, e⟩⟩⟩
    · rw [e]; simp only [h0, and_self, if_true, run]
      refine ⟨hn, ?_, (by first | rfl | trivial | simp [stored])⟩
      cases s.haveDeny <;> simp [obsCookie, sent]
    · rw [hn] at hp; cases hp
    all_goals
      rw [hn] at hn'; injection hn' with hn'; subst hn'
      rw [e]; simp only [h0, if_false, run, step, htc]
    · exact ⟨(by first | rfl | trivial), by simp [obsCookie, sent], (by first | rfl | trivial | simp [stored])⟩
    · exact ⟨(by first | rfl | trivial), by simp [obsCookie, sent], (by first | rfl | trivial | simp [stored])⟩
    · exact ⟨(by first | rfl | trivial), by simp [obsCookie, sent], (by first | rfl | trivial | simp [stored])⟩
    · exact ⟨(by first | rfl | trivial), by simp [obsCookie, sent], (by first | rfl | trivial | simp [stored])⟩
  | incoming now parsed a b bl =>
    have hkeep : ∀ (s' : SourceSM.State) (o : SourceSM.InOut),
        SourceSM.handleIncomingG true s now parsed a b bl = (s', o) → (∀ u m k, o ≠ .accepted u m k) → s'.nts = s.nts →
        (SourceSM.step s (.incoming now parsed a b bl)).1.nts = some (run st (stashOps s (.incoming now parsed a b bl))).1 ∧
        (obsCookie (SourceSM.step s (.incoming now parsed a b bl)).2).Sublist
          (sent (run st (stashOps s (.incoming now parsed a b bl))).2) ∧
        (match SourceSM.Op.incoming now parsed a b bl, (SourceSM.step s (.incoming now parsed a b bl)).2 with
         | .incoming _ (some p) _ _ _, .incoming (.accepted _ _ _) => p.cookiesEnc
         | _, _ => []) = stored (stashOps s (.incoming now parsed a b bl)) := by
      intro s' o e hna hnts
      have e' : SourceSM.handleIncoming s now parsed a b bl = (s', o) := e
      simp only [SourceSM.step, stashOps, e']
      cases parsed with
      | none => exact ⟨by rw [hnts, hn]; rfl, by simp [obsCookie, sent, run], (by first | rfl | trivial | simp [stored])⟩
      | some p =>
        cases o with
        | accepted u m k => exact absurd rfl (hna u m k)
        | ignore => exact ⟨by rw [hnts, hn]; rfl, by simp [obsCookie, sent, run], (by first | rfl | trivial | simp [stored])⟩
        | demobilize => exact ⟨by rw [hnts, hn]; rfl, by simp [obsCookie, sent, run], (by first | rfl | trivial | simp [stored])⟩
        | panic => exact ⟨by rw [hnts, hn]; rfl, by simp [obsCookie, sent, run], (by first | rfl | trivial | simp [stored])⟩
    rcases SourceSM.incoming_cases true s now parsed a b bl with e | ⟨p, id, dl, hp, _, _, _, _, hc⟩
    · exact hkeep _ _ e (by intro u m k h; cases h) rfl
    · rcases hc with ⟨_, _, e⟩ | ⟨_, _, ⟨_, e⟩ | ⟨rr, _, e⟩⟩ | ⟨_, _, _, ⟨_, e⟩ | ⟨_, e⟩⟩ | ⟨_, _, _, e⟩
      · exact hkeep _ _ e (by intro u m k h; cases h) rfl
      · exact hkeep _ _ e (by intro u m k h; cases h) rfl
      · exact hkeep _ _ e (by intro u m k h; cases h) rfl
      · exact hkeep _ _ e (by intro u m k h; cases h) rfl
      · exact hkeep _ _ e (by intro u m k h; cases h) rfl
      · subst hp
        obtain ⟨hs1, hs2⟩ := run_stores p.cookiesEnc st hwf
        have hpm : SourceSM.processMessage { s with proto := SourceSM.protoOnValid s.proto p.isUpgrade } p a b bl =
            (((SourceSM.processMessage { s with proto := SourceSM.protoOnValid s.proto p.isUpgrade } p a b bl).1),
             (SourceSM.processMessage { s with proto := SourceSM.protoOnValid s.proto p.isUpgrade } p a b bl).2) := rfl
        have e' : SourceSM.handleIncoming s now (some p) a b bl =
            SourceSM.processMessage { s with proto := SourceSM.protoOnValid s.proto p.isUpgrade } p a b bl := e
        unfold SourceSM.processMessage at e'
        simp only [hn, hs1] at e'
        simp only [SourceSM.step, stashOps, e']
        exact ⟨(by first | rfl | trivial), by simp [obsCookie, hs2], (by first | exact (stored_map_store _).symm | simp [stored_map_store])⟩

/-- a history of the source = the concatenated stash ops on its stash -/
theorem sm_run_stash (ops : List SourceSM.Op) (s : SourceSM.State) (st : Stash) (hn : s.nts = some st)
    (hwf : WF st) :
    (SourceSM.run s ops).1.nts = some (run st (stashOpsRun s ops)).1 ∧
    (smSent s ops).Sublist (sent (run st (stashOpsRun s ops)).2) ∧
    smDelivered s ops = stored (stashOpsRun s ops) := by
  induction ops generalizing s st with
  | nil => exact ⟨by simpa [SourceSM.run, stashOpsRun, run] using hn, by simp [smSent, SourceSM.observations, SourceSM.run, stashOpsRun, run, sent], rfl⟩
  | cons op ops ih =>
    obtain ⟨h1, h2, h3⟩ := sm_step_stash s op st hn hwf
    have hwf' : WF (run st (stashOps s op)).1 := (stash_refines_queue _ st hwf).1
    obtain ⟨i1, i2, i3⟩ := ih (SourceSM.step s op).1 _ h1 hwf'
    simp only [SourceSM.run, stashOpsRun, smDelivered]
    rw [run_append, sent_append, stored_append, ← h3, ← i3]
    refine ⟨i1, ?_, rfl⟩
    simp only [smSent, SourceSM.observations, SourceSM.run, List.map_cons, List.flatMap_cons]
    exact List.Sublist.append h2 i2

/-- **C13.sm_each_cookie_sent_once** — over ANY history of the source state machine (timers, accepted, ignored,
    forged, replayed datagrams in any interleaving) of an NTS source whose stash initially holds `abs st`: the cookies
    put into requests, in the order sent, form a sub-list of (initially held ++ cookies delivered in the encrypted
    lists of ACCEPTED responses, in order of delivery): each delivered cookie is sent at most once, never out of
    order, and nothing else is ever sent. -/
theorem sm_each_cookie_sent_once (ops : List SourceSM.Op) (s : SourceSM.State) (st : Stash)
    (hn : s.nts = some st) (hwf : WF st) :
    (smSent s ops).Sublist (abs st ++ smDelivered s ops) := by
  obtain ⟨_, h2, h3⟩ := sm_run_stash ops s st hn hwf
  obtain ⟨_, _, hobs⟩ := stash_refines_queue (stashOpsRun s ops) st hwf
  have hlen : (abs st).length ≤ 8 := by rw [abs_length]; exact hwf.2.2
  obtain ⟨pre', e, _, sub⟩ := spec_history (stashOpsRun s ops) (abs st) [] [] hlen (List.Sublist.refl _)
  simp only [List.nil_append] at e sub
  rw [h3]
  refine h2.trans ((sent_sublist_released _).trans ?_)
  rw [hobs]
  exact sub.trans (by rw [e]; exact List.sublist_append_left _ _)

/-- **C13.sm_keeps_newest_eight** — after any such history the stash is well-formed, holds at most eight cookies,
    and they are the NEWEST ones of (initially held ++ delivered) that have not left it: the held queue is a suffix
    of that list. -/
theorem sm_keeps_newest_eight (ops : List SourceSM.Op) (s : SourceSM.State) (st : Stash)
    (hn : s.nts = some st) (hwf : WF st) :
    ∃ st', (SourceSM.run s ops).1.nts = some st' ∧ WF st' ∧ (abs st').length ≤ 8 ∧
      abs st' <:+ (abs st ++ smDelivered s ops) := by
  obtain ⟨h1, _, h3⟩ := sm_run_stash ops s st hn hwf
  obtain ⟨hw, habs, _⟩ := stash_refines_queue (stashOpsRun s ops) st hwf
  have hlen : (abs st).length ≤ 8 := by rw [abs_length]; exact hwf.2.2
  obtain ⟨pre', e, l, _⟩ := spec_history (stashOpsRun s ops) (abs st) [] [] hlen (List.Sublist.refl _)
  simp only [List.nil_append] at e
  refine ⟨_, h1, hw, by rw [habs]; exact l, ?_⟩
  rw [habs, h3]
  exact ⟨pre', e.symm⟩

/-- from an empty stash: everything sent was delivered by an accepted response -/
theorem sm_each_cookie_sent_once_init (ops : List SourceSM.Op) (s : SourceSM.State) (hn : s.nts = some init) :
    (smSent s ops).Sublist (smDelivered s ops) := by
  have := sm_each_cookie_sent_once ops s init hn wf_init
  rwa [abs_init, List.nil_append] at this

/-! #### non-vacuity: the hypotheses are met by concrete, non-trivial states -/

/-- a concrete NTS history: one cookie held; it is sent; an accepted answer delivers two in its encrypted list (and one
    each in the authenticated and untrusted lists, which are not stored); the next request uses the first of them -/
def exCfg : SourceSM.Cfg := ⟨⟨4, 10⟩, 16, [], 5⟩
def exUid : List UInt8 := List.replicate 32 7
def exAnswer : SourceSM.Pkt :=
  { version := 5, mode := 4, stratum := 2, poll := 6, kiss := .other, refid := 0, refTs := 0, origin := 99,
    uidAuth := [exUid], uidEnc := [], uidUntr := [], authnak := false, cookiesAuth := [[6]], cookiesEnc := [[9, 9], [8, 8]],
    cookiesUntr := [[5]], rrAuth := false, rrUntr := false, leap := 0, precision := 0, rootDelay := 0, rootDisp := 0,
    recvTs := 0, xmitTs := 0 }
def exOps : List SourceSM.Op :=
  [.timer 0 4 99 exUid 16500000000, .incoming 1000000 (some exAnswer) 0 0 none, .timer 17000000000 4 100 exUid 16500000000]
def exStart : SourceSM.State := SourceSM.init exCfg .v5 (some (store init [1, 1]))

example : smSent exStart exOps = [[1, 1], [9, 9]] ∧ smDelivered exStart exOps = [[9, 9], [8, 8]] ∧
    ((SourceSM.run exStart exOps).1.nts.map abs) = some [[8, 8]] := by decide



/-- a full stash that has wrapped around is well-formed, and storing into it evicts the oldest -/
example : WF ⟨[[1],[2],[3],[4],[5],[6],[7],[8]], 3, 8⟩ ∧
    abs (store ⟨[[1],[2],[3],[4],[5],[6],[7],[8]], 3, 8⟩ [9]) = [[5],[6],[7],[8],[1],[2],[3],[9]] := by
  decide

/-- a run that stores ten cookies, then polls: the third stored cookie is sent first, asking for one -/
example : (run init ((List.range 10).map (fun i => Op.store [UInt8.ofNat i]) ++ [.timer])).2.getLast?
    = some (.timer (.send [2] 1)) := by decide

/-- the size limit bites for a 200-byte cookie with an empty remainder: 3 instead of 8 -/
example : newCookies 8 200 = 3 := by decide

/-- an oversize cookie (725 bytes or more) makes the count zero, i.e. the timer resets -/
example : newCookies 1 725 = 0 ∧ newCookies 1 724 = 1 := by decide

end NtpVerif.C13

#print axioms NtpVerif.C13.stash_refines_queue
#print axioms NtpVerif.C13.never_panics
#print axioms NtpVerif.C13.used_once_in_order
#print axioms NtpVerif.C13.each_cookie_sent_once
#print axioms NtpVerif.C13.keeps_newest_eight
#print axioms NtpVerif.C13.oldest_first
#print axioms NtpVerif.C13.request_asks_gap
#print axioms NtpVerif.C13.incoming_stores_all_new_cookies
#print axioms NtpVerif.C13.sm_each_cookie_sent_once
#print axioms NtpVerif.C13.sm_keeps_newest_eight
#print axioms NtpVerif.C13.sm_each_cookie_sent_once_init
