/-
C01 — Clock steps never exceed the configured panic thresholds.

Property text ↔ theorems (model: `NtpVerif.Model.Steer`; helper lemmas: `NtpVerif.Proofs.Steer`):

  "never steps the system clock by an amount outside the startup step threshold while it has not yet
   synchronised"                                                   startup_steps_within
  "nor outside the single-step threshold afterwards"               later_steps_within
  "nor so that the sum of absolute post-startup steps exceeds the accumulated-step threshold"
                                                                   accumulated_within_saturated  (unconditional, sum saturated at i64::MAX)
                                                                   accumulated_within_partial    (exact sum, threshold below NtpDuration::MAX)
                                                                   Full / counterexample / accumulated_steps_partial
                                                                     (the exact-sum statement is FALSE for the threshold
                                                                      NtpDuration::MAX: finding F-C01a)
  "When a correction would violate a threshold the daemon stops (exits) instead of stepping"
                                                                   exit_instead_of_step, run_stops_at_exit,
                                                                   jump_startup_decision, jump_later_decision
  the same clauses over the WHOLE controller (`Model/Controller`: select → combine → steering → bookkeeping,
   the estimate computed by the model)                             whole_startup_steps_within, whole_later_steps_within,
                                                                   whole_accumulated_within_saturated / _partial,
                                                                   whole_exit_instead_of_step
  provenance: a step amount is `from_seconds` of a finite value    whole_step_is_from_seconds

All run theorems quantify over EVERY configuration (finite / infinite / asymmetric / negative thresholds,
any algorithm limits, both `NtpDuration::abs`/`Neg` variants), every initial controller state and every list
of controller inputs; the combined Kalman estimate of each input is four arbitrary `F64`s, so every
measurement history of any number of sources is covered.  Float arithmetic is uninterpreted: the theorems
hold for whatever bits it returns.
-/
import NtpVerif.Proofs.Steer
import NtpVerif.Proofs.Controller

namespace NtpVerif.C01
open NtpVerif.Steer NtpVerif.Wrap

/-- **C01.startup_steps_within** — along every run, every `step_clock(d)` issued while `in_startup` is
    set satisfies the startup threshold (`is_within` returned `true`, without overflow). -/
theorem startup_steps_within (cfg : Cfg) (st : St) (inps : List Input) (d : Int)
    (h : (true, Ev.step d) ∈ (run cfg st inps).1) :
    isWithin cfg.satOps cfg.startup d = some true := by
  obtain ⟨st', inp, hev, hb⟩ := run_mem h
  have := (ctrlStep_spec cfg st' inp).1 _ hev
  obtain ⟨_, _, h3⟩ := this
  rw [← hb] at h3
  simpa using h3.1

/-- **C01.later_steps_within** — every `step_clock(d)` issued after startup satisfies the single-step
    threshold. -/
theorem later_steps_within (cfg : Cfg) (st : St) (inps : List Input) (d : Int)
    (h : (false, Ev.step d) ∈ (run cfg st inps).1) :
    isWithin cfg.satOps cfg.single d = some true := by
  obtain ⟨st', inp, hev, hb⟩ := run_mem h
  have := (ctrlStep_spec cfg st' inp).1 _ hev
  obtain ⟨_, _, h3⟩ := this
  rw [← hb] at h3
  simpa using h3.1

/-- what `is_within … = some true` means in plain integers: strictly inside both configured limits
    (`none` = "inf"; a backward limit of `i64::MIN` is never met by an `i64` offset) -/
theorem isWithin_true_iff (sat : Bool) (t : Threshold) (d : Int) (h : isWithin sat t d = some true) :
    (∀ f, t.forward = some f → d < f) ∧
    (∀ b, t.backward = some b → inI64 b → -b < d ∨ (b = I64_MIN ∧ I64_MAX < d)) := by
  obtain ⟨fw, bw⟩ := t
  cases fw <;> cases bw <;> cases sat <;>
    simp only [isWithin, durNeg, checkedI64, satI64, clampInt, inI64, I64_MIN, I64_MAX] at h ⊢ <;>
    (repeat' split at h) <;> simp_all <;> omega

/-- **C01.accumulated_within_saturated** — if an accumulated threshold `v` is configured, then after every
    post-startup step of every run the sum of `|d|` over the post-startup steps so far (starting from the
    stored accumulator `st.acc`), saturated at `i64::MAX` like `NtpDuration` addition, is `≤ v`. -/
theorem accumulated_within_saturated (cfg : Cfg) (v : Int) (hv : cfg.accumulated = some v)
    (st : St) (h0 : 0 ≤ st.acc) (h1 : st.acc ≤ I64_MAX) (inps : List Input) :
    ∀ x ∈ sums st.acc (postSteps (run cfg st inps).1), satI64 x ≤ v := by
  refine run_accumulated cfg v hv inps st st.acc h0 ?_
  unfold satI64 clampInt I64_MIN; unfold I64_MAX at h1 ⊢
  repeat' split
  all_goals omega

/-- **C01.accumulated_within_partial** — the same with the EXACT sum, for every threshold below the
    largest representable duration (`i64::MAX` units = 2^31 s). -/
theorem accumulated_within_partial (cfg : Cfg) (v : Int) (hv : cfg.accumulated = some v)
    (hlt : v < I64_MAX)
    (st : St) (h0 : 0 ≤ st.acc) (h1 : st.acc ≤ I64_MAX) (inps : List Input) :
    ∀ x ∈ sums st.acc (postSteps (run cfg st inps).1), x ≤ v := by
  intro x hx
  have := accumulated_within_saturated cfg v hv st h0 h1 inps x hx
  unfold satI64 clampInt I64_MIN at this; unfold I64_MAX at this hlt
  repeat' split at this
  all_goals omega

/-- The accumulated clause at full strength, on the integer core of the check (`checkDur` = the code of
    `check_offset_steer` after the conversion of the offset): whenever a non-empty sequence of
    post-startup steps is allowed one after the other, starting from an accumulator of zero, the exact sum
    of their absolute values is within the accumulated threshold. -/
def Full : Prop :=
  ∀ (cfg : Cfg) (v : Int) (st : St) (ds : List Int), cfg.accumulated = some v →
    st.inStartup = false → st.acc = 0 → ds ≠ [] →
    (acceptSteps cfg st ds).isSome = true → (ds.map absInt).sum ≤ v

def witnessCfg : Cfg :=
  { satOps := false, startup := ⟨none, none⟩, single := ⟨none, none⟩, accumulated := some I64_MAX,
    stepThreshold := F64.zero, steerOffsetThreshold := F64.zero, steerOffsetLeftover := F64.zero,
    steerFreqThreshold := F64.zero, steerFreqLeftover := F64.zero, slewMax := F64.zero,
    slewMinDuration := F64.one, maxSteer := F64.zero }

def witnessSt : St := { inStartup := false, acc := 0, freqOffset := F64.zero, desiredFreq := F64.zero }

/-- **C01.counterexample** (finding F-C01a) — with the accumulated threshold at `NtpDuration::MAX`
    (what any configured value ≥ 2^31 s becomes) and no single-step limit, three steps of 2^30 s are all
    allowed although their sum exceeds the threshold: the accumulator saturates at `i64::MAX` and the
    test is `>`. -/
theorem counterexample : ¬ Full := by
  intro h
  have := h witnessCfg I64_MAX witnessSt [4611686018427387904, 4611686018427387904, 4611686018427387904]
    rfl rfl rfl (by decide) (by decide)
  revert this
  decide

/-- **C01.accumulated_steps_partial** — `Full` holds for every threshold below `NtpDuration::MAX`
    (explicit decidable hypothesis `v < I64_MAX`). -/
theorem accumulated_steps_partial (cfg : Cfg) (v : Int) (st : St) (ds : List Int)
    (hv : cfg.accumulated = some v) (hlt : v < I64_MAX)
    (hs : st.inStartup = false) (h0 : st.acc = 0) (hne : ds ≠ [])
    (h : (acceptSteps cfg st ds).isSome = true) : (ds.map absInt).sum ≤ v := by
  obtain ⟨st', hst'⟩ := Option.isSome_iff_exists.mp h
  have := acceptSteps_accumulated cfg v hv ds st st' 0 (by omega) (by rw [h0]; decide) hs hne hst'
  simp only [Int.zero_add] at this
  have hnn : 0 ≤ (ds.map absInt).sum := by
    clear this hst' h hne
    induction ds with
    | nil => simp
    | cons d ds ih => simp only [List.map_cons, List.sum_cons]; have := absInt_nonneg d; omega
  unfold satI64 clampInt I64_MIN at this; unfold I64_MAX at this hlt
  repeat' split at this
  all_goals omega

/-- **C01.exit_instead_of_step** — a controller call that ends in `exit` (or in a panic) has not stepped
    the clock: the stop happens INSTEAD of the step. -/
theorem exit_instead_of_step (cfg : Cfg) (st : St) (inp : Input)
    (h : (ctrlStep cfg st inp).fin ≠ .ok) : ∀ d, Ev.step d ∉ (ctrlStep cfg st inp).evs := by
  intro d hd
  exact h ((ctrlStep_spec cfg st inp).1 _ hd).1

/-- **C01.run_stops_at_exit** — `exit` is terminal: once a call ended in `exit`/`panic`, nothing that
    follows in the input list has any effect (no further clock call of any kind). -/
theorem run_stops_at_exit (cfg : Cfg) (st : St) (inp : Input) (rest : List Input)
    (h : (ctrlStep cfg st inp).fin ≠ .ok) :
    run cfg st (inp :: rest) = run cfg st [inp] := by
  cases hf : (ctrlStep cfg st inp).fin with
  | ok => exact absurd hf h
  | exit => simp only [run, hf]
  | panic => simp only [run, hf]

/-- **C01.jump_startup_decision** — `steer_offset` with a change above the step threshold during
    startup: the converted offset `d` is stepped exactly when it is within the startup threshold; otherwise
    the daemon exits and the clock is not touched. -/
theorem jump_startup_decision (cfg : Cfg) (st : St) (c fd : F64) (d : Int) (b : Bool)
    (hjump : F64.gt (F64.abs c) cfg.stepThreshold = true) (hd : fromSeconds c = some d)
    (hs : st.inStartup = true) (hw : isWithin cfg.satOps cfg.startup d = some b) :
    steerOffset cfg st c fd = (if b then ⟨st, [.step d], .ok⟩ else ⟨st, [], .exit⟩) := by
  cases b <;> simp [steerOffset, checkOffsetSteer, checkDur, hjump, hd, hs, hw]

/-- **C01.jump_later_decision** — the same after startup: the step is made exactly when it is within
    the single-step threshold AND the accumulator including it does not exceed the accumulated threshold;
    otherwise exit, clock untouched. -/
theorem jump_later_decision (cfg : Cfg) (st : St) (c fd : F64) (d a : Int) (b : Bool)
    (hjump : F64.gt (F64.abs c) cfg.stepThreshold = true) (hd : fromSeconds c = some d)
    (hs : st.inStartup = false) (ha : durAbs cfg.satOps d = some a)
    (hw : isWithin cfg.satOps cfg.single d = some b) :
    steerOffset cfg st c fd =
      (if b && !(accExceeds cfg.accumulated (satI64 (st.acc + a))) then
        ⟨{ st with acc := satI64 (st.acc + a) }, [.step d], .ok⟩
       else ⟨{ st with acc := satI64 (st.acc + a) }, [], .exit⟩) := by
  cases b <;> cases hx : accExceeds cfg.accumulated (satI64 (st.acc + a)) <;>
    simp [steerOffset, checkOffsetSteer, checkDur, hjump, hd, hs, hw, ha, hx]

/-! #### non-vacuity -/

/-- the default-like thresholds: 1000 s each way after startup, forward "inf" / backward one day at
    startup; the integer core of the check allows, refuses and accumulates as the property says -/
def demoCfg : Cfg :=
  { witnessCfg with startup := ⟨none, some 371085174374400⟩,
                    single := ⟨some 4294967296000, some 4294967296000⟩,
                    accumulated := some 7730941132800 }

/-- a startup step (−86399 s) allowed, −86400 s refused (strict), +10^6 s forward allowed -/
example : (checkDur demoCfg { witnessSt with inStartup := true } (-371080879407104)).2 = .ok (-371080879407104) ∧
    (checkDur demoCfg { witnessSt with inStartup := true } (-371085174374400)).2 = .exit ∧
    (checkDur demoCfg { witnessSt with inStartup := true } 4294967296000000).2 = .ok 4294967296000000 := by decide

/-- post-startup: 700 s, −700 s allowed (accumulator 1400 s), the third 700 s would reach 2100 s > 1800 s: exit -/
example : (acceptSteps demoCfg witnessSt [3006477107200, -3006477107200]).isSome = true ∧
    (acceptSteps demoCfg witnessSt [3006477107200, -3006477107200, 3006477107200]).isSome = false ∧
    (checkDur demoCfg { witnessSt with acc := 6012954214400 } 3006477107200).2 = .exit := by decide

/-- the single-step threshold is strict: 1000 s − 1 unit allowed, exactly 1000 s refused -/
example : (checkDur demoCfg witnessSt 4294967295999).2 = .ok 4294967295999 ∧
    (checkDur demoCfg witnessSt 4294967296000).2 = .exit ∧
    (checkDur demoCfg witnessSt (-4294967296000)).2 = .exit := by decide

/-- the hypotheses of `accumulated_steps_partial` are met by a non-trivial accepted sequence -/
example : demoCfg.accumulated = some 7730941132800 ∧ (7730941132800 : Int) < I64_MAX ∧
    (acceptSteps demoCfg witnessSt [3006477107200, -3006477107200]).isSome = true := by decide

/-- pre-fix `abs` overflow is a panic, with the proposed fix it saturates and (with a finite backward
    limit) exits -/
example : (checkDur { demoCfg with single := ⟨none, none⟩ } witnessSt I64_MIN).2 = .panic ∧
    (checkDur { demoCfg with satOps := true } witnessSt I64_MIN).2 = .exit := by decide


/-! ### the same clauses over the WHOLE controller model (`Model/Controller`)

`Controller.run` composes `select` (Model/Select), `combine` (Kalman2.merge, leap vote), the steering decision
and the post-steer bookkeeping; the combined estimate is COMPUTED by the model from the per-source snapshots
(for every `HashMap` iteration order).  `Proofs/Controller.run_sim`: the steering events of such a run are
exactly the trace of `Steer.run` on the estimates the whole model computed, so the clauses carry over. -/

open NtpVerif.Controller in
/-- **C01.whole_startup_steps_within** — every `step_clock(d)` the whole controller issues in a call that
    started with `in_startup` set satisfies the startup threshold. -/
theorem whole_startup_steps_within (cfg : Controller.Cfg) (c : Ctrl) (msgs : List Msg) (o : Out) (d : Int)
    (ho : (true, o) ∈ Controller.run cfg c msgs) (hc : Call.step d ∈ o.calls) :
    isWithin cfg.steer.satOps cfg.steer.startup d = some true :=
  startup_steps_within cfg.steer c.st _ d (step_call_in_trace ho hc)

open NtpVerif.Controller in
/-- **C01.whole_later_steps_within** — every later step satisfies the single-step threshold. -/
theorem whole_later_steps_within (cfg : Controller.Cfg) (c : Ctrl) (msgs : List Msg) (o : Out) (d : Int)
    (ho : (false, o) ∈ Controller.run cfg c msgs) (hc : Call.step d ∈ o.calls) :
    isWithin cfg.steer.satOps cfg.steer.single d = some true :=
  later_steps_within cfg.steer c.st _ d (step_call_in_trace ho hc)

open NtpVerif.Controller in
/-- **C01.whole_accumulated_within_saturated** — after every post-startup step of every run of the whole
    controller, the saturated sum of absolute post-startup steps is within the accumulated threshold. -/
theorem whole_accumulated_within_saturated (cfg : Controller.Cfg) (v : Int)
    (hv : cfg.steer.accumulated = some v) (c : Ctrl) (h0 : 0 ≤ c.st.acc) (h1 : c.st.acc ≤ I64_MAX)
    (msgs : List Msg) :
    ∀ x ∈ sums c.st.acc (postSteps (steerTrace (Controller.run cfg c msgs))), satI64 x ≤ v := by
  rw [run_sim]
  exact accumulated_within_saturated cfg.steer v hv c.st h0 h1 _

open NtpVerif.Controller in
/-- **C01.whole_accumulated_within_partial** — the exact sum, for thresholds below `NtpDuration::MAX`. -/
theorem whole_accumulated_within_partial (cfg : Controller.Cfg) (v : Int)
    (hv : cfg.steer.accumulated = some v) (hlt : v < I64_MAX) (c : Ctrl) (h0 : 0 ≤ c.st.acc)
    (h1 : c.st.acc ≤ I64_MAX) (msgs : List Msg) :
    ∀ x ∈ sums c.st.acc (postSteps (steerTrace (Controller.run cfg c msgs))), x ≤ v := by
  rw [run_sim]
  exact accumulated_within_partial cfg.steer v hv hlt c.st h0 h1 _

open NtpVerif.Controller in
/-- **C01.whole_exit_instead_of_step** — a call of the whole controller that ends in `exit` made no
    `step_clock` call. -/
theorem whole_exit_instead_of_step (cfg : Controller.Cfg) (c : Ctrl) (m : Msg)
    (hfin : (Controller.step cfg c m).fin = .exit) : ∀ d, Call.step d ∉ (Controller.step cfg c m).calls := by
  intro d hd
  have hs := step_sim cfg c m
  rcases hs.1 _ hd with h | ⟨_, _, _, _, h, _⟩ | ⟨_, h⟩
  · rcases mem_evCalls h with ⟨h, _⟩ | ⟨d', h, hev⟩ | ⟨_, h, _⟩
    · cases h
    · cases h
      cases hinp : (Controller.step cfg c m).inp with
      | none =>
        have := hs.2; rw [hinp] at this
        rw [this.1] at hev; simp at hev
      | some i =>
        have := hs.2; rw [hinp] at this
        obtain ⟨hev', _, _, hex⟩ := this
        have hne : (Steer.ctrlStep cfg.steer c.st i).fin ≠ .ok := by rw [hex hfin]; decide
        rw [hev'] at hev
        exact exit_instead_of_step cfg.steer c.st i hne d hev
    · cases h
  · cases h
  · cases h

open NtpVerif.Controller in
/-- **C01.whole_step_is_from_seconds** (provenance) — the amount of every step the whole controller makes is
    `NtpDuration::from_seconds` of a value that is neither NaN nor infinite: no NaN reaches `step_clock`
    through control flow. -/
theorem whole_step_is_from_seconds (cfg : Controller.Cfg) (c : Ctrl) (msgs : List Msg) (b : Bool) (o : Out)
    (d : Int) (ho : (b, o) ∈ Controller.run cfg c msgs) (hc : Call.step d ∈ o.calls) :
    ∃ x : F64, fromSeconds x = some d ∧ x.isNaN = false ∧ x.isInf = false := by
  obtain ⟨st', inp, hev, _⟩ := run_mem (step_call_in_trace ho hc)
  rcases ctrlStep_evs hev with h | ⟨d', x, h, hx⟩ | ⟨_, _, h⟩ | ⟨_, _, _, h, _⟩
  · cases h
  · cases h; exact ⟨x, hx, fromSeconds_finite hx⟩
  · cases h
  · cases h


/-! ### measurements are stored whatever the other sources' stamps are (C37's clause, over the whole model)

`Model/Controller.step (.source …)` stores the message and only then runs `update_clock`, whose first test
("another filter is ahead of this message's time") returns early — the order of the code, and of
`Model/CtrlLoop` (C37.message_always_stored).  A change that tests before storing (seeded change C37-b) drops a
late message of source A while B is ahead; the stream `steer_whole` compares every stored source state after
every call and has sources whose stamps lag behind the others'. -/

open NtpVerif.Controller in
/-- **C01.whole_message_always_stored** — for a registered source, after `source_message` the controller's map
    holds entry by entry the measurements (identity, stamp, delay, … — everything but the Kalman state, which
    `progress_time` / steering adjust) and usable flags of the map WITH the message stored, for arbitrary stamps
    of the other sources; and when another stored snapshot is ahead of the message's time, the map is exactly
    that one, no clock call is made and no `used_sources` / source message is published. -/
theorem whole_message_always_stored (cfg : Controller.Cfg) (c : Ctrl) (id : Nat) (snap : Snap) (ft : Nat)
    (hk : hasKey c.srcs id = true) :
    let o := Controller.step cfg c (.source id snap ft)
    metaOf o.ctrl.srcs = metaOf (storeMsg c.srcs id snap) ∧
    (ahead (storeMsg c.srcs id snap) snap.lastUpdate = true →
      o.ctrl.srcs = storeMsg c.srcs id snap ∧ o.calls = [] ∧ o.fin = .ok ∧ o.pub.used = none ∧
      o.pub.srcMsg = none) :=
  message_always_stored cfg c id snap ft hk

open NtpVerif.Controller in
/-- **C01.whole_message_entry_stored** — in particular the source's own entry afterwards carries the message's
    identity and stamp, with its usable flag untouched. -/
theorem whole_message_entry_stored (cfg : Controller.Cfg) (c : Ctrl) (id : Nat) (snap : Snap) (ft : Nat)
    (e : Entry) (he : (id, e) ∈ c.srcs) :
    (id, e.usable, some (snapMeta snap)) ∈ metaOf (Controller.step cfg c (.source id snap ft)).ctrl.srcs :=
  message_entry_stored cfg c id snap ft e he

section
open NtpVerif.Controller NtpVerif.Kalman2
private def k0 (t : Nat) : SourceFilter.KT := ⟨⟨⟨F64.zero, F64.zero⟩, ⟨F64.one, F64.zero, F64.zero, F64.one⟩⟩, t⟩
private def snapAt (idx t : Nat) (delay : F64) : Snap :=
  { idx := idx, k := k0 t, wander := F64.zero, delay := delay, period := none, srcUnc := 0, srcDelay := 0,
    leap := .noWarning, lastUpdate := t }
private def wcfg : Controller.Cfg :=
  { steer := witnessCfg, sel := { minAgree := 1, wStat := F64.one, wDelay := F64.one, maxUnc := F64.one },
    ignoreDispersion := true, initialWander := F64.zero }
private def c2 : Ctrl :=
  { srcs := [(1, ⟨some (snapAt 1 5 F64.zero), true⟩), (2, ⟨some (snapAt 2 20 F64.zero), true⟩)],
    st := witnessSt, td := TimeData.init }

/-- non-vacuity: B (id 2) is ahead at stamp 20; A's (id 1) late message stamped 10 with a NEW delay is stored,
    nothing reaches the clock -/
example :
    ((Controller.step wcfg c2 (.source 1 (snapAt 1 10 F64.one) 0)).ctrl.srcs.map
        (fun p => (p.1, p.2.snap.map (fun s => (s.lastUpdate, s.delay))))
      = [(1, some (10, F64.one)), (2, some (20, F64.zero))]) ∧
    (Controller.step wcfg c2 (.source 1 (snapAt 1 10 F64.one) 0)).calls = [] ∧
    ahead (storeMsg c2.srcs 1 (snapAt 1 10 F64.one)) 10 = true := by decide
end

end NtpVerif.C01

#print axioms NtpVerif.C01.startup_steps_within
#print axioms NtpVerif.C01.later_steps_within
#print axioms NtpVerif.C01.isWithin_true_iff
#print axioms NtpVerif.C01.accumulated_within_saturated
#print axioms NtpVerif.C01.accumulated_within_partial
#print axioms NtpVerif.C01.counterexample
#print axioms NtpVerif.C01.accumulated_steps_partial
#print axioms NtpVerif.C01.exit_instead_of_step
#print axioms NtpVerif.C01.run_stops_at_exit
#print axioms NtpVerif.C01.jump_startup_decision
#print axioms NtpVerif.C01.jump_later_decision
#print axioms NtpVerif.C01.whole_startup_steps_within
#print axioms NtpVerif.C01.whole_later_steps_within
#print axioms NtpVerif.C01.whole_accumulated_within_saturated
#print axioms NtpVerif.C01.whole_accumulated_within_partial
#print axioms NtpVerif.C01.whole_exit_instead_of_step
#print axioms NtpVerif.C01.whole_step_is_from_seconds
#print axioms NtpVerif.C01.whole_message_always_stored
#print axioms NtpVerif.C01.whole_message_entry_stored
