/-
C31 — IP filters match exactly the configured subnets.

Model: `NtpVerif.Model.IpFilter`.  STATUS: FULL.  The statement is about the FLAT model — the node array
`fill_node` builds (`child_offset`, buckets cut out of the sorted slice by the 16 counts, children nodes
reserved then filled in order) and `lookup` walks: `Full` / `lookup_iff`.  Proof route: the TREE model
(identical per-node computation, children as sub-terms) is correct (`lookup_iff_tree`); the array is the
`flatten` layout of the tree (`array_is_layout`), and walking the layout gives the tree's answers
(`flat_eq_tree_proved`); hence `full`.  The model driver still compares the two models on every run.

Property sentence                                               theorem
 "An address is treated as listed exactly when it lies in at      lookup_iff (= full : Full) on u128 prefixes,
  least one configured subnet, for IPv4, IPv6 and IPv4-mapped      is_in_iff (IpFilter::new / is_in with
  IPv6 addresses and for every mask length"                        canonicalisation)          [flat model]
 "subnet strings are accepted exactly when the address parses     parse_accepts_iff  (after std's two parsers;
  and the mask fits the (canonicalised) address family"             textual parsing is std's)
 supporting: lookup_iff_tree, is_in_iff_tree (tree model), array_is_layout, flat_eq_tree_proved,
 full_of_flat_eq_tree
-/
import NtpVerif.Proofs.IpFilter

namespace NtpVerif.C31
open NtpVerif.IpFilter

/-- the flat array is the layout of the tree, and walking it gives the same answers -/
def flat_eq_tree : Prop :=
  ∀ (ps : List Prefix) (v : Nat), (∀ p ∈ ps, p.1 < W ∧ p.2 ≤ 128) → v < W → memberF ps v = memberT ps v

/-- the full statement, about the array the code builds -/
def Full : Prop :=
  ∀ (ps : List Prefix) (v : Nat), (∀ p ∈ ps, p.1 < W ∧ p.2 ≤ 128) → v < W →
    ∃ b, memberF ps v = some b ∧
      (b = true ↔ ∃ p ∈ ps, v / 2 ^ (128 - p.2) = p.1 / 2 ^ (128 - p.2))

/-- **C31.lookup_iff_tree** (tree model) — for every prefix list (values below 2^128, lengths
    0..128) and every 128-bit value: building the trie never fails, the lookup terminates within the
    33-level budget without an index error, and it answers `true` exactly when some prefix `(p, len)` of
    the list agrees with the value on its top `len` bits. -/
theorem lookup_iff_tree (ps : List Prefix) (v : Nat) (hps : ∀ p ∈ ps, p.1 < W ∧ p.2 ≤ 128) (hv : v < W) :
    ∃ b, memberT ps v = some b ∧
      (b = true ↔ ∃ p ∈ ps, v / 2 ^ (128 - p.2) = p.1 / 2 ^ (128 - p.2)) :=
  memberT_iff ps v hv hps

/-- **C31.full_of_flat_eq_tree** — `Full` follows from `flat_eq_tree` and the tree-level theorem. -/
theorem full_of_flat_eq_tree (h : flat_eq_tree) : Full := by
  intro ps v hps hv
  rw [h ps v hps hv]
  exact lookup_iff_tree ps v hps hv

/-- **C31.array_is_layout** — the node array the code builds (`create`) is the layout of the tree:
    root first, then for every node its children block followed by the children's descendants. -/
theorem array_is_layout (ps : List Prefix) (hps : ∀ p ∈ ps, p.1 < W ∧ p.2 ≤ 128) :
    createF ps = (createT ps).map flatten :=
  createF_eq_flatten ps hps

/-- **C31.flat_eq_tree_proved** — the formerly missing lemma: array model and tree model agree on every
    prefix list and every value. -/
theorem flat_eq_tree_proved : flat_eq_tree :=
  fun ps v hps hv => memberF_eq_memberT ps v hps hv

/-- **C31.full** — the full statement, on the array the code builds. -/
theorem full : Full := full_of_flat_eq_tree flat_eq_tree_proved

/-- **C31.lookup_iff** — `Full` spelled out: for every prefix list (values below 2^128, lengths 0..128)
    and every 128-bit value, `create` does not fail, `lookup` on the node array stays in bounds and ends
    within 33 levels, and it answers `true` exactly when some prefix `(p, len)` of the list agrees with
    the value on its top `len` bits. -/
theorem lookup_iff (ps : List Prefix) (v : Nat) (hps : ∀ p ∈ ps, p.1 < W ∧ p.2 ≤ 128) (hv : v < W) :
    ∃ b, memberF ps v = some b ∧
      (b = true ↔ ∃ p ∈ ps, v / 2 ^ (128 - p.2) = p.1 / 2 ^ (128 - p.2)) :=
  full ps v hps hv

/-- an address (already canonical) lies in a subnet -/
def liesIn (s : Subnet) : Addr → Prop
  | .v4 a => match s.addr with
    | .v4 n => a / 2 ^ (32 - s.mask) = n / 2 ^ (32 - s.mask)
    | .v6 _ => False
  | .v6 a => match s.addr with
    | .v6 n => a / 2 ^ (128 - s.mask) = n / 2 ^ (128 - s.mask)
    | .v4 _ => False

/-- a subnet as `from_str` produces it: the mask fits the family -/
def Fits (s : Subnet) : Prop :=
  match s.addr with
  | .v4 n => n < 2 ^ 32 ∧ s.mask ≤ 32
  | .v6 n => n < 2 ^ 128 ∧ s.mask ≤ 128

def AddrOk : Addr → Prop
  | .v4 a => a < 2 ^ 32
  | .v6 a => a < 2 ^ 128

theorem createT_some (ps : List Prefix) (hps : ∀ p ∈ ps, p.1 < W ∧ p.2 ≤ 128) :
    ∃ t, createT ps = some t := by
  unfold createT maskAll
  have hall : (ps.all fun p => decide (p.2 ≤ 128)) = true := by
    simp only [List.all_eq_true, decide_eq_true_eq]
    exact fun p hp => (hps p hp).2
  rw [if_pos hall]
  exact ⟨_, rfl⟩

theorem v4list_ok (subnets : List Subnet) (h : ∀ s ∈ subnets, Fits s) :
    ∀ p ∈ v4list subnets, p.1 < W ∧ p.2 ≤ 128 := by
  intro p hp
  simp only [v4list, List.mem_filterMap] at hp
  obtain ⟨s, hs, he⟩ := hp
  have hf := h s hs
  unfold Fits at hf
  split at he
  · rename_i n hn
    rw [hn] at hf
    cases he
    unfold W
    simp only
    omega
  · cases he

theorem v6list_ok (subnets : List Subnet) (h : ∀ s ∈ subnets, Fits s) :
    ∀ p ∈ v6list subnets, p.1 < W ∧ p.2 ≤ 128 := by
  intro p hp
  simp only [v6list, List.mem_filterMap] at hp
  obtain ⟨s, hs, he⟩ := hp
  have hf := h s hs
  unfold Fits at hf
  split at he
  · rename_i n hn
    rw [hn] at hf
    cases he
    unfold W
    simp only
    omega
  · cases he

theorem v4_covers (n a m : Nat) (hm : m ≤ 32) :
    (a * 2 ^ 96) / 2 ^ (128 - m) = (n * 2 ^ 96) / 2 ^ (128 - m) ↔ a / 2 ^ (32 - m) = n / 2 ^ (32 - m) := by
  have e : (2 : Nat) ^ (128 - m) = 2 ^ (32 - m) * 2 ^ 96 := by
    rw [← Nat.pow_add]; congr 1; omega
  rw [e, Nat.mul_div_mul_right _ _ (Nat.pow_pos (by omega)), Nat.mul_div_mul_right _ _ (Nat.pow_pos (by omega))]

/-- **C31.is_in_iff_tree** (tree model) — `IpFilter::new(subnets).is_in(addr)`: for every list of
    subnets whose masks fit their family (what `from_str` produces) and every IPv4, IPv6 or IPv4-mapped
    address, the answer is `true` exactly when the canonicalised address lies in one of the subnets. -/
theorem is_in_iff_tree (subnets : List Subnet) (addr : Addr) (h : ∀ s ∈ subnets, Fits s)
    (ha : AddrOk addr) :
    ∃ b, isInT subnets addr = some b ∧ (b = true ↔ ∃ s ∈ subnets, liesIn s (canonical addr)) := by
  obtain ⟨t4, h4⟩ := createT_some _ (v4list_ok subnets h)
  obtain ⟨t6, h6⟩ := createT_some _ (v6list_ok subnets h)
  unfold isInT
  rw [h4, h6]
  simp only
  have hcan : AddrOk (canonical addr) := by
    unfold canonical
    split
    · exact ha
    · split
      · show _ % 2 ^ 32 < 2 ^ 32
        exact Nat.mod_lt _ (by omega)
      · exact ha
  rcases hc : canonical addr with a | a
  · rw [hc] at hcan
    simp only [AddrOk] at hcan
    obtain ⟨b, hb, hbm⟩ := lookup_iff_tree (v4list subnets) (a * 2 ^ 96) (v4list_ok subnets h)
      (by unfold W; omega)
    unfold memberT at hb
    rw [h4] at hb
    refine ⟨b, hb, hbm.trans ?_⟩
    constructor
    · rintro ⟨p, hp, hcov⟩
      simp only [v4list, List.mem_filterMap] at hp
      obtain ⟨s, hs, he⟩ := hp
      have hf := h s hs
      unfold Fits at hf
      split at he
      · rename_i n hn
        rw [hn] at hf
        cases he
        refine ⟨s, hs, ?_⟩
        simp only [liesIn, hn]
        exact (v4_covers n a s.mask hf.2).mp hcov
      · cases he
    · rintro ⟨s, hs, hl⟩
      have hf := h s hs
      unfold Fits at hf
      simp only [liesIn] at hl
      split at hl
      · rename_i n hn
        rw [hn] at hf
        refine ⟨(n * 2 ^ 96, s.mask), ?_, (v4_covers n a s.mask hf.2).mpr hl⟩
        simp only [v4list, List.mem_filterMap]
        exact ⟨s, hs, by rw [hn]⟩
      · exact hl.elim
  · rw [hc] at hcan
    simp only [AddrOk] at hcan
    obtain ⟨b, hb, hbm⟩ := lookup_iff_tree (v6list subnets) a (v6list_ok subnets h) (by unfold W; omega)
    unfold memberT at hb
    rw [h6] at hb
    refine ⟨b, hb, hbm.trans ?_⟩
    constructor
    · rintro ⟨p, hp, hcov⟩
      simp only [v6list, List.mem_filterMap] at hp
      obtain ⟨s, hs, he⟩ := hp
      split at he
      · rename_i n hn
        cases he
        refine ⟨s, hs, ?_⟩
        simp only [liesIn, hn]
        exact hcov
      · cases he
    · rintro ⟨s, hs, hl⟩
      simp only [liesIn] at hl
      split at hl
      · rename_i n hn
        refine ⟨(n, s.mask), ?_, hl⟩
        simp only [v6list, List.mem_filterMap]
        exact ⟨s, hs, by rw [hn]⟩
      · exact hl.elim

/-- **C31.is_in_iff** — `IpFilter::new(subnets).is_in(addr)` on the node arrays: for every list of subnets
    whose masks fit their family (what `from_str` produces) and every IPv4, IPv6 or IPv4-mapped address,
    the answer is `true` exactly when the canonicalised address lies in one of the subnets. -/
theorem is_in_iff (subnets : List Subnet) (addr : Addr) (h : ∀ s ∈ subnets, Fits s) (ha : AddrOk addr) :
    ∃ b, isInF subnets addr = some b ∧ (b = true ↔ ∃ s ∈ subnets, liesIn s (canonical addr)) := by
  obtain ⟨b, hb, hbm⟩ := is_in_iff_tree subnets addr h ha
  refine ⟨b, ?_, hbm⟩
  unfold isInF
  unfold isInT at hb
  rw [createF_eq_flatten _ (v4list_ok subnets h), createF_eq_flatten _ (v6list_ok subnets h)]
  rcases h4 : createT (v4list subnets) with _ | t4
  · rw [h4] at hb; simp at hb
  · rcases h6 : createT (v6list subnets) with _ | t6
    · rw [h4, h6] at hb; simp at hb
    · rw [h4, h6] at hb
      simp only [Option.map_some]
      simp only at hb
      rcases hc : canonical addr with a | a
      · rw [hc] at hb
        exact lookup_placed _ _ t4 0 1 _ b (placed_flatten t4) hb
      · rw [hc] at hb
        exact lookup_placed _ _ t6 0 1 _ b (placed_flatten t6) hb

/-- **C31.parse_accepts_iff** — after std's parsers produced an address and a `u8` mask, `from_str` accepts
    exactly when the mask fits the canonicalised family: `≤ 32` for IPv4, `≤ 128` for IPv6 that is not
    IPv4-mapped, `96 ≤ mask ≤ 128` for IPv4-mapped (stored as the IPv4 subnet with `mask − 96`); the
    accepted subnet always satisfies `Fits` when the address is well-formed. -/
theorem parse_accepts_iff (addr : Addr) (mask : Nat) :
    (∀ a, addr = .v4 a →
      subnetOfParsed addr mask = if mask ≤ 32 then .ok ⟨.v4 a, mask⟩ else .error .mask) ∧
    (∀ a, addr = .v6 a → a / 2 ^ 32 = 0xffff →
      subnetOfParsed addr mask =
        if mask < 96 then .error .maskV4Range
        else if mask ≤ 128 then .ok ⟨.v4 (a % 2 ^ 32), mask - 96⟩ else .error .mask) ∧
    (∀ a, addr = .v6 a → a / 2 ^ 32 ≠ 0xffff →
      subnetOfParsed addr mask = if mask ≤ 128 then .ok ⟨.v6 a, mask⟩ else .error .mask) := by
  refine ⟨?_, ?_, ?_⟩
  · rintro a rfl
    simp only [subnetOfParsed]
    split <;> rename_i h <;> split <;> first | rfl | omega
  · rintro a rfl hm
    simp only [subnetOfParsed, canonical, hm, if_true]
    split
    · rfl
    · split <;> rename_i h <;> split <;> first | rfl | omega
  · rintro a rfl hm
    simp only [subnetOfParsed, canonical, hm, if_false]
    split <;> rename_i h <;> split <;> first | rfl | omega

/-- what `from_str` accepts is what `is_in_iff_tree` assumes -/
theorem parse_result_fits (addr : Addr) (mask : Nat) (s : Subnet) (ha : AddrOk addr)
    (h : subnetOfParsed addr mask = .ok s) : Fits s := by
  obtain ⟨p4, pm, p6⟩ := parse_accepts_iff addr mask
  cases addr with
  | v4 a =>
    rw [p4 a rfl] at h
    split at h
    · cases h; exact ⟨ha, by assumption⟩
    · cases h
  | v6 a =>
    by_cases hm : a / 2 ^ 32 = 0xffff
    · rw [pm a rfl hm] at h
      split at h
      · cases h
      · split at h
        · cases h
          exact ⟨Nat.mod_lt _ (by omega), by simp only; omega⟩
        · cases h
    · rw [p6 a rfl hm] at h
      split at h
      · cases h; exact ⟨ha, by assumption⟩
      · cases h

/-! #### non-vacuity -/

/-- the unit test of the repository (already masked and sorted), on both models: nested, partially
    covering prefixes; the flat array is the layout of the tree -/
example :
    let data : List Prefix := [(0x10 <<< 120, 4), (0x20 <<< 120, 3), (0x43 <<< 120, 8), (0x82 <<< 120, 7)]
    [0x11 <<< 120, 0x40 <<< 120, 0x30 <<< 120, 0x43 <<< 120, 0xC4 <<< 120, 0x82 <<< 120, 0x83 <<< 120,
      0x81 <<< 120].map (lookupT (FUEL + 1) (fillT FUEL data))
      = [some true, some false, some true, some true, some false, some true, some true, some false] ∧
    [0x11 <<< 120, 0x40 <<< 120, 0x30 <<< 120, 0x43 <<< 120, 0xC4 <<< 120, 0x82 <<< 120, 0x83 <<< 120,
      0x81 <<< 120].map (lookupF (fillF FUEL [Node.default] data 0) (FUEL + 1) 0)
      = [some true, some false, some true, some true, some false, some true, some true, some false] ∧
    fillF FUEL [Node.default] data 0 = flatten (fillT FUEL data) := by
  decide +kernel

/-- sixteen /8 children jointly cover their /4 parent (coverage sweep), seen through a deeper address -/
example :
    let data : List Prefix := (List.range 16).map fun c => ((0xA0 + c) <<< 120, 8)
    lookupT (FUEL + 1) (fillT FUEL data) (0xA7FF <<< 112) = some true ∧
    lookupT (FUEL + 1) (fillT FUEL data) (0xB0 <<< 120) = some false ∧
    lookupF (fillF FUEL [Node.default] data 0) (FUEL + 1) 0 (0xA7FF <<< 112) = some true := by
  decide +kernel

/-- IPv4-mapped: `::ffff:192.168.0.0/104` is stored as `192.168.0.0/8`; a mapped address is
    canonicalised and lies in it, a near-mapped one is not canonicalised -/
example :
    subnetOfParsed (.v6 0xffffc0a80000) 104 = .ok ⟨.v4 0xc0a80000, 8⟩ ∧
    subnetOfParsed (.v6 0xffffc0a80000) 95 = .error .maskV4Range ∧
    subnetOfParsed (.v6 0xffffc0a80000) 129 = .error .mask ∧
    canonical (.v6 0xffffc0a80101) = .v4 0xc0a80101 ∧
    canonical (.v6 0xfffec0a80101) = .v6 0xfffec0a80101 ∧
    (0xc0a80101 / 2 ^ (32 - 8) = 0xc0a80000 / 2 ^ (32 - 8)) :=
  ⟨rfl, rfl, rfl, rfl, rfl, by decide⟩

end NtpVerif.C31

#print axioms NtpVerif.C31.full
#print axioms NtpVerif.C31.lookup_iff
#print axioms NtpVerif.C31.is_in_iff
#print axioms NtpVerif.C31.array_is_layout
#print axioms NtpVerif.C31.flat_eq_tree_proved
#print axioms NtpVerif.C31.lookup_iff_tree
#print axioms NtpVerif.C31.full_of_flat_eq_tree
#print axioms NtpVerif.C31.is_in_iff_tree
#print axioms NtpVerif.C31.parse_accepts_iff
#print axioms NtpVerif.C31.parse_result_fits
