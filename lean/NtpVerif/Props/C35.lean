/-
C35 — pool sources are distinct, bounded and respect the ignore list.

"A pool never has more active sources than its configured count [bounded], never has two active sources
for the same server address [distinct], and never creates a source for an ignored address [no_ignored],
whatever the DNS answers and the order in which sources are removed [∀ cfg, ∀ ops]."

Property theorems only (helper lemmas: `NtpVerif.Proofs.Pool`).  Model: `NtpVerif.Model.Pool`
(`PoolSpawner::{try_spawn, handle_source_removed, is_complete}` of ntpd/src/daemon/spawn/pool.rs WITH the
repair fixes/C35-pool-dedup-known-ips.patch).  All theorems quantify over every configuration (count,
ignore list) and every operation list from `PoolSpawner::new`: `try_spawn` with an arbitrary DNS answer
(any addresses, duplicates, overlaps, ignored ones, empty) or a resolver error, and removals of
arbitrary ids (active, already removed, never handed out) in any order.

  bounded            ↔ "never more active sources than its configured count"
  distinct           ↔ "never two active sources for the same server address"      (the FULL claim)
  no_ignored         ↔ "never creates a source for an ignored address" (about every SpawnEvent ever sent)
  active_is_current  : the model's `current` IS the observable "spawned and not yet removed" list, so the
                       three claims are statements about the SpawnEvent stream versus the removal events
  spawn_is_new       : event-level form of `distinct`: what one `try_spawn` sends is pairwise distinct and
                       distinct from everything active before the call
  ids_fresh          : ids of active sources are pairwise distinct (removal by id removes one source)
  complete_iff_full  : `is_complete()` ⇔ exactly `count` sources are active
  orig_counterexample: the code BEFORE the repair violates `distinct` (F-C35: DNS answer [A, A], count 2)
-/
import NtpVerif.Proofs.Pool

namespace NtpVerif.C35
open NtpVerif.Pool

/-- what can happen to a pool spawner -/
inductive Op where
  | spawn (dns : Option (List Addr))   -- `try_spawn`; `none` = the resolver returned an error
  | remove (id : Nat)                  -- `handle_source_removed` (any id, any reason)
deriving Repr

/-- one operation; the second component is the list of SpawnEvents sent -/
def stepWith (spawn : Cfg → Pool → Option (List Addr) → Pool × List Source) (cfg : Cfg) (p : Pool) :
    Op → Pool × List Source
  | .spawn dns => spawn cfg p dns
  | .remove id => (removed p id, [])

def runWith (spawn : Cfg → Pool → Option (List Addr) → Pool × List Source) (cfg : Cfg) (p : Pool) :
    List Op → Pool × List (List Source)
  | [] => (p, [])
  | op :: ops =>
    let r := stepWith spawn cfg p op
    let rs := runWith spawn cfg r.1 ops
    (rs.1, r.2 :: rs.2)

/-- the repaired code -/
def run (cfg : Cfg) (p : Pool) (ops : List Op) : Pool × List (List Source) := runWith trySpawn cfg p ops

/-- the observable view: sources announced by SpawnEvents and not removed since (what the harness
    oracle computes from the event stream alone) -/
def active (act : List Source) : List Op → List (List Source) → List Source
  | .spawn _ :: ops, ev :: evs => active (act ++ ev) ops evs
  | .remove id :: ops, _ :: evs => active (act.filter fun s => s.id != id) ops evs
  | _, _ => act

theorem run_inv (cfg : Cfg) (p : Pool) (ops : List Op) (h : Inv cfg p) : Inv cfg (run cfg p ops).1 := by
  induction ops generalizing p with
  | nil => exact h
  | cons op ops ih =>
    simp only [run, runWith]
    apply ih
    cases op with
    | spawn dns => exact inv_trySpawn cfg p dns h
    | remove id => exact inv_removed cfg p id h

/-- **C35.bounded** — after any operation list the pool has at most `count` active sources. -/
theorem bounded (cfg : Cfg) (ops : List Op) : (run cfg init ops).1.current.length ≤ cfg.count :=
  (run_inv cfg init ops (inv_init cfg)).bounded

/-- the FULL distinctness claim of the property -/
def Full : Prop := ∀ (cfg : Cfg) (ops : List Op), (addrs (run cfg init ops).1.current).Nodup

/-- **C35.distinct** — after any operation list no two active sources have the same socket address. -/
theorem distinct : Full := fun cfg ops => (run_inv cfg init ops (inv_init cfg)).distinct

/-- **C35.no_ignored** — no SpawnEvent ever sent carries an address whose ip is on the ignore list. -/
theorem no_ignored (cfg : Cfg) (ops : List Op) :
    ∀ evs ∈ (run cfg init ops).2, ∀ s ∈ evs, s.addr.ip ∉ cfg.ignore := by
  have key : ∀ (p : Pool), Inv cfg p → ∀ evs ∈ (run cfg p ops).2, ∀ s ∈ evs, s.addr.ip ∉ cfg.ignore := by
    induction ops with
    | nil => intro p _ evs h; cases h
    | cons op ops ih =>
      intro p hp evs hevs s hs
      simp only [run, runWith, List.mem_cons] at hevs
      have hstep : Inv cfg (stepWith trySpawn cfg p op).1 := by
        cases op with
        | spawn dns => exact inv_trySpawn cfg p dns hp
        | remove id => exact inv_removed cfg p id hp
      rcases hevs with rfl | hevs
      · cases op with
        | spawn dns =>
          have hcur := trySpawn_spawned cfg p dns
          exact hstep.curNotIgnored s (by
            show s ∈ (trySpawn cfg p dns).1.current
            rw [hcur]; exact List.mem_append_right _ hs)
        | remove id => cases hs
      · exact ih _ hstep evs hevs s hs
  exact key init (inv_init cfg)

/-- **C35.active_is_current** — the model's `current` equals the observable list "announced by a
    SpawnEvent and not removed since", for every operation list. -/
theorem active_is_current (cfg : Cfg) (ops : List Op) :
    active [] ops (run cfg init ops).2 = (run cfg init ops).1.current := by
  have key : ∀ (p : Pool), active p.current ops (run cfg p ops).2 = (run cfg p ops).1.current := by
    induction ops with
    | nil => intro p; rfl
    | cons op ops ih =>
      intro p
      cases op with
      | spawn dns =>
        simp only [run, runWith, stepWith, active]
        rw [← trySpawn_spawned cfg p dns]
        exact ih _
      | remove id =>
        simp only [run, runWith, stepWith, active]
        exact ih (removed p id)
  exact key init

/-- **C35.spawn_is_new** — in any reachable state, the addresses one `try_spawn` sends are pairwise
    distinct and none of them belongs to a source that was active before the call. -/
theorem spawn_is_new (cfg : Cfg) (ops : List Op) (dns : Option (List Addr)) :
    let p := (run cfg init ops).1
    (addrs (trySpawn cfg p dns).2).Nodup ∧ ∀ a ∈ addrs (trySpawn cfg p dns).2, a ∉ addrs p.current := by
  intro p
  have h := inv_trySpawn cfg p dns (run_inv cfg init ops (inv_init cfg))
  have hd := h.distinct
  rw [trySpawn_spawned] at hd
  simp only [addrs, List.map_append] at hd
  obtain ⟨_, h2, h3⟩ := List.nodup_append.mp hd
  exact ⟨h2, fun a ha hm => h3 a hm a ha rfl⟩

/-- **C35.ids_fresh** — ids of active sources are pairwise distinct. -/
theorem ids_fresh (cfg : Cfg) (ops : List Op) : (ids (run cfg init ops).1.current).Nodup :=
  (run_inv cfg init ops (inv_init cfg)).idsNodup

/-- **C35.complete_iff_full** — `is_complete()` holds exactly when `count` sources are active. -/
theorem complete_iff_full (cfg : Cfg) (ops : List Op) :
    isComplete cfg (run cfg init ops).1 = true ↔ (run cfg init ops).1.current.length = cfg.count := by
  have := bounded cfg ops
  simp only [isComplete, decide_eq_true_eq]
  omega

/-! #### the code before the repair (F-C35) -/

/-- `Full` for the unrepaired `try_spawn` (`known_ips.append(answer)`) -/
def FullOrig : Prop :=
  ∀ (cfg : Cfg) (ops : List Op), (addrs (runWith trySpawnOrig cfg init ops).1.current).Nodup

/-- **C35.orig_counterexample** — before the repair, the DNS answer `[A, A]` with `count = 2` yields two
    active sources for `A` (the witness replayed on the implementation as corpus case 0). -/
theorem orig_counterexample : ¬ FullOrig := by
  intro h
  have := h ⟨2, []⟩ [.spawn (some [⟨1, 123⟩, ⟨1, 123⟩])]
  revert this
  decide

/-- second witness: answer `[C, A, B, C]`, count 3; after one removal the left-over `C` is popped without
    any lookup although `C` is active (corpus case 1) -/
example : ¬ (addrs (runWith trySpawnOrig ⟨3, []⟩ init
    [.spawn (some [⟨3,123⟩, ⟨1,123⟩, ⟨2,123⟩, ⟨3,123⟩]), .remove 1, .spawn none]).1.current).Nodup := by
  decide

/-! #### non-vacuity -/

/-- the repaired code on the first witness: one source for `A`, pool stays incomplete -/
example : (run ⟨2, []⟩ init [.spawn (some [⟨1, 123⟩, ⟨1, 123⟩])]) =
    (⟨[⟨0, ⟨1, 123⟩⟩], [], 1⟩, [[⟨0, ⟨1, 123⟩⟩]]) := by decide

/-- a non-trivial run: duplicates, an ignored ip (4), same ip on another port, removal in the middle,
    a resolver error that still spawns from the known list, and a refill -/
example : (run ⟨2, [4]⟩ init
    [.spawn (some [⟨1,123⟩, ⟨2,123⟩, ⟨4,123⟩, ⟨2,124⟩, ⟨1,123⟩]), .remove 0, .spawn none, .remove 1,
     .spawn (some [⟨1,123⟩])]).2 =
    [[⟨0, ⟨2,124⟩⟩, ⟨1, ⟨2,123⟩⟩], [], [⟨2, ⟨1,123⟩⟩], [], []] := by decide

/-- the invariant is met by a non-empty state with left-over known addresses -/
example : Inv ⟨2, [4]⟩ ⟨[⟨0, ⟨2,124⟩⟩, ⟨1, ⟨2,123⟩⟩], [⟨1,123⟩], 2⟩ :=
  ⟨by decide, by decide, by decide, by decide, by decide, by decide, by decide, by decide⟩

end NtpVerif.C35

#print axioms NtpVerif.C35.bounded
#print axioms NtpVerif.C35.distinct
#print axioms NtpVerif.C35.no_ignored
#print axioms NtpVerif.C35.active_is_current
#print axioms NtpVerif.C35.spawn_is_new
#print axioms NtpVerif.C35.ids_fresh
#print axioms NtpVerif.C35.complete_iff_full
#print axioms NtpVerif.C35.orig_counterexample
