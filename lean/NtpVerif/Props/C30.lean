/-
C30 — NTS-KE messages are parsed totally, boundedly and round-trip.

Property text ↔ theorems (model: `Model/NtsRecord`, `Model/NtsMsg`; every parser returns its outcome
AND the number of bytes it consumed from the reader, also when it fails):

  "Parsing any byte stream as a key-exchange record, request or response terminates without panicking"
      The model parsers are total Lean functions whose only outcomes are a value or an `io::Error` /
      `NtsError` kind; record.rs / messages.rs contain no `unwrap`/index/assert on that path, the only
      panic candidates are the allocations `Vec::with_capacity(limit / 2)` and `vec![0; limit]`
      (inventory: tools/panic_sites_ntske.py), whose argument is bounded by
        `record_alloc_bounded`      the announced body size is ≤ 65535
      and the message loops, whose termination is
        `message_loops_terminate`   the record loop of `Request::parse` / `KeyExchangeResponse::parse`
                                    never exhausts its fuel (each accepted record consumes ≥ 4 bytes)
  "and never consumes more than 4096 bytes of a message"
        `record_parse_bounded`      one record: consumed ≤ available and ≤ 4 + 65535 (every outcome)
        `request_parse_bounded`     `Request::parse`: consumed ≤ 4096 and ≤ available (every outcome)
        `response_parse_bounded`    `KeyExchangeResponse::parse`: same
  "any record, request or response the parser accepts re-serialises to bytes that parse back to the
   same value"
        `record_roundtrip`, `request_roundtrip`, `response_roundtrip`:
            parse b = ok v  →  serialize v = some s ∧ |s| ≤ consumed ∧ ∀ rest, parse (s ++ rest) = (ok v, |s|)
        (re-serialising the re-parsed value gives `s` again because the value is the same).
-/
import NtpVerif.Model.NtsRecord
import NtpVerif.Model.NtsMsg
import NtpVerif.Proofs.NtsRecord
import NtpVerif.Proofs.NtsMsg

namespace NtpVerif.C30

open NtpVerif.NtsRecord NtpVerif.NtsMsg

/-- every allocation size in record.rs derives from the announced u16 body size -/
theorem record_alloc_bounded (s0 s1 : UInt8) : u16 s0 s1 ≤ 65535 := by
  have := u16_lt s0 s1; omega

theorem record_parse_bounded (inp : Bytes) :
    (parseRecord inp).2 ≤ inp.length ∧ (parseRecord inp).2 ≤ 4 + 65535 :=
  parseRecord_consumed inp

theorem request_parse_bounded (inp : Bytes) :
    (parseRequest inp).2 ≤ 4096 ∧ (parseRequest inp).2 ≤ inp.length := by
  unfold parseRequest
  simp only
  have h := recordLoop_consumed reqStep ((inp.take Gen.NTSKE_MAX_MESSAGE_SIZE).length + 1) {}
    (inp.take Gen.NTSKE_MAX_MESSAGE_SIZE) 0
  generalize recordLoop reqStep ((inp.take Gen.NTSKE_MAX_MESSAGE_SIZE).length + 1) {}
    (inp.take Gen.NTSKE_MAX_MESSAGE_SIZE) 0 = res at h
  obtain ⟨r, used⟩ := res
  simp only [List.length_take, Gen.NTSKE_MAX_MESSAGE_SIZE] at h
  cases r <;> simp only <;> omega

theorem response_parse_bounded (inp : Bytes) :
    (parseResponse inp).2 ≤ 4096 ∧ (parseResponse inp).2 ≤ inp.length := by
  unfold parseResponse
  simp only
  have h := recordLoop_consumed respStep ((inp.take Gen.NTSKE_MAX_MESSAGE_SIZE).length + 1) {}
    (inp.take Gen.NTSKE_MAX_MESSAGE_SIZE) 0
  generalize recordLoop respStep ((inp.take Gen.NTSKE_MAX_MESSAGE_SIZE).length + 1) {}
    (inp.take Gen.NTSKE_MAX_MESSAGE_SIZE) 0 = res at h
  obtain ⟨r, used⟩ := res
  simp only [List.length_take, Gen.NTSKE_MAX_MESSAGE_SIZE] at h
  cases r <;> simp only <;> omega

theorem message_loops_terminate (inp : Bytes) :
    (parseRequest inp).1 ≠ .error .fuel ∧ (parseResponse inp).1 ≠ .error .fuel := by
  constructor
  · unfold parseRequest
    simp only
    have h := recordLoop_never_fuel reqStep reqStep_not_fuel
      ((inp.take Gen.NTSKE_MAX_MESSAGE_SIZE).length + 1) {} (inp.take Gen.NTSKE_MAX_MESSAGE_SIZE) 0
      (Nat.lt_succ_self _)
    generalize recordLoop reqStep ((inp.take Gen.NTSKE_MAX_MESSAGE_SIZE).length + 1) {}
      (inp.take Gen.NTSKE_MAX_MESSAGE_SIZE) 0 = res at h
    obtain ⟨r, used⟩ := res
    cases r with
    | error e => simpa using h
    | ok s =>
      simp only
      unfold reqFinish
      repeat' split
      all_goals simp
  · unfold parseResponse
    simp only
    have h := recordLoop_never_fuel respStep respStep_not_fuel
      ((inp.take Gen.NTSKE_MAX_MESSAGE_SIZE).length + 1) {} (inp.take Gen.NTSKE_MAX_MESSAGE_SIZE) 0
      (Nat.lt_succ_self _)
    generalize recordLoop respStep ((inp.take Gen.NTSKE_MAX_MESSAGE_SIZE).length + 1) {}
      (inp.take Gen.NTSKE_MAX_MESSAGE_SIZE) 0 = res at h
    obtain ⟨r, used⟩ := res
    cases r with
    | error e => simpa using h
    | ok s =>
      simp only
      unfold respFinish
      split <;> simp

theorem record_roundtrip {inp : Bytes} {r : Record} {c : Nat} (h : parseRecord inp = (.ok r, c)) :
    ∃ s, serialize r = some s ∧ s.length ≤ c ∧ ∀ rest, parseRecord (s ++ rest) = (.ok r, s.length) := by
  obtain ⟨hv, h4, _⟩ := parseRecord_spec h
  refine ⟨_, serialize_valid hv, ?_, ?_⟩
  · simp [putU16, Record.body_length hv]; omega
  · intro rest
    have := parseRecord_serialize hv rest
    simp only [List.append_assoc] at this ⊢
    rw [this]
    simp [putU16, Record.body_length hv]; omega

theorem request_roundtrip {inp : Bytes} {q : Request} {c : Nat} (h : parseRequest inp = (.ok q, c)) :
    ∃ s, serializeRequest q = some s ∧ s.length ≤ c ∧
      ∀ rest, parseRequest (s ++ rest) = (.ok q, s.length) := by
  obtain ⟨hv, hl, hc⟩ := parseRequest_spec h
  have hwl := wire_length _ hv.1
  refine ⟨wire q.records, serializeAll_valid _ hv.1, by omega, ?_⟩
  intro rest
  rw [hwl]
  exact parseRequest_wire hv (by omega) rest

theorem response_roundtrip {inp : Bytes} {q : Response} {c : Nat} (h : parseResponse inp = (.ok q, c)) :
    ∃ s, serializeResponse q = some s ∧ s.length ≤ c ∧
      ∀ rest, parseResponse (s ++ rest) = (.ok q, s.length) := by
  obtain ⟨hv, hl, hc⟩ := parseResponse_spec h
  have hwl := wire_length _ hv.1
  refine ⟨wire q.records, serializeAll_valid _ hv.1, by omega, ?_⟩
  intro rest
  rw [hwl]
  exact parseResponse_wire hv (by omega) rest

/-! ### non-vacuity: the hypotheses `parse … = (ok …)` are met by concrete non-trivial inputs -/

deriving instance DecidableEq for Except

/-- a critical-flagged NextProtocol record [NTPv5-draft, NTPv4] followed by other bytes -/
example : parseRecord [0x80, 1, 0, 4, 0x80, 1, 0, 0, 0xff] =
    (.ok (.nextProtocol [.draftNtpv5, .ntpv4]), 8) := by decide +kernel

/-- an unknown non-critical record re-serialises with its type and flag -/
example : parseRecord [0, 11, 0, 1, 9] = (.ok (.unknown 11 false [9]), 5) := by decide +kernel

/-- a key-exchange request: AEAD list, protocol list, end of message (+ trailing garbage not consumed) -/
example : parseRequest [0x80, 4, 0, 2, 0, 15, 0x80, 1, 0, 2, 0, 0, 0x80, 0, 0, 0, 7, 7] =
    (.ok (.keyExchange [.siv256] [.ntpv4] []), 16) := by decide +kernel

/-- a response with one cookie and a port -/
example : parseResponse [0x80, 1, 0, 2, 0x80, 1, 0x80, 4, 0, 2, 0, 17, 0, 5, 0, 2, 1, 2,
      0x80, 7, 0, 2, 0, 123, 0x80, 0, 0, 0] =
    (.ok { protocol := .draftNtpv5, algorithm := .siv512, cookies := [[1, 2]], server := none,
           port := some 123, keepAlive := false }, 28) := by decide +kernel

/-- the default NTP port is a value like any other: `some 123` and `none` are different responses with
    different serialisations, and the serialisation of `some 123` carries the Port record -/
example :
    serializeResponse { protocol := .ntpv4, algorithm := .siv256, cookies := [[1]], server := none,
                        port := some 123, keepAlive := false } =
      some [0x80, 1, 0, 2, 0, 0, 0x80, 4, 0, 2, 0, 15, 0, 5, 0, 1, 1, 0x80, 7, 0, 2, 0, 123, 0x80, 0, 0, 0] ∧
    serializeResponse { protocol := .ntpv4, algorithm := .siv256, cookies := [[1]], server := none,
                        port := none, keepAlive := false } =
      some [0x80, 1, 0, 2, 0, 0, 0x80, 4, 0, 2, 0, 15, 0, 5, 0, 1, 1, 0x80, 0, 0, 0] := by decide +kernel

/-- hypothesis of `response_roundtrip` with the boundary values: port 123 and an empty (but present) server name -/
example : parseResponse [0x80, 1, 0, 2, 0, 0, 0x80, 4, 0, 2, 0, 15, 0, 5, 0, 1, 1, 0x80, 6, 0, 0,
      0x80, 7, 0, 2, 0, 123, 0x80, 0, 0, 0] =
    (.ok { protocol := .ntpv4, algorithm := .siv256, cookies := [[1]], server := some [],
           port := some 123, keepAlive := false }, 31) := by decide +kernel

/-- errors consume what they read: a body cut short -/
example : parseRecord [0, 5, 0, 3, 1, 2] = (.error .unexpectedEof, 6) := by decide +kernel

end NtpVerif.C30

#print axioms NtpVerif.C30.record_alloc_bounded
#print axioms NtpVerif.C30.record_parse_bounded
#print axioms NtpVerif.C30.request_parse_bounded
#print axioms NtpVerif.C30.response_parse_bounded
#print axioms NtpVerif.C30.message_loops_terminate
#print axioms NtpVerif.C30.record_roundtrip
#print axioms NtpVerif.C30.request_roundtrip
#print axioms NtpVerif.C30.response_roundtrip
