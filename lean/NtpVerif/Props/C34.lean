/-
C34 — NTPv5 Bloom filters are transferred faithfully.

Model: `NtpVerif.Model.Bloom` (`BloomFilter`, `RemoteBloomFilter`, `ReferenceIdRequest::{new,decode,to_response}`).

Property sentence                                                   theorem
 "A client that has received answers to all its reference-id          full_means_equal  (if it reports a full filter,
  chunk requests holds exactly the server's 512-byte Bloom filter"      it IS the server's) + full_after_all_chunks
                                                                       (after 512/chunk accepted answers it is full)
 "chunks are accepted only for the request currently outstanding      client_accepts_only_current
  and of the requested size"
 "A filter reports membership for every server id added to it         no_false_negative_add_id, no_false_negative_kept,
  (no false negatives)"                                                no_false_negative_add, no_false_negative_union
 "the server answers each chunk request with exactly the              server_chunk, server_chunk_none_iff
  requested bytes or not at all"
 … also in the second and every later round, when the server's       full_means_equal_rounds, round_complete_equal
  filter changed between complete rounds                               (ghost: server's current / last-round filter)
 valid chunk sizes are exactly 4, 8, …, 512                            valid_chunk_sizes
 `next_request`'s `expect` and `handle_response`'s slices never fail    client_never_panics

Quantifiers: every valid chunk size, every operation list (interleaving of `next_request`, and
`handle_response` with arbitrary cookies and arbitrary bytes), every server filter `F` of 512 bytes.
Hypothesis of `full_means_equal` (`HonestRun`): an answer that carries the cookie of the outstanding
request and has the requested length carries the server's bytes for THAT request.  The response field has
no offset of its own, so this is exactly what the cookie is for; answers with any other cookie or length
(stale, mismatched, garbage) are unrestricted.  `full_means_equal` is for one fixed `F`;
`full_means_equal_rounds` / `round_complete_equal` let the server's filter change BETWEEN complete rounds
(`GValid`: only while `next_to_request = 0`).  A server whose filter changes DURING a round yields a
mixture — outside the claim (the mixture is characterised exactly by `full_means_equal_rounds`).
-/
import NtpVerif.Proofs.Bloom

namespace NtpVerif.C34
open NtpVerif.Bloom

/-! #### no false negatives -/

/-- **C34.no_false_negative_add_id** — adding an id (any list of 12-bit indices) to a 512-byte filter
    succeeds (no index panic) and the filter then reports the id as contained. -/
theorem no_false_negative_add_id (f : Filter) (id : ServerId) (hf : f.length = 512)
    (hid : ∀ idx ∈ id, idx < 4096) :
    ∃ f', addId f id = some f' ∧ f'.length = 512 ∧ containsId f' id = some true := by
  obtain ⟨f', h1, hle, hhas⟩ := addId_some f id (by intro idx h; have := hid idx h; omega)
  exact ⟨f', h1, by rw [← hle.1, hf], (containsId_true_iff f' id).mpr hhas⟩

/-- **C34.no_false_negative_kept** — ids already contained stay contained when another id is added. -/
theorem no_false_negative_kept (f f' : Filter) (id other : ServerId)
    (h : containsId f id = some true) (ha : addId f other = some f') (hf : f.length = 512)
    (hid : ∀ idx ∈ other, idx < 4096) :
    containsId f' id = some true := by
  obtain ⟨f'', h1, hle, _⟩ := addId_some f other (by intro idx h; have := hid idx h; omega)
  rw [h1] at ha; cases ha
  rw [containsId_true_iff] at h ⊢
  exact fun idx hidx => hle.2 idx (h idx hidx)

/-- **C34.no_false_negative_add** — `add` (byte-wise or) keeps the members of both operands. -/
theorem no_false_negative_add (f g : Filter) (id : ServerId) (hl : f.length = g.length)
    (h : containsId f id = some true ∨ containsId g id = some true) :
    containsId (add f g) id = some true := by
  rw [containsId_true_iff]
  rcases h with h | h
  · rw [containsId_true_iff] at h
    exact fun idx hidx => (le_add_left f g hl).2 idx (h idx hidx)
  · rw [containsId_true_iff] at h
    exact fun idx hidx => (le_add_right f g hl).2 idx (h idx hidx)

/-- **C34.no_false_negative_union** — the union of any list of 512-byte filters contains every id that one
    of them contains. -/
theorem no_false_negative_union (gs : List Filter) (g : Filter) (id : ServerId)
    (hl : ∀ g ∈ gs, g.length = 512) (hg : g ∈ gs) (h : containsId g id = some true) :
    containsId (union gs) id = some true := by
  rw [containsId_true_iff] at h ⊢
  have := (foldl_add_le Filter.new gs (by
    intro g' hg'; rw [hl g' hg', Filter.new_length])).2 g hg
  exact fun idx hidx => this.2 idx (h idx hidx)

/-! #### the server side -/

/-- **C34.server_chunk** — an answer, when given, is exactly the requested bytes
    `F[offset .. offset + payload_len]`. -/
theorem server_chunk (r : Request) (F : Filter) (bytes : List UInt8) (h : toResponse r F = some bytes) :
    bytes = (F.drop r.offset).take r.payloadLen ∧ bytes.length = r.payloadLen ∧
      r.offset + r.payloadLen ≤ F.length ∧
      ∀ i, i < r.payloadLen → bytes[i]? = F[r.offset + i]? := by
  unfold toResponse at h
  split at h
  · rename_i h1
    simp only [List.length_drop] at h
    split at h
    · rename_i h2
      cases h
      refine ⟨rfl, by rw [List.length_take, List.length_drop]; omega, by omega, ?_⟩
      intro i hi
      rw [List.getElem?_take_of_lt hi, List.getElem?_drop]
    · cases h
  · cases h

/-- **C34.server_chunk_none_iff** — no answer exactly when the requested range leaves the filter. -/
theorem server_chunk_none_iff (r : Request) (F : Filter) :
    toResponse r F = none ↔ F.length < r.offset + r.payloadLen := by
  unfold toResponse
  simp only [List.length_drop]
  split
  · split
    · simp; omega
    · simp; omega
  · simp; omega

/-! #### the client side -/

/-- **C34.valid_chunk_sizes** — `RemoteBloomFilter::new` accepts exactly 4, 8, 16, …, 512. -/
theorem valid_chunk_sizes (c : Nat) :
    (Remote.new? c).isSome = true ↔ c ∈ [4, 8, 16, 32, 64, 128, 256, 512] := by
  by_cases hc : c ≤ 512
  · have : ∀ c : Fin 513, (Remote.new? c.val).isSome = true ↔ c.val ∈ [4, 8, 16, 32, 64, 128, 256, 512] := by
      decide +kernel
    exact this ⟨c, by omega⟩
  · have h1 : Remote.new? c = none := by
      unfold Remote.new?
      split
      · rfl
      · split
        · rfl
        · omega
    rw [h1]
    simp only [Option.isSome_none, Bool.false_eq_true, false_iff, List.mem_cons, List.not_mem_nil,
      or_false]
    omega

/-- **C34.client_accepts_only_current** — `handle_response` changes the client's state only when a
    request is outstanding, the cookie is that request's cookie and the answer has the chunk size;
    otherwise the state is untouched and an error is returned. -/
theorem client_accepts_only_current (r : Remote) (cookie : Cookie) (bytes : List UInt8) :
    ((handleResponse r cookie bytes).2 = .ok →
        ∃ off, r.last = some (off, cookie) ∧ bytes.length = r.chunk) ∧
    ((handleResponse r cookie bytes).2 ≠ .ok → (handleResponse r cookie bytes).1 = r) := by
  unfold handleResponse
  split
  · simp
  · rename_i off expected hl
    split
    · simp
    · rename_i hc
      split
      · simp
      · rename_i hlen
        split
        · simp
        · simp only [forall_const, ne_eq, not_true_eq_false, false_implies, and_true]
          simp only [ne_eq, Decidable.not_not] at hc hlen
          exact ⟨off, by rw [hc]; exact hl, hlen⟩

/-- operations on the client's filter -/
inductive Op where
  | next (cookie : Cookie)                        -- `next_request(cookie)`
  | resp (cookie : Cookie) (bytes : List UInt8)   -- `handle_response(cookie, bytes)`
deriving Repr

inductive Obs where
  | req (o : ReqOut)
  | resp (o : RespOut)
deriving Repr, DecidableEq

def step (r : Remote) : Op → Remote × Obs
  | .next c => let (r', o) := nextRequest r c; (r', .req o)
  | .resp c b => let (r', o) := handleResponse r c b; (r', .resp o)

def run (r : Remote) : List Op → Remote × List Obs
  | [] => (r, [])
  | op :: ops =>
    let (r', o) := step r op
    let (r'', os) := run r' ops
    (r'', o :: os)

/-- an answer carrying the outstanding request's cookie and the requested length carries the server's
    bytes for that request -/
def Honest (F : Filter) (r : Remote) : Op → Prop
  | .next _ => True
  | .resp c b => ∀ off, r.last = some (off, c) → b.length = r.chunk → b = (F.drop off).take r.chunk

def HonestRun (F : Filter) (r : Remote) : List Op → Prop
  | [] => True
  | op :: ops => Honest F r op ∧ HonestRun F (step r op).1 ops

/-- number of accepted answers in a history -/
def accepted (r : Remote) : List Op → Nat
  | [] => 0
  | op :: ops => (if (step r op).2 = .resp .ok then 1 else 0) + accepted (step r op).1 ops

/-- the invariant: bytes `[0, next)` of the local filter equal the server's; all of them once filled;
    `acc` = number of accepted answers so far -/
structure Inv (F : Filter) (r : Remote) (acc : Nat) : Prop where
  lenF : F.length = 512
  lenf : r.filter.length = 512
  chunk : r.chunk ∈ [4, 8, 16, 32, 64, 128, 256, 512]
  aligned : r.next % r.chunk = 0
  bound : r.next < 512
  last : ∀ off c, r.last = some (off, c) → off = r.next
  pre : r.filter.take r.next = F.take r.next
  full : r.filled = true → r.filter = F
  count : r.filled = false → r.next = r.chunk * acc

theorem inv_new (F : Filter) (hF : F.length = 512) (c : Nat) (r : Remote) (h : Remote.new? c = some r) :
    Inv F r 0 := by
  have hv := (valid_chunk_sizes c).mp (by rw [h]; rfl)
  unfold Remote.new? at h
  split at h
  · cases h
  · split at h
    · cases h
    · split at h
      · cases h
      · cases h
        refine ⟨hF, Filter.new_length, hv, ?_, ?_, ?_, ?_, ?_, ?_⟩ <;> simp

theorem chunk_fits {n c : Nat} (hc : c ∈ [4, 8, 16, 32, 64, 128, 256, 512]) (ha : n % c = 0)
    (hb : n < 512) : n + c ≤ 512 ∧ c % 4 = 0 ∧ 0 < c := by
  simp only [List.mem_cons, List.not_mem_nil, or_false] at hc
  rcases hc with rfl | rfl | rfl | rfl | rfl | rfl | rfl | rfl <;> omega

theorem inv_step (F : Filter) (r : Remote) (acc : Nat) (op : Op) (hi : Inv F r acc) (hh : Honest F r op) :
    Inv F (step r op).1 (acc + if (step r op).2 = .resp .ok then 1 else 0) ∧
    (step r op).2 ≠ .req .panic ∧ (step r op).2 ≠ .resp .panic := by
  obtain ⟨hfit, h4, hpos⟩ := chunk_fits hi.chunk hi.aligned hi.bound
  cases op with
  | next c =>
    have hnew : Request.new? r.chunk r.next = .some ⟨r.chunk, r.next⟩ := by
      unfold Request.new?
      rw [if_neg (by omega), if_neg (by omega), if_neg (by omega)]
    simp only [step, nextRequest, hnew]
    refine ⟨?_, by simp, by simp⟩
    simp only [reduceCtorEq, if_false, Nat.add_zero]
    exact ⟨hi.lenF, hi.lenf, hi.chunk, hi.aligned, hi.bound,
      by intro off c' h; simp only [Option.some.injEq, Prod.mk.injEq] at h; exact h.1.symm,
      hi.pre, hi.full, hi.count⟩
  | resp c b =>
    simp only [step, handleResponse]
    split
    · -- not awaiting
      simp only [reduceCtorEq, if_false, Nat.add_zero, ne_eq, not_false_eq_true, and_true, Obs.resp.injEq]
      exact hi
    · rename_i off expected hl
      have hoff : off = r.next := hi.last off expected hl
      subst hoff
      split
      · simp only [Obs.resp.injEq, reduceCtorEq, if_false, Nat.add_zero, ne_eq, not_false_eq_true, and_true]
        exact hi
      · rename_i hc
        split
        · simp only [Obs.resp.injEq, reduceCtorEq, if_false, Nat.add_zero, ne_eq, not_false_eq_true, and_true]
          exact hi
        · rename_i hlen
          simp only [ne_eq, Decidable.not_not] at hc hlen
          have hnp : ¬ (r.next > r.filter.length ∨ r.chunk > r.filter.length - r.next) := by
            rw [hi.lenf]; omega
          rw [if_neg hnp]
          simp only [if_true, ne_eq, reduceCtorEq, not_false_eq_true, Obs.resp.injEq, and_true]
          -- the accepted answer carries the server's bytes
          have hb : b = (F.drop r.next).take r.chunk := hh r.next (by rw [hl, hc]) hlen
          have hlenf' : (r.filter.take r.next ++ b ++ r.filter.drop (r.next + r.chunk)).length = 512 := by
            simp only [List.length_append, List.length_take, List.length_drop, hlen, hi.lenf]; omega
          have htake := take_splice r.filter F b r.next r.chunk (by rw [hi.lenf]; omega) hb hi.pre
            (by rw [hi.lenF]; exact hfit)
          have hres : ({ (advance { r with filter := r.filter.take r.next ++ b ++ r.filter.drop (r.next + r.chunk) })
                with last := none } : Remote) =
              ⟨r.filter.take r.next ++ b ++ r.filter.drop (r.next + r.chunk), r.chunk, none,
                (r.next + r.chunk) % 512, if (r.next + r.chunk) % 512 = 0 then true else r.filled⟩ := rfl
          rw [hres]
          by_cases hwrap : r.next + r.chunk = 512
          · -- last chunk of a round: the filter is complete
            have hz : (r.next + r.chunk) % 512 = 0 := by rw [hwrap]
            have heq : r.filter.take r.next ++ b ++ r.filter.drop (r.next + r.chunk) = F := by
              have e1 : List.take (r.next + r.chunk)
                  (r.filter.take r.next ++ b ++ r.filter.drop (r.next + r.chunk)) =
                  r.filter.take r.next ++ b ++ r.filter.drop (r.next + r.chunk) :=
                List.take_of_length_le (by rw [hlenf']; omega)
              have e2 : List.take (r.next + r.chunk) F = F :=
                List.take_of_length_le (by rw [hi.lenF]; omega)
              rw [← e1, htake, e2]
            simp only [hz, if_true, heq]
            exact ⟨hi.lenF, hi.lenF, hi.chunk, by simp, by simp, by simp, by simp, by simp, by simp⟩
          · have hlt : r.next + r.chunk < 512 := by omega
            have hm : (r.next + r.chunk) % 512 = r.next + r.chunk := Nat.mod_eq_of_lt hlt
            have hnz : ¬ (r.next + r.chunk = 0) := by omega
            simp only [hm, hnz, if_false]
            refine ⟨hi.lenF, hlenf', hi.chunk, ?_, hlt, by simp, htake, ?_, ?_⟩
            · show (r.next + r.chunk) % r.chunk = 0
              rw [Nat.add_mod, hi.aligned, Nat.mod_self]; simp
            · intro hfl
              have := hi.full hfl
              show r.filter.take r.next ++ b ++ r.filter.drop (r.next + r.chunk) = F
              rw [hb, this]
              exact splice_self F r.next r.chunk
            · intro hfl
              show r.next + r.chunk = r.chunk * (acc + 1)
              rw [hi.count hfl, Nat.mul_add, Nat.mul_one]

theorem inv_run (F : Filter) (r : Remote) (acc : Nat) (ops : List Op) (hi : Inv F r acc)
    (hh : HonestRun F r ops) :
    Inv F (run r ops).1 (acc + accepted r ops) ∧
    ∀ o ∈ (run r ops).2, o ≠ .req .panic ∧ o ≠ .resp .panic := by
  induction ops generalizing r acc with
  | nil => exact ⟨by simpa [run, accepted] using hi, by simp [run]⟩
  | cons op ops ih =>
    obtain ⟨h1, h2, h3⟩ := inv_step F r acc op hi hh.1
    obtain ⟨i1, i2⟩ := ih (step r op).1 _ h1 hh.2
    simp only [run, accepted]
    refine ⟨by rw [← Nat.add_assoc]; exact i1, ?_⟩
    intro o ho
    simp only [List.mem_cons] at ho
    rcases ho with rfl | ho
    · exact ⟨h2, h3⟩
    · exact i2 o ho

/-- **C34.full_means_equal** — for every valid chunk size, every 512-byte server filter `F` and every
    honest history: whenever the client reports a full filter, it is exactly `F`. -/
theorem full_means_equal (F : Filter) (hF : F.length = 512) (c : Nat) (r0 : Remote)
    (h0 : Remote.new? c = some r0) (ops : List Op) (hh : HonestRun F r0 ops) (g : Filter)
    (hg : fullFilter (run r0 ops).1 = some g) : g = F := by
  have hi := (inv_run F r0 0 ops (inv_new F hF c r0 h0) hh).1
  unfold fullFilter at hg
  split at hg
  · rename_i hf
    cases hg
    exact hi.full hf
  · cases hg

/-- **C34.full_after_all_chunks** — once `512 / chunk` answers have been accepted, the client reports a
    full filter (which by `full_means_equal` is the server's). -/
theorem full_after_all_chunks (F : Filter) (hF : F.length = 512) (c : Nat) (r0 : Remote)
    (h0 : Remote.new? c = some r0) (ops : List Op) (hh : HonestRun F r0 ops)
    (hn : 512 ≤ c * accepted r0 ops) :
    fullFilter (run r0 ops).1 = some F := by
  have hi := (inv_run F r0 0 ops (inv_new F hF c r0 h0) hh).1
  have hc : (run r0 ops).1.chunk = c := by
    have : ∀ (r : Remote) (ops : List Op), (run r ops).1.chunk = r.chunk := by
      intro r ops
      induction ops generalizing r with
      | nil => rfl
      | cons op ops ih =>
        simp only [run]
        rw [ih]
        cases op with
        | next c => simp only [step, nextRequest]; split <;> rfl
        | resp c b =>
          simp only [step, handleResponse]
          split
          · rfl
          · split
            · rfl
            · split
              · rfl
              · split <;> rfl
    rw [this]
    unfold Remote.new? at h0
    split at h0
    · cases h0
    · split at h0
      · cases h0
      · split at h0
        · cases h0
        · cases h0; rfl
  have hfilled : (run r0 ops).1.filled = true := by
    cases hf : (run r0 ops).1.filled
    · have h1 := hi.count hf
      have h2 := hi.bound
      rw [hc, Nat.zero_add] at h1
      omega
    · rfl
  unfold fullFilter
  rw [if_pos hfilled, hi.full hfilled]

/-- **C34.client_never_panics** — in every honest history from a valid chunk size, `next_request`'s
    `expect` and `handle_response`'s slice indexing never fail. -/
theorem client_never_panics (F : Filter) (hF : F.length = 512) (c : Nat) (r0 : Remote)
    (h0 : Remote.new? c = some r0) (ops : List Op) (hh : HonestRun F r0 ops) :
    ∀ o ∈ (run r0 ops).2, o ≠ .req .panic ∧ o ≠ .resp .panic :=
  (inv_run F r0 0 ops (inv_new F hF c r0 h0) hh).2

/-! #### later rounds: the server's filter may change BETWEEN complete rounds -/

/-- a history in which the server's filter changes: client operations interleaved with server changes -/
inductive GOp where
  | client (o : Op)
  | server (F' : Filter)      -- the server now holds `F'`
deriving Repr

/-- client state plus two ghost values: the server's current filter, and the server's filter as of the
    last round the client completed -/
structure GSt where
  r : Remote
  F : Filter
  Flast : Filter

def gstep (s : GSt) : GOp → GSt
  | .client o =>
    let r' := (step s.r o).1
    -- an accepted answer that wraps `next_to_request` to 0 completes a round
    ⟨r', s.F, if (step s.r o).2 = .resp .ok ∧ r'.next = 0 then s.F else s.Flast⟩
  | .server F' => ⟨s.r, F', s.Flast⟩

def grun (s : GSt) : List GOp → GSt
  | [] => s
  | op :: ops => grun (gstep s op) ops

/-- client answers are honest w.r.t. the server's CURRENT filter; the server changes its filter only
    between complete rounds (no chunk of the current round accepted yet), never during one -/
def GValid (s : GSt) : GOp → Prop
  | .client o => Honest s.F s.r o
  | .server F' => s.r.next = 0 ∧ F'.length = 512

def GValidRun (s : GSt) : List GOp → Prop
  | [] => True
  | op :: ops => GValid s op ∧ GValidRun (gstep s op) ops

/-- invariant with a changing server: bytes `[0, next)` come from the current filter, and once filled
    the bytes `[next, 512)` are those of the last completed round -/
structure GInv (s : GSt) : Prop where
  lenF : s.F.length = 512
  lenf : s.r.filter.length = 512
  chunk : s.r.chunk ∈ [4, 8, 16, 32, 64, 128, 256, 512]
  aligned : s.r.next % s.r.chunk = 0
  bound : s.r.next < 512
  last : ∀ off c, s.r.last = some (off, c) → off = s.r.next
  pre : s.r.filter.take s.r.next = s.F.take s.r.next
  rest : s.r.filled = true → s.r.filter.drop s.r.next = s.Flast.drop s.r.next

theorem drop_splice (f b : List UInt8) (n c : Nat) (hn : n ≤ f.length) (hb : b.length = c) :
    (f.take n ++ b ++ f.drop (n + c)).drop (n + c) = f.drop (n + c) := by
  have h1 : (f.take n ++ b).length = n + c := by
    rw [List.length_append, List.length_take, hb]; omega
  rw [← h1, List.drop_left]

theorem ginv_step (s : GSt) (op : GOp) (hi : GInv s) (hv : GValid s op) : GInv (gstep s op) := by
  obtain ⟨hfit, h4, hpos⟩ := chunk_fits hi.chunk hi.aligned hi.bound
  cases op with
  | server F' =>
    obtain ⟨hn, hl⟩ := hv
    exact ⟨hl, hi.lenf, hi.chunk, hi.aligned, hi.bound, hi.last,
      by show s.r.filter.take s.r.next = F'.take s.r.next; rw [hn]; rfl, hi.rest⟩
  | client o =>
    cases o with
    | next c =>
      have hnew : Request.new? s.r.chunk s.r.next = .some ⟨s.r.chunk, s.r.next⟩ := by
        unfold Request.new?
        rw [if_neg (by omega), if_neg (by omega), if_neg (by omega)]
      simp only [gstep, step, nextRequest, hnew, reduceCtorEq, false_and, if_false]
      exact ⟨hi.lenF, hi.lenf, hi.chunk, hi.aligned, hi.bound,
        by intro off c' h; simp only [Option.some.injEq, Prod.mk.injEq] at h; exact h.1.symm,
        hi.pre, hi.rest⟩
    | resp c b =>
      have hh : Honest s.F s.r (.resp c b) := hv
      simp only [gstep, step, handleResponse]
      split
      · simp only [reduceCtorEq, Obs.resp.injEq, false_and, if_false]
        exact hi
      · rename_i off expected hl
        have hoff : off = s.r.next := hi.last off expected hl
        subst hoff
        split
        · simp only [Obs.resp.injEq, reduceCtorEq, false_and, if_false]
          exact hi
        · rename_i hc
          split
          · simp only [Obs.resp.injEq, reduceCtorEq, false_and, if_false]
            exact hi
          · rename_i hlen
            simp only [ne_eq, Decidable.not_not] at hc hlen
            have hnp : ¬ (s.r.next > s.r.filter.length ∨ s.r.chunk > s.r.filter.length - s.r.next) := by
              rw [hi.lenf]; omega
            rw [if_neg hnp]
            have hb : b = (s.F.drop s.r.next).take s.r.chunk := hh s.r.next (by rw [hl, hc]) hlen
            have hlenf' : (s.r.filter.take s.r.next ++ b ++ s.r.filter.drop (s.r.next + s.r.chunk)).length
                = 512 := by
              simp only [List.length_append, List.length_take, List.length_drop, hlen, hi.lenf]; omega
            have htake := take_splice s.r.filter s.F b s.r.next s.r.chunk (by rw [hi.lenf]; omega) hb hi.pre
              (by rw [hi.lenF]; exact hfit)
            have hdrop := drop_splice s.r.filter b s.r.next s.r.chunk (by rw [hi.lenf]; omega) hlen
            simp only [advance_eq, true_and]
            by_cases hwrap : s.r.next + s.r.chunk = 512
            · have hz : (s.r.next + s.r.chunk) % 512 = 0 := by rw [hwrap]
              have heq : s.r.filter.take s.r.next ++ b ++ s.r.filter.drop (s.r.next + s.r.chunk) = s.F := by
                have e1 : List.take (s.r.next + s.r.chunk)
                    (s.r.filter.take s.r.next ++ b ++ s.r.filter.drop (s.r.next + s.r.chunk)) =
                    s.r.filter.take s.r.next ++ b ++ s.r.filter.drop (s.r.next + s.r.chunk) :=
                  List.take_of_length_le (by rw [hlenf']; omega)
                have e2 : List.take (s.r.next + s.r.chunk) s.F = s.F :=
                  List.take_of_length_le (by rw [hi.lenF]; omega)
                rw [← e1, htake, e2]
              simp only [hz, if_true, heq]
              exact ⟨hi.lenF, hi.lenF, hi.chunk, by simp, by simp, by simp, by simp, by simp⟩
            · have hlt : s.r.next + s.r.chunk < 512 := by omega
              have hm : (s.r.next + s.r.chunk) % 512 = s.r.next + s.r.chunk := Nat.mod_eq_of_lt hlt
              have hnz : ¬ (s.r.next + s.r.chunk = 0) := by omega
              simp only [hm, hnz, if_false]
              refine ⟨hi.lenF, hlenf', hi.chunk, ?_, hlt, by simp, htake, ?_⟩
              · show (s.r.next + s.r.chunk) % s.r.chunk = 0
                rw [Nat.add_mod, hi.aligned, Nat.mod_self]; simp
              · intro hfl
                show (s.r.filter.take s.r.next ++ b ++ s.r.filter.drop (s.r.next + s.r.chunk)).drop
                  (s.r.next + s.r.chunk) = s.Flast.drop (s.r.next + s.r.chunk)
                rw [hdrop, ← List.drop_drop, ← List.drop_drop, hi.rest hfl]

theorem ginv_run (s : GSt) (ops : List GOp) (hi : GInv s) (hv : GValidRun s ops) : GInv (grun s ops) := by
  induction ops generalizing s with
  | nil => exact hi
  | cons op ops ih => exact ih _ (ginv_step s op hi hv.1) hv.2

theorem ginv_new (F : Filter) (hF : F.length = 512) (c : Nat) (r : Remote) (h : Remote.new? c = some r) :
    GInv ⟨r, F, F⟩ := by
  have hi := inv_new F hF c r h
  refine ⟨hi.lenF, hi.lenf, hi.chunk, hi.aligned, hi.bound, hi.last, hi.pre, ?_⟩
  intro hfl
  have := hi.count
  unfold Remote.new? at h
  split at h
  · cases h
  · split at h
    · cases h
    · split at h
      · cases h
      · cases h; cases hfl

/-- **C34.full_means_equal_rounds** — every valid chunk size, every history in which the server's filter
    changes only between complete rounds and answers are honest w.r.t. the filter current at the time:
    whenever the client reports a full filter at a round boundary (`next_to_request = 0`), it is exactly
    the server's filter as of the last completed round — also in the second and every later round.
    (In the middle of a refresh round the reported filter is, byte for byte, the new filter up to `next`
    and the previous round's filter after it.) -/
theorem full_means_equal_rounds (F0 : Filter) (hF : F0.length = 512) (c : Nat) (r0 : Remote)
    (h0 : Remote.new? c = some r0) (ops : List GOp) (hv : GValidRun ⟨r0, F0, F0⟩ ops) (g : Filter)
    (hg : fullFilter (grun ⟨r0, F0, F0⟩ ops).r = some g) :
    g = (grun ⟨r0, F0, F0⟩ ops).F.take (grun ⟨r0, F0, F0⟩ ops).r.next ++
        (grun ⟨r0, F0, F0⟩ ops).Flast.drop (grun ⟨r0, F0, F0⟩ ops).r.next ∧
    ((grun ⟨r0, F0, F0⟩ ops).r.next = 0 → g = (grun ⟨r0, F0, F0⟩ ops).Flast) := by
  have hi := ginv_run _ ops (ginv_new F0 hF c r0 h0) hv
  unfold fullFilter at hg
  split at hg
  · rename_i hf
    cases hg
    have hmix : (grun ⟨r0, F0, F0⟩ ops).r.filter =
        (grun ⟨r0, F0, F0⟩ ops).F.take (grun ⟨r0, F0, F0⟩ ops).r.next ++
        (grun ⟨r0, F0, F0⟩ ops).Flast.drop (grun ⟨r0, F0, F0⟩ ops).r.next := by
      rw [← hi.pre, ← hi.rest hf, List.take_append_drop]
    refine ⟨hmix, ?_⟩
    intro hn
    rw [hmix, hn]; simp
  · cases hg

/-- **C34.round_complete_equal** — the moment an accepted answer completes a round (first or later), the
    client reports exactly the server's current filter. -/
theorem round_complete_equal (F0 : Filter) (hF : F0.length = 512) (c : Nat) (r0 : Remote)
    (h0 : Remote.new? c = some r0) (ops : List GOp) (ck : Cookie) (b : List UInt8)
    (hv : GValidRun ⟨r0, F0, F0⟩ (ops ++ [.client (.resp ck b)]))
    (hok : (step (grun ⟨r0, F0, F0⟩ ops).r (.resp ck b)).2 = .resp .ok)
    (hwrap : (step (grun ⟨r0, F0, F0⟩ ops).r (.resp ck b)).1.next = 0) :
    fullFilter (grun ⟨r0, F0, F0⟩ (ops ++ [.client (.resp ck b)])).r =
      some (grun ⟨r0, F0, F0⟩ ops).F := by
  have happ : ∀ (s : GSt) (l : List GOp) (x : GOp), grun s (l ++ [x]) = gstep (grun s l) x := by
    intro s l x
    induction l generalizing s with
    | nil => rfl
    | cons y l ih => simp only [List.cons_append, grun, ih]
  have hi := ginv_run _ _ (ginv_new F0 hF c r0 h0) hv
  rw [happ] at hi ⊢
  have hlast : (gstep (grun ⟨r0, F0, F0⟩ ops) (.client (.resp ck b))).Flast = (grun ⟨r0, F0, F0⟩ ops).F := by
    simp only [gstep, hok, hwrap, and_self, if_true]
  have hr : (gstep (grun ⟨r0, F0, F0⟩ ops) (.client (.resp ck b))).r =
      (step (grun ⟨r0, F0, F0⟩ ops).r (.resp ck b)).1 := rfl
  -- the accepting, wrapping step sets `filled`
  have hfilled : (step (grun ⟨r0, F0, F0⟩ ops).r (.resp ck b)).1.filled = true := by
    generalize (grun ⟨r0, F0, F0⟩ ops).r = r at hok hwrap ⊢
    simp only [step, handleResponse] at hok hwrap ⊢
    split at hok
    · simp at hok
    · split at hok
      · simp at hok
      · split at hok
        · simp at hok
        · split at hok
          · simp at hok
          · rename_i h1 h2 h3 h4
            simp only [h1, h2, h3, h4, if_false] at hwrap ⊢
            simp only [advance] at hwrap ⊢
            simp only [hwrap, if_true]
  have hrest := hi.rest (by rw [hr]; exact hfilled)
  rw [hr] at hrest
  rw [hwrap, hlast] at hrest
  simp only [List.drop_zero] at hrest
  unfold fullFilter
  rw [hr, if_pos hfilled, hrest]

/-! #### non-vacuity -/

/-- a 512-byte server filter with a recognisable pattern -/
def demoF : Filter := (List.range 512).map fun i => UInt8.ofNat (i * 7 + 1)

/-- chunk size 256: request, a stale answer (other cookie), a wrong-length answer, the right answer,
    an unsolicited answer, second request and answer ⇒ full and equal to the server's filter -/
example :
    let ops : List Op :=
      [.next [1], .resp [9] (demoF.take 256), .resp [1] [0, 0, 0, 0], .resp [1] (demoF.take 256),
       .resp [1] (demoF.take 256), .next [2], .resp [2] (demoF.drop 256)]
    (run ((Remote.new? 256).get (by decide)) ops).2 =
      [.req (.req ⟨256, 0⟩), .resp .mismatchedCookie, .resp .mismatchedLength, .resp .ok,
       .resp .notAwaitingResponse, .req (.req ⟨256, 256⟩), .resp .ok] ∧
    fullFilter (run ((Remote.new? 256).get (by decide)) ops).1 = some demoF := by
  decide +kernel

/-- two rounds with chunk 256: after round 1 the server clears bits (`demoF` → `demoF2`); at the end of
    round 2 the client holds exactly `demoF2`, and in the middle of round 2 a mixture -/
example :
    let demoF2 : Filter := demoF.map (· &&& 0x0f)
    let r0 := (Remote.new? 256).get (by decide)
    let ops : List GOp :=
      [.client (.next [1]), .client (.resp [1] (demoF.take 256)),
       .client (.next [2]), .client (.resp [2] (demoF.drop 256)),
       .server demoF2,
       .client (.next [3]), .client (.resp [3] (demoF2.take 256)),
       .client (.next [4]), .client (.resp [4] (demoF2.drop 256))]
    fullFilter (grun ⟨r0, demoF, demoF⟩ (ops.take 4)).r = some demoF ∧
    fullFilter (grun ⟨r0, demoF, demoF⟩ (ops.take 7)).r = some (demoF2.take 256 ++ demoF.drop 256) ∧
    fullFilter (grun ⟨r0, demoF, demoF⟩ ops).r = some demoF2 ∧
    (grun ⟨r0, demoF, demoF⟩ ops).Flast = demoF2 := by
  decide +kernel

/-- membership after adding a ten-index id to the pattern filter; a different id is not reported -/
example : (addId Filter.new [1, 9, 100, 1000, 4095, 7, 8, 15, 16, 2048]).bind
      (fun f => containsId f [1, 9, 100, 1000, 4095, 7, 8, 15, 16, 2048]) = some true ∧
    (addId Filter.new [1, 9, 100]).bind (fun f => containsId f [1, 9, 101]) = some false := by
  decide +kernel

/-- the server answers an in-range request with the bytes, an out-of-range one not at all -/
example : toResponse ⟨4, 508⟩ demoF = some (demoF.drop 508) ∧ toResponse ⟨8, 508⟩ demoF = none ∧
    toResponse ⟨0, 512⟩ demoF = some [] ∧ toResponse ⟨0, 513⟩ demoF = none := by
  decide +kernel

end NtpVerif.C34

#print axioms NtpVerif.C34.no_false_negative_add_id
#print axioms NtpVerif.C34.no_false_negative_kept
#print axioms NtpVerif.C34.no_false_negative_add
#print axioms NtpVerif.C34.no_false_negative_union
#print axioms NtpVerif.C34.server_chunk
#print axioms NtpVerif.C34.server_chunk_none_iff
#print axioms NtpVerif.C34.valid_chunk_sizes
#print axioms NtpVerif.C34.client_accepts_only_current
#print axioms NtpVerif.C34.full_means_equal
#print axioms NtpVerif.C34.full_after_all_chunks
#print axioms NtpVerif.C34.client_never_panics
#print axioms NtpVerif.C34.full_means_equal_rounds
#print axioms NtpVerif.C34.round_complete_equal
