/-
C37 — only registered, usable sources influence the clock.   (PARTIAL: real thread interleavings are outside
the model; the theorems below hold for ALL event lists of the sequential model.)

Model: `NtpVerif.Model.CtrlLoop` — the wrapper's channel as a FIFO list, the synchronous `add_source`, the
loop's dispatch, the controller's source map.  An event list interleaves `add id`, `send id msg` (a source task
puts a message on the channel) and `recv` (the loop handles the next message) arbitrarily.

Property text ↔ theorems:
  "computes estimates only from sources that are currently registered and were last reported usable"
        → `candidates_registered_usable` (after every event list, the ids passed to `select` are exactly those
          whose per-source history says: registered, has reported, last handled usability report = true) and
          `steer_only_from_candidates` (every id in `used_sources` is such a candidate)
  "processes each source's measurements in the order they were produced"
        → `fifo_order` (handled ++ still-queued = sent, as lists) and `per_source_order`
        → `message_always_stored` (whatever the time stamps of OTHER sources: after a registered source's
          measurement is handled, the controller holds THAT measurement for the source — also when `update_clock`
          returns early because another source's snapshot is ahead in time; so a later estimate never uses a
          superseded measurement of the source) and `ahead_means_no_clock_call`
  "ignores data arriving for a source after its removal"
        → `after_removal_ignored` (a measurement or usability report for an id whose history says "not
          registered" changes nothing and issues no clock call)
-/
import NtpVerif.Proofs.CtrlLoop
import NtpVerif.Proofs.Select

namespace NtpVerif.C37
open NtpVerif.CtrlLoop NtpVerif.Select NtpVerif.Leap

/-- the controller after an event list from the initial state -/
def ctrlAfter (cfg : Cfg) (evs : List Ev) : Ctrl := (run cfg W.init evs).1.ctrl
/-- what the controller has seen: registrations and handled messages, in order -/
def history (evs : List Ev) : List Applied := appliedOf [] evs

theorem ctrlAfter_eq (cfg : Cfg) (evs : List Ev) :
    ctrlAfter cfg evs = (history evs).foldl (applyOne cfg) Ctrl.init := run_ctrl cfg W.init evs

theorem keys_nodup (cfg : Cfg) (evs : List Ev) : (Keys (ctrlAfter cfg evs).srcs).Nodup := by
  rw [ctrlAfter_eq]
  exact (fold_spec cfg (history evs) Ctrl.init List.nodup_nil 0).1

/-- **C37.map_is_spec** — for every event list and every id, the controller's entry for `id` is what the
    per-source state machine (`specOf`: unregistered / (reported, usable)) computes from the history. -/
theorem map_is_spec (cfg : Cfg) (evs : List Ev) (id : Id) :
    absEntry (lookup (ctrlAfter cfg evs).srcs id) = specOf id (history evs) := by
  rw [ctrlAfter_eq]
  exact (fold_spec cfg (history evs) Ctrl.init List.nodup_nil id).2

/-- **C37.candidates_registered_usable** — the ids `update_clock` hands to `select` are exactly the ids that are
    registered, have reported, and whose last handled usability report was `true`. -/
theorem candidates_registered_usable (cfg : Cfg) (evs : List Ev) (id : Id) :
    (∃ s, (id, s) ∈ candidateEntries (ctrlAfter cfg evs)) ↔ specOf id (history evs) = some (true, true) := by
  rw [mem_candidateEntries _ (keys_nodup cfg evs), map_is_spec]

/-- **C37.after_removal_ignored** — handling a measurement or a usability report for an id that is not
    registered (never added, or removed and not re-added) leaves the controller unchanged and issues nothing. -/
theorem after_removal_ignored (cfg : Cfg) (evs : List Ev) (id : Id)
    (hun : specOf id (history evs) = none) :
    (∀ snap t vals steer, dispatch cfg (ctrlAfter cfg evs) id (.source snap t vals steer) =
        (ctrlAfter cfg evs, .ok [] none)) ∧
    (∀ b k, lookup (dispatch cfg (ctrlAfter cfg evs) id (.usability b)).1.srcs k = lookup (ctrlAfter cfg evs).srcs k) ∧
    (∀ b, (dispatch cfg (ctrlAfter cfg evs) id (.usability b)).2 = .ok [] none) := by
  have hl : lookup (ctrlAfter cfg evs).srcs id = none := by
    have := map_is_spec cfg evs id
    rw [hun] at this
    cases h : lookup (ctrlAfter cfg evs).srcs id with
    | none => rfl
    | some e => rw [h] at this; simp [absEntry] at this
  refine ⟨?_, ?_, ?_⟩
  · intro snap t vals steer
    simp only [dispatch, sourceMessage, hl]
  · intro b k
    simp only [dispatch, sourceUpdate, lookup_modify]
    by_cases hk : k = id
    · subst hk; simp [hl]
    · simp [hk]
  · intro b; rfl

/-- **C37.fifo_order** — messages are handled in exactly the order they were put on the channel: what has been
    handled so far, followed by what is still queued, is the list of everything sent. -/
theorem fifo_order (cfg : Cfg) (evs : List Ev) :
    msgsOf (history evs) ++ (run cfg W.init evs).1.queue = sentOf evs := by
  have := fifo cfg W.init evs
  simpa [history, W.init] using this

/-- **C37.per_source_order** — in particular each source's messages are handled in the order it produced them. -/
theorem per_source_order (cfg : Cfg) (evs : List Ev) (id : Id) :
    ((msgsOf (history evs)).filter (fun p => p.1 = id)) <+: ((sentOf evs).filter (fun p => p.1 = id)) := by
  rw [← fifo_order cfg evs, List.filter_append]
  exact List.prefix_append _ _

/-- **C37.steer_only_from_candidates** — whenever handling a message yields `used_sources`, every used id is
    one of the candidates of the controller state `update_clock` ran on (registered, reported, usable). -/
theorem steer_only_from_candidates (cfg : Cfg) (steer : List String) (c c' : Ctrl) (calls : List Call) (used : List Id)
    (hidx : ∀ p ∈ candidateEntries c, p.2.idx = p.1)
    (h : updateClock cfg steer c = (c', .ok calls (some used))) :
    ∀ k ∈ used, ∃ s, (k, s) ∈ candidateEntries c := by
  unfold updateClock at h
  split at h
  · cases h
  · cases h
  · rename_i s sel hsel
    split at h
    · cases h
    · simp only [Prod.mk.injEq, Result.ok.injEq, Option.some.injEq] at h
      obtain ⟨_, _, hu⟩ := h
      subst hu
      intro k hk
      obtain ⟨cnd, hc, rfl⟩ := List.mem_map.mp hk
      have hsub := (NtpVerif.Select.select_sel_cases hsel)
      have hmem : cnd ∈ candidates c := by
        obtain ⟨sw, _, _, hcase | hcase⟩ := hsub
        · obtain ⟨_, _, e⟩ := hcase
          rw [e] at hc
          exact (List.mem_filter.mp hc).1
        · cases hcase
      unfold candidates at hmem
      obtain ⟨p, hp, rfl⟩ := List.mem_map.mp hmem
      exact ⟨p.2, by rw [hidx p hp]; exact hp⟩

/-- **C37.message_always_stored** — for every event history and every registered id: handling a measurement
    (stamp `t`) of that id leaves the controller holding a snapshot with stamp `t` for it, with the usable flag
    untouched; if another stored snapshot is ahead of `t` (the early return of `update_clock`) it is exactly the
    message's snapshot.  Measurements of one source therefore take effect in the order they are handled (= the
    order they were produced, `per_source_order`), independently of how other sources' time stamps interleave. -/
theorem message_always_stored (cfg : Cfg) (evs : List Ev) (id : Id) (snap : Cand) (t : Nat)
    (vals : List (Id × Cand)) (steer : List String) (e : Entry)
    (h : lookup (ctrlAfter cfg evs).srcs id = some e) :
    ∃ e', lookup (dispatch cfg (ctrlAfter cfg evs) id (.source snap t vals steer)).1.srcs id = some e' ∧
      e'.stamp = t ∧ e'.snap.isSome = true ∧ e'.usable = e.usable ∧
      (ahead (storeMsg (ctrlAfter cfg evs).srcs id snap t) t = true → e'.snap = some snap) :=
  sourceMessage_stores cfg (ctrlAfter cfg evs) id snap t vals steer e h

/-- **C37.ahead_means_no_clock_call** — when another stored snapshot is ahead of the message's time the message
    is stored but nothing is issued (no clock call, no `used_sources`). -/
theorem ahead_means_no_clock_call (cfg : Cfg) (c : Ctrl) (id : Id) (snap : Cand) (t : Nat)
    (vals : List (Id × Cand)) (steer : List String)
    (ha : ahead (storeMsg c.srcs id snap t) t = true) :
    (sourceMessage cfg c id snap t vals steer).2 = .ok [] none := by
  unfold sourceMessage
  split
  · rfl
  · simp [ha]

/-! #### non-vacuity -/

private def snap0 : Cand := { idx := 1, offset := F64.zero, var := F64.zero, delay := F64.zero, periodic := false, leap := .noWarning }
private def cfg0 : Cfg := { minAgree := 1, wStat := F64.one, wDelay := F64.one, maxUnc := F64.one }

/-- registered, reported, usable — then removed: the history says so -/
example : specOf 1 (history [.add 1, .send 1 (.usability true), .send 1 (.source snap0 7 [] []), .recv, .recv])
    = some (true, true) := by decide
example : specOf 1 (history [.add 1, .send 1 (.usability true), .send 1 .dropped, .send 1 (.source snap0 7 [] []),
    .recv, .recv, .recv]) = none := by decide
/-- a message still queued is not part of the history: usable only after the loop handled the report -/
example : specOf 1 (history [.add 1, .send 1 (.usability true)]) = some (false, false) := by decide

/-- B (id 2) is ahead at time 20; A's (id 1) late message stamped 10 with a NEW value is still stored -/
example :
    let snapB : Cand := { snap0 with idx := 2 }
    let snapA' : Cand := { snap0 with idx := 1, delay := F64.one }
    let c : Ctrl := { srcs := [(2, { snap := some snapB, usable := true, stamp := 20, time := 20 }),
                               (1, { snap := some snap0, usable := true, stamp := 5, time := 20 })],
                      leap := .unknown, inStartup := false }
    ahead (storeMsg c.srcs 1 snapA' 10) 10 = true ∧
    (lookup (dispatch cfg0 c 1 (.source snapA' 10 [] [])).1.srcs 1).map (fun e => (e.stamp, e.snap)) =
      some (10, some snapA') := by decide

end NtpVerif.C37

#print axioms NtpVerif.C37.map_is_spec
#print axioms NtpVerif.C37.candidates_registered_usable
#print axioms NtpVerif.C37.after_removal_ignored
#print axioms NtpVerif.C37.fifo_order
#print axioms NtpVerif.C37.per_source_order
#print axioms NtpVerif.C37.steer_only_from_candidates
#print axioms NtpVerif.C37.message_always_stored
#print axioms NtpVerif.C37.ahead_means_no_clock_call
