/-
C10 (filter half) — "The clock filter's own desired interval always lies within the configured limits."

Property theorems only (helper lemmas: `NtpVerif.Proofs.SourceFilterPoll`).
Model: `NtpVerif.Model.SourceFilter` — `updateDesiredPoll` (= `SourceFilter::update_desired_poll`,
`ntp-proto/src/algorithm/kalman/source.rs`), `pollInc`/`pollDec`/`pollAsDuration`
(= `PollInterval::{inc, dec, as_duration}`, `time_types.rs`), `SState.desiredPoll`
(= `SourceState::get_desired_poll`).

Order-only theorems (DESIGN §2.5 kind 1): `p`, `weight`, `measurement_period` and all four `f64`
configuration thresholds are ARBITRARY bit patterns (NaN, ±∞ included) and the float division inside
`update_desired_poll` is uninterpreted, so the statements hold whatever the Kalman arithmetic produced.

  sentence of the property                                      theorem
  "the filter's desired interval always lies within the          filter_desire_in_limits  (stable filter,
   configured limits" — every history, every configuration        every history of updates, never panics)
   with 0 ≤ min ≤ initial ≤ max ≤ 17                              filter_desire_in_limits_c10 (the literal
                                                                   quantifier of the property text)
  same, for a filter still collecting its first samples          initial_desire_is_min
  one update moves the desire by at most one step or resets it   desire_step_shape

The send-poll half of C10 (`NtpSource::current_poll_interval`, timer jitter) is in `Props/C10.lean`.
-/
import NtpVerif.Proofs.SourceFilterPoll
import NtpVerif.Proofs.SourceFilterHistory

namespace NtpVerif.C10Filter
open NtpVerif.SourceFilter NtpVerif.Wrap

/-- **filter_desire_in_limits** — for every poll configuration with `min ≤ initial ≤ max` (as `i8`
    exponents away from the `i8` overflow corners: `-127 ≤ min`, `max ≤ 126`), every hysteresis that is a
    negatable `i32`, every four `f64` thresholds, and EVERY history of `(p, weight, measurement_period)`
    triples (arbitrary `f64` bit patterns), a stable filter that starts at `initial` never panics in
    `update_desired_poll` and reports, after every update, a desired interval within `[min, max]`. -/
theorem filter_desire_in_limits (cfg : PollCfg) (lim : Limits) (initial : Int)
    (hlim : -127 ≤ lim.min ∧ lim.min ≤ initial ∧ initial ≤ lim.max ∧ lim.max ≤ 126)
    (hh : I32_MIN < cfg.hysteresis ∧ cfg.hysteresis ≤ I32_MAX)
    (history : List (F64 × F64 × F64)) :
    ∃ ds, runDesiredPoll { score := 0, desired := initial } cfg lim history = some ds ∧
      ds.length = history.length ∧ ∀ d ∈ ds, lim.min ≤ d ∧ d ≤ lim.max := by
  have hlim' : -127 ≤ lim.min ∧ lim.min ≤ lim.max ∧ lim.max ≤ 126 := by omega
  have hinv : PollInv cfg lim { score := 0, desired := initial } :=
    ⟨hlim.2.1, hlim.2.2.1, Or.inl rfl⟩
  generalize ({ score := 0, desired := initial } : PollState) = s at hinv
  induction history generalizing s with
  | nil => exact ⟨[], rfl, rfl, by simp⟩
  | cons t rest ih =>
    obtain ⟨p, w, m⟩ := t
    obtain ⟨s', hs', hinv'⟩ := updateDesiredPoll_inv s cfg lim p w m hlim' hh hinv
    obtain ⟨ds, hds, hlen, hall⟩ := ih s' hinv'
    refine ⟨s'.desired :: ds, ?_, by simp [hlen], ?_⟩
    · simp [runDesiredPoll, hs', hds]
    · intro d hd
      rcases List.mem_cons.mp hd with rfl | hd
      · exact ⟨hinv'.1, hinv'.2.1⟩
      · exact hall d hd

/-- **filter_desire_in_limits_c10** — the same with the literal quantifier of the property text:
    every poll configuration with `0 ≤ min ≤ initial ≤ max ≤ 17`. -/
theorem filter_desire_in_limits_c10 (cfg : PollCfg) (lim : Limits) (initial : Int)
    (hlim : 0 ≤ lim.min ∧ lim.min ≤ initial ∧ initial ≤ lim.max ∧ lim.max ≤ 17)
    (hh : I32_MIN < cfg.hysteresis ∧ cfg.hysteresis ≤ I32_MAX)
    (history : List (F64 × F64 × F64)) :
    ∃ ds, runDesiredPoll { score := 0, desired := initial } cfg lim history = some ds ∧
      ds.length = history.length ∧ ∀ d ∈ ds, lim.min ≤ d ∧ d ≤ lim.max :=
  filter_desire_in_limits cfg lim initial (by omega) hh history

/-- **initial_desire_is_min** — while a filter is still collecting its first samples
    (`SourceStateInner::Initial`) it reports exactly the configured minimum. -/
theorem initial_desire_is_min (f : Initial) (lim : Limits) (h : lim.min ≤ lim.max) :
    lim.min ≤ (SState.initial f).desiredPoll lim ∧ (SState.initial f).desiredPoll lim ≤ lim.max := by
  simp only [SState.desiredPoll]; omega

/-- **desire_step_shape** — one update either resets the desire to `min`, keeps it, or moves it by one
    step towards a limit (and never past it). -/
theorem desire_step_shape (s s' : PollState) (cfg : PollCfg) (lim : Limits) (p w m : F64)
    (h : updateDesiredPoll s cfg lim p w m = some s') :
    s'.desired = lim.min ∨ s'.desired = s.desired ∨
      s'.desired = min (s.desired + 1) lim.max ∨ s'.desired = max (s.desired - 1) lim.min := by
  unfold updateDesiredPoll at h
  simp only [] at h
  obtain ⟨score, _, h⟩ := Option.bind_eq_some_iff.mp h
  unfold pollDecide at h
  split at h
  · left; cases h; rfl
  · obtain ⟨nh, _, h⟩ := Option.bind_eq_some_iff.mp h
    split at h
    · obtain ⟨d, hd, h⟩ := Option.bind_eq_some_iff.mp h
      right; right; left
      simp only [pollInc, Option.map_eq_some_iff] at hd
      obtain ⟨q, hq, rfl⟩ := hd
      simp only [checkedI8, checkedRange] at hq
      split at hq <;> cases hq
      cases h; rfl
    · split at h
      · obtain ⟨d, hd, h⟩ := Option.bind_eq_some_iff.mp h
        right; right; right
        simp only [pollDec, Option.map_eq_some_iff] at hd
        obtain ⟨q, hq, rfl⟩ := hd
        simp only [checkedI8, checkedRange] at hq
        split at hq <;> cases hq
        cases h; rfl
      · right; left; cases h; rfl

/-- **filter_history_desire_in_limits** — the sentence at the level of the whole two-way source filter
    (`SourceState`: initial collection, promotion, meddling resets, outlier/past rejections, steering
    messages): after EVERY history of measurements, `Step` and `FreqChange` messages from the initial state
    that runs to its end, the desired poll interval the filter reports (`get_desired_poll`) lies within the
    configured limits — for whatever floats the Kalman arithmetic produced. -/
theorem filter_history_desire_in_limits (sc : SrcCfg) (ac : AlgoCfg) (hc : CfgOk sc ac) (ops : List FOp)
    (x' : SState × Nat) (h : frun sc ac (SState.new, 0) ops = some x') :
    sc.lim.min ≤ x'.1.desiredPoll sc.lim ∧ x'.1.desiredPoll sc.lim ≤ sc.lim.max := by
  rcases frun_cases sc ac hc ops (SState.new, 0) trivial with ⟨y, hy, hinv⟩ | ⟨hn, _⟩
  · rw [h] at hy; cases hy
    cases hx : x'.1 with
    | initial f => simp only [SState.desiredPoll]; have := hc.lim; omega
    | stable f =>
      rw [hx] at hinv
      exact ⟨hinv.1.1, hinv.1.2.1⟩
  · rw [h] at hn; cases hn

/-! #### non-vacuity -/

/-- the default configuration (limits 4..10, initial 4, hysteresis 16, weights 0.4/0.6, threshold 1e-6)
    satisfies the hypotheses, and a history of 16 high-weight, high-probability updates spaced at the
    reference period really moves the desire (4 → … → 4 after hitting the lower limit; 16 low-weight
    updates raise it to 5) -/
def defaultCfg : PollCfg :=
  { lowWeight := ⟨0x3fd999999999999a⟩, highWeight := ⟨0x3fe3333333333333⟩, hysteresis := 16,
    stepThreshold := ⟨0x3eb0c6f7a0b5ed8d⟩ }

example : (-127 : Int) ≤ (Limits.mk 4 10).min ∧ (Limits.mk 4 10).min ≤ 4 ∧ (4 : Int) ≤ (Limits.mk 4 10).max ∧
    (Limits.mk 4 10).max ≤ 126 ∧ I32_MIN < defaultCfg.hysteresis ∧ defaultCfg.hysteresis ≤ I32_MAX := by
  decide

/-- an update with `p` below the step threshold resets a raised desire to the minimum (order logic only,
    so `decide` can evaluate it: the float division result is irrelevant on this path) -/
example : pollDecide 3 { score := 3, desired := 7 } defaultCfg ⟨4, 10⟩ F64.zero
    = some { score := 0, desired := 4 } := by
  decide

/-- a score reaching `-hysteresis` raises the desire by one step, and at the upper limit it stays -/
example : pollDecide (-16) { score := -15, desired := 7 } defaultCfg ⟨4, 10⟩ F64.one
      = some { score := 0, desired := 8 } ∧
    pollDecide (-16) { score := -15, desired := 10 } defaultCfg ⟨4, 10⟩ F64.one
      = some { score := 0, desired := 10 } ∧
    pollDecide 16 { score := 15, desired := 4 } defaultCfg ⟨4, 10⟩ F64.one
      = some { score := 0, desired := 4 } := by decide

/-- the hypotheses on the limits are needed: at the `i8` corner the real code overflows (panics) -/
example : pollDecide (-16) { score := -15, desired := 127 } defaultCfg ⟨4, 127⟩ F64.one = none := by decide

end NtpVerif.C10Filter

#print axioms NtpVerif.C10Filter.filter_desire_in_limits
#print axioms NtpVerif.C10Filter.filter_desire_in_limits_c10
#print axioms NtpVerif.C10Filter.initial_desire_is_min
#print axioms NtpVerif.C10Filter.desire_step_shape
#print axioms NtpVerif.C10Filter.filter_history_desire_in_limits
