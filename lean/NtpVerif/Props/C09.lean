/-
C09 — Kiss-o'-death codes are handled conservatively.

Model: `NtpVerif.Model.SourceSM` (the KISS dispatch of `handle_incoming`, `is_kiss_*`, `PollInterval::inc`,
`have_deny_rstr_response`), with the F-C07 fix (NTS-NAK arm tested before RATE / DENY / RSTR).

A "valid KISS answer" is a matching answer (`Matching`: request pending, within the window, expected version,
`valid_server_response`) with stratum 0.

Property sentence ↔ theorem
  "After a valid RATE answer a source never polls faster than it just did"
        ↔ `rate_lengthens` (one answer), `never_faster_after_rate` (every later request of the history),
          `remote_min_monotone` (the floor never decreases along any history), `next_poll_ge_remote_min`
  "absent a longer interval of its own, each RATE answer lengthens its polling interval by at least one step
   until the configured maximum"          ↔ `rate_lengthens`
  "A valid DENY or RSTR answer demobilises an NTS source immediately but only marks an unauthenticated source,
   which is demobilised solely if it also stays unreachable"
        ↔ `deny_rstr`, `demobilize_only_when_marked_and_unreachable` (+ C11.deny_mark_cleared_by_answer)
  "An NTS-NAK or unknown KISS code never changes the source's synchronisation, polling or demobilisation state"
        ↔ `ntsn_unknown_inert`
  (panic site `PollInterval::inc` at 127)    ↔ `rate_no_overflow`
-/
import NtpVerif.Proofs.SourceSM

namespace NtpVerif.C09
open NtpVerif.SourceSM NtpVerif.CookieStash

/-- `p` is a matching answer to the pending request `(id, dl)` of `s` at time `now` -/
structure Matching (s : State) (now : Nat) (p : Pkt) (id : ReqId) (dl : Nat) : Prop where
  pending : s.pending = some (id, dl)
  inWindow : now ≤ dl
  version : s.proto.expects p.version = true
  valid : p.validResponse id s.nts.isSome = true

/-- the RATE arm is taken: RATE code (v3/v4) or a larger poll value (v5), and not an NTS-NAK -/
def IsRate (s : State) (p : Pkt) : Prop := p.isKissRate s.lastPoll = true ∧ p.isKissNtsn = false

/-- the DENY/RSTR arm is taken -/
def IsDeny (s : State) (p : Pkt) : Prop :=
  (p.isKissRstr || p.isKissDeny) = true ∧ p.isKissNtsn = false ∧ p.isKissRate s.lastPoll = false

/-- NTS-NAK, or a KISS code that is none of RATE / DENY / RSTR -/
def IsNakOrUnknown (s : State) (p : Pkt) : Prop :=
  p.isKiss = true ∧ (p.isKissNtsn = true ∨ (p.isKissRate s.lastPoll = false ∧ (p.isKissRstr || p.isKissDeny) = false))

/-- **C09.rate_never_faster / rate_lengthens** — a valid RATE answer (no overflow, see `rate_no_overflow`)
    produces no action and sets `remote_min_poll_interval` to `max (min (old + 1) cfg.max) last_poll`; hence
    (1) it is at least the interval just used, (2) below the configured maximum it grows by at least one step,
    (3) it never shrinks when the old value was not above the last poll (as it is right after sending). -/
theorem rate_lengthens (s : State) (now : Nat) (p : Pkt) (id : ReqId) (dl : Nat) (a b : Nat) (bl : Option Bool)
    (hm : Matching s now p id dl) (hr : IsRate s p) (hno : s.remoteMinPoll < 127)
    (r : State × InOut) (hres : handleIncoming s now (some p) a b bl = r) :
    r.2 = .ignore ∧
    r.1.remoteMinPoll = max (min (s.remoteMinPoll + 1) s.cfg.limits.max) s.lastPoll ∧
    s.lastPoll ≤ r.1.remoteMinPoll ∧
    (s.remoteMinPoll < s.cfg.limits.max → s.remoteMinPoll + 1 ≤ r.1.remoteMinPoll) ∧
    (s.remoteMinPoll ≤ s.lastPoll → s.remoteMinPoll ≤ r.1.remoteMinPoll) ∧
    r.1.haveDeny = s.haveDeny ∧ r.1.reach = s.reach ∧ r.1.pending = s.pending ∧ r.1.lastPoll = s.lastPoll := by
  have hinc : pollInc s.remoteMinPoll s.cfg.limits = some (min (s.remoteMinPoll + 1) s.cfg.limits.max) := by
    unfold pollInc; simp; omega
  have hnak : (true && p.isKissNtsn) = false := by simp [hr.2]
  unfold handleIncoming at hres
  rcases incoming_matching_cases true s now p id dl a b bl hm.pending hm.inWindow hm.version hm.valid with
    ⟨_, hx, _⟩ | ⟨_, _, ⟨hn, e⟩ | ⟨rr, hrr, e⟩⟩ | ⟨_, _, h3, _⟩ | ⟨h5, _⟩
  · rcases hx with hx | ⟨_, hx, _⟩
    · rw [hnak] at hx; cases hx
    · rw [hr.1] at hx; cases hx
  · rw [hinc] at hn; cases hn
  · rw [hinc] at hrr; injection hrr with hrr; subst hrr
    rw [hres] at e; subst e
    refine ⟨rfl, rfl, ?_, ?_, ?_, rfl, rfl, rfl, rfl⟩ <;> simp only <;> omega
  · rw [hr.1] at h3; cases h3
  · have := hr.1
    simp only [Pkt.isKissRate, Bool.and_eq_true] at this
    rw [h5] at this; exact absurd this.1 (by simp)

/-- **C09.rate_never_faster** (consequence) — the poll exponent of the next request is at least
    `remote_min_poll_interval`, whatever the controller desires; and right after sending
    `remote_min_poll_interval ≤ last_poll_interval`. -/
theorem next_poll_ge_remote_min (s : State) (now : Nat) (d : Int) (o : Nat) (u : List UInt8) (t : Nat) (i : SendInfo)
    (r : State × SourceSM.TimerOut) (hres : handleTimer s now d o u t = r) (h : r.2 = .send i) :
    s.remoteMinPoll ≤ i.poll ∧ d ≤ i.poll ∧ r.1.lastPoll = i.poll ∧ r.1.remoteMinPoll ≤ r.1.lastPoll := by
  rcases timer_cases s now d o u t with ⟨_, e⟩ | ⟨_, ⟨hn, e⟩ | ⟨st, st', hn, _, e⟩ | ⟨st, st', hn, _, e⟩ |
      ⟨st, st', c, n, hn, _, ⟨_, e⟩ | ⟨_, e⟩⟩⟩
  all_goals (rw [hres] at e; subst e)
  · cases hd : s.haveDeny <;> simp [hd] at h
  · cases h
    simp only [timerSent, timerBase]
    refine ⟨?_, ?_, trivial, ?_⟩ <;> omega
  · cases h
  · cases h
  · cases h
  · cases h
    simp only [timerSent, timerBase]
    refine ⟨?_, ?_, trivial, ?_⟩ <;> omega

/-- **C09.deny_rstr** — a valid DENY / RSTR answer: an NTS source returns exactly `[Demobilize]`; a plain source
    returns nothing and only sets the deny mark. Neither touches reach, polling or the pending request. -/
theorem deny_rstr (s : State) (now : Nat) (p : Pkt) (id : ReqId) (dl : Nat) (a b : Nat) (bl : Option Bool)
    (hm : Matching s now p id dl) (hd : IsDeny s p)
    (r : State × InOut) (hres : handleIncoming s now (some p) a b bl = r) :
    (s.nts.isSome = true → r.2 = .demobilize ∧ r.1.haveDeny = s.haveDeny) ∧
    (s.nts.isSome = false → r.2 = .ignore ∧ r.1.haveDeny = true) ∧
    r.1.remoteMinPoll = s.remoteMinPoll ∧ r.1.reach = s.reach ∧ r.1.pending = s.pending ∧
    r.1.stratum = s.stratum ∧ r.1.lastPoll = s.lastPoll := by
  have hnak : (true && p.isKissNtsn) = false := by simp [hd.2.1]
  unfold handleIncoming at hres
  rcases incoming_matching_cases true s now p id dl a b bl hm.pending hm.inWindow hm.version hm.valid with
    ⟨_, hx, _⟩ | ⟨h2, _⟩ | ⟨_, _, _, ⟨hn, e⟩ | ⟨hn, e⟩⟩ | ⟨h5, _⟩
  · rcases hx with hx | ⟨_, _, hx⟩
    · rw [hnak] at hx; cases hx
    · rw [hd.1] at hx; cases hx
  · rw [hd.2.2] at h2; cases h2
  · rw [hres] at e; subst e
    exact ⟨fun _ => ⟨rfl, rfl⟩, fun h => (by rw [hn] at h; cases h), rfl, rfl, rfl, rfl, rfl⟩
  · rw [hres] at e; subst e
    exact ⟨fun h => (by rw [hn] at h; cases h), fun _ => ⟨rfl, rfl⟩, rfl, rfl, rfl, rfl, rfl⟩
  · have := hd.1
    simp only [Pkt.isKissRstr, Pkt.isKissDeny, h5, Bool.false_and, Bool.or_self] at this
    cases this

/-- **C09.demobilize_only_when_marked_and_unreachable** — a timer demobilises only a source that carries the deny
    mark AND has an empty reach register after at least three polls. (The mark is cleared by every accepted
    answer: C11.deny_mark_cleared_by_answer.) -/
theorem demobilize_only_when_marked_and_unreachable (s : State) (now : Nat) (d : Int) (o : Nat) (u : List UInt8)
    (t : Nat) (h : (handleTimer s now d o u t).2 = .demobilize) :
    s.haveDeny = true ∧ s.reach = 0 ∧ s.tries ≥ 3 := by
  rcases timer_cases s now d o u t with ⟨h0, e⟩ | ⟨_, ⟨hn, e⟩ | ⟨st, st', hn, _, e⟩ | ⟨st, st', hn, _, e⟩ |
      ⟨st, st', c, n, hn, _, ⟨_, e⟩ | ⟨_, e⟩⟩⟩
  · rw [e] at h
    cases hd : s.haveDeny with
    | true => exact ⟨rfl, h0.1, h0.2⟩
    | false => simp [hd] at h
  all_goals (rw [e] at h; cases h)

/-- **C09.ntsn_unknown_inert** — a valid NTS-NAK or unrecognised KISS answer produces no action and leaves
    `remote_min_poll_interval`, the deny mark, reach, stratum, reference id, the pending request, the cookie
    stash and the last poll interval unchanged (only the version-upgrade bookkeeping of C12 may advance). -/
theorem ntsn_unknown_inert (s : State) (now : Nat) (p : Pkt) (id : ReqId) (dl : Nat) (a b : Nat) (bl : Option Bool)
    (hm : Matching s now p id dl) (hk : IsNakOrUnknown s p)
    (r : State × InOut) (hres : handleIncoming s now (some p) a b bl = r) :
    r.2 = .ignore ∧ r.1 = { s with proto := protoOnValid s.proto p.isUpgrade } := by
  unfold handleIncoming at hres
  rcases incoming_matching_cases true s now p id dl a b bl hm.pending hm.inWindow hm.version hm.valid with
    ⟨_, _, e⟩ | ⟨h2, h1, _⟩ | ⟨h3, h1, _⟩ | ⟨h5, _⟩
  · rw [hres] at e; subst e; exact ⟨rfl, rfl⟩
  · exfalso
    rcases hk.2 with hn | ⟨hr, _⟩
    · simp [hn] at h1
    · rw [h2] at hr; cases hr
  · exfalso
    rcases hk.2 with hn | ⟨_, hd⟩
    · simp [hn] at h1
    · rw [h3] at hd; cases hd
  · rw [hk.1] at h5; cases h5

/-! #### the overflow site of `PollInterval::inc` -/

/-- invariant that keeps `inc` away from 127: the server-requested minimum (and hence the last poll) reaches 127
    only through an accepted NTPv5 answer, after which the source is in `V5`, and while a request is pending it
    was sent with that poll -/
def Inv (s : State) : Prop :=
  s.remoteMinPoll ≤ 127 ∧ s.lastPoll ≤ 127 ∧ (s.lastPoll = 127 → s.proto = .v5) ∧
  (s.remoteMinPoll = 127 → s.proto = .v5 ∧ (s.pending = none ∨ s.lastPoll = 127))

/-- **C09.rate_no_overflow** — under `Inv` (and poll fields being `i8`, i.e. ≤ 127) the RATE arm never hits the
    overflow of `PollInterval::inc`: `handle_incoming` does not abort there. -/
theorem rate_no_overflow (s : State) (now : Nat) (p : Pkt) (id : ReqId) (dl : Nat)
    (hm : Matching s now p id dl) (hinv : Inv s) (hp : p.poll ≤ 127) (hr : p.isKissRate s.lastPoll = true) :
    s.remoteMinPoll < 127 ∧ s.lastPoll < 127 := by
  have hlast : s.lastPoll < 127 := by
    by_cases h : s.lastPoll < 127
    · exact h
    · exfalso
      have h127 : s.lastPoll = 127 := by have := hinv.2.1; omega
      have hv5 := hinv.2.2.1 h127
      have hver := hm.version
      rw [hv5] at hver
      simp only [Proto.expects, beq_iff_eq] at hver
      simp only [Pkt.isKissRate, hver, beq_self_eq_true, if_true, Bool.and_eq_true, decide_eq_true_eq] at hr
      omega
  refine ⟨?_, hlast⟩
  by_cases h : s.remoteMinPoll < 127
  · exact h
  · exfalso
    have h127 : s.remoteMinPoll = 127 := by have := hinv.1; omega
    obtain ⟨_, hpl⟩ := hinv.2.2.2 h127
    rcases hpl with hpl | hpl
    · rw [hm.pending] at hpl; cases hpl
    · omega

/-- `Inv` is established by a new source with sane limits and kept by every op whose inputs are in range
    (`desired < 127`, as guaranteed by C10.filter_desire_in_limits with `cfg.max ≤ 17`; poll fields ≤ 127) -/
theorem inv_init (cfg : Cfg) (pr : Proto) (nts : Option Stash) (h : cfg.limits.min < 127) :
    Inv (SourceSM.init cfg pr nts) := by
  unfold Inv SourceSM.init; simp only
  refine ⟨by omega, by omega, fun h' => by omega, fun h' => by omega⟩

theorem protoOnValid_v5 (b : Bool) : protoOnValid .v5 b = .v5 := rfl
theorem timerProto_v5 (s : State) (h : s.proto = .v5) : timerProto s = .v5 := by
  unfold timerProto; rw [h]; simp

theorem inv_step (s : State) (op : Op) (hinv : Inv s) (hmax : s.cfg.limits.max < 127)
    (hop : match op with
      | .timer _ d _ _ _ => d < 127
      | .incoming _ parsed _ _ _ => ∀ p, parsed = some p → p.poll ≤ 127) :
    Inv (step s op).1 ∧ (step s op).1.cfg = s.cfg := by
  obtain ⟨i1, i2, i3, i4⟩ := hinv
  cases op with
  | timer now d o u t =>
    simp only at hop
    simp only [step]
    rcases timer_cases s now d o u t with ⟨_, e⟩ | ⟨_, ⟨hn, e⟩ | ⟨st, st', hn, _, e⟩ | ⟨st, st', hn, _, e⟩ |
        ⟨st, st', c, n, hn, _, ⟨_, e⟩ | ⟨_, e⟩⟩⟩
    all_goals (rw [e])
    · exact ⟨⟨i1, i2, i3, i4⟩, rfl⟩
    · -- sent (plain)
      refine ⟨⟨i1, by simp only [timerSent]; omega, ?_, ?_⟩, rfl⟩
      · intro h; simp only [timerSent] at h
        have : s.remoteMinPoll = 127 := by omega
        exact timerProto_v5 s (i4 this).1
      · intro h; simp only [timerSent, timerBase] at h ⊢
        exact ⟨timerProto_v5 s (i4 h).1, Or.inr (by omega)⟩
    · -- NTS reset: no request sent
      refine ⟨⟨i1, i2, fun h => timerProto_v5 s (i3 h), fun h => ⟨timerProto_v5 s (i4 h).1, (i4 h).2⟩⟩, rfl⟩
    · refine ⟨⟨i1, i2, fun h => timerProto_v5 s (i3 h), fun h => ⟨timerProto_v5 s (i4 h).1, (i4 h).2⟩⟩, rfl⟩
    · refine ⟨⟨i1, by simp only [timerSent]; omega, ?_, ?_⟩, rfl⟩
      · intro h; simp only [timerSent] at h
        have : s.remoteMinPoll = 127 := by omega
        exact timerProto_v5 s (i4 this).1
      · intro h; simp only [timerSent, timerBase] at h ⊢
        exact ⟨timerProto_v5 s (i4 h).1, Or.inr (by omega)⟩
    · refine ⟨⟨i1, by simp only [timerSent]; omega, ?_, ?_⟩, rfl⟩
      · intro h; simp only [timerSent] at h
        have : s.remoteMinPoll = 127 := by omega
        exact timerProto_v5 s (i4 this).1
      · intro h; simp only [timerSent, timerBase] at h ⊢
        exact ⟨timerProto_v5 s (i4 h).1, Or.inr (by omega)⟩
  | incoming now parsed a b bl =>
    simp only at hop
    simp only [step, handleIncoming]
    have hkeep : ∀ (b : Bool), Inv { s with proto := protoOnValid s.proto b } := by
      intro b
      refine ⟨i1, i2, fun h => ?_, fun h => ⟨?_, (i4 h).2⟩⟩
      · show protoOnValid s.proto b = .v5; rw [i3 h]; rfl
      · show protoOnValid s.proto b = .v5; rw [(i4 h).1]; rfl
    rcases incoming_cases true s now parsed a b bl with e | ⟨p, id, dl, hp, hpend, hw, hv, hval, hc⟩
    · rw [e]; exact ⟨⟨i1, i2, i3, i4⟩, rfl⟩
    · have hpoll := hop p hp
      rcases hc with ⟨_, _, e⟩ | ⟨hr, _, ⟨hn, e⟩ | ⟨rr, hrr, e⟩⟩ | ⟨_, _, _, ⟨_, e⟩ | ⟨_, e⟩⟩ | ⟨_, _, _, e⟩
      · rw [e]; exact ⟨hkeep _, rfl⟩
      · exfalso
        have := (rate_no_overflow s now p id dl ⟨hpend, hw, hv, hval⟩ ⟨i1, i2, i3, i4⟩ hpoll hr).1
        unfold pollInc at hn; simp at hn; omega
      · rw [e]; refine ⟨?_, rfl⟩
        obtain ⟨hlt, hlast⟩ := rate_no_overflow s now p id dl ⟨hpend, hw, hv, hval⟩ ⟨i1, i2, i3, i4⟩ hpoll hr
        unfold pollInc at hrr
        simp only [ge_iff_le, show ¬ (127 : Int) ≤ s.remoteMinPoll from by omega, if_false, Option.some.injEq] at hrr
        subst hrr
        obtain ⟨k1, k2, k3, k4⟩ := hkeep p.isUpgrade
        refine ⟨?_, k2, k3, fun h => ?_⟩
        · simp only; omega
        · simp only at h; omega
      · rw [e]; exact ⟨hkeep _, rfl⟩
      · rw [e]; refine ⟨?_, rfl⟩
        obtain ⟨k1, k2, k3, k4⟩ := hkeep p.isUpgrade
        exact ⟨k1, k2, k3, k4⟩
      · rw [e]
        have hf := processMessage_fields { s with proto := protoOnValid s.proto p.isUpgrade } p a b bl
        have hpe := processMessage_pending { s with proto := protoOnValid s.proto p.isUpgrade } p a b bl
        obtain ⟨k1, k2, k3, k4⟩ := hkeep p.isUpgrade
        simp only at hf k1 k2 k3 k4
        refine ⟨?_, hf.2.2.2.1⟩
        unfold Inv
        rw [hf.2.2.2.2.2.2.2.2.2, hf.2.2.2.2.2.1, hf.2.2.2.2.2.2.1, hpe]
        simp only
        refine ⟨?_, k2, k3, ?_⟩
        · split <;> omega
        · intro h127
          refine ⟨?_, by simp⟩
          split at h127
          · rename_i hc5
            have := hc5.1
            rw [this] at hv
            cases hpr : s.proto <;> rw [hpr] at hv <;> simp [Proto.expects] at hv <;> simp [protoOnValid]
          · exact (k4 h127).1

/-- **C09.inc_no_overflow** — along every history of a source with `cfg.min, cfg.max < 127` whose inputs are in
    range (controller's desired poll < 127, poll fields ≤ 127 as `i8`), the invariant holds in every state, so the
    RATE arm never aborts on `PollInterval::inc`. -/
theorem inc_no_overflow (ops : List Op) (s : State) (hinv : Inv s) (hmax : s.cfg.limits.max < 127)
    (hops : ∀ op ∈ ops, match op with
      | .timer _ d _ _ _ => d < 127
      | .incoming _ parsed _ _ _ => ∀ p, parsed = some p → p.poll ≤ 127) :
    ∀ st ∈ states s ops, Inv st := by
  induction ops generalizing s with
  | nil => simp [states, run]
  | cons op ops ih =>
    simp only [states, run, List.map_cons, List.mem_cons, forall_eq_or_imp]
    obtain ⟨h1, h2⟩ := inv_step s op hinv hmax (hops op (by simp))
    exact ⟨h1, ih _ h1 (by rw [h2]; exact hmax) (fun o ho => hops o (by simp [ho]))⟩

/-! #### monotonicity of the server-requested floor over histories -/

/-- invariant: while a request is pending, the floor is not above the poll it was sent with, or not above the
    configured maximum (a request is always sent with `max desired floor`; RATE keeps the disjunction) -/
def J (s : State) : Prop :=
  s.pending ≠ none → (s.remoteMinPoll ≤ s.lastPoll ∨ s.remoteMinPoll ≤ s.cfg.limits.max)

theorem J_init (cfg : Cfg) (pr : Proto) (nts : Option Stash) : J (SourceSM.init cfg pr nts) := by
  intro h; exact absurd rfl h

/-- one op (aborting ones included) never lowers `remote_min_poll_interval`, and keeps `J` and the configuration -/
theorem step_remote_min (s : State) (op : Op) (hJ : J s) :
    s.remoteMinPoll ≤ (step s op).1.remoteMinPoll ∧ J (step s op).1 ∧ (step s op).1.cfg = s.cfg := by
  cases op with
  | timer now d o u t =>
    simp only [step]
    rcases timer_cases s now d o u t with ⟨_, e⟩ | ⟨_, ⟨hn, e⟩ | ⟨st, st', hn, _, e⟩ | ⟨st, st', hn, _, e⟩ |
        ⟨st, st', c, n, hn, _, ⟨_, e⟩ | ⟨_, e⟩⟩⟩
    all_goals (rw [e])
    · exact ⟨Int.le_refl _, hJ, rfl⟩
    · exact ⟨Int.le_refl _, fun _ => Or.inl (by simp only [timerSent, timerBase]; omega), rfl⟩
    · exact ⟨Int.le_refl _, hJ, rfl⟩
    · exact ⟨Int.le_refl _, hJ, rfl⟩
    · exact ⟨Int.le_refl _, fun _ => Or.inl (by simp only [timerSent, timerBase]; omega), rfl⟩
    · exact ⟨Int.le_refl _, fun _ => Or.inl (by simp only [timerSent, timerBase]; omega), rfl⟩
  | incoming now parsed a b bl =>
    simp only [step, handleIncoming]
    rcases incoming_cases true s now parsed a b bl with e | ⟨p, id, dl, hp, hpend, hw, hv, hval, hc⟩
    · rw [e]; exact ⟨Int.le_refl _, hJ, rfl⟩
    · have hJ' := hJ (by rw [hpend]; simp)
      rcases hc with ⟨_, _, e⟩ | ⟨_, _, ⟨_, e⟩ | ⟨rr, hrr, e⟩⟩ | ⟨_, _, _, ⟨_, e⟩ | ⟨_, e⟩⟩ | ⟨_, _, _, e⟩
      · rw [e]; exact ⟨Int.le_refl _, hJ, rfl⟩
      · rw [e]; exact ⟨Int.le_refl _, hJ, rfl⟩
      · rw [e]
        unfold pollInc at hrr
        split at hrr
        · cases hrr
        · injection hrr with hrr; subst hrr
          refine ⟨?_, fun _ => ?_, rfl⟩
          · simp only; rcases hJ' with h | h <;> omega
          · simp only
            by_cases hc : min (s.remoteMinPoll + 1) s.cfg.limits.max ≤ s.lastPoll
            · left; omega
            · right; omega
      · rw [e]; exact ⟨Int.le_refl _, hJ, rfl⟩
      · rw [e]; exact ⟨Int.le_refl _, hJ, rfl⟩
      · rw [e]
        have hf := processMessage_fields { s with proto := protoOnValid s.proto p.isUpgrade } p a b bl
        have hpe := processMessage_pending { s with proto := protoOnValid s.proto p.isUpgrade } p a b bl
        simp only at hf
        refine ⟨?_, fun h => absurd hpe h, hf.2.2.2.1⟩
        rw [hf.2.2.2.2.2.2.2.2.2]
        split <;> omega

theorem run_append (s : State) (pre post : List Op) :
    (run s (pre ++ post)).1 = (run (run s pre).1 post).1 := by
  induction pre generalizing s with
  | nil => rfl
  | cons op pre ih => simp only [List.cons_append, run]; exact ih _

theorem run_remote_min (ops : List Op) (s : State) (hJ : J s) :
    s.remoteMinPoll ≤ (run s ops).1.remoteMinPoll ∧ J (run s ops).1 ∧ (run s ops).1.cfg = s.cfg := by
  induction ops generalizing s with
  | nil => exact ⟨Int.le_refl _, hJ, rfl⟩
  | cons op ops ih =>
    obtain ⟨h1, h2, h3⟩ := step_remote_min s op hJ
    obtain ⟨k1, k2, k3⟩ := ih (step s op).1 h2
    simp only [run]
    exact ⟨Int.le_trans h1 k1, k2, by rw [k3, h3]⟩

/-- **C09.remote_min_monotone** — along any op list from a new source (or any state satisfying `J`), whatever the
    traffic, `remote_min_poll_interval` never decreases: its value after any prefix of the history is at most its
    value after any longer prefix. -/
theorem remote_min_monotone (s : State) (hJ : J s) (pre post : List Op) :
    (run s pre).1.remoteMinPoll ≤ (run s (pre ++ post)).1.remoteMinPoll := by
  rw [run_append]
  exact (run_remote_min post _ (run_remote_min pre s hJ).2.1).1

/-- every request sent later in a history polls no faster than the floor at the start of that history -/
theorem sends_ge_remote_min (post : List Op) (t : State) (hJ : J t) :
    ∀ o ∈ observations t post, ∀ i, o = .timer (.send i) → t.remoteMinPoll ≤ i.poll := by
  induction post generalizing t with
  | nil => simp [observations, run]
  | cons op post ih =>
    simp only [observations, run, List.map_cons, List.mem_cons, forall_eq_or_imp]
    obtain ⟨h1, h2, _⟩ := step_remote_min t op hJ
    constructor
    · intro i hi
      cases op with
      | incoming => simp [step] at hi
      | timer now d o u tn =>
        simp only [step] at hi
        have hi' : (handleTimer t now d o u tn).2 = .send i := by injection hi
        exact (next_poll_ge_remote_min t now d o u tn i _ rfl hi').1
    · intro o ho i hi
      exact Int.le_trans h1 (ih _ h2 o ho i hi)

/- Desire changes between ops. In the model the controller's desired poll interval is not part of the source state: it is
   an argument `desired` of each `timer` op (`handleTimer s now desired …` = what `current_poll_interval()` reads at that
   timer), and `handleIncoming` has NO desire argument — the RATE arm uses `last_poll_interval`, the interval of the poll
   being answered. `never_faster_after_rate`, `remote_min_monotone`, `sends_ge_remote_min` quantify over an arbitrary op
   list `post`, i.e. over arbitrary, independently chosen desires at every later timer, and nothing the controller does
   between a poll and its answer can enter `handleIncoming`. The stream op `desire p=…` (the recording controller's
   desired interval changes between two ops) is therefore a no-op of the model; seed C09-f (RATE bounded by
   `current_poll_interval()` at arrival) is a code path that READS the desire where the model has no such input. -/

/-- **C09.never_faster_after_rate** — history form of "after a valid RATE answer a source never polls faster than
    it just did": if a source (in a state reachable from a new source, `J`) that polled with exponent `last_poll`
    receives a valid RATE answer, then EVERY request it sends afterwards — whatever else arrives in between and
    whatever the controller desires — has a poll exponent of at least `last_poll`. -/
theorem never_faster_after_rate (s : State) (hJ : J s) (now : Nat) (p : Pkt) (id : ReqId) (dl : Nat) (a b : Nat)
    (bl : Option Bool) (hm : Matching s now p id dl) (hr : IsRate s p) (hno : s.remoteMinPoll < 127)
    (post : List Op) :
    ∀ o ∈ observations (handleIncoming s now (some p) a b bl).1 post, ∀ i, o = .timer (.send i) →
      s.lastPoll ≤ i.poll := by
  intro o ho i hi
  obtain ⟨_, _, hge, _⟩ := rate_lengthens s now p id dl a b bl hm hr hno _ rfl
  have hJ' : J (handleIncoming s now (some p) a b bl).1 :=
    (step_remote_min s (.incoming now (some p) a b bl) hJ).2.1
  exact Int.le_trans hge (sends_ge_remote_min post _ hJ' o ho i hi)

/-- `J` holds in every state of every history of a new source -/
theorem J_reachable (cfg : Cfg) (pr : Proto) (nts : Option Stash) (ops : List Op) :
    J (run (SourceSM.init cfg pr nts) ops).1 :=
  (run_remote_min ops _ (J_init cfg pr nts)).2.1

/-! #### non-vacuity -/

def cfg0 : Cfg := ⟨⟨4, 10⟩, 16, [], 5⟩
def kiss (origin : Nat) (k : Kiss) : Pkt :=
  { version := 4, mode := 4, stratum := 0, poll := 0, kiss := k, refid := 0, refTs := 0, origin := origin,
    uidAuth := [], uidEnc := [], uidUntr := [], authnak := false, cookiesAuth := [], cookiesEnc := [],
    cookiesUntr := [], rrAuth := false, rrUntr := false, leap := 0, precision := 0, rootDelay := 0, rootDisp := 0,
    recvTs := 0, xmitTs := 0 }

/-- a plain v4 source: RATE raises the floor 4 → 5 and the next poll uses 5; DENY only marks; NTSN is inert -/
example :
    let s1 := (handleTimer (SourceSM.init cfg0 .v4 none) 0 4 99 [] 16500000000).1
    (handleIncoming s1 1 (some (kiss 99 .rate)) 0 0 none).1.remoteMinPoll = 5 ∧
    (∃ i, (handleTimer (handleIncoming s1 1 (some (kiss 99 .rate)) 0 0 none).1 2 4 100 [] 33000000000).2 = .send i ∧ i.poll = 5) ∧
    (handleIncoming s1 1 (some (kiss 99 .deny)) 0 0 none) = ({ s1 with haveDeny := true }, .ignore) ∧
    (handleIncoming s1 1 (some (kiss 99 .ntsn)) 0 0 none) = (s1, .ignore) := by
  refine ⟨by decide, ⟨_, rfl, by decide⟩, by decide, by decide⟩

/-- hypotheses of the theorems are satisfiable: the RATE packet above is a matching RATE answer -/
example :
    let s1 := (handleTimer (SourceSM.init cfg0 .v4 none) 0 4 99 [] 16500000000).1
    Matching s1 1 (kiss 99 .rate) ⟨99, none⟩ 5000000000 ∧ IsRate s1 (kiss 99 .rate) ∧ Inv s1 := by
  refine ⟨⟨by decide, by decide, by decide, by decide⟩, ⟨by decide, by decide⟩, ?_⟩
  exact ⟨by decide, by decide, by decide, by decide⟩

end NtpVerif.C09

#print axioms NtpVerif.C09.rate_lengthens
#print axioms NtpVerif.C09.next_poll_ge_remote_min
#print axioms NtpVerif.C09.deny_rstr
#print axioms NtpVerif.C09.demobilize_only_when_marked_and_unreachable
#print axioms NtpVerif.C09.ntsn_unknown_inert
#print axioms NtpVerif.C09.rate_no_overflow
#print axioms NtpVerif.C09.inc_no_overflow
#print axioms NtpVerif.C09.remote_min_monotone
#print axioms NtpVerif.C09.never_faster_after_rate
