/-
C12 — NTP version negotiation follows the upgrade protocol.

Model: `NtpVerif.Model.SourceSM` (`ProtocolVersion`, the fallback test and the request construction in
`handle_timer`, the version gate and the upgrade bookkeeping in `handle_incoming`, `is_upgrade`).

Property sentence ↔ theorem
  "configured for NTPv4 only ever sends NTPv4, configured for NTPv5 only ever sends NTPv5"
        ↔ `forced_stable` (state), `sent_version` (what each state sends)
  "in automatic mode it sends NTPv4 upgrade requests, switches to NTPv5 only after a matching answer carrying the
   upgrade marker"                      ↔ `sent_version`, `upgrade_only_on_marker`
  "returns to plain NTPv4 after eight matching answers without it"
                                        ↔ `countdown_without_marker`, `eight_without_marker`
  "falls back to NTPv4 if the upgraded association misses two polls before its first matching NTPv5 answer"
                                        ↔ `fallback`, `upgraded_to_v5`
  "only ever accepts answers of the version it currently expects"   ↔ `accept_expected_only`
  "an NTS source uses the version negotiated during key exchange"   ↔ `forced_stable` + `sent_version` for the
        `V4`/`V5` a key exchange yields (that the exchange yields only those two is C28's subject)
-/
import NtpVerif.Proofs.SourceSM

namespace NtpVerif.C12
open NtpVerif.SourceSM NtpVerif.CookieStash

def Unreachable (s : State) : Prop := s.reach = 0 ∧ s.tries ≥ 3
instance (s : State) : Decidable (Unreachable s) := by unfold Unreachable; infer_instance

/-- version and upgrade marker a protocol state sends (plain / NTS) -/
def sends (nts : Bool) : Proto → Nat × Bool
  | .v4 => (4, false)
  | .upgrading _ => if nts then (5, false) else (4, true)
  | .upgraded => (5, false)
  | .v5 => (5, false)

/-- **C12.sent_version** — every request a timer sends has the version and upgrade marker determined by the
    protocol state after the fallback test: `V4 ↦ v4`, `V4UpgradingToV5 ↦ v4 + marker` (plain), `UpgradedToV5`,
    `V5 ↦ v5`; NTS: `V4 ↦ v4`, everything else v5, never a marker. -/
theorem sent_version (s : State) (now : Nat) (d : Int) (o : Nat) (u : List UInt8) (t : Nat) (i : SendInfo)
    (h : (handleTimer s now d o u t).2 = .send i) :
    (i.version, i.upgrade) = sends s.nts.isSome (timerProto s) ∧
    (handleTimer s now d o u t).1.proto = timerProto s := by
  rcases timer_cases s now d o u t with ⟨_, e⟩ | ⟨_, ⟨hn, e⟩ | ⟨st, st', hn, _, e⟩ | ⟨st, st', hn, _, e⟩ |
      ⟨st, st', c, n, hn, _, ⟨_, e⟩ | ⟨_, e⟩⟩⟩
  · rw [e] at h; cases hd : s.haveDeny <;> simp [hd] at h
  · rw [e] at h ⊢; cases h
    rw [hn]
    refine ⟨?_, rfl⟩
    cases timerProto s <;> simp [sends, plainV5, isUpgrading]
  · rw [e] at h; cases h
  · rw [e] at h; cases h
  · rw [e] at h; cases h
  · rw [e] at h ⊢; cases h
    rw [hn]
    refine ⟨?_, rfl⟩
    cases timerProto s <;> simp [sends, ntsV5]

/-- the packet of a matching answer: a request is pending, the datagram parsed, arrives within the window, has
    the expected version and is a valid response to the pending request -/
def matching (s : State) : Op → Option Pkt
  | .incoming now (some p) _ _ _ =>
    match s.pending with
    | some (id, dl) =>
      if now ≤ dl ∧ s.proto.expects p.version = true ∧ p.validResponse id s.nts.isSome = true then some p else none
    | none => none
  | _ => none

/-- the protocol version after any op (aborting ones included) -/
theorem step_proto (s : State) (op : Op) :
    (step s op).1.proto =
      match op with
      | .timer .. => if Unreachable s then s.proto else timerProto s
      | .incoming .. =>
        match matching s op with
        | some p => protoOnValid s.proto p.isUpgrade
        | none => s.proto := by
  cases op with
  | timer now d o u t =>
    simp only [step]
    rcases timer_cases s now d o u t with ⟨h0, e⟩ | ⟨h0, ⟨hn, e⟩ | ⟨st, st', hn, _, e⟩ | ⟨st, st', hn, _, e⟩ |
        ⟨st, st', c, n, hn, _, ⟨_, e⟩ | ⟨_, e⟩⟩⟩
    · rw [e]; simp [Unreachable, h0]
    all_goals (rw [e]; simp only [Unreachable, h0, if_false]; rfl)
  | incoming now parsed a b bl =>
    simp only [step, handleIncoming]
    cases hm : matching s (.incoming now parsed a b bl) with
    | none =>
      simp only
      rw [incoming_not_matching true s now parsed a b bl]
      intro p id dl h1 h2 h3
      subst h1
      simp [matching, h2, h3] at hm
    | some p =>
      simp only
      cases parsed with
      | none => simp [matching] at hm
      | some q =>
        simp only [matching] at hm
        cases hpd : s.pending with
        | none => rw [hpd] at hm; cases hm
        | some pr =>
          obtain ⟨id, dl⟩ := pr
          rw [hpd] at hm
          simp only at hm
          split at hm
          · rename_i hc
            injection hm with hm; subst hm
            rcases incoming_matching_cases true s now q id dl a b bl hpd hc.1 hc.2.1 hc.2.2 with
              ⟨_, _, e⟩ | ⟨_, _, ⟨_, e⟩ | ⟨rr, _, e⟩⟩ | ⟨_, _, _, ⟨_, e⟩ | ⟨_, e⟩⟩ | ⟨_, _, _, e⟩
            all_goals (rw [e])
            exact (processMessage_fields _ q a b bl).2.2.2.2.2.1
          · cases hm

/-- **C12.forced_stable** — a source in `V4` (resp. `V5`) stays in `V4` (resp. `V5`) over every history: a source
    configured for one version, and an NTS source with a negotiated version, never leaves it. -/
theorem forced_stable (ops : List Op) (s : State) (pr : Proto) (hpr : pr = .v4 ∨ pr = .v5) (h : s.proto = pr) :
    ∀ st ∈ states s ops, st.proto = pr := by
  induction ops generalizing s with
  | nil => simp [states, run]
  | cons op ops ih =>
    simp only [states, run, List.map_cons, List.mem_cons, forall_eq_or_imp]
    have hstep : (step s op).1.proto = pr := by
      rw [step_proto]
      cases op with
      | timer =>
        simp only
        split
        · exact h
        · unfold timerProto; rw [h]; rcases hpr with rfl | rfl <;> simp
      | incoming =>
        simp only
        split
        · rw [h]; rcases hpr with rfl | rfl <;> rfl
        · exact h
    exact ⟨hstep, ih _ hstep⟩

/-- **C12.upgrade_only_on_marker** — the only way out of `V4UpgradingToV5` into `UpgradedToV5` is a matching
    answer (version 4) carrying the upgrade marker. -/
theorem upgrade_only_on_marker (s : State) (op : Op) (n : Nat) (h : s.proto = .upgrading n)
    (h' : (step s op).1.proto = .upgraded) :
    ∃ p, matching s op = some p ∧ p.isUpgrade = true ∧ p.version = 4 := by
  rw [step_proto] at h'
  cases op with
  | timer =>
    simp only at h'
    split at h'
    · rw [h] at h'; cases h'
    · unfold timerProto at h'; rw [h] at h'; simp at h'
  | incoming now parsed a b bl =>
    simp only at h'
    cases hm : matching s (.incoming now parsed a b bl) with
    | none => rw [hm, h] at h'; cases h'
    | some p =>
      rw [hm, h] at h'
      refine ⟨p, rfl, ?_, ?_⟩
      · cases hu : p.isUpgrade with
        | true => rfl
        | false => simp [protoOnValid, hu] at h'; split at h' <;> cases h'
      · cases hu : p.isUpgrade with
        | false => simp [protoOnValid, hu] at h'; split at h' <;> cases h'
        | true => simp only [Pkt.isUpgrade, Bool.and_eq_true, beq_iff_eq] at hu; exact hu.1

/-- number of matching answers along a run -/
def matchCount (s : State) : List Op → Nat
  | [] => 0
  | op :: ops => (if (matching s op).isSome then 1 else 0) + matchCount (step s op).1 ops

/-- no matching answer along the run carries the upgrade marker -/
def NoMarker (s : State) : List Op → Prop
  | [] => True
  | op :: ops => (∀ p, matching s op = some p → p.isUpgrade = false) ∧ NoMarker (step s op).1 ops

/-- **C12.countdown_without_marker** — from `V4UpgradingToV5 {tries_left: n}`, along any history whose matching
    answers carry no marker, after `k` matching answers the source is still upgrading with `n - k` tries left
    while `k < n` (and `k = 0` for `n = 0`), and back in plain `V4` from then on. -/
theorem countdown_without_marker (ops : List Op) (s : State) (n : Nat) (h : s.proto = .upgrading n)
    (hnm : NoMarker s ops) :
    (run s ops).1.proto =
      (if matchCount s ops = 0 then .upgrading n
       else if n ≤ matchCount s ops then .v4 else .upgrading (n - matchCount s ops)) := by
  induction ops generalizing s n with
  | nil => simpa [run, matchCount] using h
  | cons op ops ih =>
    obtain ⟨hm1, hm2⟩ := hnm
    simp only [run, matchCount]
    have hmo : matching s op = none ∨ ∃ p, matching s op = some p := by
      cases matching s op <;> simp
    rcases hmo with hm | ⟨p, hm⟩
    · simp only [hm]
      have hsp := step_proto s op
      have hkeep : (step s op).1.proto = .upgrading n := by
        rw [hsp]
        cases op with
        | timer => simp only; split; exact h; unfold timerProto; rw [h]; simp
        | incoming => simp only [hm]; exact h
      rw [ih _ n hkeep hm2]
      simp
    · simp only [hm]
      have hu := hm1 p hm
      have hsp := step_proto s op
      have hp : (step s op).1.proto = protoOnValid (.upgrading n) false := by
        rw [hsp]
        cases op with
        | timer => simp [matching] at hm
        | incoming => simp only [hm, h, hu]
      simp only [protoOnValid, Bool.false_eq_true, if_false] at hp
      simp only [Option.isSome_some, if_true]
      by_cases hn : n - 1 = 0
      · -- back to V4, and it stays there
        simp only [hn, if_true] at hp
        have hst := forced_stable ops (step s op).1 .v4 (Or.inl rfl) hp
        have hfin : (run (step s op).1 ops).1.proto = .v4 := by
          cases ops with
          | nil => simpa [run] using hp
          | cons o os =>
            have hmem : (run (step s op).1 (o :: os)).1 ∈ states (step s op).1 (o :: os) := by
              have : ∀ (s : State) (l : List Op), l ≠ [] → (run s l).1 ∈ states s l := by
                intro s l
                induction l generalizing s with
                | nil => intro h; exact absurd rfl h
                | cons x xs ihx =>
                  intro _
                  simp only [states, run, List.map_cons, List.mem_cons]
                  cases xs with
                  | nil => left; simp [run]
                  | cons y ys => right; exact ihx _ (by simp)
              exact this _ _ (by simp)
            exact hst _ hmem
        rw [hfin]
        have : n ≤ 1 + matchCount (step s op).1 ops := by omega
        simp [this]
      · simp only [hn, if_false] at hp
        rw [ih _ (n - 1) hp hm2]
        by_cases hk : matchCount (step s op).1 ops = 0
        · simp only [hk, if_true, Nat.add_zero]
          have : ¬ n ≤ 1 := by omega
          simp [this]
        · simp only [hk, if_false]
          have h1 : 1 + matchCount (step s op).1 ops ≠ 0 := by omega
          simp only [h1, if_false]
          by_cases hle : n - 1 ≤ matchCount (step s op).1 ops
          · have : n ≤ 1 + matchCount (step s op).1 ops := by omega
            simp [hle, this]
          · have : ¬ n ≤ 1 + matchCount (step s op).1 ops := by omega
            simp only [hle, this, if_false]
            congr 1
            omega

/-- **C12.eight_without_marker** — with the default `tries_left = 8`: after eight matching answers without the
    marker the source is back in plain NTPv4; before that it is still upgrading (and keeps sending upgrade
    requests, `sent_version`). -/
theorem eight_without_marker (ops : List Op) (s : State) (h : s.proto = .upgrading 8) (hnm : NoMarker s ops) :
    (8 ≤ matchCount s ops → (run s ops).1.proto = .v4) ∧
    (matchCount s ops < 8 → (run s ops).1.proto = .upgrading (8 - matchCount s ops)) := by
  have := countdown_without_marker ops s 8 h hnm
  constructor
  · intro h8
    rw [this]
    have : matchCount s ops ≠ 0 := by omega
    simp [this, h8]
  · intro h8
    rw [this]
    by_cases h0 : matchCount s ops = 0
    · simp [h0]
    · have : ¬ 8 ≤ matchCount s ops := by omega
      simp [h0, this]

/-- **C12.fallback** — an upgraded association that has missed two polls (register shows ≥ 2 unanswered) and is not
    up for a reset falls back to `V4` at the timer: the request it then sends is plain NTPv4. -/
theorem fallback (s : State) (now : Nat) (d : Int) (o : Nat) (u : List UInt8) (t : Nat)
    (h : s.proto = .upgraded) (h2 : 2 ≤ tz8 s.reach) (hn : ¬ Unreachable s) :
    (handleTimer s now d o u t).1.proto = .v4 ∧
    ∀ i, (handleTimer s now d o u t).2 = .send i → (i.version, i.upgrade) = (4, false) := by
  have hp : timerProto s = .v4 := by
    unfold timerProto; simp [h, Gen.AFTER_UPGRADE_TRIES_THRESHOLD, h2]
  have := step_proto s (.timer now d o u t)
  simp only [step, hn, if_false] at this
  refine ⟨by rw [this, hp], ?_⟩
  intro i hi
  have := (sent_version s now d o u t i hi).1
  rw [hp] at this
  simpa [sends] using this

/-- no fallback while fewer than two polls are missed -/
theorem no_fallback (s : State) (h : s.proto = .upgraded) (h2 : tz8 s.reach < 2) : timerProto s = .upgraded := by
  unfold timerProto
  simp only [h, Gen.AFTER_UPGRADE_TRIES_THRESHOLD, true_and]
  split
  · omega
  · rfl

/-- **C12.upgraded_to_v5** — the first matching answer (necessarily version 5) turns `UpgradedToV5` into `V5`. -/
theorem upgraded_to_v5 (s : State) (op : Op) (p : Pkt) (h : s.proto = .upgraded) (hm : matching s op = some p) :
    (step s op).1.proto = .v5 ∧ p.version = 5 := by
  have := step_proto s op
  cases op with
  | timer => simp [matching] at hm
  | incoming now parsed a b bl =>
    simp only [hm] at this
    refine ⟨by rw [this, h]; rfl, ?_⟩
    cases parsed with
    | none => simp [matching] at hm
    | some q =>
      simp only [matching] at hm
      cases hpd : s.pending with
      | none => rw [hpd] at hm; cases hm
      | some pr =>
        obtain ⟨id, dl⟩ := pr
        rw [hpd] at hm
        simp only at hm
        split at hm
        · rename_i hc
          injection hm with hm; subst hm
          have := hc.2.1
          rw [h] at this
          simpa [Proto.expects] using this
        · cases hm

/-- **C12.accept_expected_only** — a datagram whose version the current protocol state does not expect is
    ignored without any effect. -/
theorem accept_expected_only (s : State) (now : Nat) (p : Pkt) (a b : Nat) (bl : Option Bool)
    (h : s.proto.expects p.version = false) :
    handleIncoming s now (some p) a b bl = (s, .ignore) := by
  simp [handleIncoming, handleIncomingG, h]

/-- which versions each state expects -/
theorem expected_versions (v : Nat) :
    (Proto.v4.expects v = true ↔ (v = 4 ∨ v = 3)) ∧ (∀ n, (Proto.upgrading n).expects v = true ↔ v = 4) ∧
    (Proto.upgraded.expects v = true ↔ v = 5) ∧ (Proto.v5.expects v = true ↔ v = 5) := by
  simp [Proto.expects]

/-! #### non-vacuity -/

def cfg0 : Cfg := ⟨⟨4, 10⟩, 16, [], 5⟩
def ans (origin : Nat) (marker : Bool) : Pkt :=
  { version := 4, mode := 4, stratum := 2, poll := 6, kiss := .other, refid := 7,
    refTs := if marker then UPGRADE_TIMESTAMP else 0, origin := origin,
    uidAuth := [], uidEnc := [], uidUntr := [], authnak := false, cookiesAuth := [], cookiesEnc := [],
    cookiesUntr := [], rrAuth := false, rrUntr := false, leap := 0, precision := -20, rootDelay := 1, rootDisp := 2,
    recvTs := 11, xmitTs := 12 }

/-- an automatic source sends a v4 upgrade request; the marked answer upgrades it; the next request is v5 -/
example :
    let s1 := (handleTimer (init cfg0 (.upgrading 8) none) 0 4 99 [] 16500000000)
    let s2 := handleIncoming s1.1 1000 (some (ans 99 true)) 1 2 none
    (∃ i, s1.2 = .send i ∧ i.version = 4 ∧ i.upgrade = true) ∧ s2.1.proto = .upgraded ∧
    (∃ i, (handleTimer s2.1 2000 4 100 [] 16500000000).2 = .send i ∧ i.version = 5) := by
  refine ⟨⟨_, rfl, by decide, by decide⟩, by decide, ⟨_, rfl, by decide⟩⟩

/-- an unmarked answer only counts down -/
example :
    (handleIncoming (handleTimer (init cfg0 (.upgrading 8) none) 0 4 99 [] 16500000000).1 1000
      (some (ans 99 false)) 1 2 none).1.proto = .upgrading 7 := by decide

end NtpVerif.C12

#print axioms NtpVerif.C12.sent_version
#print axioms NtpVerif.C12.forced_stable
#print axioms NtpVerif.C12.upgrade_only_on_marker
#print axioms NtpVerif.C12.countdown_without_marker
#print axioms NtpVerif.C12.eight_without_marker
#print axioms NtpVerif.C12.fallback
#print axioms NtpVerif.C12.upgraded_to_v5
#print axioms NtpVerif.C12.accept_expected_only
