/-
Model of `ntp-proto/src/packet/mac.rs`.  Import-free.
  Mac::deserialize   Mac.deserialize    (index expressions `data[0..4]`, `data[4..]` explicit)
  Mac::serialize     Mac.serialize
-/
import NtpVerif.Model.Bytes
import NtpVerif.Gen.Consts

namespace NtpVerif.Wire

structure Mac where
  keyid : Nat
  mac : Bytes
deriving Repr, DecidableEq

def Mac.deserialize (data : Bytes) : R Mac :=
  if data.length < 4 ∨ data.length > Gen.MAC_MAXIMUM_SIZE then perr .incorrectLength
  else do
    let k ← sliceP data 0 4
    let m ← sliceP data 4 data.length
    pure { keyid := beNat k, mac := m }

def Mac.serialize (m : Mac) : Bytes := toBE 4 m.keyid ++ m.mac

end NtpVerif.Wire
