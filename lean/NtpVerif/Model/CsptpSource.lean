/-
Model of the CSPTP client `statime-csptp/src/source.rs` (import-free).

  RequestState                      `ReqState`
  collect_response (one iteration)  `collectStep`   (one received datagram / recv error)
  add_correction (fixed, F-C44a)    `addCorrection` (+ `addCorrectionOrig`, the unfixed one)
  convert_to_ntp                    `convertToNtp`
  the body of `run`'s poll loop     `step` over the ops `req` (next poll: result of `send_event`) and
                                    `ev` (what `recv` hands out while a request is open)

The model describes the code WITH the proposed fix F-C44a/F-C44c (`add_correction` returns `None`
when the corrected seconds leave `[0, 2^48)`; `run` then ignores the response; `steps_removed`
saturates).  Every `expect` / `debug_assert` / checked-arithmetic site is an explicit `.panic`.

Ghost state: `Phase.collecting` carries the list of events the open request has consumed so far
(`hist`, newest first).  It is never read by `step`; the theorems of C44 use it to say *which*
datagrams a measurement stems from.
-/
import NtpVerif.Model.CsptpMsg

namespace NtpVerif.CsptpSource
open NtpVerif.PtpWire NtpVerif.Csptp

def MAX_MESSAGE_SIZE : Nat := Gen.CSPTP_MAX_MESSAGE_SIZE
def EPOCH_OFFSET : Nat := Gen.CSPTP_EPOCH_OFFSET
def UTC_OFFSET : Nat := Gen.CSPTP_UTC_OFFSET

/-- `i64::saturating_add` -/
def satAdd64 (a b : Int) : Int :=
  if a + b < -9223372036854775808 then -9223372036854775808
  else if a + b > 9223372036854775807 then 9223372036854775807
  else a + b

/-- fields of `RequestState::WaitingForFollowUp` -/
structure Pending where
  reqRecv : Timestamp
  respRecv : Timestamp
  reqCorr : Int
  respCorr : Int
  leap : Nat                     -- 0 NoWarning, 1 Leap61, 2 Leap59
  status : Option StatusTlv
  ptp : Bool
  tt : Bool
  ft : Bool
deriving DecidableEq, Repr

inductive ReqState where
  | waitingForResponse
  | waitingForFollowUp (p : Pending)
  | haveFollowUp (remoteSend : Timestamp) (respCorr : Int)
deriving DecidableEq, Repr

/-- `CsptpRawMeasurement` -/
structure Raw where
  reqSend : Timestamp
  reqRecv : Timestamp
  respSend : Timestamp
  respRecv : Timestamp
  reqCorr : Int
  respCorr : Int
  leap : Nat
  status : Option StatusTlv
  ptp : Bool
  tt : Bool
  ft : Bool
deriving DecidableEq, Repr

/-- what `socket.recv` hands to `collect_response` -/
inductive Ev where
  | rxErr
  | dg (pkt : Bytes) (rx : Option Timestamp)
deriving DecidableEq, Repr

inductive Step where
  | cont (s : ReqState)      -- `continue`
  | done (m : Raw)           -- `return measurement`
deriving DecidableEq, Repr

def leapOf (h : Header) : Nat := if h.leap59 then 2 else if h.leap61 then 1 else 0

/-- one iteration of the loop of `collect_response` -/
def collectStep (domain reqId : Nat) (sendTs : Timestamp) (st : ReqState) : Ev → Except Fail Step
  | .rxErr => .ok (.cont st)
  | .dg pkt rx =>
    match Csptp.deserialize (pkt.take MAX_MESSAGE_SIZE) with
    | .error .panic => .error .panic
    | .error _ => .ok (.cont st)
    | .ok (m, tlvs) =>
      if m.header.domain ≠ domain ∨ m.header.seqId ≠ reqId then .ok (.cont st)
      else
        match m.body with
        | .sync origin =>
          match tlvs.findSome? ResponseTlv.tryFrom with
          | none => .ok (.cont st)
          | some r =>
            match rx with
            | none => .ok (.cont st)
            | some rxTs =>
              let status := tlvs.findSome? StatusTlv.tryFrom
              if m.header.twoStep then
                match st with
                | .waitingForResponse =>
                  .ok (.cont (.waitingForFollowUp
                    { reqRecv := r.ingress, respRecv := rxTs, reqCorr := r.correction,
                      respCorr := m.header.correction, leap := leapOf m.header, status,
                      ptp := m.header.ptpTimescale, tt := m.header.timeTraceable,
                      ft := m.header.freqTraceable }))
                | .waitingForFollowUp _ => .ok (.cont st)
                | .haveFollowUp remoteSend respCorr =>
                  .ok (.done
                    { reqSend := sendTs, reqRecv := r.ingress, respSend := remoteSend, respRecv := rxTs,
                      reqCorr := r.correction, respCorr := satAdd64 respCorr m.header.correction,
                      leap := leapOf m.header, status, ptp := m.header.ptpTimescale,
                      tt := m.header.timeTraceable, ft := m.header.freqTraceable })
              else
                .ok (.done
                  { reqSend := sendTs, reqRecv := r.ingress, respSend := origin, respRecv := rxTs,
                    reqCorr := r.correction, respCorr := m.header.correction,
                    leap := leapOf m.header, status, ptp := m.header.ptpTimescale,
                    tt := m.header.timeTraceable, ft := m.header.freqTraceable })
        | .followUp precise =>
          match st with
          | .waitingForResponse => .ok (.cont (.haveFollowUp precise m.header.correction))
          | .waitingForFollowUp p =>
            .ok (.done
              { reqSend := sendTs, reqRecv := p.reqRecv, respSend := precise, respRecv := p.respRecv,
                reqCorr := p.reqCorr, respCorr := satAdd64 p.respCorr m.header.correction,
                leap := p.leap, status := p.status, ptp := p.ptp, tt := p.tt, ft := p.ft })
          | .haveFollowUp _ _ => .ok (.cont st)
        | _ => .ok (.cont st)

/-- `add_correction` (fixed): `None` when the corrected time is not a PTP timestamp.
    `correction.0 >> 16`, `div_euclid`, `rem_euclid` are `Int` `/` and `%` (floor / Euclidean for a
    positive divisor); the `try_into::<u32>().expect(..)` is the explicit panic branch. -/
def addCorrection (ts : Timestamp) (corr : Int) : Except Fail (Option Timestamp) :=
  let cn := corr / 65536
  let cs := cn / 1000000000
  let cnr := cn % 1000000000
  if cnr < 0 ∨ cnr > 4294967295 then .error .panic
  else
    let inter := (ts.nanos + cnr.toNat) % 4294967296            -- u32 wrapping_add
    let s1 : Int := (ts.seconds : Int) + cs                     -- checked_add_signed
    if s1 < 0 ∨ s1 > 18446744073709551615 then .ok none
    else
      let s2 := s1.toNat + inter / 1000000000                   -- checked_add
      if s2 > 18446744073709551615 then .ok none
      else
        match Timestamp.new s2 (inter % 1000000000) with
        | .ok t => .ok (some t)
        | .error _ => .ok none

/-- the unfixed `add_correction`: wrapping arithmetic, then `Timestamp::new(..).expect(..)` -/
def addCorrectionOrig (ts : Timestamp) (corr : Int) : Except Fail Timestamp :=
  let cn := corr / 65536
  let cs := cn / 1000000000
  let cnr := cn % 1000000000
  if cnr < 0 ∨ cnr > 4294967295 then .error .panic
  else
    let inter := (ts.nanos + cnr.toNat) % 4294967296
    let s1 := (((ts.seconds : Int) + cs) % 18446744073709551616).toNat
    let s2 := (s1 + inter / 1000000000) % 18446744073709551616
    match Timestamp.new s2 (inter % 1000000000) with
    | .ok t => .ok t
    | .error _ => .error .panic

/-- `convert_to_ntp`: the 64 bits of the `NtpTimestamp`
    (`from_seconds_nanos_since_ntp_era` has `debug_assert!(nanos < 1_000_000_000)`) -/
def convertToNtp (ts : Timestamp) : Except Fail Nat :=
  if ts.nanos ≥ 1000000000 then .error .panic
  else
    let secs := ((EPOCH_OFFSET + ts.seconds % 4294967296) % 4294967296 + 4294967296 - UTC_OFFSET) % 4294967296
    let frac := ts.nanos * 4294967296 / 1000000000
    if secs * 4294967296 + frac > 18446744073709551615 then .error .panic     -- checked `+` on u64
    else .ok (secs * 4294967296 + frac)

/-- the part of `CsptpState` the source writes -/
structure GmState where
  identity : Nat
  priority1 : Nat
  priority2 : Nat
  quality : ClockQuality
  stepsRemoved : Nat
  ptp : Bool
  tt : Bool
  ft : Bool
deriving DecidableEq, Repr

/-- the status update at the end of the poll loop (fixed: `saturating_add(1)`) -/
def updateState (active : Bool) (raw : Raw) (g : GmState) : GmState :=
  match raw.status with
  | none => g
  | some s =>
    if active then
      { identity := s.identity, priority1 := s.priority1, priority2 := s.priority2, quality := s.quality,
        stepsRemoved := min (s.stepsRemoved + 1) 65535, ptp := raw.ptp, tt := raw.tt, ft := raw.ft }
    else g

/-- the unfixed status update: `status.steps_removed + 1` on `u16` (checked build) -/
def updateStateOrig (active : Bool) (raw : Raw) (g : GmState) : Except Fail GmState :=
  match raw.status with
  | none => .ok g
  | some s =>
    if active then
      if s.stepsRemoved + 1 > 65535 then .error .panic
      else .ok { identity := s.identity, priority1 := s.priority1, priority2 := s.priority2,
                 quality := s.quality, stepsRemoved := s.stepsRemoved + 1, ptp := raw.ptp, tt := raw.tt,
                 ft := raw.ft }
    else .ok g

/-- the two `Measurement`s handed to the controller -/
structure Meas where
  aSender : Nat      -- request direction: corrected local send time
  aReceiver : Nat    --                    server's ingress time
  bSender : Nat      -- response direction: corrected server send time
  bReceiver : Nat    --                     local receive time
  leap : Nat
deriving DecidableEq, Repr

/-- from `let Some(measurement) = ..` to the end of the loop body: `none` = response ignored -/
def finish (raw : Raw) : Except Fail (Option Meas) := do
  let a ← addCorrection raw.reqSend raw.reqCorr
  let b ← addCorrection raw.respSend raw.respCorr
  match a, b with
  | some a, some b => do
    let a1 ← convertToNtp a
    let a2 ← convertToNtp raw.reqRecv
    let b1 ← convertToNtp b
    let b2 ← convertToNtp raw.respRecv
    pure (some { aSender := a1, aReceiver := a2, bSender := b1, bReceiver := b2, leap := raw.leap })
  | _, _ => pure none

inductive Phase where
  | idle                                   -- no socket: between polls / send failed / answer complete
  | collecting (reqId : Nat) (sendTs : Timestamp) (st : ReqState) (hist : List Ev)
deriving DecidableEq, Repr

structure St where
  domain : Nat
  active : Bool          -- `state.active_source == Some(self.remote_clock)`
  nextId : Nat           -- `sequence_id`
  phase : Phase
  gm : GmState
deriving DecidableEq, Repr

inductive Op where
  | req (send : Option Timestamp)          -- next poll; result of `send_event`
  | ev (e : Ev)                            -- the socket has this for `recv`
deriving DecidableEq, Repr

inductive Obs where
  | sent (bytes : Bytes)
  | none
  | unread
  | meas (m : Meas) (gm : GmState)
deriving DecidableEq, Repr

/-- the request datagram of a poll (`new_request(..).expect(..)`, `serialize(..).expect(..)`) -/
def requestBytes (domain reqId : Nat) : Except Fail Bytes :=
  match newRequest domain reqId with
  | .error _ => .error .panic
  | .ok m =>
    match m.serialize (List.replicate MAX_MESSAGE_SIZE 0) with
    | .error _ => .error .panic
    | .ok b => .ok b

def step (s : St) : Op → Except Fail (St × Obs)
  | .req send => do
    -- a poll starts: the previous request's socket (if any) is gone
    let bytes ← requestBytes s.domain s.nextId
    let phase := match send with
      | some ts => Phase.collecting s.nextId ts .waitingForResponse []
      | none => Phase.idle
    pure ({ s with nextId := (s.nextId + 1) % 65536, phase }, .sent bytes)
  | .ev e =>
    match s.phase with
    | .idle => pure (s, .unread)
    | .collecting reqId sendTs st hist => do
      match ← collectStep s.domain reqId sendTs st e with
      | .cont st' => pure ({ s with phase := .collecting reqId sendTs st' (e :: hist) }, .none)
      | .done raw =>
        match ← finish raw with
        | none => pure ({ s with phase := .idle }, .none)
        | some m =>
          let gm := updateState s.active raw s.gm
          pure ({ s with phase := .idle, gm }, .meas m gm)

/-- run a whole script, collecting the observations -/
def run (s : St) : List Op → Except Fail (List Obs)
  | [] => .ok []
  | op :: ops => do
    let (s', o) ← step s op
    let os ← run s' ops
    pure (o :: os)

end NtpVerif.CsptpSource
