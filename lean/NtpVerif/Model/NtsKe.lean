/-
Model of the NTS key-exchange logic of `ntp-proto/src/nts/mod.rs`:
`KeyExchangeServer::{handle_connection, handle_longterm}` and `KeyExchangeClient::exchange_keys`
(request construction + post-processing of the parsed response).  Import-free.

Trusted / abstracted:
  * TLS (handshake, record layer) — not modelled; the byte streams inside the session are.
  * the TLS exporter — `Export`: an uninterpreted function of (protocol, algorithm) giving the two keys
    (`NtsKeys::extract_from_connection`: context = protocol id, algorithm id, direction byte; label
    fixed); `none` = the exporter failed / unknown algorithm.  Both ends of ONE session share the function.
  * cookie encryption (`KeySet::encode_cookie`) — a cookie is the abstract item `cookie alg c2s s2c`
    (what `decode_cookie` returns for it; C26 covers the cookie codec).

The model describes the code WITH the proposed fix `fixes/C28-client-checks-offer.patch`
(`exchange_keys` rejects a response naming a protocol or algorithm it did not offer).
`clientFinishUnfixed` is the code as found (used for the counterexample).
-/
import NtpVerif.Model.NtsMsg

namespace NtpVerif.NtsKe

open NtpVerif.NtsRecord NtpVerif.NtsMsg

structure Keys where
  c2s : Bytes
  s2c : Bytes
deriving Repr, DecidableEq

/-- key export of one TLS session -/
abbrev Export := NextProtocol → Aead → Option Keys

/-- `KeyExchangeServer` (after `new`: `accepted_versions` mapped to protocol ids, NTPv3 dropped) -/
structure ServerCfg where
  protocols : List NextProtocol
  tokens : List Bytes
  server : Option Bytes
  port : Option Nat
deriving Repr, DecidableEq

/-- what the server writes: records, with cookies kept abstract -/
inductive Item where
  | record (r : Record)
  | cookie (alg : Aead) (c2s s2c : Bytes)
deriving Repr, DecidableEq

/-- errors returned by the server entry points -/
inductive SrvErr where
  | parse (e : MsgErr)          -- passed through from `Request::parse` (`Invalid` included)
  | noOverlappingProtocol
  | noOverlappingAlgorithm
  | notPermitted
  | exportFailed
deriving Repr, DecidableEq

inductive ConnResult where
  | closed                      -- `Ok(None)`
  | kept                        -- `Ok(Some((permit, io)))`: handed over for long-term handling
  | err (e : SrvErr)
deriving Repr, DecidableEq

/-- how the connection is left: `clean` = `io.shutdown()` was called (close_notify), `abrupt` = the
    stream was dropped without it, `open` = still usable -/
inductive EndState where
  | clean | abrupt | «open»
deriving Repr, DecidableEq

structure ConnOut where
  items : List Item
  result : ConnResult
  «end» : EndState
  askedPermit : Bool            -- `get_keepalive_permit()` was called
deriving Repr, DecidableEq

def recItems (rs : List Record) : List Item := rs.map .record

/-- the 8 cookies of a response (`DEFAULT_NUMBER_OF_COOKIES`) -/
def cookies (alg : Aead) (k : Keys) : List Item :=
  List.replicate Gen.NTSKE_NUMBER_OF_COOKIES (.cookie alg k.c2s k.s2c)

/-- `KeyExchangeResponse { protocol, algorithm, cookies, server, port, keep_alive }.serialize` -/
def keResponse (cfg : ServerCfg) (p : NextProtocol) (a : Aead) (k : Keys) (keepAlive : Bool) : List Item :=
  recItems [.nextProtocol [p], .aeadAlgorithm [a]] ++ cookies a k
    ++ recItems (optRec cfg.server .server ++ optRec cfg.port .port ++ boolRec keepAlive .keepAlive
        ++ [.endOfMessage])

/-- `AeadAlgorithm::description()` for the two algorithms the server lists -/
def serverAlgorithms : List AlgDesc := [{ id := .siv256, keysize := 32 }, { id := .siv512, keysize := 64 }]

def supportsResponse (cfg : ServerCfg) (wp wa keepAlive : Bool) : List Item :=
  recItems (Supports.records { algorithms := if wa then some serverAlgorithms else none,
                               protocols := if wp then some cfg.protocols else none,
                               keepAlive := keepAlive })

def Aead.isKnown : Aead → Bool
  | .unknown _ => false
  | _ => true

/-- the reaction to a request that did not parse, shared by both entry points (minus the
    `UnexpectedEof` arm of `handle_longterm`) -/
def parseFailure (e : MsgErr) : ConnOut :=
  match e with
  | .invalid =>
    { items := recItems (errorResponseRecords .badRequest), result := .err (.parse .invalid),
      «end» := .clean, askedPermit := false }
  | .unrecognizedCriticalRecord =>
    { items := recItems (errorResponseRecords .unrecognizedCriticalRecord),
      result := .err (.parse .invalid), «end» := .clean, askedPermit := false }
  | e => { items := [], result := .err (.parse e), «end» := .abrupt, askedPermit := false }

def notPermitted : ConnOut :=
  { items := recItems (errorResponseRecords .badRequest), result := .err .notPermitted,
    «end» := .clean, askedPermit := false }

/-- `KeyExchangeServer::handle_connection` after the TLS accept, given the outcome of
    `Request::parse` on the stream -/
def handleConnection (cfg : ServerCfg) (exp : Export) (permitAvailable : Bool)
    (req : Except MsgErr Request) : ConnOut :=
  match req with
  | .error e => parseFailure e
  | .ok (.keyExchange algorithms protocols _) =>
    match protocols.find? (fun p => cfg.protocols.contains p), algorithms.find? Aead.isKnown with
    | none, _ =>
      { items := recItems NoOverlap.noOverlappingProtocol.records, result := .err .noOverlappingProtocol,
        «end» := .clean, askedPermit := false }
    | some p, none =>
      { items := recItems (NoOverlap.noOverlappingAlgorithm p).records,
        result := .err .noOverlappingAlgorithm, «end» := .clean, askedPermit := false }
    | some p, some a =>
      match exp p a with
      | none =>
        { items := recItems (errorResponseRecords .internalServerError), result := .err .exportFailed,
          «end» := .abrupt, askedPermit := false }
      | some k =>
        { items := keResponse cfg p a k false, result := .closed, «end» := .clean, askedPermit := false }
  | .ok (.fixedKey auth c2s s2c a p keepAlive) =>
    if cfg.tokens.contains auth then
      let permit := keepAlive && permitAvailable
      { items := keResponse cfg p a { c2s := c2s, s2c := s2c } permit,
        result := if permit then .kept else .closed,
        «end» := if permit then .open else .clean, askedPermit := keepAlive }
    else notPermitted
  | .ok (.support auth wp wa keepAlive) =>
    if cfg.tokens.contains auth then
      let permit := keepAlive && permitAvailable
      { items := supportsResponse cfg wp wa permit,
        result := if permit then .kept else .closed,
        «end» := if permit then .open else .clean, askedPermit := keepAlive }
    else notPermitted

/-- one iteration of the loop of `handle_longterm`; `.kept` = the loop continues -/
def handleLongterm (cfg : ServerCfg) (req : Except MsgErr Request) : ConnOut :=
  match req with
  | .error (.io .unexpectedEof) =>
    { items := [], result := .closed, «end» := .clean, askedPermit := false }
  | .error e => parseFailure e
  | .ok (.fixedKey _ c2s s2c a p keepAlive) =>
    { items := keResponse cfg p a { c2s := c2s, s2c := s2c } keepAlive,
      result := if keepAlive then .kept else .closed,
      «end» := if keepAlive then .open else .clean, askedPermit := false }
  | .ok (.support _ wp wa keepAlive) =>
    { items := supportsResponse cfg wp wa false,
      result := if keepAlive then .kept else .closed,
      «end» := if keepAlive then .open else .clean, askedPermit := false }
  | .ok (.keyExchange _ _ _) =>
    { items := recItems (errorResponseRecords .badRequest), result := .err (.parse .invalid),
      «end» := .clean, askedPermit := false }

/-! ### client -/

/-- `KeyExchangeClient` (after `new`) -/
structure ClientCfg where
  protocols : List NextProtocol
  algorithms : List Aead
deriving Repr, DecidableEq

/-- `ProtocolVersion` given to `KeyExchangeClient::new` -/
inductive ClientVersion where
  | v4 | v5 | upgrading
deriving Repr, DecidableEq

def ClientCfg.ofVersion : ClientVersion → ClientCfg
  | .v4 => { protocols := [.ntpv4], algorithms := [.siv512, .siv256] }
  | .v5 => { protocols := [.draftNtpv5], algorithms := [.siv512, .siv256] }
  | .upgrading => { protocols := [.draftNtpv5, .ntpv4], algorithms := [.siv512, .siv256] }

/-- the request `exchange_keys` sends -/
def clientRequest (cfg : ClientCfg) (denied : List Bytes) : Request :=
  .keyExchange cfg.algorithms cfg.protocols denied

inductive CliErr where
  | parse (e : MsgErr)
  | invalid
  | noCookie
deriving Repr, DecidableEq

/-- `KeyExchangeResult` (+ the algorithm, which Rust carries in the type of the ciphers) -/
structure KeResult where
  remote : Bytes
  port : Nat
  protocol : NextProtocol        -- `.ntpv4` ↦ `ProtocolVersion::V4`, `.draftNtpv5` ↦ `V5`
  algorithm : Aead
  keys : Keys
  cookies : List Bytes           -- the stash, oldest first
deriving Repr, DecidableEq

/-- the code after `KeyExchangeResponse::parse` in `exchange_keys`, as found in the repository -/
def clientFinishUnfixed (exp : Export) (serverName : Bytes) (resp : Except MsgErr Response) :
    Except CliErr KeResult :=
  match resp with
  | .error e => .error (.parse e)
  | .ok r =>
    match exp r.protocol r.algorithm with
    | none => .error .invalid            -- `extract_from_connection`: unknown algorithm / exporter error
    | some k =>
      if r.cookies.isEmpty then .error .noCookie
      else match r.protocol with
        | .unknown _ => .error .invalid
        | p => .ok { remote := match r.server with | some n => n | none => serverName,
                     port := match r.port with | some q => q | none => Gen.NTP_DEFAULT_PORT,
                     protocol := p, algorithm := r.algorithm, keys := k, cookies := r.cookies }

/-- with the fix: a response naming an un-offered protocol or algorithm is rejected first -/
def clientFinish (cfg : ClientCfg) (exp : Export) (serverName : Bytes) (resp : Except MsgErr Response) :
    Except CliErr KeResult :=
  match resp with
  | .error e => .error (.parse e)
  | .ok r =>
    if cfg.protocols.contains r.protocol && cfg.algorithms.contains r.algorithm then
      clientFinishUnfixed exp serverName (.ok r)
    else .error .invalid

end NtpVerif.NtsKe
