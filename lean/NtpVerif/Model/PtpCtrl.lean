/-
Model of the steering / query part of `KalmanController` (`statime-algo/src/lib.rs`): the body of the
`for` loop of `KalmanControllerState::steer_clocks` for one clock, and the two queries.  Import-free.

`steerOne`: given what `steer_clocks` reads for one clock — the filter's offset (value, uncertainty) and
frequency value, the clock's current and maximum frequency — the action performed on the clock and the
amount absorbed into the estimator:
  * `offset < 10.0 && offset > 5.0 * uncertainty` → `set_frequency(clamp(cur − freq − offset/8, ±max))`,
    absorbed frequency change `actual − cur`;  `f64::clamp` panics unless `−max ≤ max` (NaN or negative max);
  * otherwise `step_clock(Duration::from_f64_seconds(−offset))`; absorbed: that duration (as seconds) for
    the system clock (index 0), `−offset` itself for the others.
The controller's queries are the filter's (estimator's) queries: `clock_frequency` reads the frequency
entry (the code as FIXED by fixes/C43-clock-frequency.patch; the unfixed code read the offset entry).
-/
import NtpVerif.Model.Estimator

namespace NtpVerif.PtpCtrl
open NtpVerif.Estimator

def F64_TEN : F64 := ⟨0x4024000000000000⟩
def F64_FIVE : F64 := ⟨0x4014000000000000⟩
def F64_EIGHT : F64 := ⟨0x4020000000000000⟩

inductive Action where
  /-- `set_frequency(actual)`, estimator absorbs `change` into the frequency entry -/
  | setFreq (actual change : F64)
  /-- `step_clock(dur)`, estimator absorbs `absorbed` seconds into the offset entry -/
  | step (dur : Int) (absorbed : F64)
  | panic
deriving Repr, DecidableEq

/-- does the controller steer the frequency (rather than step)? -/
def wantsFreq (offset unc : F64) : Bool := F64.lt offset F64_TEN && F64.gt offset (F64.mul F64_FIVE unc)

def wanted (offset freq cur : F64) : F64 := F64.sub (F64.sub cur freq) (F64.div offset F64_EIGHT)

def steerOne (isSystem : Bool) (offset unc freq cur max : F64) : Action :=
  if wantsFreq offset unc then
    match F64.clamp (wanted offset freq cur) (F64.neg max) max with
    | some actual => .setFreq actual (F64.sub actual cur)
    | none => .panic
  else
    let dur := durOfF64 (F64.neg offset)
    .step dur (if isSystem then durAsSeconds dur else F64.neg offset)

/-- the estimator entry the controller holds for that clock afterwards -/
def estimateAfter (offset freq : F64) : Action → Option F64
  | .setFreq _ change => some (F64.add freq change)
  | .step _ absorbed => some (F64.add offset absorbed)
  | .panic => none

/-- `KalmanController::clock_offset` / `clock_frequency` (fixed code): the filter's queries -/
def ctrlClockOffset {α : Type} [Num α] (filter : Est α) (id : Nat) : R (α × α) := clockOffset filter id
def ctrlClockFrequency {α : Type} [Num α] (filter : Est α) (id : Nat) : R (α × α) := clockFrequency filter id
/-- the unfixed code: `clock_frequency` called `filter.clock_offset` -/
def ctrlClockFrequencyUnfixed {α : Type} [Num α] (filter : Est α) (id : Nat) : R (α × α) := clockOffset filter id

/-! driver -/

structure Drv where
  n : Nat

def Drv.init : Drv := ⟨0⟩

def kvv (ws : List String) (k : String) : Option String :=
  ws.findSome? fun w =>
    match w.splitOn "=" with
    | [k', v] => if k' == k then some v else none
    | _ => none

def kvF (ws : List String) (k : String) : Option F64 := (kvv ws k).bind F64.ofHex?

def drvStep (d : Drv) (line : String) : Drv × String :=
  let ws := (line.trimAscii.toString.splitOn " ").filter (· ≠ "")
  match ws with
  | "steer" :: rest =>
    match kvv rest "sys", kvF rest "off", kvF rest "unc", kvF rest "fr", kvF rest "cur", kvF rest "max" with
    | some sys, some off, some unc, some fr, some cur, some mx =>
      let a := steerOne (sys == "1") off unc fr cur mx
      let est := match estimateAfter off fr a with
        | some e => e.toHex
        | none => "-"
      match a with
      | .setFreq actual _ => (d, s!"setfreq {actual.toHex} est={est}")
      | .step dur _ => (d, s!"step {dur} est={est}")
      | .panic => (d, "panic")
    | _, _, _, _, _, _ => (d, "bad-op")
  | ["query", fr] =>
    match fr.splitOn "=" with
    | ["fr", v] => (d, "freq " ++ v)
    | _ => (d, "bad-op")
  | _ => (d, "bad-op")

end NtpVerif.PtpCtrl
