/-
Executable model of the NTP server request handler:
  `ntp-proto/src/server.rs`      `Server::handle`, `handle_inner`, `intended_action`
  `ntp-proto/src/packet/mod.rs`  `timestamp_response`, `nts_timestamp_response`, `deny_response`,
                                 `nts_deny_response`, `nts_nak_response`, `NtpPacket::serialize`
  `ntp-proto/src/packet/v5/mod.rs` the v5 header builders
  `ntp-proto/src/system.rs`      `TimeSnapshot::root_dispersion`
  `ntp-proto/src/time_types.rs`  `NtpDuration::{from_seconds, log2, to_bits_short, to_bits_time32}` (panic conditions)

The request is an ABSTRACT record: what the real parser returned (`Req`).  Packet parsing and the byte layout
of extension fields are outside this model (properties C23–C25); address-list membership (C31) and the
rate-limit outcome (C20) are inputs (`Env`).  The decision logic — order of checks, kind of answer, which
fields are echoed, number of cookies, sizes, statistics entry, every panic site — is in the model.

The model describes the code WITH the proposed fixes F-C15 (mode check also for undecryptable requests),
F-C22a (no debug assertion on the request's nonce length), F-C22b (root variance clamped at zero), F-C19a (the
eight-cookie limit applies after selecting cookie / placeholder fields) and F-C17d (an NTPv5 request without our
draft identification is ignored also when its authentication fails).
-/
import NtpVerif.Basic.F64
import NtpVerif.Basic.Wrap
import NtpVerif.Model.RespSize

namespace NtpVerif.Server
open NtpVerif.RespSize

abbrev Bytes := List UInt8

/-- `FilterAction` -/
inductive Act where
  | ignore | deny
deriving DecidableEq, Repr

/-- `ServerResponse` -/
inductive Resp where
  | nak | deny | ignore | time
deriving DecidableEq, Repr

/-- `ServerReason` -/
inductive Reason where
  | rate | parse | crypto | internal | policy
deriving DecidableEq, Repr

def Act.toResp : Act → Resp
  | .ignore => .ignore
  | .deny => .deny

structure Config where
  denyAct : Act
  allowAct : Act
  requireNts : Option Act
  versions : List Nat
deriving Repr

/-- an extension field of a parsed request (`ExtensionField`), payload lengths as the parser saw them -/
inductive Field where
  | uid (body : Bytes)
  | cookie (len : Nat)
  | placeholder (len : Nat)
  | invalid                       -- `InvalidNtsEncryptedField`
  | draft (len : Nat)
  | padding (len : Nat)
  | refReq (offset payloadLen : Nat)
  | refResp (len : Nat)
  | unknown (ty len : Nat)
deriving DecidableEq, Repr

/-- outcome class of `NtpPacket::deserialize` -/
inductive Parse where
  | err                            -- any error but `DecryptError`
  | panic                          -- the parser itself panicked (C23's subject; an input class here)
  | ok
  | dec                            -- `DecryptError(packet)`
deriving DecidableEq, Repr

structure Req where
  len : Nat                        -- datagram length
  fv : Nat                         -- `fallback_message_version`
  parse : Parse
  version : Nat                    -- 3 / 4 / 5 (parse ∈ {ok, dec})
  client : Bool                    -- `packet.mode() == Client`
  poll : Nat                       -- poll byte
  xmit : Bytes                     -- transmit timestamp (v5: client cookie), 8 octets
  reft : Bytes                     -- reference timestamp (v3/v4), 8 octets
  untrusted : List Field
  auth : List Field
  enc : List Field
  cookie : Option Nat              -- AEAD algorithm id of the decoded cookie
  encw : Nat                       -- octets of the request's NtsEncryptedField(s)
  mac : Nat                        -- octets after the extension fields (MAC)
  draftOk : Bool := true           -- `packet.has_valid_draft_id()`: NTPv5 packets identify our draft version
deriving Repr

/-- synchronisation state (`NtpServerInfo`) and key-set health -/
structure Info where
  stratum : Nat
  refid : Bytes                    -- 4 octets
  leap : Nat                       -- index into NoWarning, Leap61, Leap59, Unknown, Unsynchronized
  precision : Int                  -- `NtpDuration` bits
  rootDelay : Int                  -- `NtpDuration` bits
  bloom : Bytes                    -- 512 octets
  keysOk : Bool                    -- `primary < keys.len()` (C27's invariant)
deriving Repr

/-- per-datagram inputs -/
structure Env where
  inDeny : Bool
  inAllow : Bool
  rateOk : Bool
  recv : Nat                       -- receive timestamp (u64)
  now : Nat                        -- `clock.now()` (u64)
  rvar : F64                       -- value of the root-variance polynomial at `recv`
  bufLen : Nat

/-! ### time arithmetic used by the builders -/

/-- `NtpDuration::from_seconds`; `none` = its `debug_assert!` fails -/
def fromSeconds (s : F64) : Option Int :=
  if s.isNaN || s.isInf then none else
  let i := s.floor
  let f := s - i
  let ii := i.toI64Sat
  if Wrap.I32_MIN ≤ ii ∧ ii ≤ Wrap.I32_MAX then
    some (Wrap.wrapS64 (ii * 4294967296 + (f * F64.ofNatExact 4294967295).toI64Sat))
  else if ii < Wrap.I32_MIN then some Wrap.I64_MIN else some Wrap.I64_MAX

/-- `TimeSnapshot::root_dispersion` given the polynomial's value (clamped at zero: fix F-C22b;
    `f64::max` returns the other operand for a NaN) -/
def rootDispersion (rvar : F64) : Option Int := fromSeconds (F64.max rvar F64.zero).sqrt

/-- `NtpDuration::log2` (as the i8 it returns) -/
def durLog2 (d : Int) : Int :=
  if d = 0 then -128
  else if d < 0 then 31
  else (Nat.log2 d.toNat : Int) - 32

/-- `recv.truncated_second_bits(7)` -/
def truncRef (recv : Nat) : Nat := recv / 2 ^ 39 * 2 ^ 39

def u64Bytes (n : Nat) : Bytes :=
  (List.range 8).map fun i => UInt8.ofNat (n / 2 ^ (8 * (7 - i)) % 256)

def upgradeMarker : Bytes := [78, 84, 80, 53, 68, 82, 70, 84]   -- "NTP5DRFT"
def kissDeny : Bytes := [68, 69, 78, 89]                       -- "DENY"
def kissNtsn : Bytes := [78, 84, 83, 78]                       -- "NTSN"
def draftLen : Nat := 23           -- "draft-ietf-ntp-ntpv5-09"

def leapBits (idx : Nat) : Nat := if idx ≥ 3 then 3 else idx

/-! ### responses -/

/-- extension field of a response, with the payload the encoder is given -/
inductive RField where
  | uid (body : Bytes)             -- echoed unique identifier
  | cookie (len : Nat)             -- fresh cookie
  | refResp (bytes : Bytes)
  | draft
deriving DecidableEq, Repr

structure Header where
  version : Nat
  mode : Nat                       -- 4 = server / response
  leap : Nat                       -- two bits
  stratum : Nat
  poll : Nat
  precision : Int
  rootDelay : Int
  rootDisp : Int
  refid : Bytes                    -- v3/v4 (kiss code for kiss answers)
  refTime : Bytes                  -- v3/v4
  origin : Bytes                   -- v3/v4 origin timestamp, v5 client cookie
  recv : Nat
  xmit : Nat
  synchronized : Bool              -- v5 flag
  authnak : Bool                   -- v5 flag
deriving DecidableEq, Repr

structure Response where
  hdr : Header
  untrusted : List RField
  auth : List RField
  enc : List RField
  cipher : Bool                    -- serialised with the cookie's s2c key
  desired : Option Nat             -- `desired_size`
deriving DecidableEq, Repr

def evOf (version : Nat) : EV := if version = 5 then .v5 else .v4

/-- payload length handed to the encoder -/
def RField.dataLen : RField → Nat
  | .uid b => b.length
  | .cookie n => n
  | .refResp b => b.length
  | .draft => draftLen

/-- octets written for a field.  `ReferenceIdResponse::serialize` ignores the minimum size. -/
def RField.wire (minSize : Nat) : RField → Nat
  | .refResp b => next4 (b.length + 4)
  | f => fieldWire minSize f.dataLen

def RField.frameOk : RField → Bool
  | .refResp _ => true
  | f => RespSize.frameOk f.dataLen

def untrustedSize (ev : EV) : List RField → Nat
  | [] => 0
  | [f] => f.wire (untrustedMin ev true)
  | f :: rest => f.wire (untrustedMin ev false) + untrustedSize ev rest

def authSize (fs : List RField) : Nat := (fs.map (RField.wire authMin)).sum
def encInnerSize (fs : List RField) : Nat := (fs.map (RField.wire 0)).sum

/-- octets of the extension-field area -/
def efSize (r : Response) : Nat :=
  let ev := evOf r.hdr.version
  if r.hdr.version = 3 then 0 else
  (if r.auth.isEmpty && r.enc.isEmpty then 0 else authSize r.auth + encOverhead + encInnerSize r.enc)
    + untrustedSize ev r.untrusted

def encodable (r : Response) : Bool :=
  (r.untrusted ++ r.auth ++ r.enc).all RField.frameOk
    && ((r.auth.isEmpty && r.enc.isEmpty) || r.cipher || r.hdr.version = 3)

/-- `to_bits_short` asserts `0 ≤ d` and debug-asserts `d ≤ 0xFFFF_FFFF_FFFF`; `to_bits_time32` asserts `0 ≤ d` -/
def durBad (version : Nat) (d : Int) : Bool :=
  d < 0 || (version ≠ 5 && d > 0xFFFFFFFFFFFF)

inductive Ser where
  | ok (n : Nat)
  | err
  | panic
deriving DecidableEq, Repr

/-- the tail of `NtpPacket::serialize`: `body` octets of header and extension fields, then (NTPv5 only) a
    padding field up to the desired size -/
def padded (version body buf : Nat) (desired : Option Nat) : Ser :=
  if body > buf then .err
  else match desired with
    | none => .ok body
    | some d =>
      if version = 5 ∧ d > body then
        if d - body < 4 then .panic                    -- `length - Self::HEADER_LENGTH` underflows
        else if d - body - 4 > 65531 then .err
        else if body + next4 (d - body) > buf then .err
        else .ok (body + next4 (d - body))
      else .ok body

/-- `NtpPacket::serialize` into a cursor over `buf` octets: number of octets written, failure, or panic -/
def serialize (r : Response) (buf : Nat) : Ser :=
  if buf ≥ 4 ∧ durBad r.hdr.version r.hdr.rootDelay then .panic
  else if buf ≥ 8 ∧ durBad r.hdr.version r.hdr.rootDisp then .panic
  else if buf < 48 then .err
  else if !encodable r then .err
  else padded r.hdr.version (48 + efSize r) buf r.desired

/-! ### the builders -/

def isUid : Field → Bool
  | .uid _ => true
  | _ => false

def uidOf : Field → Option RField
  | .uid b => some (.uid b)
  | _ => none

/-- `ReferenceIdRequest::to_response` -/
def refResponse (bloom : Bytes) (offset payloadLen : Nat) : Option RField :=
  if offset ≤ bloom.length ∧ payloadLen ≤ bloom.length - offset then
    some (.refResp ((bloom.drop offset).take payloadLen))
  else none

/-- the v5 echo filter: identifiers and answered reference-id requests -/
def echoV5 (bloom : Bytes) : Field → Option RField
  | .uid b => some (.uid b)
  | .refReq o l => refResponse bloom o l
  | _ => none

/-- length of a cookie `KeySet::encode_cookie` produces for the session's algorithm:
    id (4) + length (2) + nonce (16) + (algorithm (2) + two keys) + tag (16) -/
def freshCookieLen (alg : Nat) : Nat := if alg = 17 then 168 else 104

def isCookieLike : Field → Bool
  | .cookie _ => true
  | .placeholder _ => true
  | _ => false

/-- one fresh cookie per cookie / placeholder field that is long enough; the first eight of them (fix F-C19a:
    the limit applies to the cookies produced, not to the fields looked at) -/
def cookieFor (alg : Nat) : Field → Option RField
  | .cookie n => if freshCookieLen alg > n then none else some (.cookie (freshCookieLen alg))
  | .placeholder n => if freshCookieLen alg > n then none else some (.cookie (freshCookieLen alg))
  | _ => none

def freshCookies (alg : Nat) (req : Req) : List RField :=
  ((req.auth ++ req.enc).filterMap (cookieFor alg)).take Gen.MAX_COOKIES

def kissHeader (req : Req) (refid : Bytes) (poll : Nat) (authnak : Bool) : Header :=
  { version := req.version, mode := 4, leap := 0, stratum := 0, poll := poll, precision := 0,
    rootDelay := 0, rootDisp := 0, refid := if req.version = 5 then [] else refid,
    refTime := if req.version = 5 then [] else u64Bytes 0, origin := req.xmit, recv := 0, xmit := 0,
    synchronized := false, authnak := authnak }

/-- `plain`: built by `timestamp_response` (the upgrade marker is answered there only; `nts_timestamp_response`
    never returns it) -/
def timeHeader (info : Info) (env : Env) (req : Req) (disp : Int) (plain : Bool := true) : Header :=
  { version := req.version, mode := 4, leap := leapBits info.leap, stratum := info.stratum,
    poll := req.poll, precision := durLog2 info.precision, rootDelay := info.rootDelay, rootDisp := disp,
    refid := if req.version = 5 then [] else info.refid,
    refTime := if req.version = 5 then [] else
      if req.version = 4 ∧ plain = true ∧ req.reft = upgradeMarker then upgradeMarker else u64Bytes (truncRef env.recv),
    origin := req.xmit, recv := env.recv, xmit := env.now,
    synchronized := decide (info.stratum < 16), authnak := false }

def draftTail (req : Req) : List RField := if req.version = 5 then [.draft] else []

/-- `NtpPacket::deny_response` / `nts_nak_response`: plain kiss answer echoing all clear-text and
    authenticated identifiers -/
def plainKiss (req : Req) (hdr : Header) : Response :=
  { hdr := hdr,
    untrusted := if req.version = 3 then [] else (req.untrusted ++ req.auth).filterMap uidOf ++ draftTail req,
    auth := [], enc := [], cipher := false, desired := none }

inductive Built where
  | panic
  | ok (r : Response)
deriving DecidableEq, Repr

def denyResponse (req : Req) : Response :=
  plainKiss req (kissHeader req kissDeny (if req.version = 5 then 127 else 0) false)

def nakResponse (req : Req) : Built :=
  if req.version = 3 then .panic                      -- `unreachable!("NTS shouldn't work with NTPv3")`
  else .ok (plainKiss req (kissHeader req kissNtsn 0 true))

def ntsDenyResponse (req : Req) : Built :=
  if req.version = 3 then .panic
  else .ok { hdr := kissHeader req kissDeny (if req.version = 5 then 127 else 0) false,
             untrusted := [], auth := req.auth.filterMap uidOf ++ draftTail req, enc := [],
             cipher := true, desired := none }

def timestampResponse (info : Info) (env : Env) (req : Req) : Built :=
  match rootDispersion env.rvar with
  | none => .panic
  | some disp =>
    .ok { hdr := timeHeader info env req disp,
          untrusted :=
            if req.version = 3 then []
            else if req.version = 5 then (req.untrusted ++ req.auth).filterMap (echoV5 info.bloom) ++ [.draft]
            else (req.untrusted ++ req.auth).filterMap uidOf,
          auth := [], enc := [], cipher := false, desired := some req.len }

def ntsTimestampResponse (info : Info) (env : Env) (req : Req) (alg : Nat) : Built :=
  if req.version = 3 then .panic
  else match rootDispersion env.rvar with
  | none => .panic
  | some disp =>
    -- `encode_cookie` indexes `keys[primary]` for the first cookie / placeholder it meets
    if !info.keysOk && (req.auth ++ req.enc).any isCookieLike then .panic
    else
    .ok { hdr := timeHeader info env req disp false,
          untrusted := [],
          auth := if req.version = 5 then req.auth.filterMap (echoV5 info.bloom) ++ [.draft]
                  else req.auth.filterMap uidOf,
          enc := freshCookies alg req,
          cipher := true, desired := some req.len }

/-! ### `handle_inner` and `handle` -/

structure Stat where
  version : Nat
  nts : Bool
  reason : Reason
  response : Resp
deriving DecidableEq, Repr

def intendedAction (cfg : Config) (env : Env) : Resp × Reason :=
  if env.inDeny then (cfg.denyAct.toResp, .policy)
  else if !env.inAllow then (cfg.allowAct.toResp, .policy)
  else if !env.rateOk then (.ignore, .rate)
  else (.time, .policy)

inductive Inner where
  | done (stats : List Stat)
  | panic
  | answer (action : Resp) (reason : Reason) (version : Nat) (nts : Bool) (r : Response)
deriving DecidableEq, Repr

/-- the part of `handle_inner` after a packet was obtained -/
def respond (cfg : Config) (info : Info) (env : Env) (req : Req)
    (action : Resp) (reason : Reason) (cookie : Option Nat) : Inner :=
  if !cfg.versions.contains req.version then .done [⟨req.version, false, .policy, .ignore⟩]
  else
    let nts := cookie.isSome || action == .nak
    let gate : Option (Resp × Reason) :=
      match nts, cfg.requireNts with
      | false, some .ignore => none
      | false, some .deny => some (.deny, .policy)
      | _, _ => some (action, reason)
    match gate with
    | none => .done [⟨req.version, nts, .policy, .ignore⟩]
    | some (action, reason) =>
      let built : Built :=
        match action with
        | .nak => nakResponse req
        | .deny => match cookie with
                   | some _ => ntsDenyResponse req
                   | none => .ok (denyResponse req)
        | .time => match cookie with
                   | some alg => ntsTimestampResponse info env req alg
                   | none => timestampResponse info env req
        | .ignore => .panic                           -- `unreachable!()`
      match built with
      | .panic => .panic
      | .ok r => .answer action reason req.version nts r

def handleInner (cfg : Config) (info : Info) (env : Env) (req : Req) : Inner :=
  let (action, reason) := intendedAction cfg env
  if action = .ignore then .done [⟨req.fv, false, reason, .ignore⟩]
  else match req.parse with
    | .panic => .panic
    | .err => .done [⟨req.fv, false, .parse, .ignore⟩]
    | .ok =>
      if !req.client then .done [⟨req.fv, false, .parse, .ignore⟩]
      else respond cfg info env req action reason req.cookie
    | .dec =>
      if !req.client || !req.draftOk then .done [⟨req.fv, false, .parse, .ignore⟩]
      else if action ≠ .deny then respond cfg info env req .nak .crypto none
      else respond cfg info env req action reason none

inductive Outcome where
  | panic
  | ignore (stats : List Stat)
  | respond (r : Response) (size : Nat) (stats : List Stat)
deriving DecidableEq, Repr

def handle (cfg : Config) (info : Info) (env : Env) (req : Req) : Outcome :=
  match handleInner cfg info env req with
  | .done s => .ignore s
  | .panic => .panic
  | .answer action reason version nts r =>
    match serialize r env.bufLen with
    | .panic => .panic
    | .ok n => .respond r n [⟨version, nts, reason, action⟩]
    | .err => .ignore [⟨version, nts, .internal, .ignore⟩]

def Outcome.stats : Outcome → List Stat
  | .panic => []
  | .ignore s => s
  | .respond _ _ s => s

/-! ### the daemon's counters (`ntpd/src/daemon/server.rs`, `impl ServerStatHandler for ServerStats`) -/

/-- the eleven counters of `ServerStats` (as increments / totals) -/
structure Counters where
  received : Nat := 0
  accepted : Nat := 0
  denied : Nat := 0
  ignored : Nat := 0
  rateLimited : Nat := 0
  sendErrors : Nat := 0          -- `response_send_errors`: incremented by the send path only, never by `register`
  ntsReceived : Nat := 0
  ntsAccepted : Nat := 0
  ntsDenied : Nat := 0
  ntsRateLimited : Nat := 0
  ntsNak : Nat := 0
deriving DecidableEq, Repr

def Counters.add (a b : Counters) : Counters :=
  { received := a.received + b.received, accepted := a.accepted + b.accepted, denied := a.denied + b.denied,
    ignored := a.ignored + b.ignored, rateLimited := a.rateLimited + b.rateLimited,
    sendErrors := a.sendErrors + b.sendErrors, ntsReceived := a.ntsReceived + b.ntsReceived,
    ntsAccepted := a.ntsAccepted + b.ntsAccepted, ntsDenied := a.ntsDenied + b.ntsDenied,
    ntsRateLimited := a.ntsRateLimited + b.ntsRateLimited, ntsNak := a.ntsNak + b.ntsNak }

/-- kinds under which a datagram is filed -/
def Counters.kinds (c : Counters) : Nat := c.accepted + c.denied + c.ignored + c.rateLimited + c.ntsNak

/-- `ServerStats::register(version, nts, reason, response)`: the increments one statistics entry causes -/
def countersOf (st : Stat) : Counters :=
  let kind : Counters :=
    match st.response, st.reason with
    | .time, _ => { accepted := 1 }
    | .ignore, .rate => { rateLimited := 1 }
    | .ignore, _ => { ignored := 1 }
    | .deny, _ => { denied := 1 }
    | .nak, _ => { ntsNak := 1 }
  let nts : Counters :=
    if st.nts then
      match st.response, st.reason with
      | .time, _ => { ntsReceived := 1, ntsAccepted := 1 }
      | .deny, _ => { ntsReceived := 1, ntsDenied := 1 }
      | .ignore, .rate => { ntsReceived := 1, ntsRateLimited := 1 }
      | _, _ => { ntsReceived := 1 }
    else {}
  ({ received := 1 } : Counters).add (kind.add nts)

def countersOfList (sts : List Stat) : Counters := sts.foldl (fun c st => c.add (countersOf st)) {}

end NtpVerif.Server
