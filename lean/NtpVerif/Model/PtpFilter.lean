/-
Model of `LinkFilter` (`statime-algo/src/filter.rs`), `LinkNoiseEstimator` (`link_noise.rs`),
`UnorderedRingBuffer` (`ringbuffer.rs`) and of the whole `KalmanController` (`lib.rs`): construction,
clock / link management, `KalmanLink::{measurement, external_data_update, active, drop}`,
`KalmanControllerState::steer_clocks`.  Element type: IEEE binary64 bit patterns (`F64`); the theorems
about decisions never look inside the arithmetic.  Import-free (model files only).

Rust → model:
  * `UnorderedRingBuffer` → `Ring` (8 slots, `n_values`, `write_idx`); `as_ref()` = first `n` slots.
  * `LinkNoiseEstimator` → `Noise` (`prev_measurement.take()` semantics: the previous half is consumed
    when a matching reverse half arrives within 0.5 s = 2⁶³ raw, otherwise replaced).
  * `LinkInfo { id, active, link_state, external_link_state }` → `FLink`; `LinkState::Tracked` carries
    the noise estimator and the decay rate, `Untracked` reports delay = noise = 0.
  * `LinkFilter` → `Filter { links, est }` over `Estimator.Est F64`.
  * `offset_window`, `find_external_consensus_window` (collect bounds, `sort_unstable_by` total_cmp then
    Start<End — a total order whose ties are identical elements, so any sort gives the same list —, sweep
    with the `usize` decrement checked, `assert_eq!(maxlow, maxhigh)`), `leap_vote`, `local_root_delay`.
  * errors: `FErr` = estimator errors (incl. `.panic`) + the filter / controller level kinds.
  * `ClockId::new()` / `LinkId::new()` (global atomic counters) → fresh numbers from counters in `Ctrl`.
  * the clocks are the harness's recording mocks: `Mock { freq, max }`; `now()` is `Ctrl.now`, set by the
    environment (`tick`) and moved by `step_clock` on the system clock; clock calls never fail.
-/
import NtpVerif.Model.Estimator
import NtpVerif.Model.PtpCtrl

namespace NtpVerif.PtpFilter
open NtpVerif.Estimator NtpVerif.PtpCtrl

abbrev E := Est F64

inductive FErr where
  | est (e : Err)
  | LinkNotExternal | ClocksEqual | CannotRemoveSystemClock | ClockInUse
deriving DecidableEq, Repr

abbrev RF := Except FErr

def liftE {β : Type} : R β → RF β
  | .ok x => .ok x
  | .error e => .error (.est e)

/-! ### ring buffer and link noise -/

structure Ring where
  values : List F64
  n : Nat
  w : Nat
deriving Repr

def Ring.empty : Ring := ⟨List.replicate 8 F64.zero, 0, 0⟩

def Ring.insert (r : Ring) (v : F64) : Ring :=
  ⟨r.values.set r.w v, min (r.n + 1) 8, (r.w + 1) % 8⟩

def Ring.asRef (r : Ring) : List F64 := r.values.take r.n

/-- `for x in as_mut() { *x += d }` -/
def Ring.addAll (r : Ring) (d : F64) : Ring :=
  { r with values := (r.values.take r.n).map (fun x => F64.add x d) ++ r.values.drop r.n }

def fsum (l : List F64) : F64 := Mat.sumFrom (Num.sumInit : F64) l
/-- `len as f64` (small, exact) -/
def ofLen (n : Nat) : F64 := F64.ofNatExact n

structure Prev where
  time : Nat
  offset : F64
  fwd : Bool
deriving Repr

structure Noise where
  delays : Ring
  prev : Option Prev
deriving Repr

def Noise.new : Noise := ⟨Ring.empty, none⟩

/-- `MAX_TIME_BETWEEN_HALVES` = `from_seconds_nanos(0, 500_000_000)` = 2⁶³ raw -/
def HALF_SEC : Int := 9223372036854775808

def Noise.measurement (s : Noise) (fwd : Bool) (offset : F64) (time : Nat) : Noise :=
  match s.prev with
  | some p =>
    if (p.fwd != fwd) && decide (tsDiff time p.time < HALF_SEC) then
      { delays := s.delays.insert (F64.add p.offset offset), prev := none }
    else { s with prev := some ⟨time, offset, fwd⟩ }
  | none => { s with prev := some ⟨time, offset, fwd⟩ }

def MIN_DELAYS : Nat := 4

/-- `delay_and_noise_estimate`: `(delay, noise)`, `none` = `NotEnoughMeasurements` -/
def Noise.estimate (s : Noise) : Option (F64 × F64) :=
  let ds := s.delays.asRef
  if ds.length < MIN_DELAYS then none
  else
    let sum := fsum ds
    let delay := F64.div sum (ofLen (2 * ds.length))
    let mean := F64.div sum (ofLen ds.length)
    let variance := F64.div (fsum (ds.map fun f => sq (F64.sub f mean))) (ofLen (ds.length - 1))
    some (delay, F64.sqrt (F64.div variance (Num.two : F64)))

def linkHas (id : LinkId) (c : Nat) : Bool := id.a == c || id.b == c

def Noise.absorbOffset (s : Noise) (id : LinkId) (clock : Nat) : Noise :=
  if linkHas id clock then { s with prev := none } else s

def Noise.absorbSystem (s : Noise) (id : LinkId) (clock : Nat) (change : Int) : Noise :=
  if linkHas id clock then { s with prev := none }
  else match s.prev with
    | some p => { s with prev := some { p with time := tsAdd p.time change } }
    | none => s

/-! ### filter -/

inductive Leap where
  | none | leap59 | leap61
deriving DecidableEq, Repr

structure ExtSt where
  offsets : Ring
  lastU : F64
  rootDelay : F64
  leap : Option Leap
  usable : Bool
deriving Repr

def ExtSt.new : ExtSt := ⟨Ring.empty, F64.zero, F64.zero, none, false⟩

structure FLink where
  id : LinkId
  active : Bool
  /-- `LinkState::Tracked { link_noise_estimator, decay_rate }`, `none` = `Untracked` -/
  tracked : Option (Noise × F64)
  ext : Option ExtSt
deriving Repr

structure Cfg where
  offW : F64
  linkW : F64
  delayW : F64
  maxW : F64
  minAgree : Nat
deriving Repr

structure Filter where
  links : List FLink
  est : E
deriving Repr

def Filter.empty (t : Nat) : Filter := ⟨[], Estimator.empty t⟩

/-- `link_state.delay_and_noise_estimate()` -/
def FLink.estimates (l : FLink) : Option (F64 × F64) :=
  match l.tracked with
  | some (nz, _) => nz.estimate
  | none => some (F64.zero, F64.zero)

def FLink.decay (l : FLink) : F64 :=
  match l.tracked with
  | some (_, d) => d
  | none => F64.zero

structure Window where
  low : F64
  high : F64
deriving Repr

def Window.overlaps (w o : Window) : Bool := F64.le w.low o.high && F64.ge w.high o.low

/-- `state.clock_offset(c).ok()?.value`: a panic is not an `Err` and propagates -/
def offsetValue (est : E) (c : Nat) : RF (Option F64) :=
  match clockOffset est c with
  | .ok (v, _) => .ok (some v)
  | .error .panic => .error (.est .panic)
  | .error _ => .ok none

/-- the half window of an external link: noise, last offset uncertainty and (delay + root delay), each
    weighted by the configuration -/
def halfWindow (cfg : Cfg) (e : ExtSt) (delay noise : F64) : F64 :=
  F64.add (F64.add (F64.mul noise cfg.linkW) (F64.mul e.lastU cfg.offW))
    (F64.mul (F64.add delay e.rootDelay) cfg.delayW)

/-- `LinkInfo::offset_window` (code as FIXED by fixes/C43-negative-window.patch: a negative half window —
    negative configuration weights — gives no window; before, it gave a window with low > high and the
    consensus sweep underflowed) -/
def offsetWindow (l : FLink) (cfg : Cfg) (est : E) : RF (Option Window) :=
  match l.ext with
  | none => .ok none
  | some e =>
    if e.offsets.asRef.isEmpty || !e.usable then .ok none
    else do
      let internal := if isInternal est l.id.a then l.id.a else l.id.b
      match ← offsetValue est internal with
      | none => pure none
      | some internalOffset =>
        let avg := F64.div (fsum e.offsets.asRef) (ofLen e.offsets.asRef.length)
        match l.estimates with
        | none => pure none
        | some (delay, noise) =>
          let half := halfWindow cfg e delay noise
          if F64.ge half F64.zero && F64.lt half cfg.maxW then
            pure (some ⟨F64.sub (F64.sub avg internalOffset) half, F64.add (F64.sub avg internalOffset) half⟩)
          else pure none

/-- `(offset, BoundType)`, `false` = `Start`, `true` = `End` -/
abbrev Bound := F64 × Bool

/-- `a.0.total_cmp(&b.0).then_with(|| a.1.cmp(&b.1))` is `≤` -/
def boundLe (a b : Bound) : Bool :=
  decide (a.1.totalKey < b.1.totalKey) || (decide (a.1.totalKey = b.1.totalKey) && (!a.2 || b.2))

structure Sweep where
  maxlow : Nat := 0
  maxhigh : Nat := 0
  lo : F64 := F64.zero
  hi : F64 := F64.zero
  cur : Nat := 0

/-- one step of the sweep; `none` = `cur -= 1` underflow (debug-build panic) -/
def sweepStep (s : Sweep) (b : Bound) : Option Sweep :=
  if !b.2 then
    let cur := s.cur + 1
    some (if cur > s.maxlow then { s with cur, maxlow := cur, lo := b.1 } else { s with cur })
  else
    let s' := if s.cur > s.maxhigh then { s with maxhigh := s.cur, hi := b.1 } else s
    if s'.cur = 0 then none else some { s' with cur := s'.cur - 1 }

def sweep : Sweep → List Bound → Option Sweep
  | s, [] => some s
  | s, b :: rest => (sweepStep s b).bind fun s' => sweep s' rest

def boundsOf (ws : List (Option Window)) : List Bound :=
  (ws.filterMap id).flatMap fun w => [(w.low, false), (w.high, true)]

/-- the decision at the end of `find_external_consensus_window` -/
def consensusOf (cfg : Cfg) (bounds : List Bound) : RF (Option Window) :=
  match sweep {} (bounds.mergeSort boundLe) with
  | none => .error (.est .panic)
  | some s =>
    if s.maxlow ≠ s.maxhigh then .error (.est .panic)
    else if s.maxlow ≥ cfg.minAgree ∧ s.maxlow * 4 > bounds.length then .ok (some ⟨s.lo, s.hi⟩)
    else .ok none

def windows (f : Filter) (cfg : Cfg) : RF (List (Option Window)) :=
  f.links.mapM fun l => offsetWindow l cfg f.est

/-- `find_external_consensus_window` -/
def consensus (f : Filter) (cfg : Cfg) : RF (Option Window) := do
  consensusOf cfg (boundsOf (← windows f cfg))

def findLinkIdx (f : Filter) (id : LinkId) : Option Nat := f.links.findIdx? fun l => l.id == id

def setLink (f : Filter) (i : Nat) (l : FLink) : Filter := { f with links := f.links.set i l }

/-- `offset.add_uncertainty(noise)` -/
def addUncertainty (u noise : F64) : F64 := F64.sqrt (F64.add (sq u) (sq noise))

/-- what happens to an external link once its window and the consensus are known -/
inductive Verdict where
  /-- no consensus: nothing changes, the measurement is not used -/
  | wait
  /-- window overlaps the consensus: (stay / become) active, the measurement is used -/
  | use
  /-- otherwise: (stay / become) inactive, the measurement is not used -/
  | drop
deriving DecidableEq, Repr

def verdict (ours : Option Window) (cons : Option Window) : Verdict :=
  match cons with
  | none => .wait
  | some cw =>
    match ours with
    | some w => if w.overlaps cw then .use else .drop
    | none => .drop

/-- the link after its own bookkeeping: the noise estimator sees the measurement; if delay/noise estimates
    exist and the link is external, the offset relative to the external clock enters the ring and the
    measurement uncertainty is remembered -/
def noteLink (est : E) (l0 : FLink) (fwd : Bool) (value uncert : F64) : FLink :=
  let l1 : FLink := { l0 with tracked := l0.tracked.map fun (nz, d) =>
    (nz.measurement fwd value est.time, d) }
  match l1.estimates, l1.ext with
  | some (delay, _), some e =>
    let fromClock := if fwd then l0.id.a else l0.id.b
    let rel := F64.sub value delay
    let toExt := if isExternal est fromClock then rel else F64.neg rel
    { l1 with ext := some { e with offsets := e.offsets.insert toExt, lastU := uncert } }
  | _, _ => l1

/-- first half of `LinkFilter::measurement`: find the link, do its bookkeeping.  Result: index of the
    link, the updated link, the filter with it.  `none` = unknown link. -/
def Filter.note (f : Filter) (id : LinkId) (fwd : Bool) (value uncert : F64) : Option (Nat × FLink × Filter) :=
  match findLinkIdx f id, f.links.find? (fun l => l.id == id) with
  | some i, some l0 =>
    let l := noteLink f.est l0 fwd value uncert
    some (i, l, setLink f i l)
  | _, _ => none

/-- the active flag after a verdict -/
def Verdict.flag (v : Verdict) (old : Bool) : Bool :=
  match v with
  | .wait => old
  | .use => true
  | .drop => false

/-- second step: an external link is judged against the consensus, any other link is used -/
def Filter.judge (g : Filter) (cfg : Cfg) (l : FLink) : RF Verdict :=
  match l.ext with
  | some _ => do
    let ours ← offsetWindow l cfg g.est
    let cons ← consensus g cfg
    pure (verdict ours cons)
  | none => pure .use

/-- third step, tracked links only: the link's delay enters / leaves the estimator when the link
    becomes active / inactive -/
def Filter.syncEst (g : Filter) (l : FLink) (delay noise : F64) (active' : Bool) : RF E :=
  if l.tracked.isSome && !l.active && active' then liftE (addLink g.est l.id delay noise l.decay)
  else if l.tracked.isSome && l.active && !active' then liftE (removeLink g.est l.id)
  else pure g.est

/-- fourth step: only a `use` verdict lets the estimator process the measurement (with the link noise
    added to its uncertainty) -/
def useMeasurement (est1 : E) (v : Verdict) (l : FLink) (id : LinkId) (fwd : Bool) (value uncert noise : F64) :
    RF E :=
  if v = .use then
    liftE (Estimator.measurement est1 id fwd value (addUncertainty uncert noise) l.tracked.isSome)
  else pure est1

/-- `LinkFilter::measurement(config, direction, offset)`:
    bookkeeping (`note`); without delay/noise estimates nothing else happens; otherwise the verdict
    (`judge`) sets the active flag, the estimator gains / loses the tracked link's delay state (`syncEst`),
    and — only on `use` — the estimator processes the measurement with the link noise added to the
    uncertainty.  (`wait` and `drop` on an inactive link leave everything but the bookkeeping unchanged.) -/
def Filter.measurement (f : Filter) (cfg : Cfg) (id : LinkId) (fwd : Bool) (value uncert : F64) :
    RF Filter :=
  match f.note id fwd value uncert with
  | none => .error (.est .UnknownLink)
  | some (i, l, g) =>
    match l.estimates with
    | none => .ok g
    | some (delay, noise) => do
      let v ← g.judge cfg l
      let active' := v.flag l.active
      let est1 ← g.syncEst l delay noise active'
      let est2 ← useMeasurement est1 v l id fwd value uncert noise
      pure { links := g.links.set i { l with active := active' }, est := est2 }

/-- `LinkFilter::progress_time`.  (The case split on `t` changes nothing: it only keeps the type checker
    from evaluating the wrapping 128-bit time arithmetic on symbolic times, which does not terminate in
    practice.) -/
def Filter.progress (f : Filter) (t : Nat) : RF Filter :=
  match t with
  | 0 => do
    let est ← liftE (progressTime f.est 0)
    pure { f with est }
  | n + 1 => do
    let est ← liftE (progressTime f.est (n + 1))
    pure { f with est }

def Filter.absorbFrequency (f : Filter) (clock : Nat) (change : F64) : RF Filter := do
  let est ← liftE (absorbFrequencySteer f.est clock change)
  pure { f with est }

def FLink.steerOffsets (l : FLink) (clock : Nat) (change : F64) : FLink :=
  match l.ext with
  | some e => if linkHas l.id clock then { l with ext := some { e with offsets := e.offsets.addAll change } } else l
  | none => l

def Filter.absorbOffset (f : Filter) (clock : Nat) (change : F64) : RF Filter := do
  let est ← liftE (absorbOffsetChange f.est clock change)
  pure { est, links := f.links.map fun l =>
    let l' : FLink := { l with tracked := l.tracked.map fun (nz, d) => (nz.absorbOffset l.id clock, d) }
    l'.steerOffsets clock change }

def Filter.absorbSystem (f : Filter) (clock : Nat) (change : Int) : RF Filter := do
  let est ← liftE (absorbSystemClockOffsetChange f.est clock change)
  pure { est, links := f.links.map fun l =>
    let l' : FLink := { l with tracked := l.tracked.map fun (nz, d) => (nz.absorbSystem l.id clock change, d) }
    l'.steerOffsets clock (durAsSeconds change) }

def Filter.externalDataUpdate (f : Filter) (id : LinkId) (rootDelay : F64) (leap : Option Leap)
    (usable : Bool) : RF Filter :=
  match findLinkIdx f id, f.links.find? (fun l => l.id == id) with
  | some i, some l =>
    match l.ext with
    | some e => .ok (setLink f i { l with ext := some { e with rootDelay, leap, usable } })
    | none => .error .LinkNotExternal
  | _, _ => .error (.est .UnknownLink)

/-- the links whose window overlaps the consensus window (both `leap_vote` and `local_root_delay`) -/
def agreeing (f : Filter) (cfg : Cfg) (cw : Window) : RF (List FLink) := do
  let ws ← windows f cfg
  pure ((f.links.zip ws).filterMap fun (l, w) =>
    match w with
    | some w => if w.overlaps cw && l.ext.isSome then some l else none
    | none => none)

def Filter.leapVote (f : Filter) (cfg : Cfg) : RF (Option Leap) := do
  match ← consensus f cfg with
  | none => pure none
  | some cw =>
    let ls ← agreeing f cfg cw
    let count (x : Leap) := (ls.filter fun l => (l.ext.bind (·.leap)) == some x).length
    let total := count .none + count .leap59 + count .leap61
    if count .none * 2 > total then pure (some .none)
    else if count .leap59 * 2 > total then pure (some .leap59)
    else if count .leap61 * 2 > total then pure (some .leap61)
    else pure none

def F64_MAX : F64 := ⟨0x7fefffffffffffff⟩

def Filter.localRootDelay (f : Filter) (cfg : Cfg) : RF (Option F64) := do
  match ← consensus f cfg with
  | none => pure none
  | some cw =>
    let ls ← agreeing f cfg cw
    pure (some (ls.foldl (fun best l =>
      match l.ext, l.estimates with
      | some e, some (delay, _) => F64.min best (F64.add e.rootDelay delay)
      | _, _ => best) F64_MAX))

def Filter.addExternalClock (f : Filter) (id : Nat) : RF Filter := do
  let est ← liftE (Estimator.addExternalClock f.est id)
  pure { f with est }

def Filter.removeExternalClock (f : Filter) (id : Nat) : RF Filter := do
  let est ← liftE (Estimator.removeExternalClock f.est id)
  pure { f with est }

def Filter.addClock (f : Filter) (id : Nat) (off offU fr frU w : F64) : RF Filter := do
  let est ← liftE (Estimator.addClock f.est id off offU fr frU w)
  pure { f with est }

def Filter.removeClock (f : Filter) (id : Nat) : RF Filter :=
  if f.links.any (fun l => linkHas l.id id) then .error .ClockInUse
  else do
    let est ← liftE (Estimator.removeClock f.est id)
    pure { f with est }

/-- `add_tracked_link` (`decay = some d`) / `add_untracked_link` (`none`); `uid` = the value the global
    `LinkId` counter hands out (only consumed when the validation passed) -/
def Filter.addLinkF (f : Filter) (a b uid : Nat) (decay : Option F64) : RF (Filter × LinkId) :=
  let ai := isInternal f.est a
  let ae := isExternal f.est a
  let bi := isInternal f.est b
  let be := isExternal f.est b
  if !ai && !ae then .error (.est .UnknownClock)
  else if !bi && !be then .error (.est .UnknownClock)
  else if ae && be then .error (.est .BothClocksExternal)
  else if a = b then .error .ClocksEqual
  else
    let id : LinkId := ⟨a, b, uid⟩
    let internal := ai && bi
    let l : FLink :=
      { id, active := decay.isNone && internal,
        tracked := decay.map fun d => (Noise.new, d),
        ext := if internal then none else some ExtSt.new }
    .ok ({ f with links := f.links ++ [l] }, id)

def Filter.removeLinkF (f : Filter) (id : LinkId) : RF Filter :=
  match f.links.find? (fun l => l.id == id) with
  | none => .error (.est .UnknownLink)
  | some l =>
    let f' := { f with links := f.links.eraseP fun l => l.id == id }
    if l.active && l.tracked.isSome then do
      let est ← liftE (removeLink f'.est id)
      pure { f' with est }
    else pure f'

def Filter.linkActive (f : Filter) (id : LinkId) : RF Bool :=
  match f.links.find? (fun l => l.id == id) with
  | some l => .ok l.active
  | none => .error (.est .UnknownLink)

/-! ### controller -/

structure Mock where
  freq : F64
  max : F64
deriving Repr

/-- what one iteration of the `steer_clocks` loop did to one clock (as recorded by the mock) -/
structure SteerLog where
  index : Nat
  id : Nat
  /-- the estimate read for this clock (from the filter before steering) -/
  offset : F64
  unc : F64
  freq : F64
  cur : F64
  max : F64
  action : Action
  leap : Option Leap
  sync : Bool
  errEst : Int
  rootDelay : Int
deriving Repr

structure Ctrl where
  clocks : List (Nat × Mock)
  filter : Filter
  cfg : Cfg
  rootDelay : Int
  /-- reading of the system clock (all mocks share it); set by the environment -/
  now : Nat
  nextClock : Nat
  nextLink : Nat
deriving Repr

def F64_1E18 : F64 := ⟨0x43abc16d674ec800⟩

/-- `KalmanController::new(system_clock, initial_wander, filter_config)` -/
def Ctrl.new (now : Nat) (max wander : F64) (cfg : Cfg) (firstId : Nat := 0) : RF Ctrl := do
  let filter ← (Filter.empty now).addClock firstId F64.zero F64_1E18 F64.zero max wander
  pure { clocks := [(firstId, ⟨F64.zero, max⟩)], filter, cfg, rootDelay := 0, now,
         nextClock := firstId + 1, nextLink := 0 }

/-- `add_clock(clock, initial_wander)`: the id counter advances before the estimator is asked -/
def Ctrl.addClock (c : Ctrl) (m : Mock) (wander : F64) : Ctrl × RF Nat :=
  let id := c.nextClock
  let c := { c with nextClock := id + 1 }
  match c.filter.addClock id F64.zero F64_1E18 F64.zero m.max wander with
  | .ok filter => ({ c with filter, clocks := c.clocks ++ [(id, m)] }, .ok id)
  | .error e => (c, .error e)

def Ctrl.addExternalClock (c : Ctrl) : Ctrl × RF Nat :=
  let id := c.nextClock
  let c := { c with nextClock := id + 1 }
  match c.filter.addExternalClock id with
  | .ok filter => ({ c with filter }, .ok id)
  | .error e => (c, .error e)

def Ctrl.removeExternalClock (c : Ctrl) (id : Nat) : Ctrl × RF Unit :=
  match c.filter.removeExternalClock id with
  | .ok filter => ({ c with filter }, .ok ())
  | .error e => (c, .error e)

def Ctrl.removeClock (c : Ctrl) (id : Nat) : Ctrl × RF Unit :=
  match c.clocks with
  | [] => (c, .error (.est .panic))
  | (id0, _) :: _ =>
    if id0 = id then (c, .error .CannotRemoveSystemClock)
    else if !(c.clocks.any fun x => x.1 == id) then (c, .error (.est .UnknownClock))
    else match c.filter.removeClock id with
      | .ok filter => ({ c with filter, clocks := c.clocks.eraseP fun x => x.1 == id }, .ok ())
      | .error e => (c, .error e)

def Ctrl.createLink (c : Ctrl) (a b : Nat) (decay : Option F64) : Ctrl × RF LinkId :=
  match c.filter.addLinkF a b c.nextLink decay with
  | .ok (filter, id) => ({ c with filter, nextLink := c.nextLink + 1 }, .ok id)
  | .error e => (c, .error e)

/-- `Drop for KalmanLink`: errors are swallowed -/
def Ctrl.dropLink (c : Ctrl) (id : LinkId) : Ctrl :=
  match c.filter.removeLinkF id with
  | .ok filter => { c with filter }
  | .error _ => c

def Ctrl.externalDataUpdate (c : Ctrl) (id : LinkId) (rootDelay : Int) (leap : Option Leap)
    (usable : Bool) : Ctrl × RF Unit :=
  match c.filter.externalDataUpdate id (durAsSeconds rootDelay) leap usable with
  | .ok filter => ({ c with filter }, .ok ())
  | .error e => (c, .error e)

def F64_ONE : F64 := F64.one

structure SteerAcc where
  clocks : List (Nat × Mock)
  filter : Filter
  log : List SteerLog
  err : Option FErr
  /-- reading of the system clock: a step of the system clock (mock) moves it -/
  now : Nat

/-- one iteration of the loop of `steer_clocks`; `read` is `self.filter` (the estimate before steering),
    `acc.filter` the progressed clone that absorbs the steers -/
def steerClock (read : Filter) (leap : Option Leap) (rootDelay : Int) (acc : SteerAcc)
    (index : Nat) (id : Nat) (m : Mock) : SteerAcc :=
  match acc.err with
  | some _ => { acc with clocks := acc.clocks ++ [(id, m)] }
  | none =>
    let fail (e : FErr) : SteerAcc := { acc with clocks := acc.clocks ++ [(id, m)], err := some e }
    match liftE (clockOffset read.est id) with
    | .error e => fail e
    | .ok (offset, unc) =>
      let freqR : RF F64 :=
        if wantsFreq offset unc then (liftE (clockFrequency read.est id)).map (·.1) else .ok F64.zero
      match freqR with
      | .error e => fail e
      | .ok freq =>
        let action := steerOne (index == 0) offset unc freq m.freq m.max
        let entry (a : Action) : SteerLog :=
          { index, id, offset, unc, freq, cur := m.freq, max := m.max, action := a, leap,
            sync := F64.lt unc F64_ONE, errEst := durOfF64 unc, rootDelay }
        match action with
        | .panic => fail (.est .panic)
        | .setFreq actual change =>
          match acc.filter.absorbFrequency id change with
          | .error e => { fail e with clocks := acc.clocks ++ [(id, { m with freq := actual })] }
          | .ok filter =>
            { acc with clocks := acc.clocks ++ [(id, { m with freq := actual })], filter,
                       log := acc.log ++ [entry action] }
        | .step dur _ =>
          let r := if index == 0 then acc.filter.absorbSystem id dur
                   else acc.filter.absorbOffset id (F64.neg offset)
          match r with
          | .error e => { fail e with now := if index == 0 then tsAdd acc.now dur else acc.now }
          | .ok filter =>
            { acc with clocks := acc.clocks ++ [(id, m)], filter, log := acc.log ++ [entry action],
                       now := if index == 0 then tsAdd acc.now dur else acc.now }

def steerLoop (read : Filter) (leap : Option Leap) (rootDelay : Int) :
    SteerAcc → Nat → List (Nat × Mock) → SteerAcc
  | acc, _, [] => acc
  | acc, i, (id, m) :: rest => steerLoop read leap rootDelay (steerClock read leap rootDelay acc i id m) (i + 1) rest

/-- everything `steer_clocks` computes before it stores the result: the progressed clone, the leap vote
    and the root delay (both from the filter as it is), then the loop over the clocks -/
def Ctrl.steerAcc (c : Ctrl) : RF (Int × SteerAcc) :=
  match c.clocks with
  | [] => .error (.est .panic)  -- `self.clocks[0]`
  | _ :: _ => do
    let progressed ← c.filter.progress c.now
    let leap ← c.filter.leapVote c.cfg
    let rd ← c.filter.localRootDelay c.cfg
    let rootDelay := match rd with
      | some x => durOfF64 x
      | none => c.rootDelay
    pure (rootDelay, steerLoop c.filter leap rootDelay ⟨[], progressed, [], none, c.now⟩ 0 c.clocks)

/-- `KalmanControllerState::steer_clocks`: on an error inside the loop the clocks already steered stay
    steered and the new root delay stays, but the filter does not absorb anything -/
def Ctrl.steerClocks (c : Ctrl) : Ctrl × RF (List SteerLog) :=
  match c.steerAcc with
  | .error e => (c, .error e)
  | .ok (rootDelay, acc) =>
    match acc.err with
    | some e => ({ c with rootDelay, clocks := acc.clocks, now := acc.now }, .error e)
    | none => ({ c with rootDelay, clocks := acc.clocks, filter := acc.filter, now := acc.now }, .ok acc.log)

/-- `KalmanLink::measurement(Measurement { send, recv, uncertainty }, direction)`;
    `d = recv − send`, `u = uncertainty` as raw `Duration`s -/
def Ctrl.measurement (c : Ctrl) (id : LinkId) (fwd : Bool) (d u : Int) : Ctrl × RF (List SteerLog) :=
  match c.clocks with
  | [] => (c, .error (.est .panic))  -- `state.clocks[0]`
  | _ :: _ =>
    match c.filter.progress c.now with
    | .error e => (c, .error e)
    | .ok f1 =>
      let c := { c with filter := f1 }
      match f1.measurement c.cfg id fwd (durAsSeconds d) (durAsSeconds u) with
      | .error e => (c, .error e)
      | .ok f2 => ({ c with filter := f2 }).steerClocks

/-! ### controller histories -/

/-- what the environment can do with a controller -/
inductive COp where
  /-- the clocks advance: every mock's `now()` moves by the raw duration -/
  | tick (d : Int)
  | addClock (m : Mock) (wander : F64)
  | addExt
  | rmExt (id : Nat)
  | rmClock (id : Nat)
  | link (a b : Nat) (decay : Option F64)
  | drop (id : LinkId)
  | extUpdate (id : LinkId) (rootDelay : Int) (leap : Option Leap) (usable : Bool)
  | measure (id : LinkId) (fwd : Bool) (d u : Int)

/-- the recorded clock actions of a call (nothing is recorded for a failed call) -/
def logOf : RF (List SteerLog) → List SteerLog
  | .ok log => log
  | .error _ => []

/-- one call; the second component is what the call did to the clocks -/
def Ctrl.apply (c : Ctrl) : COp → Ctrl × List SteerLog
  | .tick d => ({ c with now := tsAdd c.now d }, [])
  | .addClock m w => ((c.addClock m w).1, [])
  | .addExt => (c.addExternalClock.1, [])
  | .rmExt id => ((c.removeExternalClock id).1, [])
  | .rmClock id => ((c.removeClock id).1, [])
  | .link a b decay => ((c.createLink a b decay).1, [])
  | .drop id => (c.dropLink id, [])
  | .extUpdate id rd leap usable => ((c.externalDataUpdate id rd leap usable).1, [])
  | .measure id fwd d u =>
    ((c.measurement id fwd d u).1, logOf (c.measurement id fwd d u).2)

/-- a history: final controller and everything that was done to the clocks, in order -/
def Ctrl.run (c : Ctrl) : List COp → Ctrl × List SteerLog
  | [] => (c, [])
  | op :: ops =>
    let (c1, l1) := c.apply op
    let (c2, l2) := c1.run ops
    (c2, l1 ++ l2)

end NtpVerif.PtpFilter
