/-
Model of `ntp-proto/src/time_types.rs` (`NtpTimestamp`, `NtpDuration`, `PollInterval`), of the
wrapping / saturating part of `statime-base/src/time_types.rs` (`Timestamp`, `Duration`) and of the
offset / delay computation in `ntp-proto/src/algorithm/mod.rs`
(`TwoWaySourceControllerWrapper::handle_measurement`, `OneWaySourceControllerWrapper::handle_measurement`)
together with `measurements_from_packet` of `ntp-proto/src/source.rs`.  Import-free (core + Basic/*).

Representation: an `NtpTimestamp` is an `Int` in `[0, 2^64)`, an `NtpDuration` an `Int` in the `i64`
range, a `PollInterval` an `Int` in the `i8` range, a PTP `Timestamp` an `Int` in `[0, 2^128)`, a PTP
`Duration` an `Int` in the `i128` range.  Every Rust panic site in scope is an explicit `none`:

  Rust                                              model
  NtpTimestamp - NtpTimestamp  (wrapping_sub as i64)  tsSub a b
  NtpTimestamp ± NtpDuration   (wrapping)             tsAddDur / tsSubDur
  is_before                                           isBefore
  NtpDuration + - (saturating)                        durAdd / durSub
  scalar * NtpDuration (saturating_mul)               durMul
  NtpDuration / scalar                                durDiv      (`none` = division by zero)
  -NtpDuration, abs, abs_diff                         durNeg / durAbs / durAbsDiff
  ... the same three before the proposed fix          durNegOrig / durAbsOrig / durDivOrig (`none` = overflow panic)
  to_seconds / from_seconds                           toSeconds / fromSeconds (`none` = debug_assert on NaN/inf)
  to_bits_short / from_bits_short                     toBitsShort (`none` = assert / debug_assert) / fromBitsShort
  to_bits_time32 / from_bits_time32                   toBitsTime32 (`none` = assert) / fromBitsTime32
  from_exponent / log2 / as_seconds_nanos             fromExponent / log2 / asSecondsNanos
  NtpDuration * FrequencyTolerance                    durMulPpm
  PollInterval::{inc,dec,force_inc,as_duration,...}   pollInc / pollDec / pollForceInc / pollAsDuration / ...
  statime Timestamp/Duration ops                      ptSub / ptAddDur / ptSubDur / pdAdd / pdSub / pdMul / pdDiv
-/
import NtpVerif.Basic.Wrap
import NtpVerif.Basic.F64

namespace NtpVerif.Time
open NtpVerif.Wrap

/-! ### NtpTimestamp (u64, wrapping) -/

/-- `impl Sub for NtpTimestamp`: `self.timestamp.wrapping_sub(rhs.timestamp) as i64` -/
def tsSub (a b : Int) : Int := wrapS64 (a - b)

/-- `impl Add<NtpDuration> for NtpTimestamp`: `self.timestamp.wrapping_add(rhs.duration as u64)` -/
def tsAddDur (a d : Int) : Int := wrapU64 (a + d)

/-- `impl Sub<NtpDuration> for NtpTimestamp` -/
def tsSubDur (a d : Int) : Int := wrapU64 (a - d)

/-- `NtpTimestamp::is_before`: `self - other < NtpDuration::ZERO` -/
def isBefore (a b : Int) : Bool := decide (tsSub a b < 0)

/-! ### NtpDuration (i64, saturating) -/

def durAdd (a b : Int) : Int := satI64 (a + b)
def durSub (a b : Int) : Int := satI64 (a - b)
/-- `saturating_mul(k as i64)`; every admitted scalar type embeds into `i64` -/
def durMul (d k : Int) : Int := satI64 (d * k)

/-- the code BEFORE the proposed fix: `-self.duration`, `self.duration.abs()`, `self.duration / k`
    (`none` = arithmetic-overflow panic of builds with overflow checks, or division by zero) -/
def durNegOrig (d : Int) : Option Int := checkedI64 (-d)
def durAbsOrig (d : Int) : Option Int := checkedI64 (if d < 0 then -d else d)
def durDivOrig (d k : Int) : Option Int := if k = 0 then none else checkedI64 (Int.tdiv d k)

/-- with the fix: `saturating_neg`, `saturating_abs`, `saturating_div` -/
def durNeg (d : Int) : Int := satI64 (-d)
def durAbs (d : Int) : Int := satI64 (if d < 0 then -d else d)
/-- `i64::saturating_div`: `none` = division by zero (a panic by Rust's own contract) -/
def durDiv (d k : Int) : Option Int := if k = 0 then none else some (satI64 (Int.tdiv d k))
/-- `abs_diff`: `(self - other).abs()` -/
def durAbsDiff (a b : Int) : Int := durAbs (durSub a b)

/-- `impl Mul<FrequencyTolerance> for NtpDuration`: `(self * rhs.ppm) / 1_000_000` -/
def durMulPpm (d ppm : Int) : Option Int := durDiv (durMul d ppm) 1000000

/-! ### wire encodings -/

/-- `from_bits_short`: `(u32 as i64) << 16` -/
def fromBitsShort (u : Int) : Int := u * 65536

/-- `to_bits_short`: `assert!(d >= 0)`, `debug_assert!(d <= 0x0000FFFFFFFFFFFF)` (debug assertions are on
    in the test profile), then `(d & 0x0000FFFFFFFF0000) >> 16`. -/
def toBitsShort (d : Int) : Option Int :=
  if d < 0 then none
  else if d > 0x0000FFFFFFFFFFFF then none
  else some ((d % 0x1000000000000) / 65536)

/-- `from_bits_time32`: `(u32 as i64) << 4` -/
def fromBitsTime32 (u : Int) : Int := u * 16

/-- `to_bits_time32`: `assert!(d >= 0)`, `u32::try_from(d >> 4).unwrap_or(u32::MAX)` -/
def toBitsTime32 (d : Int) : Option Int :=
  if d < 0 then none
  else some (if d / 16 > U32_MAX then U32_MAX else d / 16)

/-! ### seconds <-> duration -/

/-- `u32::MAX as f64` = 4294967295.0 (exactly representable) -/
def U32MAX_F : F64 := ⟨0x41EFFFFFFFE00000⟩

/-- `to_seconds`: `self.duration as f64 / u32::MAX as f64` -/
def toSeconds (d : Int) : F64 := F64.ofI64 d / U32MAX_F

/-- two's-complement `|` on `i64` -/
def orI64 (a b : Int) : Int :=
  wrapS64 (Int.ofNat ((wrapU64 a).toNat ||| (wrapU64 b).toNat))

/-- `i << 32` on `i64` (bits shifted out are lost; no overflow check on shifts by < 64) -/
def shl32 (i : Int) : Int := wrapS64 (i * 4294967296)

/-- integer core of `from_seconds`: `ii = floor(seconds) as i64`, `frac = (f * u32::MAX as f64) as i64`.
    The fourth arm (`unreachable!()`) is `none`. -/
def fromSecondsInt (ii frac : Int) : Option Int :=
  if I32_MIN ≤ ii ∧ ii ≤ I32_MAX then some (orI64 (shl32 ii) frac)
  else if ii < I32_MIN then some I64_MIN
  else if ii > I32_MAX then some I64_MAX
  else none

/-- `floor(seconds) as i64` and `((seconds - floor(seconds)) * u32::MAX as f64) as i64` -/
def secInt (x : F64) : Int := F64.toI64Sat (F64.floor x)
def secFrac (x : F64) : Int := F64.toI64Sat ((x - F64.floor x) * U32MAX_F)

/-- `from_seconds`; `none` = the `debug_assert!` on NaN / infinite input (or the unreachable arm) -/
def fromSeconds (x : F64) : Option Int :=
  if x.isNaN || x.isInf then none else fromSecondsInt (secInt x) (secFrac x)

/-- IDEALISED (exact rational arithmetic, no rounding) round trip `from_seconds (to_seconds d)`:
    with `M = 2^32 - 1`, `s = d / M` exactly, `floor s = d ediv M`, `(s - floor s) * M = d emod M`. -/
def roundTripIdeal (d : Int) : Option Int := fromSecondsInt (d / 4294967295) (d % 4294967295)

/-! ### misc NtpDuration -/

/-- `from_exponent(input: i8)` -/
def fromExponent (e : Int) : Int :=
  if e > 30 then I64_MAX
  else if e > 0 ∧ e ≤ 30 then 4294967296 * 2 ^ e.toNat
  else if e ≥ -32 ∧ e ≤ 0 then 4294967296 / 2 ^ (-e).toNat
  else 0

/-- `log2`: `i8::MIN` for zero, else `31 - leading_zeros as i8` -/
def log2 (d : Int) : Int :=
  if d = 0 then -128
  else if d < 0 then 31
  else (Nat.log2 d.toNat : Int) - 32

/-- `as_seconds_nanos`: `((d >> 32) as i32, (((d & 0xFFFFFFFF) * 1e9) >> 32) as u32)` -/
def asSecondsNanos (d : Int) : Int × Int :=
  (wrapS32 (d / 4294967296), wrapU32 (((d % 4294967296) * 1000000000) / 4294967296))

/-! ### PollInterval (i8) -/

def I8_MIN : Int := -128
def I8_MAX : Int := 127

/-- the code BEFORE the proposed fix: `Self(self.0 + 1).min(limits.max)` (`none` = overflow panic) -/
def pollIncOrig (p lmax : Int) : Option Int := (checkedRange I8_MIN I8_MAX (p + 1)).map (fun q => min q lmax)
def pollDecOrig (p lmin : Int) : Option Int := (checkedRange I8_MIN I8_MAX (p - 1)).map (fun q => max q lmin)

/-- with the fix: `Self(self.0.saturating_add(1)).min(limits.max)` -/
def pollInc (p lmax : Int) : Int := min (satI8 (p + 1)) lmax
def pollDec (p lmin : Int) : Int := max (satI8 (p - 1)) lmin
def pollForceInc (p : Int) : Int := satI8 (p + 1)

/-- `as_duration`: `1 << clamp(self.0.saturating_add(32), 0, 62)` -/
def pollAsDuration (p : Int) : Int := 2 ^ (clampInt 0 62 (satI8 (p + 32))).toNat

/-- `as_system_duration`: `Duration::from_secs(1 << clamp(self.0, 0, 31))` (seconds) -/
def pollAsSystemSecs (p : Int) : Int := 2 ^ (clampInt 0 31 p).toNat

/-- `from_byte` (`u8 as i8`) / `as_byte` (`i8 as u8`) -/
def pollFromByte (b : Int) : Int := if b ≥ 128 then b - 256 else b
def pollAsByte (p : Int) : Int := p % 256

/-! ### statime-base: `Timestamp` (u128 wrapping), `Duration` (i128 saturating) -/

def TWO128 : Int := 340282366920938463463374607431768211456
def I128_MIN : Int := -170141183460469231731687303715884105728
def I128_MAX : Int := 170141183460469231731687303715884105727

def inI128 (x : Int) : Prop := I128_MIN ≤ x ∧ x ≤ I128_MAX
instance (x : Int) : Decidable (inI128 x) := by unfold inI128; infer_instance

def wrapU128 (x : Int) : Int := x % 340282366920938463463374607431768211456
def wrapS128 (x : Int) : Int :=
  let r := x % 340282366920938463463374607431768211456
  if r ≥ 170141183460469231731687303715884105728 then r - 340282366920938463463374607431768211456 else r
def satI128 (x : Int) : Int := clampInt I128_MIN I128_MAX x

/-- `Timestamp - Timestamp`: `wrapping_sub(..).cast_signed()` -/
def ptSub (a b : Int) : Int := wrapS128 (a - b)
def ptAddDur (a d : Int) : Int := wrapU128 (a + d)
def ptSubDur (a d : Int) : Int := wrapU128 (a - d)
def pdAdd (a b : Int) : Int := satI128 (a + b)
def pdSub (a b : Int) : Int := satI128 (a - b)
def pdMul (d k : Int) : Int := satI128 (d * k)
/-- `i128::saturating_div`: `none` = division by zero -/
def pdDiv (d k : Int) : Option Int := if k = 0 then none else some (satI128 (Int.tdiv d k))

/-! ### C05: measurements -> offset / delay -/

/-- the part of `Measurement` the computation reads -/
structure Meas where
  fromSystem : Bool     -- `sender_id == ClockId::SYSTEM`
  senderTs : Int
  receiverTs : Int
deriving Repr, DecidableEq

/-- `measurements_from_packet(message, id, send_time, recv_time)`: (outgoing, incoming) -/
def measurementsFromPacket (sendTime pktReceiveTs pktTransmitTs recvTime : Int) : Meas × Meas :=
  ({ fromSystem := true, senderTs := sendTime, receiverTs := pktReceiveTs },
   { fromSystem := false, senderTs := pktTransmitTs, receiverTs := recvTime })

/-- what reaches the inner source controller -/
structure Internal where
  offset : Int
  delay : Option Int     -- `none` for one-way sources (`MeasurementDelay = ()`)
  localtime : Int
deriving Repr, DecidableEq

inductive Out where
  | stored                      -- outgoing measurement kept for later
  | dropped                     -- incoming measurement without a pending outgoing one: nothing delivered
  | delivered (m : Internal)
  | panic
deriving Repr, DecidableEq

/-- delay: `(in.receiver_ts - out.sender_ts) - (in.sender_ts - out.receiver_ts)` -/
def twoWayDelay (t1 t2 t3 t4 : Int) : Int := durSub (tsSub t4 t1) (tsSub t3 t2)
/-- offset: `((out.receiver_ts - out.sender_ts) + (in.sender_ts - in.receiver_ts)) / 2` -/
def twoWayOffset (t1 t2 t3 t4 : Int) : Option Int := durDiv (durAdd (tsSub t2 t1) (tsSub t3 t4)) 2

/-- `TwoWaySourceControllerWrapper::handle_measurement`; state = `last_outgoing_measurement` -/
def twoWayStep (last : Option Meas) (m : Meas) : Option Meas × Out :=
  if m.fromSystem then (some m, .stored)
  else
    match last with
    | none => (none, .dropped)
    | some o =>
      match twoWayOffset o.senderTs o.receiverTs m.senderTs m.receiverTs with
      | none => (none, .panic)
      | some off =>
        (none, .delivered { offset := off,
                            delay := some (twoWayDelay o.senderTs o.receiverTs m.senderTs m.receiverTs),
                            localtime := m.receiverTs })

/-- `OneWaySourceControllerWrapper::handle_measurement`: offset = sender_ts - receiver_ts -/
def oneWayStep (m : Meas) : Internal :=
  { offset := tsSub m.senderTs m.receiverTs, delay := none, localtime := m.receiverTs }

def runTwoWay : Option Meas → List Meas → List Out
  | _, [] => []
  | s, m :: ms => let (s', o) := twoWayStep s m; o :: runTwoWay s' ms

end NtpVerif.Time
