/-
Model of `ntp-proto/src/packet/extension_fields.rs` and `packet/v5/extension_fields.rs`.  Import-free.

Rust                                                   Model
  ExtensionField<'a>                                     EF
  RawExtensionField::deserialize                         rawDeserialize
  RawExtensionField::wire_length                         wireLength   (`none` = its debug_assert fails)
  ExtensionFieldStreamer (Iterator)                      streamAux / stream : the list of items the iterator
                                                         yields (`field` …, then at most one `err`)
  ExtensionField::decode (+ decode_* helpers)            decode
  ReferenceIdRequest::decode / ReferenceIdResponse       (inside decode)
  RawEncryptedField::from_message_bytes                  fromMessageBytes
  RawEncryptedField::decrypt                             decryptFields
  CipherProvider::get  (NoCipher / a Cipher / KeySet)    Ctx.get
  ExtensionFieldData::deserialize                        efDeserialize  (loop body = efStep)
  ExtensionField::serialize + encode_* helpers           EF.serialize, framing, padding
  ReferenceIdRequest::serialize (with fix F-C24)         (inside EF.serialize)
  ExtensionField::encode_encrypted                       encodeEncrypted (nonce and ciphertext are read back)
  ExtensionFieldData::serialize                          EFData.serialize

The streamer is an iterator; both of its consumers stop at the first `Err` item and the raw field parser is
pure, so the lazily produced sequence is modelled as the (finite) list of items, consumed in order.
Every Rust panic site in these functions is an explicit `.error .panic` / `SErr.panic` outcome here.
-/
import NtpVerif.Model.Cipher
import NtpVerif.Gen.Consts

namespace NtpVerif.Wire

inductive Ver where
  | v4
  | v5
deriving Repr, DecidableEq

inductive EF where
  | uniqueId (b : Bytes)
  | cookie (b : Bytes)
  | placeholder (len : Nat)
  | invalidEnc
  | draftId (s : Bytes)
  | padding (n : Nat)
  | refIdReq (payloadLen offset : Nat)
  | refIdResp (b : Bytes)
  | unknown (ty : Nat) (b : Bytes)
deriving Repr, DecidableEq

/-! ### type ids (`ExtensionFieldTypeId::{from,to}_type_id`), regenerated from the source -/

abbrev tyUniqueId : Nat := Gen.EF_UNIQUE_IDENTIFIER
abbrev tyCookie : Nat := Gen.EF_NTS_COOKIE
abbrev tyPlaceholder : Nat := Gen.EF_NTS_COOKIE_PLACEHOLDER
abbrev tyEncrypted : Nat := Gen.EF_NTS_ENCRYPTED_FIELD
abbrev tyDraftId : Nat := Gen.EF_DRAFT_IDENTIFICATION
abbrev tyPadding : Nat := Gen.EF_PADDING
abbrev tyRefIdReq : Nat := Gen.EF_REFERENCE_ID_REQUEST
abbrev tyRefIdResp : Nat := Gen.EF_REFERENCE_ID_RESPONSE

/-! ### raw fields and the streamer -/

/-- `RawExtensionField::deserialize`: `(type id, message bytes)` -/
def rawDeserialize (data : Bytes) (minSize : Nat) (ver : Ver) : Except PErr (Nat × Bytes) :=
  match data with
  | b0 :: b1 :: b2 :: b3 :: _ =>
    let ty := be16 b0 b1
    let flen := be16 b2 b3
    if flen < minSize then .error .incorrectLength
    else if ver = .v4 ∧ flen % 4 ≠ 0 then .error .incorrectLength
    else
      match slice? data 4 (nm4 flen) with
      | none => .error .incorrectLength
      | some _ =>
        match slice? data 4 flen with
        | none => .error .incorrectLength
        | some msg => .ok (ty, msg)
  | _ => .error .incorrectLength

/-- `RawExtensionField::wire_length`; `none` = `debug_assert_eq!(length % 4, 0)` fails -/
def wireLength (msg : Bytes) (ver : Ver) : Option Nat :=
  let length := 2 + 2 + msg.length
  if ver = .v4 ∧ length % 4 ≠ 0 then none else some (nm4 length)

/-- what the streamer yields -/
inductive Item where
  | field (off : Nat) (ty : Nat) (msg : Bytes) (wl : Nat)   -- `wl` = `field.wire_length(version)`
  | err (e : PErr)
  | panic
  | fuel
deriving Repr, DecidableEq

/-- `ExtensionFieldStreamer::next`, iterated.  `rem = buffer[off..]`.  First argument: fuel. -/
def streamAux (ver : Ver) (cutoff minSize : Nat) : Nat → Bytes → Nat → List Item
  | 0, _, _ => [.fuel]
  | fuel + 1, rem, off =>
    if rem.length ≤ cutoff then []
    else
      match rawDeserialize rem minSize ver with
      | .error e => [.err e]
      | .ok (ty, msg) =>
        match wireLength msg ver with
        | none => [.panic]
        | some wl => .field off ty msg wl :: streamAux ver cutoff minSize fuel (rem.drop wl) (off + wl)

/-- `RawExtensionField::deserialize_sequence(buffer, cutoff, minimum_size, version)` as a list -/
def stream (buffer : Bytes) (cutoff minSize : Nat) (ver : Ver) : List Item :=
  streamAux ver cutoff minSize (buffer.length + 1) buffer 0

/-! ### decoding one field -/

def isAscii (bs : Bytes) : Bool := bs.all fun b => b.toNat < 128

/-- `str::trim_end_matches('\0')` -/
def trimEndZeros (bs : Bytes) : Bytes := (bs.reverse.dropWhile (· == 0)).reverse

/-- `ExtensionField::decode`.  The only panic site on this path is the `expect` in
    `ReferenceIdRequest::decode` (`u16::try_from(msg.len())`). -/
def decode (ty : Nat) (msg : Bytes) (ver : Ver) : R EF :=
  if ty = tyUniqueId then .ok (.uniqueId msg)
  else if ty = tyCookie then .ok (.cookie msg)
  else if ty = tyPlaceholder then
    if msg.any (· != 0) then perr .malformedCookiePlaceholder
    else .ok (.placeholder (msg.length % 65536))
  else if ty = tyDraftId ∧ ver = .v5 then
    -- `from_utf8(message)` is `Ok` and `is_ascii()` ⇔ every byte is below 128; no trimming for V5
    if isAscii msg then .ok (.draftId msg) else perr .v5InvalidDraftIdentification
  else if ty = tyRefIdReq ∧ ver = .v5 then
    if msg.length > 65535 then rpanic
    else
      match slice? msg 0 2 with
      | none => perr .incorrectLength
      | some ob => .ok (.refIdReq msg.length (beNat ob))
  else if ty = tyRefIdResp ∧ ver = .v5 then .ok (.refIdResp msg)
  else .ok (.unknown ty msg)

/-! ### the encrypted field -/

/-- `RawEncryptedField::from_message_bytes`: `(nonce, ciphertext)` -/
def fromMessageBytes (msg : Bytes) : Except PErr (Bytes × Bytes) :=
  match msg with
  | b0 :: b1 :: b2 :: b3 :: rest =>
    let nonceLen := be16 b0 b1
    let ctLen := be16 b2 b3
    match slice? rest 0 nonceLen with
    | none => .error .incorrectLength
    | some nonce =>
      let ctStart := 4 + nm4u16 nonceLen
      match slice? msg ctStart (ctStart + ctLen) with
      | none => .error .incorrectLength
      | some ct => .ok (nonce, ct)
  | _ => .error .incorrectLength

/-- the `.map(..).collect()` of `RawEncryptedField::decrypt` over the plaintext's field stream -/
def decodeEncItems (ver : Ver) : List Item → R (List EF)
  | [] => .ok []
  | .err e :: _ => perr e
  | .panic :: _ => rpanic
  | .fuel :: _ => .error .fuel
  | .field _ ty msg _ :: rest =>
    if ty = tyEncrypted then perr .malformedNtsExtensionFields
    else do
      let f ← decode ty msg ver
      let fs ← decodeEncItems ver rest
      pure (f :: fs)

/-- `RawEncryptedField::decrypt`: `none` = `DecryptError` (the cipher rejected the tuple) -/
def decryptFields (dec : Dec) (key nonce ct aad : Bytes) (ver : Ver) : Option (R (List EF)) :=
  match dec key nonce ct aad with
  | none => none
  | some pt => some (decodeEncItems ver (stream pt 0 Gen.EF_BARE_MINIMUM_SIZE ver))

/-! ### cipher providers -/

inductive Ctx where
  | noCipher                   -- `NoCipher`
  | key (k : Bytes)            -- a `Cipher` (client side: the session's s2c key)
  | keyset (ks : KeySet)       -- `KeySet` (server side)
deriving Repr, DecidableEq

structure Holder where
  key : Bytes
  cookie : Option Cookie
deriving Repr, DecidableEq

/-- the loop of `impl CipherProvider for KeySet`; outer `none` = an early `return None` -/
def keysetLoop (dec : Dec) (ks : KeySet) : List EF → Option Cookie → Option (Option Cookie)
  | [], d => some d
  | .cookie c :: rest, d =>
    match d with
    | some _ => none
    | none =>
      match decodeCookie dec ks c with
      | none => none
      | some k => keysetLoop dec ks rest (some k)
  | _ :: rest, d => keysetLoop dec ks rest d

/-- `CipherProvider::get(context)` -/
def Ctx.get (dec : Dec) : Ctx → List EF → Option Holder
  | .noCipher, _ => Option.none
  | .key k, _ => some { key := k, cookie := Option.none }
  | .keyset ks, context =>
    match keysetLoop dec ks context Option.none with
    | some (some c) => some { key := c.c2s, cookie := some c }
    | _ => Option.none

/-! ### `ExtensionFieldData::deserialize` -/

structure EFData where
  authenticated : List EF
  encrypted : List EF
  untrusted : List EF
deriving Repr, DecidableEq

def EFData.empty : EFData := { authenticated := [], encrypted := [], untrusted := [] }

structure EFState where
  ef : EFData
  size : Nat
  valid : Bool                 -- `is_valid_nts`
  cookie : Option Cookie
deriving Repr, DecidableEq

def EFState.init : EFState := { ef := .empty, size := 0, valid := true, cookie := none }

def EFState.pushInvalid (st : EFState) (size : Nat) : EFState :=
  { st with ef := { st.ef with untrusted := st.ef.untrusted ++ [.invalidEnc] }, size := size, valid := false }

/-- body of the `for field in …` loop for one successfully framed field -/
def efStep (dec : Dec) (ctx : Ctx) (data : Bytes) (headerSize : Nat) (ver : Ver)
    (st : EFState) (off ty : Nat) (msg : Bytes) (wl : Nat) : R EFState :=
  let size := off + wl
  if ty = tyEncrypted then
    match fromMessageBytes msg with
    | .error e => perr e
    | .ok (nonce, ct) =>
      match ctx.get dec st.ef.untrusted with
      | none => .ok (st.pushInvalid size)
      | some holder =>
        -- `&data[..header_size + offset]`
        match sliceP data 0 (headerSize + off) with
        | .error e => .error e
        | .ok aad =>
          match decryptFields dec holder.key nonce ct aad ver with
          | none => .ok (st.pushInvalid size)
          | some (.error e) => .error e
          | some (.ok fields) =>
            -- (F-C23: the unfixed code had `debug_assert_eq!(encrypted.nonce.len(), 16)` here, reachable
            --  by any key holder that seals with a longer nonce; removed by fixes/C23-nonce-assert.patch)
            .ok { ef := { authenticated := st.ef.authenticated ++ st.ef.untrusted,
                          encrypted := st.ef.encrypted ++ fields,
                          untrusted := [] },
                  size := size, valid := st.valid, cookie := holder.cookie }
  else
    match decode ty msg ver with
    | .error e => .error e
    | .ok f => .ok { st with ef := { st.ef with untrusted := st.ef.untrusted ++ [f] }, size := size }

def efLoop (dec : Dec) (ctx : Ctx) (data : Bytes) (headerSize : Nat) (ver : Ver) :
    List Item → EFState → R EFState
  | [], st => .ok st
  | .err e :: _, _ => perr e
  | .panic :: _, _ => rpanic
  | .fuel :: _, _ => .error .fuel
  | .field off ty msg wl :: rest, st =>
    match efStep dec ctx data headerSize ver st off ty msg wl with
    | .error e => .error e
    | .ok st' => efLoop dec ctx data headerSize ver rest st'

/-- result of `ExtensionFieldData::deserialize`: `valid = false` is `Err(DecryptError(InvalidNts…))` -/
structure EFResult where
  ef : EFData
  remaining : Bytes
  cookie : Option Cookie
  valid : Bool
deriving Repr, DecidableEq

def macCutoff (ver : Ver) : Nat :=
  match ver with
  | .v4 => Gen.MAC_MAXIMUM_SIZE
  | .v5 => 0

def efDeserialize (dec : Dec) (ctx : Ctx) (data : Bytes) (headerSize : Nat) (ver : Ver) : R EFResult :=
  -- `&data[header_size..]`
  match sliceP data headerSize data.length with
  | .error e => .error e
  | .ok body =>
    match efLoop dec ctx data headerSize ver
            (stream body (macCutoff ver) Gen.EF_V4_UNENCRYPTED_MINIMUM_SIZE ver) .init with
    | .error e => .error e
    | .ok st =>
      -- `&data[header_size + size..]`
      match sliceP data (headerSize + st.size) data.length with
      | .error e => .error e
      | .ok remaining =>
        .ok { ef := st.ef, remaining := remaining, cookie := if st.valid then st.cookie else none,
              valid := st.valid }

/-! ### serialisation -/

inductive SErr where
  | io          -- any `std::io::Error`
  | panic
deriving Repr, DecidableEq

abbrev S := Except SErr

/-- `ExtensionField::encode_framing` -/
def framing (ty dataLen minSize : Nat) (ver : Ver) : S Bytes :=
  if dataLen > 65535 - 4 then .error .io
  else
    let a := max (dataLen + 4) minSize
    let a := if ver = .v4 then nm4u16 a else a
    .ok (toBE 2 ty ++ toBE 2 a)

/-- `ExtensionField::encode_padding` -/
def padding (dataLen minSize : Nat) : S Bytes :=
  if dataLen > 65535 - 4 then .error .io
  else .ok (zeros (nm4 (max (dataLen + 4) minSize) - dataLen - 4))

/-- the common shape of `encode_unknown`, `encode_unique_identifier`, `encode_nts_cookie`,
    `encode_nts_cookie_placeholder`, `encode_draft_identification`, `encode_padding_field` -/
def encodeGeneric (ty : Nat) (data : Bytes) (minSize : Nat) (ver : Ver) : S Bytes := do
  let f ← framing ty data.length minSize ver
  let p ← padding data.length minSize
  pure (f ++ data ++ p)

/-- `ExtensionField::serialize` -/
def EF.serialize (f : EF) (minSize : Nat) (ver : Ver) : S Bytes :=
  match f with
  | .unknown ty d => encodeGeneric ty d minSize ver
  | .uniqueId d => encodeGeneric tyUniqueId d minSize ver
  | .cookie d => encodeGeneric tyCookie d minSize ver
  | .placeholder n => encodeGeneric tyPlaceholder (zeros n) minSize ver
  | .invalidEnc => .error .io
  | .draftId s => encodeGeneric tyDraftId s minSize ver
  | .padding len =>
    -- `length - Self::HEADER_LENGTH` (usize subtraction)
    if len < 4 then .error .panic else encodeGeneric tyPadding (zeros (len - 4)) minSize ver
  | .refIdReq pl off =>
    -- `payload_len + 4` on u16; body = offset, then zeros up to the padded payload length (fix F-C24)
    if pl + 4 > 65535 then .error .panic
    else .ok (toBE 2 tyRefIdReq ++ toBE 2 (pl + 4) ++ toBE 2 off ++ zeros (max (nm4 pl) 4 - 2))
  | .refIdResp b =>
    -- `bytes.len().try_into::<u16>().unwrap()`, then `len + 4` on u16
    if b.length + 4 > 65535 then .error .panic
    else
      let len := b.length + 4
      .ok (toBE 2 tyRefIdResp ++ toBE 2 len ++ b ++ (if len % 4 = 0 then [] else zeros (4 - len % 4)))

def serializeFields (minSize : Nat) (ver : Ver) : List EF → S Bytes
  | [] => .ok []
  | f :: rest => do
    let a ← f.serialize minSize ver
    let b ← serializeFields minSize ver rest
    pure (a ++ b)

/-- `ExtensionField::encode_encrypted` with the cipher's output (`nonce`, `ct`) read back.  Returns the field
    bytes and the plaintext that was handed to the cipher. -/
def encodeEncrypted (fields : List EF) (ver : Ver) (nonce ct : Bytes) : S (Bytes × Bytes) := do
  let pt ← serializeFields 0 ver fields
  let pn := nm4 nonce.length
  let pc := nm4 ct.length
  -- `debug_assert_eq!(ciphertext_padding, 0)`
  if pc - ct.length ≠ 0 then .error .panic
  else
    let sigLen := 8 + pn + pc
    pure (toBE 2 tyEncrypted ++ toBE 2 sigLen ++ toBE 2 nonce.length ++ toBE 2 ct.length
            ++ nonce ++ zeros (pn - nonce.length) ++ ct, pt)

/-- the untrusted loop of `ExtensionFieldData::serialize` (RFC 7822 §7.5.1.4 minimum sizes) -/
def serializeUntrusted (ver : Ver) : List EF → S Bytes
  | [] => .ok []
  | [f] => f.serialize (match ver with | .v4 => 28 | .v5 => 4) ver
  | f :: rest => do
    let a ← f.serialize (match ver with | .v4 => 16 | .v5 => 4) ver
    let b ← serializeUntrusted ver rest
    pure (a ++ b)

/-- `ExtensionFieldData::serialize`.  `sealed = some (nonce, ct)`: a cipher is available and produced this
    nonce/ciphertext; `none`: `cipher.get(..)` returned `None`.  Second component: the plaintext encrypted. -/
def EFData.serialize (d : EFData) (ver : Ver) (sealed : Option (Bytes × Bytes)) : S (Bytes × Option Bytes) := do
  let (a, pt) ←
    if d.authenticated ≠ [] ∨ d.encrypted ≠ [] then
      match sealed with
      | none => (.error .io : S (Bytes × Option Bytes))
      | some (nonce, ct) => do
        let a ← serializeFields 16 ver d.authenticated
        let (e, pt) ← encodeEncrypted d.encrypted ver nonce ct
        pure (a ++ e, some pt)
    else pure ([], none)
  let u ← serializeUntrusted ver d.untrusted
  pure (a ++ u, pt)

end NtpVerif.Wire
