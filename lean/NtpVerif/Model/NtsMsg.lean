/-
Model of `ntp-proto/src/nts/messages.rs`: `Request::{parse, serialize}`, `KeyExchangeResponse::{parse,
serialize}`, and the serialisers of `NoOverlapResponse`, `ErrorResponse`, `SupportsResponse`.  Import-free.

`X::parse(reader)` starts with `reader.take(MAX_MESSAGE_SIZE)`: the model truncates the available bytes
to `MAX_MESSAGE_SIZE` and runs the record loop on that (see `Model/NtsRecord.lean` for why this is
exactly what `Take` does).  The record loop is structurally recursive on a fuel argument initialised with
the number of available bytes; `Proofs/NtsMsg.lean` shows the fuel never runs out (`…_never_fuel`), the
`.fuel` outcome exists only to keep the definition total without assuming that.

The keys of a `Request::FixedKey` (`Box<dyn Cipher>`) are represented by their key bytes; constructing
the ciphers succeeds iff the byte strings have the algorithm's key size (32 / 64: `aes-siv` constants,
trusted, tied by the correspondence).
-/
import NtpVerif.Model.NtsRecord

namespace NtpVerif.NtsMsg

open NtpVerif.NtsRecord

/-- `NtsError` as far as the parsers produce it (+ `.fuel`, never produced: `Proofs/NtsMsg`) -/
inductive MsgErr where
  | io (e : IoErr)
  | unrecognizedCriticalRecord
  | invalid
  | noOverlappingProtocol
  | noOverlappingAlgorithm
  | unknownWarning (code : Nat)
  | error (code : ErrorCode)
  | aeadNotSupported (id : Nat)
  | incorrectSizedKey
  | fuel
deriving Repr, DecidableEq

/-- message parse result: outcome and bytes consumed from the (outer) reader -/
abbrev MR (α : Type) := Except MsgErr α × Nat

inductive Request where
  | keyExchange (algorithms : List Aead) (protocols : List NextProtocol) (denied : List Bytes)
  | fixedKey (authentication : Bytes) (c2s s2c : Bytes) (algorithm : Aead) (protocol : NextProtocol)
      (keepAlive : Bool)
  | support (authentication : Bytes) (wantsProtocols wantsAlgorithms keepAlive : Bool)
deriving Repr, DecidableEq

/-- the local variables of `Request::parse` -/
structure ReqState where
  protocols : Option (List NextProtocol) := none
  algorithms : Option (List Aead) := none
  authentication : Option Bytes := none
  denied : List Bytes := []          -- in order of arrival
  wantsProtocols : Bool := false
  wantsAlgorithms : Bool := false
  keepAlive : Bool := false
  keyBytes : Option (Bytes × Bytes) := none
deriving Repr, DecidableEq

inductive Step (σ : Type) where
  | continue (s : σ)
  | done
  | fail (e : MsgErr)

/-- one arm of the `match record` in `Request::parse` -/
def reqStep (s : ReqState) : Record → Step ReqState
  | .endOfMessage => .done
  | .nextProtocol ids => if s.protocols.isSome then .fail .invalid else .continue { s with protocols := some ids }
  | .aeadAlgorithm ids => if s.algorithms.isSome then .fail .invalid else .continue { s with algorithms := some ids }
  | .fixedKeyRequest c2s s2c => if s.keyBytes.isSome then .fail .invalid else .continue { s with keyBytes := some (c2s, s2c) }
  | .supportedAlgorithmList _ => if s.wantsAlgorithms then .fail .invalid else .continue { s with wantsAlgorithms := true }
  | .supportedNextProtocolList _ => if s.wantsProtocols then .fail .invalid else .continue { s with wantsProtocols := true }
  | .ntpServerDeny d => .continue { s with denied := s.denied ++ [d] }
  | .authentication k => if s.authentication.isSome then .fail .invalid else .continue { s with authentication := some k }
  | .keepAlive => .continue { s with keepAlive := true }
  | .unknown _ true _ => .fail .unrecognizedCriticalRecord
  | .unknown _ false _ | .server _ | .port _ => .continue s
  | .error _ | .warning _ | .newCookie _ => .fail .invalid

/-- key size of an AEAD algorithm (`AesSivCmac256::key_size()` = 32, `AesSivCmac512::key_size()` = 64) -/
def Aead.keySize? : Aead → Option Nat
  | .siv256 => some 32
  | .siv512 => some 64
  | .unknown _ => none

/-- the code after the loop of `Request::parse` -/
def reqFinish (s : ReqState) : Except MsgErr Request :=
  if s.wantsAlgorithms || s.wantsProtocols then
    match s.authentication with
    | some auth =>
      if s.keyBytes.isNone && s.protocols.isNone && s.algorithms.isNone then
        .ok (.support auth s.wantsProtocols s.wantsAlgorithms s.keepAlive)
      else .error .invalid
    | none => .error .invalid
  else
    match s.keyBytes with
    | some (c2s, s2c) =>
      match s.authentication, s.protocols, s.algorithms with
      | some auth, some ps, some as =>
        match ps, as with
        | [p], [a] =>
          match Aead.keySize? a with
          | some k =>
            if c2s.length = k ∧ s2c.length = k then .ok (.fixedKey auth c2s s2c a p s.keepAlive)
            else .error .incorrectSizedKey
          | none => .error (.aeadNotSupported a.toU16)
        | _, _ => .error .invalid
      | _, _, _ => .error .invalid
    | none =>
      match s.protocols, s.algorithms with
      | some ps, some as => .ok (.keyExchange as ps s.denied)
      | _, _ => .error .invalid

/-- the `loop { let record = NtsRecord::parse(&mut reader).await?; match record {…} }` shared by both
    message parsers; `inp` = bytes still available below the message cap, `used` = bytes consumed so far -/
def recordLoop {σ : Type} (step : σ → Record → Step σ) :
    Nat → σ → Bytes → Nat → Except MsgErr σ × Nat
  | 0, _, _, used => (.error .fuel, used)
  | fuel + 1, s, inp, used =>
    match parseRecord inp with
    | (.error e, c) => (.error (.io e), used + c)
    | (.ok r, c) =>
      match step s r with
      | .done => (.ok s, used + c)
      | .fail e => (.error e, used + c)
      | .continue s' => recordLoop step fuel s' (inp.drop c) (used + c)

/-- `Request::parse` on a reader that has `inp` available -/
def parseRequest (inp : Bytes) : MR Request :=
  let avail := inp.take Gen.NTSKE_MAX_MESSAGE_SIZE
  match recordLoop reqStep (avail.length + 1) {} avail 0 with
  | (.ok s, used) => (reqFinish s, used)
  | (.error e, used) => (.error e, used)

/-! ### responses -/

structure Response where
  protocol : NextProtocol
  algorithm : Aead
  cookies : List Bytes
  server : Option Bytes
  port : Option Nat
  keepAlive : Bool
deriving Repr, DecidableEq

structure RespState where
  protocol : Option NextProtocol := none
  algorithm : Option Aead := none
  cookies : List Bytes := []
  server : Option Bytes := none
  port : Option Nat := none
  keepAlive : Bool := false
deriving Repr, DecidableEq

def respStep (s : RespState) : Record → Step RespState
  | .endOfMessage => .done
  | .nextProtocol ids =>
    if s.protocol.isSome then .fail .invalid
    else match ids with
      | [] => .fail .noOverlappingProtocol
      | [p] => .continue { s with protocol := some p }
      | _ => .fail .invalid
  | .aeadAlgorithm ids =>
    if s.algorithm.isSome then .fail .invalid
    else match ids with
      | [] => .fail .noOverlappingAlgorithm
      | [a] => .continue { s with algorithm := some a }
      | _ => .fail .invalid
  | .newCookie d =>
    if s.cookies.length < Gen.NTSKE_NUMBER_OF_COOKIES then .continue { s with cookies := s.cookies ++ [d] }
    else .continue s
  | .server n => if s.server.isSome then .fail .invalid else .continue { s with server := some n }
  | .port p => if s.port.isSome then .fail .invalid else .continue { s with port := some p }
  | .keepAlive => .continue { s with keepAlive := true }
  | .error c => .fail (.error c)
  | .warning c => .fail (.unknownWarning c)
  | .unknown _ true _ => .fail .unrecognizedCriticalRecord
  | .unknown _ false _ | .authentication _ => .continue s
  | .ntpServerDeny _ | .fixedKeyRequest _ _ | .supportedAlgorithmList _ | .supportedNextProtocolList _ =>
    .fail .invalid

def respFinish (s : RespState) : Except MsgErr Response :=
  match s.protocol, s.algorithm with
  | some p, some a => .ok { protocol := p, algorithm := a, cookies := s.cookies, server := s.server,
                            port := s.port, keepAlive := s.keepAlive }
  | _, _ => .error .invalid

/-- `KeyExchangeResponse::parse` -/
def parseResponse (inp : Bytes) : MR Response :=
  let avail := inp.take Gen.NTSKE_MAX_MESSAGE_SIZE
  match recordLoop respStep (avail.length + 1) {} avail 0 with
  | (.ok s, used) => (respFinish s, used)
  | (.error e, used) => (.error e, used)

/-! ### serialisers (into an in-memory `Vec<u8>`; `none` = a record's `serialize` failed) -/

def serializeAll : List Record → Option Bytes
  | [] => some []
  | r :: rs => do
    let a ← serialize r
    let b ← serializeAll rs
    pure (a ++ b)

def boolRec (b : Bool) (r : Record) : List Record := if b then [r] else []

/-- the records `Request::serialize` writes, in order -/
def Request.records : Request → List Record
  | .keyExchange as ps denied =>
    [.nextProtocol ps, .aeadAlgorithm as] ++ denied.map .ntpServerDeny ++ [.endOfMessage]
  | .fixedKey auth c2s s2c a p keepAlive =>
    [.authentication auth, .fixedKeyRequest c2s s2c, .nextProtocol [p], .aeadAlgorithm [a]]
      ++ boolRec keepAlive .keepAlive ++ [.endOfMessage]
  | .support auth wp wa keepAlive =>
    [.authentication auth] ++ boolRec wp (.supportedNextProtocolList [])
      ++ boolRec wa (.supportedAlgorithmList []) ++ boolRec keepAlive .keepAlive ++ [.endOfMessage]

def serializeRequest (r : Request) : Option Bytes := serializeAll r.records

def optRec {α : Type} (o : Option α) (f : α → Record) : List Record :=
  match o with
  | some a => [f a]
  | none => []

/-- the records `KeyExchangeResponse::serialize` writes, in order -/
def Response.records (r : Response) : List Record :=
  [.nextProtocol [r.protocol], .aeadAlgorithm [r.algorithm]] ++ r.cookies.map .newCookie
    ++ optRec r.server .server ++ optRec r.port .port ++ boolRec r.keepAlive .keepAlive ++ [.endOfMessage]

def serializeResponse (r : Response) : Option Bytes := serializeAll r.records

/-- `NoOverlapResponse` -/
inductive NoOverlap where
  | noOverlappingAlgorithm (protocol : NextProtocol)
  | noOverlappingProtocol
deriving Repr, DecidableEq

def NoOverlap.records : NoOverlap → List Record
  | .noOverlappingAlgorithm p => [.nextProtocol [p], .aeadAlgorithm [], .endOfMessage]
  | .noOverlappingProtocol => [.nextProtocol [], .endOfMessage]

/-- `ErrorResponse` -/
def errorResponseRecords (c : ErrorCode) : List Record := [.error c, .endOfMessage]

/-- `SupportsResponse` -/
structure Supports where
  algorithms : Option (List AlgDesc)
  protocols : Option (List NextProtocol)
  keepAlive : Bool
deriving Repr, DecidableEq

def Supports.records (s : Supports) : List Record :=
  optRec s.algorithms .supportedAlgorithmList ++ optRec s.protocols .supportedNextProtocolList
    ++ boolRec s.keepAlive .keepAlive ++ [.endOfMessage]

end NtpVerif.NtsMsg
