/-
Ideal AEAD with an oracle table (DESIGN §2.6) and the cookie decoder of `ntp-proto/src/keyset.rs`.

A cipher is identified by its key bytes.  `Dec` is the decryption oracle
`key → nonce → ciphertext → aad → Option plaintext`; theorems quantify over *all* oracles (C23) or over
oracles given by a table of the encryptions that were performed (C25).  The executable instance is
`Table.decrypt`: a lookup of the exact tuple.  Real AES-SIV is trusted to behave like this (checked on every
packet of every run by the correspondence).

Rust:                                              Model:
  Cipher::decrypt(nonce, ciphertext, aad)            dec key nonce ct aad
  KeySet { keys, id_offset, primary }                KeySet (primary is irrelevant for decoding)
  KeySet::decode_cookie                              decodeCookie
  DecodedServerCookie { algorithm, s2c, c2s }        Cookie
-/
import NtpVerif.Model.Bytes

namespace NtpVerif.Wire

abbrev Dec := (key nonce ct aad : Bytes) → Option Bytes

structure Entry where
  key : Bytes
  nonce : Bytes
  aad : Bytes
  ct : Bytes
  pt : Bytes
deriving Repr, DecidableEq

abbrev Table := List Entry

def Entry.matches (e : Entry) (key nonce ct aad : Bytes) : Bool :=
  e.key == key && e.nonce == nonce && e.ct == ct && e.aad == aad

/-- ideal decryption: succeeds exactly on tuples that were produced by an encryption -/
def Table.decrypt (t : Table) : Dec := fun key nonce ct aad =>
  (t.find? fun e => e.matches key nonce ct aad).map (·.pt)

structure KeySet where
  keys : List Bytes
  idOffset : Nat
deriving Repr, DecidableEq

structure Cookie where
  alg : Nat
  s2c : Bytes
  c2s : Bytes
deriving Repr, DecidableEq

/-- `KeySet::decode_cookie`.  Its index/slice expressions are all guarded by the length test in its first
    line (`cookie[0..4]`, `cookie[4]`, `cookie[5]`, `cookie[6..22]`, `cookie[22..]` need 22 bytes), and the
    `try_from(..).unwrap()` calls receive slices of exactly the key width (tested just above them), so the
    function has no reachable panic; `none` is `Err(DecryptError)`. -/
def decodeCookie (dec : Dec) (ks : KeySet) (cookie : Bytes) : Option Cookie :=
  if cookie.length < 4 + 2 + 16 then none else
  let id := beNat (cookie.take 4)
  -- `id.wrapping_sub(self.id_offset) as usize`
  let idx := (id + 4294967296 - ks.idOffset % 4294967296) % 4294967296
  match ks.keys[idx]? with
  | none => none
  | some key =>
    let ctLen := beNat ((cookie.drop 4).take 2)
    let nonce := (cookie.drop 6).take 16
    match slice? (cookie.drop 22) 0 ctLen with
    | none => none
    | some ct =>
      match dec key nonce ct [] with
      | none => none
      | some pt =>
        match pt with
        | b0 :: b1 :: keyBytes =>
          let alg := be16 b0 b1
          if alg = 15 then
            if keyBytes.length ≠ 64 then none
            else some { alg := alg, s2c := keyBytes.take 32, c2s := keyBytes.drop 32 }
          else if alg = 17 then
            if keyBytes.length ≠ 128 then none
            else some { alg := alg, s2c := keyBytes.take 64, c2s := keyBytes.drop 64 }
          else none
        | _ => none

end NtpVerif.Wire
