/-
Model of `ntpd/src/daemon/spawn/pool.rs` (`PoolSpawner`): the bookkeeping of active sources and of
resolved-but-unused addresses.  Import-free.

Rust:                                           Model:
  config.count, config.ignore                     Cfg.count, Cfg.ignore (ips)
  current_sources : Vec<PoolSource{id, addr}>     Pool.current : List Source
  known_ips       : Vec<SocketAddr>               Pool.known   : List Addr   (same order as the Vec:
                                                                              push at the end, pop from the end)
  ClockId::new()  (global counter)                Pool.nextId  (ids renumbered in order of appearance)
  config.addr.lookup_host().await                 the `dns : Option (List Addr)` argument of `trySpawn`
                                                  (`none` = resolver error)
  try_spawn                                       trySpawn   (returns the sources it sent as SpawnEvents)
  handle_source_removed                           removed
  is_complete                                     isComplete

A `SocketAddr` is an ip (opaque key) and a port.  The ignore list matches on the ip only, the
"already connected" test on the whole socket address — as in the code.

`trySpawn` models the code WITH the proposed repair (fixes/C35-pool-dedup-known-ips.patch): looked-up
addresses are added to `known` only when not yet there (`insertNew`).  `trySpawnOrig` is the code as
it was (`known.append(answer)`), kept to state the counterexample that motivated the repair.
-/
namespace NtpVerif.Pool

structure Addr where
  ip : Nat
  port : Nat
deriving DecidableEq, Repr

structure Source where
  id : Nat
  addr : Addr
deriving DecidableEq, Repr

structure Cfg where
  count : Nat
  ignore : List Nat
deriving Repr

structure Pool where
  current : List Source
  known : List Addr
  nextId : Nat
deriving Repr, DecidableEq

/-- `PoolSpawner::new` -/
def init : Pool := { current := [], known := [], nextId := 0 }

/-- `is_complete`: `current_sources.len() >= config.count` -/
def isComplete (cfg : Cfg) (p : Pool) : Bool := decide (cfg.count ≤ p.current.length)

/-- the repaired insertion: `for addr in addresses { if !known.contains(&addr) { known.push(addr) } }` -/
def insertNew (known : List Addr) : List Addr → List Addr
  | [] => known
  | a :: as => insertNew (if a ∈ known then known else known ++ [a]) as

/-- the predicate of `known_ips.retain(..)`: not an active source's address, ip not ignored -/
def keep (cfg : Cfg) (current : List Source) (a : Addr) : Bool :=
  !(current.any fun s => s.addr == a) && !(cfg.ignore.any fun ign => ign == a.ip)

/-- The loop `while current.len() < count { if let Some(addr) = known.pop() {..spawn..} else {break} }`
    over the stack `stack` = `known` reversed (top first).  Returns the new `current`, what is left of
    the stack, the next id, and the sources spawned in order. -/
def fill (count : Nat) (cur : List Source) (nid : Nat) :
    List Addr → List Source × List Addr × Nat × List Source
  | [] => (cur, [], nid, [])
  | a :: rest =>
    if cur.length < count then
      let s : Source := ⟨nid, a⟩
      let r := fill count (cur ++ [s]) (nid + 1) rest
      (r.1, r.2.1, r.2.2.1, s :: r.2.2.2)
    else (cur, a :: rest, nid, [])

/-- `known_ips` after the lookup branch of `try_spawn`; `none` = early return on a resolver error.
    `ins` is how an answer is merged into the known list (repaired: `insertNew`, original: `++`). -/
def afterLookup (ins : List Addr → List Addr → List Addr) (cfg : Cfg) (p : Pool)
    (dns : Option (List Addr)) : Option (List Addr) :=
  if p.known.length < cfg.count - p.current.length then
    match dns with
    | none => none
    | some ans => some ((ins p.known ans).filter (keep cfg p.current))
  else some p.known

def trySpawnWith (ins : List Addr → List Addr → List Addr) (cfg : Cfg) (p : Pool)
    (dns : Option (List Addr)) : Pool × List Source :=
  if cfg.count ≤ p.current.length then (p, [])          -- "early return if there is nothing to do"
  else
    match afterLookup ins cfg p dns with
    | none => (p, [])
    | some known =>
      let r := fill cfg.count p.current p.nextId known.reverse
      ({ current := r.1, known := r.2.1.reverse, nextId := r.2.2.1 }, r.2.2.2)

/-- `PoolSpawner::try_spawn` (repaired) -/
def trySpawn (cfg : Cfg) (p : Pool) (dns : Option (List Addr)) : Pool × List Source :=
  trySpawnWith insertNew cfg p dns

/-- `PoolSpawner::try_spawn` as it was before the repair: `known_ips.append(&mut addresses.collect())` -/
def trySpawnOrig (cfg : Cfg) (p : Pool) (dns : Option (List Addr)) : Pool × List Source :=
  trySpawnWith (· ++ ·) cfg p dns

/-- `handle_source_removed`: `current_sources.retain(|p| p.id != removed.id)` (the reason is not looked at) -/
def removed (p : Pool) (id : Nat) : Pool :=
  { p with current := p.current.filter fun s => s.id != id }

end NtpVerif.Pool
