/-
Model of `ntp-proto/src/ipfilter.rs` (`BitTree::{create, fill_node, lookup}`, `IpFilter::{new, is_in}`) and
of the acceptance logic of `IpSubnet::from_str` (`ntp-proto/src/server.rs`).  Import-free.

`u128` values are `Nat`s below 2^128, a prefix is `(value, len)`.

Two executable models of the trie:

* the FLAT model (`fillF`, `createF`, `lookupF`): the node array exactly as the code builds it — a node is
  `(child_offset, inset, outset)`, `fill_node` writes node `node_index`, appends one default node per
  undecided symbol, then recurses into them in order; buckets are cut out of the sorted slice with the 16
  counts (`split_at_mut`); `lookup` walks the array with `child_offset + popcount(undecided lower symbols)`.
* the TREE model (`fillT`, `createT`, `lookupT`): the same per-node computation (sort, buckets, first-element
  rule marking `2^(4-len)` symbols, coverage sweep, `outset &= !inset`, children for the undecided symbols
  on the values shifted by one nibble) but children are sub-terms instead of array indices, and bucket `i`
  is written as "the elements whose top nibble is `i`" (which is what the 16 counts cut out of a sorted
  slice).  `flatten` lays a tree out the way `fill_node` allocates.

Bitmaps are `Nat`s read with `Nat.testBit`; `x & (1 << i) != 0` is `x.testBit i`;
`(!(inset | outset) & (cur - 1)).count_ones()` is `undecidedBelow` (the number of `j < i` with neither bit).

Panic sites: `128 - len` in `apply_mask` underflows for `len > 128` (`create… = none`); array indexing in
`lookup` (`lookup… = none`).  Not reachable and not modelled as outcomes (they need the invariants "values
are masked / buckets are sorted", see Proofs): the `u16` shifts `1 << (i + j)`, `part.0 - offset`,
`*len -= 4`, `split_at_mut`.  Recursion depth is bounded by fuel (33 levels ≥ 128 / 4 + 1).
-/
namespace NtpVerif.IpFilter

abbrev Prefix := Nat × Nat

def W : Nat := 2 ^ 128

/-- `top_nibble` -/
def topNibble (v : Nat) : Nat := (v / 2 ^ 124) % 16

/-- `apply_mask`: `match u128::MAX.checked_shl(128 - len) { Some(mask) => val & mask, None => 0 }`
    (`val & (MAX << s)` clears the low `s` bits: `val / 2^s * 2^s`) -/
def applyMask (val len : Nat) : Nat :=
  if 128 - len ≥ 128 then 0 else val / 2 ^ (128 - len) * 2 ^ (128 - len)

/-- tuple order of `(u128, u8)` used by `data.sort()` -/
def ple (a b : Prefix) : Bool := a.1 < b.1 || (a.1 == b.1 && a.2 ≤ b.2)

/-- `val <<= 4` on `u128` -/
def shl4 (v : Nat) : Nat := (v * 16) % W

/-- the loop `for (val, len) in segment.iter_mut() { *val <<= 4; *len -= 4; }` -/
def shiftSeg (seg : List Prefix) : List Prefix := seg.map fun p => (shl4 p.1, p.2 - 4)

/-- the coverage sweep of the third match arm: `last` after the loop -/
def sweep (offset : Nat) (seg : List Prefix) : Nat :=
  seg.foldl (fun last p =>
    if p.1 - offset ≤ last then max last (p.1 - offset + 2 ^ (128 - p.2)) else last) 0

/-- `for j in 0..cnt { inset |= 1 << (i + j) }` -/
def markRange (i cnt : Nat) : Nat := (List.range cnt).foldl (fun acc j => acc ||| (1 <<< (i + j))) 0

/-- what bucket `i` contributes to `inset` -/
def insetContrib (i : Nat) (seg : List Prefix) : Nat :=
  match seg with
  | [] => 0
  | (_, len) :: _ =>
    if len ≤ 4 then markRange i (2 ^ (4 - len))
    else if sweep (i * 2 ^ 124) seg ≥ 2 ^ 124 then 1 <<< i else 0

def insetOf (segs : List (List Prefix)) : Nat :=
  segs.zipIdx.foldl (fun acc si => acc ||| insetContrib si.2 si.1) 0

/-- `outset |= 1 << i` for the empty buckets, then `outset &= !inset` -/
def outsetOf (segs : List (List Prefix)) (inset : Nat) : Nat :=
  segs.zipIdx.foldl (fun acc si =>
    acc ||| (if si.1.isEmpty && !inset.testBit si.2 then 1 <<< si.2 else 0)) 0

def decided (inset outset i : Nat) : Bool := inset.testBit i || outset.testBit i

/-- `(!(inset | outset) & (cur - 1)).count_ones()` with `cur = 1 << i` -/
def undecidedBelow (inset outset i : Nat) : Nat :=
  ((List.range i).filter fun j => !decided inset outset j).length

/-! ### tree model -/

inductive Tree where
  | node (inset outset : Nat) (kids : List Tree)
deriving Repr

/-- bucket `i` of a sorted slice -/
def bucketOf (data : List Prefix) (i : Nat) : List Prefix := data.filter fun p => topNibble p.1 == i

def bucketsT (data : List Prefix) : List (List Prefix) := (List.range 16).map (bucketOf data)

/-- one `fill_node`, with the recursion abstracted as `child` -/
def fillWith (child : List Prefix → Tree) (segs : List (List Prefix)) : Tree :=
  let inset := insetOf segs
  let outset := outsetOf segs inset
  .node inset outset (segs.zipIdx.filterMap fun si =>
    if decided inset outset si.2 then none else some (child (shiftSeg si.1)))

def fillT : Nat → List Prefix → Tree
  | 0, data => fillWith (fun _ => .node 0 0 []) (bucketsT data)
  | f + 1, data => fillWith (fillT f) (bucketsT data)

/-- `BitTree::lookup` on the tree -/
def lookupT : Nat → Tree → Nat → Option Bool
  | 0, _, _ => none
  | fuel + 1, .node inset outset kids, v =>
    let nib := topNibble v
    if inset.testBit nib then some true
    else if outset.testBit nib then some false
    else
      match kids[undecidedBelow inset outset nib]? with
      | none => none
      | some k => lookupT fuel k (shl4 v)

/-- the first loop of `create` (`none`: `128 - len` underflows) -/
def maskAll (ps : List Prefix) : Option (List Prefix) :=
  if ps.all (fun p => p.2 ≤ 128) then some (ps.map fun p => (applyMask p.1 p.2, p.2)) else none

def FUEL : Nat := 32

def createT (ps : List Prefix) : Option Tree :=
  (maskAll ps).map fun d => fillT FUEL (d.mergeSort ple)

def memberT (ps : List Prefix) (v : Nat) : Option Bool :=
  (createT ps).bind fun t => lookupT (FUEL + 1) t v

/-! ### flat model (the array the code builds) -/

structure Node where
  childOffset : Nat
  inset : Nat
  outset : Nat
deriving Repr, DecidableEq

def Node.default : Node := ⟨0, 0, 0⟩

/-- `subsegments`: cut consecutive runs of the given lengths out of the slice -/
def splitCounts : List Nat → List Prefix → List (List Prefix)
  | [], _ => []
  | c :: cs, data => data.take c :: splitCounts cs (data.drop c)

def bucketsF (data : List Prefix) : List (List Prefix) :=
  splitCounts ((List.range 16).map fun i => data.countP fun p => topNibble p.1 == i) data

/-- `fill_node(&mut self, data, node_index)` on the node vector -/
def fillF : Nat → List Node → List Prefix → Nat → List Node
  | fuel, nodes, data, nodeIndex =>
    let segs := bucketsF data
    let childOffset := nodes.length
    let inset := insetOf segs
    let outset := outsetOf segs inset
    let nodes := nodes.set nodeIndex ⟨childOffset, inset, outset⟩
    let unknown := ((List.range 16).filter fun i => !decided inset outset i).length
    let nodes := nodes ++ List.replicate unknown Node.default
    match fuel with
    | 0 => nodes
    | f + 1 =>
      (segs.zipIdx.foldl (fun (st : List Node × Nat) si =>
        if decided inset outset si.2 then st
        else (fillF f st.1 (shiftSeg si.1) st.2, st.2 + 1)) (nodes, childOffset)).1

def createF (ps : List Prefix) : Option (List Node) :=
  (maskAll ps).map fun d => fillF FUEL [Node.default] (d.mergeSort ple) 0

/-- `BitTree::lookup` on the array (`none`: index out of bounds, or fuel exhausted) -/
def lookupF (nodes : List Node) : Nat → Nat → Nat → Option Bool
  | 0, _, _ => none
  | fuel + 1, idx, v =>
    match nodes[idx]? with
    | none => none
    | some node =>
      let nib := topNibble v
      if node.inset.testBit nib then some true
      else if node.outset.testBit nib then some false
      else lookupF nodes fuel (node.childOffset + undecidedBelow node.inset node.outset nib) (shl4 v)

def memberF (ps : List Prefix) (v : Nat) : Option Bool :=
  (createF ps).bind fun nodes => lookupF nodes (FUEL + 1) 0 v

/-! ### the layout of a tree in the array -/

mutual
/-- the nodes `fill_node` appends for the descendants of `t` when its children block starts at `off` -/
def desc : Tree → Nat → List Node
  | .node _ _ kids, off =>
    let r := descKids kids (off + kids.length)
    r.1 ++ r.2
/-- (the children's own nodes, their descendants) when the first child's block starts at `off` -/
def descKids : List Tree → Nat → List Node × List Node
  | [], _ => ([], [])
  | .node i o ks :: rest, off =>
    let d := desc (.node i o ks) off
    let r := descKids rest (off + d.length)
    (⟨off, i, o⟩ :: r.1, d ++ r.2)
end

def flatten : Tree → List Node
  | .node i o ks => ⟨1, i, o⟩ :: desc (.node i o ks) 1

/-! ### `IpFilter` and `IpSubnet` -/

inductive Addr where
  | v4 (a : Nat)      -- 32-bit
  | v6 (a : Nat)      -- 128-bit
deriving Repr, DecidableEq

/-- `IpAddr::to_canonical`: an IPv4-mapped IPv6 address `::ffff:a.b.c.d` becomes the IPv4 address -/
def canonical : Addr → Addr
  | .v4 a => .v4 a
  | .v6 a => if a / 2 ^ 32 = 0xffff then .v4 (a % 2 ^ 32) else .v6 a

structure Subnet where
  addr : Addr
  mask : Nat
deriving Repr, DecidableEq

inductive SubnetErr where
  | mask
  | maskV4Range
deriving Repr, DecidableEq

/-- `IpSubnet::from_str` after the two std parsers succeeded (`addr: IpAddr`, `mask: u8`) -/
def subnetOfParsed (addr : Addr) (mask : Nat) : Except SubnetErr Subnet :=
  match addr, canonical addr with
  | .v6 _, .v4 c =>
    if mask < 96 then .error .maskV4Range        -- `mask.checked_sub(96)`
    else if mask - 96 > 32 then .error .mask
    else .ok ⟨.v4 c, mask - 96⟩
  | .v4 a, _ => if mask > 32 then .error .mask else .ok ⟨.v4 a, mask⟩
  | .v6 a, _ => if mask > 128 then .error .mask else .ok ⟨.v6 a, mask⟩

def v4list (subnets : List Subnet) : List Prefix :=
  subnets.filterMap fun s => match s.addr with | .v4 a => some (a * 2 ^ 96, s.mask) | .v6 _ => none

def v6list (subnets : List Subnet) : List Prefix :=
  subnets.filterMap fun s => match s.addr with | .v6 a => some (a, s.mask) | .v4 _ => none

/-- `IpFilter::new(subnets).is_in(addr)` through the tree model -/
def isInT (subnets : List Subnet) (addr : Addr) : Option Bool :=
  match createT (v4list subnets), createT (v6list subnets) with
  | some t4, some t6 =>
    match canonical addr with
    | .v4 a => lookupT (FUEL + 1) t4 (a * 2 ^ 96)
    | .v6 a => lookupT (FUEL + 1) t6 a
  | _, _ => none

/-- `IpFilter::new(subnets).is_in(addr)` through the flat model -/
def isInF (subnets : List Subnet) (addr : Addr) : Option Bool :=
  match createF (v4list subnets), createF (v6list subnets) with
  | some n4, some n6 =>
    match canonical addr with
    | .v4 a => lookupF n4 (FUEL + 1) 0 (a * 2 ^ 96)
    | .v6 a => lookupF n6 (FUEL + 1) 0 a
  | _, _ => none

end NtpVerif.IpFilter
