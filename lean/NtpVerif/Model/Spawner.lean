/-
Model of `ntpd/src/daemon/spawn/mod.rs` (`spawner_task`, the pacing loop) and of
`ntpd/src/daemon/spawn/standard.rs` (`StandardSpawner` bookkeeping).  Import-free.

### `spawner_task` as a function of timestamped events

Rust (mod.rs):                                         Model:
  let mut has_ticket = true;                             Loop.ticket
  let mut last_ticket_time = Instant::now();             Loop.last      (ns since the task started waiting)
  loop {                                                 one `iterOf` per loop iteration:
    if last_ticket_time.elapsed() >= NETWORK_WAIT_PERIOD   ticket := ticket || P ≤ now - last
        { has_ticket = true; }
    if has_ticket && !spawner.is_complete() {              if ticket && !isComplete then
        spawner.try_spawn(&action_tx).await?;                (δ, result) := trySpawn  — takes δ ns; `none` = Err → task ends
        has_ticket = false;                                  ticket := false
        last_ticket_time = Instant::now(); }                 last := now := now + δ
    let event = if has_ticket { recv().await }             `wakeOf`: next channel item (arrival time t, or the close
      else { timeout(PERIOD.saturating_sub(elapsed),          time) against the deadline now + (P - (now - last))
                     recv()).await.unwrap_or(Some(Idle)) };
    let Some(event) = event else { break };                 `.closed`
    match event { Registered => handle_registered, Removed => handle_source_removed, Idle => {} } }

Time is a `Nat` (nanoseconds).  The system side is a list of `(arrival time, event)` in channel (FIFO)
order plus the time at which the sender is dropped; an item whose arrival time is not later than `now`
is already buffered.  This is a superset of what tokio can produce (arrival times need not be sorted:
an item "arriving" before its predecessor is simply buffered).  Event handlers take no time (they are
bookkeeping only, as the trait demands); `try_spawn` takes an arbitrary time chosen by the spawner.

`tie` says who wins when an item arrives exactly at the deadline of the timeout (tokio polls the channel
first, so the answer depends on which task the runtime wakes first); theorems hold for both values.

The spawner is abstract (`Iface σ`): any state type, any `is_complete`, any `try_spawn` (any duration, any
state change, success or `Err`), any handlers.  `StandardSpawner` and the scripted mock of the harness
are instances.
-/
import NtpVerif.Gen.Consts
import NtpVerif.Model.Pool

namespace NtpVerif.Spawner

open NtpVerif.Pool (Addr)

/-- `NETWORK_WAIT_PERIOD` in nanoseconds (regenerated from ntpd/src/daemon/system.rs) -/
def PERIOD : Nat := Gen.NETWORK_WAIT_PERIOD_SECS * 1000000000

/-- `SourceRemovalReason` -/
inductive Reason where
  | demobilized
  | networkIssue
  | unreachable
deriving DecidableEq, Repr

/-- `SystemEvent` -/
inductive Ev where
  | registered
  | removed (id : Nat) (r : Reason)
  | idle
deriving DecidableEq, Repr

/-- the `Spawner` trait as far as `spawner_task` uses it -/
structure Iface (σ : Type) where
  isComplete : σ → Bool
  /-- duration of the call in ns, and the new state (`none` = the call returned `Err`) -/
  trySpawn : σ → Nat × Option σ
  registered : σ → σ
  removed : σ → Nat → Reason → σ

def Iface.handle {σ : Type} (I : Iface σ) (s : σ) : Ev → σ
  | .registered => I.registered s
  | .removed id r => I.removed s id r
  | .idle => s

/-- loop variables of `spawner_task` at the top of an iteration -/
structure Loop (σ : Type) where
  now : Nat
  ticket : Bool
  last : Nat
  sp : σ

/-- state at task start: `has_ticket = true`, `last_ticket_time = Instant::now()` -/
def Loop.start {σ : Type} (t0 : Nat) (s : σ) : Loop σ := { now := t0, ticket := true, last := t0, sp := s }

/-- how the wait at the end of an iteration ended -/
inductive Wake where
  | event (t : Nat) (e : Ev)     -- an item was received at time `t`
  | timeout (t : Nat)            -- the timeout fired (`SystemEvent::Idle` substituted)
  | closed (t : Nat)             -- `recv()` returned `None`: the task ends with `Ok(())`
  | error (t : Nat)              -- `try_spawn` returned `Err`: the task ends with that error
deriving DecidableEq, Repr

def Wake.time : Wake → Nat
  | .event t _ => t
  | .timeout t => t
  | .closed t => t
  | .error t => t

/-- record of one loop iteration (everything the theorems talk about) -/
structure Iter where
  top : Nat                       -- time at the top of the iteration
  lastTop : Nat                   -- `last_ticket_time` at the top
  ticket : Bool                   -- `has_ticket` after the refresh at the top
  incomplete : Bool               -- `!spawner.is_complete()` at the top
  attempt : Option (Nat × Nat)    -- `try_spawn` call of this iteration: (start, end)
  last : Nat                      -- `last_ticket_time` when the wait begins
  ticketW : Bool                  -- `has_ticket` when the wait begins
  incompleteW : Bool              -- `!spawner.is_complete()` when the wait begins
  wake : Wake
deriving DecidableEq, Repr

/-- The wait: the next channel item is `item` (none = sender dropped) arriving at `tArr`. -/
def wakeOf (P : Nat) (tie : Bool) (now last : Nat) (ticket : Bool) (tArr : Nat) (item : Option Ev) : Wake :=
  let te := max now tArr
  let got : Wake := match item with | some e => .event te e | none => .closed te
  if ticket then got
  else
    -- `timeout(NETWORK_WAIT_PERIOD.saturating_sub(last_ticket_time.elapsed()), recv())`
    let dl := now + (P - (now - last))
    if te < dl ∨ (te = dl ∧ (tArr ≤ now ∨ tie = true)) then got else .timeout dl

/-- the wait against the channel content `q` (sender dropped at `tClose` once `q` is drained) -/
def wakeQ {σ : Type} (P : Nat) (tie : Bool) (tClose : Nat) (L : Loop σ) (q : List (Nat × Ev)) : Wake :=
  match q with
  | [] => wakeOf P tie L.now L.last L.ticket tClose none
  | (t, e) :: _ => wakeOf P tie L.now L.last L.ticket t (some e)

/-- wait + event handling, from the loop variables after the attempt block.  Returns the iteration
    record, the loop variables for the next iteration (or, when the task ends, as they are at the end)
    and the remaining channel content (`none` = the task ended). -/
def waitPart {σ : Type} (P : Nat) (tie : Bool) (I : Iface σ) (tClose : Nat)
    (top lastTop : Nat) (ticket incomplete : Bool) (attempt : Option (Nat × Nat))
    (L : Loop σ) (q : List (Nat × Ev)) : Iter × Loop σ × Option (List (Nat × Ev)) :=
  let w := wakeQ P tie tClose L q
  let it : Iter := { top, lastTop, ticket, incomplete, attempt, last := L.last, ticketW := L.ticket,
                     incompleteW := !I.isComplete L.sp, wake := w }
  match w with
  | .event t e => (it, { L with now := t, sp := I.handle L.sp e }, some q.tail)
  | .timeout t => (it, { L with now := t }, some q)
  | .closed t => (it, { L with now := t }, none)
  | .error t => (it, { L with now := t }, none)

/-- one iteration of the `loop` of `spawner_task` -/
def iterOf {σ : Type} (P : Nat) (tie : Bool) (I : Iface σ) (tClose : Nat) (L : Loop σ)
    (q : List (Nat × Ev)) : Iter × Loop σ × Option (List (Nat × Ev)) :=
  let ticket := L.ticket || decide (P ≤ L.now - L.last)
  let inc := !I.isComplete L.sp
  if ticket && inc then
    let r := I.trySpawn L.sp
    let e := L.now + r.1
    match r.2 with
    | none =>
      ({ top := L.now, lastTop := L.last, ticket, incomplete := inc, attempt := some (L.now, e), last := e,
         ticketW := false, incompleteW := inc, wake := .error e }, { L with now := e }, none)
    | some sp' =>
      waitPart P tie I tClose L.now L.last ticket inc (some (L.now, e))
        { now := e, ticket := false, last := e, sp := sp' } q
  else
    waitPart P tie I tClose L.now L.last ticket inc none { L with ticket := ticket } q

/-- the loop, at most `fuel` iterations (`fuelFor` suffices: `Proofs/Spawner.lean`) -/
def run {σ : Type} (P : Nat) (tie : Bool) (I : Iface σ) (tClose : Nat) :
    Nat → Loop σ → List (Nat × Ev) → List Iter
  | 0, _, _ => []
  | fuel + 1, L, q =>
    match iterOf P tie I tClose L q with
    | (it, _, none) => [it]
    | (it, L', some q') => it :: run P tie I tClose fuel L' q'

/-- the spawner state when the loop stops (same recursion as `run`) -/
def finalSp {σ : Type} (P : Nat) (tie : Bool) (I : Iface σ) (tClose : Nat) :
    Nat → Loop σ → List (Nat × Ev) → σ
  | 0, L, _ => L.sp
  | fuel + 1, L, q =>
    match iterOf P tie I tClose L q with
    | (_, L', none) => L'.sp
    | (_, L', some q') => finalSp P tie I tClose fuel L' q'

/-- latest time mentioned by the system side -/
def horizon (tClose : Nat) (q : List (Nat × Ev)) : Nat := q.foldl (fun m x => max m x.1) tClose

/-- a number of iterations that is always enough (`Proofs/Spawner.lean: fuel_suffices`): one per channel
    item, one for the close, and one per NANOSECOND before the horizon (every timeout advances the time
    of the next possible timeout by a period ≥ 1 ns).  The bound is deliberately crude — it needs no
    division — and costs nothing at run time: the loop stops by itself when the channel closes. -/
def fuelFor (t0 tClose : Nat) (q : List (Nat × Ev)) : Nat :=
  q.length + (horizon tClose q + 1 - t0) + 2

/-- all `try_spawn` calls of a trace, in order: (start, end) -/
def attempts (tr : List Iter) : List (Nat × Nat) := tr.filterMap (·.attempt)

/-- did the trace end (sender dropped / error) rather than run out of fuel? -/
def ended (tr : List Iter) : Bool :=
  match tr.getLast? with
  | some it => match it.wake with | .closed _ => true | .error _ => true | _ => false
  | none => false

/-! ### `StandardSpawner` (standard.rs) -/

/-- a DNS answer as `resolve_single_ntp_server` sees it: `none` = resolver error; each address with the
    outcome of the UDP `connect` probe -/
abbrev Answer := Option (List (Addr × Bool))

/-- `resolve_single_ntp_server`: the first address of the answer to which a socket can be connected -/
def resolveSingle : Answer → Option Addr
  | none => none
  | some l => (l.find? (·.2)).map (·.1)

structure Std where
  resolved : Option Addr
  hasSpawned : Bool
deriving DecidableEq, Repr

/-- `StandardSpawner::new` -/
def Std.init : Std := { resolved := none, hasSpawned := false }

def Std.isComplete (s : Std) : Bool := s.hasSpawned

/-- `StandardSpawner::try_spawn` (with `do_resolve(false)` inlined): new state, the address of the
    SpawnEvent sent (if any), and whether a DNS lookup was made.  `ans` is what a lookup would return. -/
def Std.trySpawn (s : Std) (ans : Answer) : Std × Option Addr × Bool :=
  match s.resolved with
  | some a => ({ s with hasSpawned := true }, some a, false)
  | none =>
    match resolveSingle ans with
    | none => (s, none, true)
    | some a => ({ resolved := some a, hasSpawned := true }, some a, true)

/-- `StandardSpawner::handle_source_removed` (the id is not looked at) -/
def Std.removed (s : Std) (r : Reason) : Std :=
  { resolved := if r = .unreachable then none else s.resolved,
    hasSpawned := if r ≠ .demobilized then false else s.hasSpawned }

/-! ### instances used by the driver and the non-vacuity examples -/

/-- the cfg(test) helper `HardcodedDnsResolve::lookup_host`: rotate (last element to the front), then
    answer with the whole list -/
def rotate (l : List Addr) : List Addr :=
  match l.getLast? with
  | none => []
  | some x => x :: l.dropLast

/-- `StandardSpawner` inside the loop, in an arbitrary environment: `env` decides, for every `try_spawn`
    call, what a DNS lookup would answer and how long the call takes (it may look at the spawner). -/
structure StdLoop (δ : Type) where
  std : Std
  env : δ

def stdIface {δ : Type} (envStep : δ → Std → (Answer × Nat) × δ) : Iface (StdLoop δ) where
  isComplete s := s.std.isComplete
  trySpawn s :=
    let r := envStep s.env s.std
    (r.1.2, some { std := (s.std.trySpawn r.1.1).1, env := r.2 })
  registered s := s
  removed s _ r := { s with std := s.std.removed r }

/-- environment of the harness: the hard-coded DNS helper (every address connectable; the list rotates
    on every lookup and only then), a scripted delay in front of each call, and the log of SpawnEvent
    addresses (newest first) -/
structure SimEnv where
  dns : List Addr
  delays : List Nat
  spawned : List Addr
deriving DecidableEq, Repr

def simStep (e : SimEnv) (s : Std) : (Answer × Nat) × SimEnv :=
  let dns' := match s.resolved with | some _ => e.dns | none => rotate e.dns
  let ans : Answer := some (dns'.map fun a => (a, true))
  ((ans, e.delays.headD 0),
   { dns := dns', delays := e.delays.tail,
     spawned := match (s.trySpawn ans).2.1 with | some a => a :: e.spawned | none => e.spawned })

/-- the spawner the harness hands to the real `spawner_task` in `spawner=std` cases -/
def stdSim : Iface (StdLoop SimEnv) := stdIface simStep

/-- scripted mock: completeness is a flag; each `try_spawn` takes the next scripted (duration, outcome):
    outcome 0 = stays incomplete, 1 = becomes complete, 2 = returns `Err`.  `keepOnDemobilize` selects
    whether a `Demobilized` removal leaves the flag alone (standard-like) or clears it (pool-like). -/
structure Mock where
  complete : Bool
  script : List (Nat × Nat)
  keepOnDemobilize : Bool
deriving DecidableEq, Repr

def mock : Iface Mock where
  isComplete s := s.complete
  trySpawn s :=
    match s.script with
    | [] => (0, some s)
    | (d, o) :: rest =>
      if o = 2 then (d, none)
      else (d, some { s with complete := decide (o = 1), script := rest })
  registered s := s
  removed s _ r := if r = .demobilized ∧ s.keepOnDemobilize = true then s else { s with complete := false }

/-! ### the system side (ntpd/src/daemon/system.rs): from a source task's message to the spawner

`SystemTask::handle_source_update` removes the source that sent the message and tells the spawner that
created it why: `MustDemobilize` → `Demobilized`, `NetworkIssue` → `NetworkIssue`, `Unreachable` →
`Unreachable` — whatever else is going on in the system (other sources, this being the last one). -/

/-- `MsgForSystem` -/
inductive SysMsg where
  | mustDemobilize
  | networkIssue
  | unreachable
deriving DecidableEq, Repr

/-- the reason `handle_source_{demobilize, network_issue, unreachable}` put into `SystemEvent::source_removed` -/
def reasonOf : SysMsg → Reason
  | .mustDemobilize => .demobilized
  | .networkIssue => .networkIssue
  | .unreachable => .unreachable

/-- the spawners of the `c36_system` stream (always able to resolve / refill) -/
inductive SpKind where
  | std
  | pool (count : Nat)
deriving DecidableEq, Repr

structure SysSrc where
  id : Nat
  owner : Nat
deriving DecidableEq, Repr

/-- system bookkeeping: which source belongs to which spawner -/
structure Sys where
  kinds : List SpKind
  live : List SysSrc
  nextId : Nat
deriving DecidableEq, Repr

/-- sources a spawner creates once it has been told that one of its sources was removed for reason `r`
    (standard: `Std.removed` then the loop calls `try_spawn` iff incomplete; pool: always refills) -/
def respawns : SpKind → Reason → Nat
  | .std, r => if (Std.removed ⟨none, true⟩ r).isComplete then 0 else 1
  | .pool _, _ => 1

def initialSpawns : SpKind → Nat
  | .std => 1
  | .pool c => c

def addSources (s : Sys) (owner : Nat) : Nat → Sys
  | 0 => s
  | n + 1 => addSources { s with live := s.live ++ [⟨s.nextId, owner⟩], nextId := s.nextId + 1 } owner n

/-- all spawners make their first round, in the order they were added; returns the counts per spawner -/
def Sys.start (kinds : List SpKind) : Sys × List Nat :=
  let counts := kinds.map initialSpawns
  let rec go (s : Sys) (i : Nat) : List Nat → Sys
    | [] => s
    | c :: cs => go (addSources s i c) (i + 1) cs
  (go { kinds := kinds, live := [], nextId := 0 } 0 counts, counts)

/-- source `src` sends `m`: the owner is told `reasonOf m` and respawns accordingly;
    `none` = no such live source (the real system would panic: never generated) -/
def Sys.msg (s : Sys) (m : SysMsg) (src : Nat) : Option (Sys × Nat × Reason × Nat) :=
  match s.live.find? (·.id == src) with
  | none => none
  | some x =>
    let r := reasonOf m
    let n := match s.kinds[x.owner]? with | some k => respawns k r | none => 0
    let s' := addSources { s with live := s.live.filter (·.id != src) } x.owner n
    some (s', x.owner, r, n)

end NtpVerif.Spawner
